(* C19 — executable SPECIFICATION (independent of gen/) and the I/O glue shared with the mechanism run.
   Same line format as harness/h_file.cpp:  load <hex> | loadmissing | hist | paths .. | file .. | op .. *)
From Coq Require Import ZArith NArith List Bool String Ascii Arith.
From ChaiV Require Import StrUtil FilesDefs.
Import ListNotations.
Local Open Scope string_scope.

Definition show_loaded (missing : string) (l : loaded) : string :=
  match l with
  | Content b => "C:" ++ hex_of_bytes b
  | FileNotFound => "ERR(file:" ++ missing ++ ")"
  | Undefined => "UNDEFINED"
  end.

(* linear-time word splitting (StrUtil.words is quadratic in the length of a word; file contents arrive as one long hex word) *)
Fixpoint rev_string (s acc : string) : string :=
  match s with EmptyString => acc | String c r => rev_string r (String c acc) end.
Fixpoint fast_words_aux (s : string) (cur : string) (acc : list string) : list string :=
  match s with
  | EmptyString => rev (rev_string cur EmptyString :: acc)
  | String c r => if Ascii.eqb c " " then fast_words_aux r EmptyString (rev_string cur EmptyString :: acc)
                  else fast_words_aux r (String c cur) acc
  end.
Definition fast_words (s : string) : list string := fast_words_aux s EmptyString [].

Fixpoint split_bar (ws cur : list string) : list (list string) :=
  match ws with
  | [] => [rev cur]
  | w :: r => if String.eqb w "|" then rev cur :: split_bar r [] else split_bar r (w :: cur)
  end.

Fixpoint strip_prefix (p s : string) : option string :=
  match p, s with
  | EmptyString, _ => Some s
  | String a p', String b s' => if Ascii.eqb a b then strip_prefix p' s' else None
  | _, _ => None
  end.

Definition parse_fact (w : string) : option fact :=
  match strip_prefix "use:" w with
  | Some n => Some (FUse n)
  | None => match strip_prefix "evalfile:" w with
            | Some n => Some (FEvalFile n)
            | None => if String.eqb w "throw" then Some FThrow else None
            end
  end.
Fixpoint parse_facts (ws : list string) : option (list fact) :=
  match ws with
  | [] => Some []
  | w :: r => match parse_fact w, parse_facts r with Some f, Some l => Some (f :: l) | _, _ => None end
  end.

Record hparsed := mkHP { hp_paths : list string; hp_files : list (string * list fact); hp_ops : list hop; hp_bad : bool }.
Definition hp_seg (p : hparsed) (w : list string) : hparsed :=
  match w with
  | [] => p
  | ["hist"] => p
  | "paths" :: r => mkHP r (hp_files p) (hp_ops p) (hp_bad p)
  | "file" :: name :: r =>
      match parse_facts r with
      | Some l => mkHP (hp_paths p) (hp_files p ++ [(name, l)])%list (hp_ops p) (hp_bad p)
      | None => mkHP (hp_paths p) (hp_files p) (hp_ops p) true
      end
  | ["use"; n] | ["suse"; n] => mkHP (hp_paths p) (hp_files p) (hp_ops p ++ [HUse n])%list (hp_bad p)
  | ["evalfile"; f] => mkHP (hp_paths p) (hp_files p) (hp_ops p ++ [HEvalFile f])%list (hp_bad p)
  | ["sevalfile"; n] => mkHP (hp_paths p) (hp_files p) (hp_ops p ++ [HScriptEvalFile n])%list (hp_bad p)
  | _ => mkHP (hp_paths p) (hp_files p) (hp_ops p) true
  end.

Definition show_uout (o : uout) : string :=
  match o with UOk => "OK" | UMissing f => "ERR(file:" ++ f ++ ")" | UError => "ERR" | UFuel => "FUEL" end.
Definition is_eval_of (p : string) (e : event) : bool := match e with EvEval _ q => String.eqb p q | _ => false end.
Definition concat_map {A : Type} (f : A -> string) (l : list A) : string := fold_right (fun x acc => f x ++ acc) "" l.

Definition hist_view (p : hparsed) (o : uout) (st : ustate) : string :=
  show_uout o ++ " ;"
  ++ concat_map (fun f => " " ++ fst f ++ "=" ++ dec_of_nat (List.length (filter (is_eval_of (fst f)) (u_log st)))) (hp_files p)
  ++ " ; U[" ++ join "," (filter (fun f => mem f (u_used st)) (map fst (hp_files p))) ++ "]".

Definition hist_fuel : nat := 400.

Fixpoint hist_run (body : list uop) (rethrow : bool) (p : hparsed) (cfg : config) (st : ustate) (h : list hop) : list string :=
  match h with
  | [] => []
  | o :: t => let (st', oc) := exec body rethrow cfg hist_fuel (cmd_of cfg o) st in
              hist_view p oc st' :: hist_run body rethrow p cfg st' t
  end.

Definition run_with (bops : list bop) (lops : list lop) (body : list uop) (rethrow : bool) (line : string) : string :=
  let w := fast_words line in
  match w with
  | ["load"; h] => match bytes_of_hex h with
                   | Some b => show_loaded "f.chai" (run_load_file bops lops (Some b))
                   | None => "BADCASE"
                   end
  | ["loadmissing"] => show_loaded "no_such_file.chai" (run_load_file bops lops None)
  | "hist" :: _ =>
      let p := fold_left hp_seg (split_bar w []) (mkHP [] [] [] false) in
      if hp_bad p then "BADCASE"
      else join " || " (hist_run body rethrow p (mkCfg (hp_paths p) (hp_files p)) u_init (hp_ops p))
  | _ => "BADCASE"
  end.

(* the specification: load = strip one BOM; use = the canonical try block *)
Definition spec_line (line : string) : string :=
  let w := fast_words line in
  match w with
  | ["load"; h] => match bytes_of_hex h with Some b => show_loaded "f.chai" (load_spec (Some b)) | None => "BADCASE" end
  | ["loadmissing"] => show_loaded "no_such_file.chai" (load_spec None)
  | _ => run_with canonical_skip_bom canonical_load_file canonical_use_body true line
  end.
