(* C06 / C07 — facts about the rules regenerated from the source (coq/gen/G_CastRules.v), checked by computation. *)
From Coq Require Import ZArith List Bool.
From ChaiV Require Import DispatchDefs DispatchProofs.
From ChaiV.Gen Require Import G_CastRules.
Import ListNotations.

(* every Cast_Helper_Inner specialisation of the current source: gives exactly the access its form denotes, tests
   !is_const() exactly when that access is mutable, null-checks what it dereferences; the arity check is present;
   dispatch retries only on bad_boxed_cast / arity_error / guard_error *)
Lemma gen_rules_ok : rules_ok gen_rules = true.
Proof. vm_compute. reflexivity. Qed.

(* boxed_cast attempts the direct cast exactly when there are no conversions, the bare types agree, or the requested
   type takes part in no conversion; the first handler lets everything but bad_any_cast through *)
Lemma gen_boxed_cast_flow :
  r_direct_when gen_rules = [DcNoConversions; DcBareEqual; DcNotConvertible]
  /\ r_direct_catch gen_rules = CatchBadAny /\ r_up_catch gen_rules = CatchAll /\ r_down_catch gen_rules = CatchBadAny.
Proof. vm_compute. repeat split. Qed.

Lemma gen_null_when_const : r_null_when_const gen_rules = true.
Proof. vm_compute. reflexivity. Qed.
