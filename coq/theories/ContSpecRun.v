(* C12 — executable *specification* (independent of the regenerated table) and the line driver shared with
   the mechanism model: one operation sequence per line in, one canonical observation per line out
   (same format as harness/h_stl.cpp). *)
From Coq Require Import ZArith NArith String Ascii List Bool.
From ChaiV Require Import StrUtil ContDefs.
Import ListNotations.
Local Open Scope string_scope.

Definition is_alnum (n : N) : bool :=
  ((48 <=? n) && (n <=? 57) || (65 <=? n) && (n <=? 90) || (97 <=? n) && (n <=? 122))%N.
Definition show_bytes (b : bytes) : string :=
  String """"%char
    (fold_right (fun c acc => if is_alnum c then String (ascii_of_N c) acc
                              else "\x" ++ String (hexdigit (N.div c 16)) (String (hexdigit (N.modulo c 16)) acc)) "" b).
Fixpoint show_val (v : val) : string :=
  match v with
  | VUndef => "u" | VUnit => "v" | VBool true => "true" | VBool false => "false"
  | VInt z => dec_of_z z
  | VChar c => "'" ++ dec_of_N c
  | VStr s => show_bytes s
  | VPair a b => "<" ++ show_val a ++ "," ++ show_val b ++ ">"
  | VMapLit _ => "maplit"
  end.
Definition show_state (st : cstate) : string :=
  match st with
  | SVec l => "[" ++ join "," (map show_val l) ++ "]"
  | SStr s => show_bytes s
  | SMap m => "{" ++ join "," (map (fun e => show_bytes (fst e) ++ "=" ++ show_val (snd e)) m) ++ "}"
  | SPair a b => "<" ++ show_val a ++ "," ++ show_val b ++ ">"
  | SRange _ b e => "range"
  end.
Definition show_view (v : option (nat * nat)) : string :=
  match v with Some (b, e) => dec_of_nat b ++ "," ++ dec_of_nat e | None => "-" end.
Definition show_exn (x : exn) : string :=
  match x with XRange => "range_error" | XOutOfRange => "out_of_range" | XLength => "length_error" | XDispatch => "dispatch" end.

Definition parse_entry (s : string) : option (bytes * Z) :=
  match split_on "="%char s "" with
  | [k; v] => match z_of_dec v with Some z => Some (bytes_of_string k, z) | None => None end
  | _ => None
  end.
Fixpoint all_some {A} (l : list (option A)) : option (list A) :=
  match l with
  | [] => Some []
  | Some x :: r => match all_some r with Some t => Some (x :: t) | None => None end
  | None :: _ => None
  end.
Definition parse_arg (s : string) : option val :=
  match s with
  | String "'"%char r => match z_of_dec r with Some z => Some (VChar (Z.to_N z)) | None => None end
  | String """"%char r => Some (VStr (bytes_of_string r))
  | String "z"%char r => option_map VInt (z_of_dec r)
  | String "<"%char r => match parse_entry r with Some (k, z) => Some (VPair (VStr k) (VInt z)) | None => None end
  | String "{"%char r => if String.eqb r "" then Some (VMapLit [])
                         else option_map VMapLit (all_some (map parse_entry (split_on ","%char r "")))
  | _ => option_map VInt (z_of_dec s)
  end.

Definition parse_step (s : string) : option wstep :=
  match filter (fun x => negb (String.eqb x "")) (words s) with
  | tg :: op :: rest =>
      match all_some (map parse_arg rest) with
      | None => None
      | Some args =>
          let t := if String.eqb tg "c" then Some TC else if String.eqb tg "k" then Some TK
                   else if String.eqb tg "r" then Some TR else if String.eqb tg "q" then Some TQ else None in
          match t with
          | None => None
          | Some t =>
              if String.eqb op "mkrange" then
                match t, args with TC, [] => Some (WMkRange false) | TK, [] => Some (WMkRange true) | _, _ => None end
              else if String.eqb op "set" then
                match t, args with TC, [key; v] => Some (WSet key v) | _, _ => None end
              else if String.eqb op "setfirst" then
                match t, args with TC, [v] => Some (WSetMember false v) | _, _ => None end
              else if String.eqb op "setsecond" then
                match t, args with TC, [v] => Some (WSetMember true v) | _, _ => None end
              else Some (WCall t op args)
          end
      end
  | _ => None
  end.

Definition kind_of_name (s : string) : option ckind :=
  if String.eqb s "Vector" then Some KVector else if String.eqb s "List" then Some KList
  else if String.eqb s "string" then Some KString else if String.eqb s "Map" then Some KMap
  else if String.eqb s "Pair" then Some KPair else None.

Section Driver.
  Variable callf : string -> ckind -> bool -> string -> cstate -> list val -> outcome.
  Variable keeps : string -> ckind -> bool -> string -> nat -> bool.

  Definition show_obs (w : world) (o : outcome) (s : wstep) : string :=
    (match o with
     | Ok _ r => match s with WMkRange _ => "OK range" | _ => "OK " ++ show_val r end
     | Raised x => "ERR(" ++ show_exn x ++ ")"
     | UB => "UB"
     end) ++ " | " ++ show_state (wc w) ++ " | r=" ++ show_view (wr w) ++ " q=" ++ show_view (wq w).

  Fixpoint run_steps (ty : string) (k : ckind) (w : world) (steps : list string) : list string :=
    match steps with
    | [] => []
    | s :: r =>
        match parse_step s with
        | None => ["BADSTEP"]
        | Some st =>
            let '(w', o) := wrun callf keeps ty k w st in
            match o with
            | UB => [show_obs w' o st]
            | _ => show_obs w' o st :: run_steps ty k w' r
            end
        end
    end.

  Definition run_line_with (line : string) : string :=
    match split_on " "%char line "" with
    | [] => "BADCASE"
    | kn :: _ =>
        match kind_of_name kn with
        | None => "BADCASE kind"
        | Some k =>
            let rest := substring (S (String.length kn)) (String.length line) line in
            if String.eqb rest "" then ""
            else join " ;; " (run_steps kn k (init_world k) (split_on ";"%char rest ""))
        end
    end.
End Driver.

Definition spec_line : string -> string := run_line_with spec_callf spec_keeps.
