(* C12 — proofs about the container model (independent of the regenerated table). *)
From Coq Require Import ZArith NArith String Ascii List Bool Lia.
From ChaiV Require Import ContDefs.
Import ListNotations.
Local Open Scope Z_scope.

(* ------------------------------------------------------------------ arithmetic of the parameter conversions *)
Lemma to_int_range : forall z, -2147483648 <= to_int z < 2147483648.
Proof.
  intro z. unfold to_int, two32.
  pose proof (Z.mod_pos_bound z 4294967296 ltac:(lia)) as H.
  destruct (z mod 4294967296 <? 2147483648) eqn:E; [apply Z.ltb_lt in E | apply Z.ltb_ge in E]; lia.
Qed.
Lemma to_size_range : forall z, 0 <= to_size z < two64.
Proof. intro z. unfold to_size, two64. apply Z.mod_pos_bound. lia. Qed.
Lemma to_size_small : forall p, 0 <= p < two64 -> to_size p = p.
Proof. intros p H. unfold to_size. apply Z.mod_small. exact H. Qed.
Lemma to_size_neg : forall p, -2147483648 <= p < 0 -> to_size p = p + two64.
Proof.
  intros p H. unfold to_size, two64 in *.
  symmetry. apply Z.mod_unique_pos with (q := -1); lia.
Qed.

Lemma zlen_nonneg : forall A (l : list A), 0 <= zlen l.
Proof. intros. unfold zlen. lia. Qed.
Lemma zlen_nil : forall A, zlen (@nil A) = 0.
Proof. reflexivity. Qed.
Lemma zlen_cons : forall A (x : A) l, zlen (x :: l) = zlen l + 1.
Proof. intros. unfold zlen. simpl length. lia. Qed.
Lemma zlen_app : forall A (l1 l2 : list A), zlen (l1 ++ l2) = zlen l1 + zlen l2.
Proof. intros. unfold zlen. rewrite app_length. lia. Qed.
Lemma zlen_eq0 : forall A (l : list A), (zlen l =? 0) = match l with [] => true | _ => false end.
Proof. intros A [|x l]; [reflexivity|]. rewrite zlen_cons. apply Z.eqb_neq. pose proof (zlen_nonneg A l). lia. Qed.

(* the checked index: at(static_cast<size_type>(int index)) accepts exactly 0 <= index < size *)
Lemma at_cast_index : forall (p len : Z),
  -2147483648 <= p < 2147483648 -> 0 <= len <= max_size ->
  (to_size p <? len) = ((0 <=? p) && (p <? len)) /\ (0 <= p -> to_size p = p).
Proof.
  intros p len Hp Hl. unfold max_size in Hl. split.
  - destruct (Z_lt_dec p 0) as [N|N].
    + rewrite to_size_neg by lia. unfold two64.
      replace (0 <=? p) with false by (symmetry; apply Z.leb_gt; lia). simpl. apply Z.ltb_ge. lia.
    + rewrite to_size_small by (unfold two64; lia).
      replace (0 <=? p) with true by (symmetry; apply Z.leb_le; lia). reflexivity.
  - intro. apply to_size_small. unfold two64. lia.
Qed.

(* ------------------------------------------------------------------ list lengths *)
Lemma length_insert_nth : forall A n (x : A) l, length (insert_nth n x l) = S (length l).
Proof.
  intros. unfold insert_nth. rewrite app_length. simpl. rewrite firstn_length, skipn_length. lia.
Qed.
Lemma length_remove_nth : forall A n (l : list A), (length (remove_nth n l) <= length l)%nat.
Proof. intros. unfold remove_nth. rewrite app_length, firstn_length, skipn_length. lia. Qed.
Lemma length_resize_list : forall A n (d : A) l, length (resize_list n d l) = n.
Proof. intros. unfold resize_list. rewrite app_length, firstn_length, repeat_length. lia. Qed.
Lemma length_removelast : forall A (l : list A), (length (removelast l) <= length l)%nat.
Proof.
  induction l as [|x l IH]; simpl; [lia|]. destruct l; simpl in *; lia.
Qed.
Lemma length_tl : forall A (l : list A), (length (tl l) <= length l)%nat.
Proof. destruct l; simpl; lia. Qed.
Lemma length_set_nth : forall A n (v : A) l, length (set_nth n v l) = length l.
Proof. intros A n v l. revert n. induction l as [|x l IH]; intros [|n]; simpl; auto. Qed.

(* ------------------------------------------------------------------ byte-string order *)
Lemma bytes_eqb_refl : forall a, bytes_eqb a a = true.
Proof. induction a; simpl; auto. rewrite N.eqb_refl. exact IHa. Qed.
Lemma bytes_eqb_eq : forall a b, bytes_eqb a b = true -> a = b.
Proof.
  induction a; destruct b; simpl; intros; try discriminate; auto.
  apply andb_true_iff in H as [H1 H2]. apply N.eqb_eq in H1. f_equal; auto.
Qed.
Lemma bytes_ltb_irrefl : forall a, bytes_ltb a a = false.
Proof. induction a; simpl; auto. rewrite N.ltb_irrefl, N.eqb_refl. exact IHa. Qed.
Lemma bytes_ltb_trans : forall a b c, bytes_ltb a b = true -> bytes_ltb b c = true -> bytes_ltb a c = true.
Proof.
  induction a as [|x a IH]; intros [|y b] [|z c]; simpl; intros H1 H2; try discriminate; auto.
  destruct (N.ltb x y) eqn:Exy.
  - apply N.ltb_lt in Exy.
    destruct (N.ltb y z) eqn:Eyz.
    + apply N.ltb_lt in Eyz. replace (N.ltb x z) with true by (symmetry; apply N.ltb_lt; lia). reflexivity.
    + destruct (N.eqb y z) eqn:Q; [|discriminate]. apply N.eqb_eq in Q. subst.
      replace (N.ltb x z) with true by (symmetry; apply N.ltb_lt; lia). reflexivity.
  - destruct (N.eqb x y) eqn:Q; [|discriminate]. apply N.eqb_eq in Q. subst.
    destruct (N.ltb y z) eqn:Eyz; [reflexivity|].
    destruct (N.eqb y z) eqn:Q2; [|discriminate]. eapply IH; eauto.
Qed.
Lemma bytes_trichotomy : forall a b, bytes_eqb a b = false -> bytes_ltb a b = false -> bytes_ltb b a = true.
Proof.
  induction a as [|x a IH]; intros [|y b]; simpl; intros H1 H2; try discriminate; auto.
  destruct (N.ltb x y) eqn:Exy; [discriminate|]. apply N.ltb_ge in Exy.
  destruct (N.eqb x y) eqn:Q.
  - apply N.eqb_eq in Q. subst. rewrite N.ltb_irrefl, N.eqb_refl. simpl in H1. apply IH; auto.
  - apply N.eqb_neq in Q. replace (N.ltb y x) with true by (symmetry; apply N.ltb_lt; lia). reflexivity.
Qed.

(* every key of m is above k *)
Definition above {V} (k : bytes) (m : list (bytes * V)) : Prop := forall k' v, In (k', v) m -> bytes_ltb k k' = true.

Lemma sorted_cons : forall V k (v : V) m, keys_sorted ((k, v) :: m) = true <-> (keys_sorted m = true /\ above k m).
Proof.
  intros V k v m. revert k v. induction m as [|[k1 v1] m IH]; intros k v.
  - simpl. split; [intros _; split; [reflexivity|intros ? ? []]|auto].
  - change (keys_sorted ((k, v) :: (k1, v1) :: m)) with (bytes_ltb k k1 && keys_sorted ((k1, v1) :: m)).
    rewrite andb_true_iff. split.
    + intros [L S]. split; [exact S|]. intros k' v' [E|I].
      * inversion E; subst. exact L.
      * apply (IH k1 v1) in S as [_ Ab]. eapply bytes_ltb_trans; [exact L|]. eapply Ab; eauto.
    + intros [S Ab]. split; [|exact S]. eapply Ab. left. reflexivity.
Qed.

Lemma map_insert_in : forall V k (v : V) m k' v', In (k', v') (map_insert k v m) -> (k' = k /\ v' = v) \/ In (k', v') m.
Proof.
  induction m as [|[k1 v1] m IH]; simpl; intros k' v' H.
  - destruct H as [E|[]]. inversion E. auto.
  - destruct (bytes_eqb k k1); [auto|]. destruct (bytes_ltb k k1).
    + destruct H as [E|H]; [inversion E; auto|auto].
    + destruct H as [E|H]; [auto|]. apply IH in H as [H|H]; auto.
Qed.
Lemma map_insert_sorted : forall V k (v : V) m, keys_sorted m = true -> keys_sorted (map_insert k v m) = true.
Proof.
  induction m as [|[k1 v1] m IH]; intro S; [reflexivity|].
  simpl. destruct (bytes_eqb k k1) eqn:E; [exact S|]. destruct (bytes_ltb k k1) eqn:L.
  - apply sorted_cons. split; [exact S|]. apply sorted_cons in S as [S Ab].
    intros k' v' [Q|I]; [inversion Q; subst; exact L|]. eapply bytes_ltb_trans; [exact L|eapply Ab; eauto].
  - apply sorted_cons in S as [S Ab]. apply sorted_cons. split; [auto|].
    intros k' v' I. apply map_insert_in in I as [[-> ->]|I]; [|eapply Ab; eauto].
    apply bytes_trichotomy; auto.
Qed.
Lemma map_erase_in : forall V k (m : list (bytes * V)) k' v', In (k', v') (map_erase k m) -> In (k', v') m.
Proof.
  induction m as [|[k1 v1] m IH]; simpl; intros k' v' H; [exact H|].
  destruct (bytes_eqb k k1); [auto|]. destruct H; auto.
Qed.
Lemma map_erase_sorted : forall V k (m : list (bytes * V)), keys_sorted m = true -> keys_sorted (map_erase k m) = true.
Proof.
  induction m as [|[k1 v1] m IH]; intro S; [reflexivity|].
  simpl. apply sorted_cons in S as [S Ab]. destruct (bytes_eqb k k1); [exact S|].
  apply sorted_cons. split; [auto|]. intros k' v' I. apply map_erase_in in I. eapply Ab; eauto.
Qed.
Lemma map_set_in : forall V k (v : V) m k' v', In (k', v') (map_set k v m) -> exists v'', In (k', v'') m.
Proof.
  induction m as [|[k1 v1] m IH]; simpl; intros k' v' H; [destruct H|].
  destruct (bytes_eqb k k1).
  - destruct H as [E|H]; [inversion E; subst; eexists; left; reflexivity|eexists; right; exact H].
  - destruct H as [E|H]; [eexists; left; exact E|]. apply IH in H as [v'' H]. eexists; right; exact H.
Qed.
Lemma map_set_sorted : forall V k (v : V) m, keys_sorted m = true -> keys_sorted (map_set k v m) = true.
Proof.
  induction m as [|[k1 v1] m IH]; intro S; [reflexivity|].
  simpl. apply sorted_cons in S as [S Ab]. destruct (bytes_eqb k k1).
  - apply sorted_cons. split; [exact S|exact Ab].
  - apply sorted_cons. split; [auto|]. intros k' v' I. apply map_set_in in I as [v'' I]. eapply Ab; eauto.
Qed.
Lemma map_insert_all_sorted : forall o m, keys_sorted m = true -> keys_sorted (map_insert_all o m) = true.
Proof.
  unfold map_insert_all. induction o as [|[k z] o IH]; simpl; intros m S; [exact S|].
  apply IH. apply map_insert_sorted. exact S.
Qed.

(* ------------------------------------------------------------------ StdPre from the guards *)
Lemma build_args_first : forall r cargs a, build_args (AP O :: r) cargs = Some a -> exists v c' a', cargs = v :: c' /\ a = v :: a'.
Proof.
  intros r cargs a H. simpl in H. destruct cargs as [|v c']; simpl in H; [discriminate|].
  destruct (build_args r (v :: c')); [|discriminate]. inversion H. eauto.
Qed.

Lemma range_nonempty_lt : forall snap b e, wf (SRange snap b e) = true -> Nat.eqb b e = false ->
  (b < e /\ e <= length snap)%nat.
Proof.
  intros snap b e W N. simpl in W. apply andb_true_iff in W as [W1 W2].
  apply Nat.leb_le in W1. apply Nat.leb_le in W2. apply Nat.eqb_neq in N. lia.
Qed.

Lemma pre_from_guard : forall g srcs op st cargs a,
  guard_covers g srcs op = true -> wf st = true ->
  guard_fires g st cargs = false -> build_args srcs cargs = Some a ->
  std_pre op st a = true.
Proof.
  intros g srcs op st cargs a C W F B.
  destruct op; simpl in C; try reflexivity; try discriminate;
    try (destruct g; try discriminate; simpl in F; unfold std_pre; rewrite F; reflexivity).
  - (* OAdvInsert *)
    destruct g as [| |neg c]; try discriminate. destruct neg; [|discriminate].
    destruct srcs as [|[[|i]|v] r]; try discriminate.
    apply build_args_first in B as (v & c' & a' & -> & ->).
    unfold std_pre. destruct v; try reflexivity. simpl in F.
    apply orb_false_iff in F as [F1 F2]. apply Z.ltb_ge in F1.
    destruct c; simpl in F2; [apply Z.ltb_ge in F2|apply Z.leb_gt in F2];
      apply andb_true_iff; split; [apply Z.leb_le|apply Z.leb_le|apply Z.leb_le|apply Z.leb_le]; lia.
  - (* OAdvErase *)
    destruct g as [| |neg c]; try discriminate. destruct neg; [|discriminate]. destruct c; [discriminate|].
    destruct srcs as [|[[|i]|v] r]; try discriminate.
    apply build_args_first in B as (v & c' & a' & -> & ->).
    unfold std_pre. destruct v; try reflexivity. simpl in F.
    apply orb_false_iff in F as [F1 F2]. apply Z.ltb_ge in F1. apply Z.leb_gt in F2.
    apply andb_true_iff; split; [apply Z.leb_le|apply Z.ltb_lt]; lia.
  - (* RIncBegin *)
    destruct g; try discriminate. simpl in F. unfold std_pre. destruct st; try reflexivity.
    simpl in F. destruct (range_nonempty_lt _ _ _ W F). apply Nat.ltb_lt. lia.
  - (* RDecEnd *)
    destruct g; try discriminate. simpl in F. unfold std_pre. destruct st; try reflexivity.
    simpl in F. destruct (range_nonempty_lt _ _ _ W F). apply andb_true_iff. split; [apply Nat.ltb_lt|apply Nat.leb_le]; lia.
  - (* RDerefBegin *)
    destruct g; try discriminate. simpl in F. unfold std_pre. destruct st; try reflexivity.
    simpl in F. destruct (range_nonempty_lt _ _ _ W F). apply Nat.ltb_lt. lia.
  - (* RDerefPrevEnd *)
    destruct g; try discriminate. simpl in F. unfold std_pre. destruct st; try reflexivity.
    simpl in F. destruct (range_nonempty_lt _ _ _ W F). apply andb_true_iff. split; [apply Nat.ltb_lt|apply Nat.leb_le]; lia.
Qed.

(* a covering guard never lets the forwarded operation out of its StdPre *)
Lemma mech_guarded : forall g srcs op st cargs,
  guard_covers g srcs op = true -> wf st = true -> mech g srcs op st cargs <> UB.
Proof.
  intros g srcs op st cargs C W. unfold mech.
  destruct (guard_fires g st cargs) eqn:F; [discriminate|].
  destruct (build_args srcs cargs) as [a|] eqn:B; [|discriminate].
  unfold std_op. rewrite (pre_from_guard _ _ _ _ _ _ C W F B).
  destruct (std_eff op st a); discriminate.
Qed.

Lemma run_wrapper_guarded : forall w st args,
  wrapper_safe w = true -> wf st = true -> run_wrapper w st args <> UB.
Proof.
  intros w st args S W. unfold run_wrapper.
  destruct (negb (state_matches (w_kind w) st)); [discriminate|].
  destruct (conv_all (w_kind w) (w_params w) args); [|discriminate].
  apply mech_guarded; assumption.
Qed.

(* where a guard fires the wrapper raises *)
Lemma mech_guard_raises : forall g srcs op st cargs,
  guard_fires g st cargs = true -> mech g srcs op st cargs = Raised XRange.
Proof. intros. unfold mech. rewrite H. reflexivity. Qed.

(* the model can express the failure: an unguarded pop_back on an empty vector is UB *)
Lemma unguarded_pop_back_is_UB : mech GNone [] OPopBack (SVec []) [] = UB.
Proof. reflexivity. Qed.
Lemma erase_at_lt_is_UB : mech (GPos true CLt) [AP O] OAdvErase (SVec [VInt 1]) [VInt 1] = UB.
Proof. reflexivity. Qed.
Lemma unchecked_index_is_UB : mech GNone [AP O] OIndexCast (SVec [VInt 1]) [VInt 1] = UB.
Proof. reflexivity. Qed.
Lemma unguarded_range_pop_is_UB : mech GNone [] RIncBegin (SRange [] O O) [] = UB.
Proof. reflexivity. Qed.

(* ------------------------------------------------------------------ mechanism = specification *)
Lemma conv_all_0 : forall k a c, conv_all k [] a = Some c -> a = [] /\ c = [].
Proof. intros k [|? ?] c H; simpl in H; [inversion H; auto|discriminate]. Qed.
Lemma conv_all_1 : forall k p a c, conv_all k [p] [a] = Some c -> exists c1, conv k p a = Some c1 /\ c = [c1].
Proof. intros k p a c H. simpl in H. destruct (conv k p a); [|discriminate]. inversion H. eauto. Qed.
Lemma conv_all_2 : forall k p q a b c, conv_all k [p; q] [a; b] = Some c ->
  exists c1 c2, conv k p a = Some c1 /\ conv k q b = Some c2 /\ c = [c1; c2].
Proof. intros k p q a b c H. simpl in H. destruct (conv k p a); [|discriminate]. destruct (conv k q b); [|discriminate]. inversion H. eauto. Qed.

Ltac inv_conv :=
  repeat match goal with
  | H : conv_all _ [] _ = Some _ |- _ => apply conv_all_0 in H as [? ?]; subst
  | H : conv_all _ [_] [_] = Some _ |- _ => apply conv_all_1 in H as (? & H & ?); subst
  | H : conv_all _ [_; _] [_; _] = Some _ |- _ => let H2 := fresh "Cv" in apply conv_all_2 in H as (? & ? & H & H2 & ?); subst
  end;
  repeat match goal with
  | H : conv _ _ _ = Some _ |- _ => simpl in H
  | H : match ?x with _ => _ end = Some _ |- _ => destruct x; try discriminate H
  | H : Some _ = Some _ |- _ => inversion H; subst; clear H
  end.

Ltac b2p :=
  repeat match goal with
  | H : (_ || _) = false |- _ => apply orb_false_iff in H as [? ?]
  | H : (_ || _) = true |- _ => apply orb_true_iff in H
  | H : (_ && _) = true |- _ => apply andb_true_iff in H as [? ?]
  | H : (_ && _) = false |- _ => apply andb_false_iff in H
  | H : (_ <? _) = true |- _ => apply Z.ltb_lt in H
  | H : (_ <? _) = false |- _ => apply Z.ltb_ge in H
  | H : (_ <=? _) = true |- _ => apply Z.leb_le in H
  | H : (_ <=? _) = false |- _ => apply Z.leb_gt in H
  | H : (_ =? _) = true |- _ => apply Z.eqb_eq in H
  | H : (_ =? _) = false |- _ => apply Z.eqb_neq in H
  end.

Ltac split_ifs :=
  repeat match goal with
  | |- context [if ?c then _ else _] => let F := fresh "F" in destruct c eqn:F
  end.

Lemma mech_spec : forall k n args ps ar g op st cargs,
  expected_mech k n (length args) = Some (ps, ar, g, op) ->
  state_matches k st = true -> wf st = true ->
  conv_all k ps args = Some cargs ->
  mech g ar op st cargs = spec_fn k n st cargs.
Proof.
  intros k n args ps ar g op st cargs H M W C.
  destruct k; destruct n; destruct args as [|a1 [|a2 [|a3 args]]]; simpl in H; try discriminate H;
    inversion H; subst; clear H; destruct st; try discriminate M; clear M; inv_conv.
  all: try reflexivity.
  all: try (match goal with l : list _ |- _ => destruct l; reflexivity end).
  all: try (destruct s; reflexivity).
  (* insert_at *)
  all: try (match goal with |- mech _ _ OAdvInsert _ _ = _ =>
    match goal with |- context [to_int ?zz] => generalize (to_int zz); intro end;
    unfold mech, spec_fn; cbn -[Z.ltb Z.leb max_size zlen Z.to_nat firstn skipn];
    match goal with |- context [if ?c then Raised XRange else _] => destruct c eqn:F end; [reflexivity|];
    unfold std_op; cbn [std_pre size_of];
    match goal with |- context [(0 <=? ?q) && (?q <=? ?n)] =>
      replace ((0 <=? q) && (q <=? n)) with true by (symmetry; b2p; apply andb_true_iff; split; apply Z.leb_le; lia) end;
    cbn -[Z.leb max_size zlen Z.to_nat firstn skipn]; unfold grow, insert_nth;
    match goal with |- context [max_size <=? ?n] => destruct (max_size <=? n) end; reflexivity end).
  (* erase_at *)
  all: try (match goal with |- mech _ _ OAdvErase _ _ = _ =>
    match goal with |- context [to_int ?zz] => generalize (to_int zz); intro end;
    unfold mech, spec_fn; cbn -[Z.ltb Z.leb max_size zlen Z.to_nat firstn skipn];
    match goal with |- context [if ?c then Raised XRange else _] => destruct c eqn:F end; [reflexivity|];
    unfold std_op; cbn [std_pre size_of];
    match goal with |- context [(0 <=? ?q) && (?q <? ?n)] =>
      replace ((0 <=? q) && (q <? n)) with true by (symmetry; b2p; apply andb_true_iff; split; [apply Z.leb_le|apply Z.ltb_lt]; lia) end;
    reflexivity end).
  (* [] *)
  all: try (match goal with |- mech _ _ OAtCast _ _ = _ =>
    match goal with |- context [to_int ?zz] => pose proof (to_int_range zz) as Hp; revert Hp; generalize (to_int zz); intros p Hp end;
    unfold mech, spec_fn, std_op; cbn -[Z.ltb Z.leb max_size zlen Z.to_nat to_size nth];
    cbn [wf] in W; b2p;
    match goal with |- context [to_size ?q <? ?n] =>
      destruct (at_cast_index q n Hp ltac:(split; [apply zlen_nonneg|exact W])) as [E1 E2]; rewrite E1;
      destruct ((0 <=? q) && (q <? n)) eqn:F; [b2p; rewrite E2 by lia; reflexivity|reflexivity] end end).
  (* ranges *)
  all: try (unfold mech, spec_fn; cbn [guard_fires is_empty build_args outcome_of_eff range_spec];
    destruct (Nat.eqb b e) eqn:N; [reflexivity|];
    destruct (range_nonempty_lt _ _ _ W N) as [L1 L2];
    unfold std_op; cbn [std_pre];
    try replace (Nat.ltb b (length snap)) with true by (symmetry; apply Nat.ltb_lt; lia);
    try replace (Nat.ltb 0 e && Nat.leb e (length snap))%bool with true
      by (symmetry; apply andb_true_iff; split; [apply Nat.ltb_lt|apply Nat.leb_le]; lia);
    cbn [std_eff range_eff outcome_of_eff];
    rewrite ?Nat.sub_1_r, ?Nat.add_1_r; reflexivity).
Qed.

(* ------------------------------------------------------------------ wrappers implement their specification *)
Lemma list_eqb_eq : forall A (eqb : A -> A -> bool), (forall x y, eqb x y = true -> x = y) ->
  forall a b, list_eqb eqb a b = true -> a = b.
Proof.
  intros A eqb E. induction a; destruct b; simpl; intros H; try discriminate; auto.
  apply andb_true_iff in H as [H1 H2]. f_equal; auto.
Qed.
Lemma pty_eqb_eq : forall a b, pty_eqb a b = true -> a = b.
Proof. destruct a, b; simpl; intros; try discriminate; reflexivity. Qed.
Lemma guard_eqb_eq : forall a b, guard_eqb a b = true -> a = b.
Proof.
  destruct a as [| |n1 c1], b as [| |n2 c2]; simpl; intros H; try discriminate; auto.
  apply andb_true_iff in H as [H1 H2]. apply Bool.eqb_prop in H1. destruct c1, c2; try discriminate; subst; reflexivity.
Qed.
Lemma stdop_eqb_eq : forall a b, stdop_eqb a b = true -> a = b.
Proof. destruct a, b; intro H; try reflexivity; discriminate H. Qed.
Lemma argsrc_eqb_eq : forall a b, argsrc_eqb a b = true -> a = b.
Proof.
  destruct a as [i|v], b as [j|u]; simpl; intros H; try discriminate; try (destruct v; discriminate).
  - apply Nat.eqb_eq in H. subst. reflexivity.
  - destruct v; try discriminate. destruct u; try discriminate. apply Z.eqb_eq in H. subst. reflexivity.
Qed.

Lemma run_wrapper_functional : forall w st args,
  mech_ok w = true -> wf st = true -> length args = length (w_params w) ->
  run_wrapper w st args = spec_call (w_kind w) (w_const w) (w_name w) st args.
Proof.
  intros w st args MO W L. unfold mech_ok in MO. unfold run_wrapper, spec_call.
  destruct (state_matches (w_kind w) st) eqn:M; [|reflexivity]. cbn [negb].
  destruct (opname_of (w_name w)) as [n|]; [|discriminate].
  rewrite L.
  destruct (expected_mech (w_kind w) n (length (w_params w))) as [[[[ps ar] g] op]|] eqn:EM; [|discriminate].
  destruct (spec_sig (w_kind w) n (length (w_params w))) as [[c ps']|]; [|discriminate].
  apply andb_true_iff in MO as [MO Hc]. apply andb_true_iff in MO as [MO Hop]. apply andb_true_iff in MO as [MO Hg].
  apply andb_true_iff in MO as [MO Har]. apply andb_true_iff in MO as [Hps Hps'].
  apply (list_eqb_eq _ _ pty_eqb_eq) in Hps. apply (list_eqb_eq _ _ pty_eqb_eq) in Hps'.
  apply (list_eqb_eq _ _ argsrc_eqb_eq) in Har. apply guard_eqb_eq in Hg. apply stdop_eqb_eq in Hop. subst ps'.
  assert (NC : (w_const w && negb c)%bool = false) by (destruct (w_const w); destruct c; try discriminate; reflexivity).
  rewrite NC.
  destruct (conv_all (w_kind w) (w_params w) args) as [cargs|] eqn:CV; [|reflexivity].
  rewrite <- Hg, <- Hop, <- Har. rewrite <- L in EM. rewrite <- Hps in CV. eapply mech_spec; eauto.
Qed.

(* ------------------------------------------------------------------ the abstract invariant is preserved *)
Definition same_shape (a b : cstate) : Prop :=
  match a, b with
  | SVec _, SVec _ | SStr _, SStr _ | SMap _, SMap _ | SPair _ _, SPair _ _ => True
  | SRange s _ _, SRange s' _ _ => s = s'
  | _, _ => False
  end.
Lemma same_shape_matches : forall a b k, same_shape a b -> state_matches k a = true -> state_matches k b = true.
Proof. intros a b k S M. destruct a, b; simpl in S; try contradiction; destruct k; simpl in *; auto. Qed.

Ltac seq_cases H :=
  repeat match type of H with
  | match ?x with _ => _ end = _ => destruct x eqn:?; try discriminate H
  | (if ?c then _ else _) = _ => destruct c eqn:?; try discriminate H
  | grow _ _ _ = _ => unfold grow in H
  end.

Lemma seq_eff_len : forall A d ov op (l : list A) a l' g,
  seq_eff A d ov op l a = GOk l' g -> zlen l <= max_size -> zlen l' <= max_size.
Proof.
  intros A d ov op l a l' g H W. unfold seq_eff in H.
  destruct op; seq_cases H; inversion H; subst; clear H; b2p; try assumption;
    unfold zlen in *; rewrite ?app_length, ?length_insert_nth, ?length_resize_list; simpl length;
    try (pose proof (length_removelast _ l)); try (pose proof (length_tl _ l));
    try (match goal with |- context [remove_nth ?n l] => pose proof (length_remove_nth _ n l) end);
    try lia.
Qed.

Lemma std_eff_wf : forall op st a st' r,
  (match st with SRange _ _ _ => False | _ => True end) ->
  wf st = true -> std_eff op st a = EOk st' r -> wf st' = true /\ same_shape st st'.
Proof.
  intros op st a st' r NR W H. destruct st as [l|s|m|x y|snap b e]; try contradiction; simpl in H.
  - destruct (seq_eff val VUndef some_val op l a) as [l' g|] eqn:E; simpl in H; [|discriminate].
    inversion H; subst. split; [|exact I]. simpl in *. b2p. apply Z.leb_le. eapply seq_eff_len; eauto.
  - destruct (is_str_op op).
    + destruct (str_eff op s a) as [l' g|] eqn:E; simpl in H; [|discriminate]. inversion H; subst. split; [|exact I].
      simpl in *. b2p. apply Z.leb_le. unfold str_eff in E.
      destruct op; seq_cases E; inversion E; subst; clear E; b2p; try assumption.
      rewrite zlen_app. unfold zlen at 2. simpl. lia.
    + destruct (seq_eff N 0%N char_of_val op s a) as [l' g|] eqn:E; simpl in H; [|discriminate].
      inversion H; subst. split; [|exact I]. simpl in *. b2p. apply Z.leb_le. eapply seq_eff_len; eauto.
  - unfold map_eff in H. destruct op; seq_cases H; inversion H; subst; clear H; (split; [|exact I]); simpl in *;
      auto using map_insert_sorted, map_erase_sorted, map_insert_all_sorted.
  - destruct op; seq_cases H; inversion H; subst; split; auto; exact I.
Qed.

Lemma mech_wf : forall g srcs op st cargs st' r,
  guard_covers g srcs op = true -> wf st = true -> mech g srcs op st cargs = Ok st' r ->
  wf st' = true /\ same_shape st st'.
Proof.
  intros g srcs op st cargs st' r C W H. unfold mech in H.
  destruct (guard_fires g st cargs) eqn:F; [discriminate|].
  destruct (build_args srcs cargs) as [a|] eqn:B; [|discriminate].
  unfold std_op in H. destruct (std_pre op st a) eqn:P; [|discriminate].
  destruct (std_eff op st a) as [st1 r1|] eqn:E; simpl in H; [|discriminate]. inversion H; subst; clear H.
  destruct st as [l|s|m|x y|snap b e]; try (eapply std_eff_wf; eauto; exact I).
  simpl in E. unfold range_eff in E.
  destruct op; seq_cases E; inversion E; subst; clear E; (split; [|reflexivity]); try exact W;
    simpl in C; destruct g; try discriminate C; simpl in F;
    destruct (range_nonempty_lt _ _ _ W F); unfold wf; apply andb_true_iff; split; apply Nat.leb_le; lia.
Qed.

Lemma seq_eff_readonly : forall A d ov op (l : list A) a l' g,
  op_readonly op = true -> seq_eff A d ov op l a = GOk l' g -> l' = l.
Proof.
  intros A d ov op l a l' g R H. unfold seq_eff in H.
  destruct op; try discriminate R; seq_cases H; inversion H; reflexivity.
Qed.
Lemma str_eff_readonly : forall op s a l' g, op_readonly op = true -> str_eff op s a = GOk l' g -> l' = s.
Proof.
  intros op s a l' g R H. unfold str_eff in H.
  destruct op; try discriminate R; seq_cases H; inversion H; reflexivity.
Qed.

Lemma readonly_same : forall op st a st' r, op_readonly op = true -> std_eff op st a = EOk st' r -> st' = st.
Proof.
  intros op st a st' r R H. destruct st as [l|s|m|x y|snap b e]; simpl in H.
  - destruct (seq_eff val VUndef some_val op l a) as [l' g|] eqn:E; simpl in H; [|discriminate].
    inversion H; subst. f_equal. eapply seq_eff_readonly; eauto.
  - destruct (is_str_op op).
    + destruct (str_eff op s a) as [l' g|] eqn:E; simpl in H; [|discriminate].
      inversion H; subst. f_equal. eapply str_eff_readonly; eauto.
    + destruct (seq_eff N 0%N char_of_val op s a) as [l' g|] eqn:E; simpl in H; [|discriminate].
      inversion H; subst. f_equal. eapply seq_eff_readonly; eauto.
  - unfold map_eff in H. destruct op; try discriminate R; seq_cases H; inversion H; reflexivity.
  - destruct op; try discriminate R; seq_cases H; inversion H; reflexivity.
  - unfold range_eff in H. destruct op; try discriminate R; seq_cases H; inversion H.
Qed.

(* ------------------------------------------------------------------ operation sequences *)
Lemma set_elem_wf : forall st key v, wf st = true -> wf (set_elem st key v) = true /\ same_shape st (set_elem st key v).
Proof.
  intros st key v W. destruct st as [l|s|m|x y|snap b e]; simpl.
  - destruct key; try (split; [exact W|exact I]). split; [|exact I]. simpl in *. unfold zlen in *. rewrite length_set_nth. exact W.
  - destruct key; try (split; [exact W|exact I]). destruct v; try (split; [exact W|exact I]).
    split; [|exact I]. simpl in *. unfold zlen in *. rewrite length_set_nth. exact W.
  - destruct key; try (split; [exact W|exact I]). split; [|exact I]. simpl in *. apply map_set_sorted. exact W.
  - split; [exact W|exact I].
  - split; [exact W|reflexivity].
Qed.

Section WorldSafe.
  Variable tbl : list wrapper.
  Hypothesis safe : forallb wrapper_safe tbl = true.
  Variable ty : string.
  Variable k : ckind.

  Lemma lookup_safe : forall t sc name n w, lookup tbl t sc name n = Some w -> wrapper_safe w = true.
  Proof.
    intros t sc name n w H. unfold lookup in H. apply find_some in H as [H _].
    rewrite forallb_forall in safe. apply safe. exact H.
  Qed.

  Lemma call_not_UB : forall t sc name st args, wf st = true -> call tbl t sc name st args <> UB.
  Proof.
    intros t sc name st args W. unfold call. destruct (lookup tbl t sc name (length args)) as [w|] eqn:L; [|discriminate].
    apply run_wrapper_guarded; [eapply lookup_safe; eauto|exact W].
  Qed.

  Lemma call_wf : forall t sc name st args st' r, wf st = true -> call tbl t sc name st args = Ok st' r ->
    wf st' = true /\ same_shape st st'.
  Proof.
    intros t sc name st args st' r W H. unfold call in H.
    destruct (lookup tbl t sc name (length args)) as [w|] eqn:L; [|discriminate].
    unfold run_wrapper in H. destruct (negb (state_matches (w_kind w) st)); [discriminate|].
    destruct (conv_all (w_kind w) (w_params w) args); [|discriminate].
    eapply mech_wf; eauto. eapply lookup_safe; eauto.
  Qed.

  Lemma call_keeps : forall t kk sc name st args st' r,
    table_keeps tbl t kk sc name (length args) = true -> call tbl t sc name st args = Ok st' r -> st' = st.
  Proof.
    intros t kk sc name st args st' r K H. unfold table_keeps in K. unfold call in H.
    destruct (lookup tbl t sc name (length args)) as [w|] eqn:L; [|discriminate].
    unfold run_wrapper in H. destruct (negb (state_matches (w_kind w) st)); [discriminate|].
    destruct (conv_all (w_kind w) (w_params w) args); [|discriminate].
    unfold mech in H. destruct (guard_fires (w_guard w) st l); [discriminate|].
    destruct (build_args (w_args w) l); [|discriminate].
    unfold std_op in H. destruct (std_pre (w_op w) st l0); [|discriminate].
    destruct (std_eff (w_op w) st l0) eqn:E; simpl in H; [|discriminate]. inversion H; subst.
    eapply readonly_same; eauto.
  Qed.

  Lemma world_wf_intro : forall w, state_matches k (wc w) = true -> wf (wc w) = true ->
    view_wf w (wr w) = true -> view_wf w (wq w) = true -> world_wf k w = true.
  Proof. intros. unfold world_wf. rewrite H, H0, H1, H2. reflexivity. Qed.
  Lemma world_wf_elim : forall w, world_wf k w = true ->
    state_matches k (wc w) = true /\ wf (wc w) = true /\ view_wf w (wr w) = true /\ view_wf w (wq w) = true.
  Proof.
    intros w H. unfold world_wf in H. apply andb_true_iff in H as [H H4]. apply andb_true_iff in H as [H H3].
    apply andb_true_iff in H as [H1 H2]. auto.
  Qed.
  Lemma drop_views_wf : forall st, state_matches k st = true -> wf st = true -> world_wf k (drop_views st) = true.
  Proof. intros. apply world_wf_intro; auto. Qed.

  Let run := wrun (table_call tbl) (table_keeps tbl) ty k.

  Lemma step_cont_safe : forall w sc name args, world_wf k w = true ->
    snd (step_cont (table_call tbl) (table_keeps tbl) ty k w sc name args) <> UB /\
    world_wf k (fst (step_cont (table_call tbl) (table_keeps tbl) ty k w sc name args)) = true.
  Proof.
    intros w sc name args WW. destruct (world_wf_elim _ WW) as (M & W & V1 & V2).
    unfold step_cont, table_call.
    destruct (call tbl ty sc name (wc w) args) as [st' r| |] eqn:E.
    - destruct (call_wf _ _ _ _ _ _ _ W E) as [W' S].
      destruct (table_keeps tbl ty k sc name (length args)) eqn:K.
      + apply call_keeps with (kk := k) in E; [|exact K]. subst st'. simpl. split; [discriminate|].
        destruct w; exact WW.
      + simpl. split; [discriminate|]. apply drop_views_wf; [eapply same_shape_matches; eauto|exact W'].
    - simpl. split; [discriminate|exact WW].
    - exfalso. eapply call_not_UB; eauto.
  Qed.

  Lemma step_view_safe : forall w isq name args, world_wf k w = true ->
    snd (step_view (table_call tbl) ty w isq name args) <> UB /\
    world_wf k (fst (step_view (table_call tbl) ty w isq name args)) = true.
  Proof.
    intros w isq name args WW. destruct (world_wf_elim _ WW) as (M & W & V1 & V2).
    unfold step_view, table_call.
    destruct (if isq then wq w else wr w) as [[b e]|] eqn:V; [|simpl; split; [discriminate|exact WW]].
    assert (WV : wf (SRange (elems (wc w)) b e) = true).
    { destruct isq; [rewrite V in V2; exact V2|rewrite V in V1; exact V1]. }
    destruct (call tbl (range_type ty isq) false name (SRange (elems (wc w)) b e) args) as [st' r| |] eqn:E.
    - destruct (call_wf _ _ _ _ _ _ _ WV E) as [W' S].
      destruct st' as [| | | |snap' b' e']; try (simpl; split; [discriminate|exact WW]).
      simpl in S. subst snap'. split; [destruct isq; simpl; discriminate|].
      destruct isq; simpl; apply world_wf_intro; simpl; auto.
    - simpl. split; [discriminate|exact WW].
    - exfalso. eapply call_not_UB; eauto.
  Qed.

  Lemma wrun_safe : forall w s, world_wf k w = true -> snd (run w s) <> UB /\ world_wf k (fst (run w s)) = true.
  Proof.
    intros w s WW. destruct (world_wf_elim _ WW) as (M & W & V1 & V2). unfold run.
    destruct s as [[| | |] name args|c|key v|second v].
    - apply step_cont_safe; exact WW.
    - apply step_cont_safe; exact WW.
    - apply step_view_safe; exact WW.
    - apply step_view_safe; exact WW.
    - simpl. split; [destruct c; discriminate|].
      assert (F : view_wf w (Some (O, length (elems (wc w)))) = true).
      { unfold view_wf, view_state, wf. rewrite Nat.leb_refl. reflexivity. }
      destruct c; simpl; apply world_wf_intro; simpl; auto.
    - unfold wrun, table_call. destruct (call tbl ty false "[]" (wc w) [key]) as [st' r| |] eqn:E.
      + destruct (call_wf _ _ _ _ _ _ _ W E) as [W' S]. destruct (set_elem_wf st' key v W') as [W2 S2].
        simpl. split; [discriminate|]. apply drop_views_wf; [|exact W2].
        eapply same_shape_matches; [exact S2|]. eapply same_shape_matches; eauto.
      + simpl. split; [discriminate|exact WW].
      + exfalso. eapply call_not_UB; eauto.
    - unfold wrun, table_call.
      destruct (call tbl ty false (if second then "second"%string else "first"%string) (wc w) []) as [st' r| |] eqn:E.
      + destruct (call_wf _ _ _ _ _ _ _ W E) as [W' S].
        destruct st' as [| | |a b|]; try (simpl; split; [discriminate|exact WW]).
        simpl. split; [discriminate|].
        assert (M' : state_matches k (SPair a b) = true) by (eapply same_shape_matches; eauto).
        apply drop_views_wf; [|destruct second; reflexivity].
        destruct second; destruct k; simpl in *; auto.
      + simpl. split; [discriminate|exact WW].
      + exfalso. eapply call_not_UB; eauto.
  Qed.

  Theorem wrun_all_safe : forall steps w, world_wf k w = true ->
    exists w', wrun_all (table_call tbl) (table_keeps tbl) ty k w steps = Some w' /\ world_wf k w' = true.
  Proof.
    induction steps as [|s steps IH]; intros w WW; simpl.
    - eauto.
    - destruct (wrun_safe w s WW) as [NU WW']. unfold run in *.
      destruct (wrun (table_call tbl) (table_keeps tbl) ty k w s) as [w1 o]. simpl in *.
      destruct o; [apply IH; exact WW' | apply IH; exact WW' | exfalso; apply NU; reflexivity].
  Qed.
End WorldSafe.

Lemma init_world_wf : forall k, world_wf k (init_world k) = true.
Proof. intros []; reflexivity. Qed.


(* ------------------------------------------------------------------ what the string searches compute *)
Lemma prefix_eqb_spec : forall f s, prefix_eqb f s = true <-> firstn (length f) s = f.
Proof.
  induction f as [|a f IH]; intros [|b s]; simpl; split; intro H; try reflexivity; try discriminate.
  - apply andb_true_iff in H as [H1 H2]. apply N.eqb_eq in H1. apply IH in H2. subst. f_equal. exact H2.
  - injection H as H1 H2. rewrite H1, N.eqb_refl. simpl. apply IH. exact H2.
Qed.

Lemma first_idx_some : forall P s i, first_idx P s = Some i ->
  (i < length s)%nat /\ P (nth i s 0%N) = true /\ forall j, (j < i)%nat -> P (nth j s 0%N) = false.
Proof.
  induction s as [|c s IH]; simpl; intros i H; [discriminate|].
  destruct (P c) eqn:E.
  - inversion H; subst. split; [lia|]. split; [exact E|]. intros j Hj. lia.
  - destruct (first_idx P s) as [i'|]; [|discriminate]. inversion H; subst.
    destruct (IH i' eq_refl) as (L & Q & M). split; [lia|]. split; [exact Q|].
    intros [|j] Hj; [exact E|]. apply M. lia.
Qed.
Lemma first_idx_none : forall P s, first_idx P s = None -> forall j, (j < length s)%nat -> P (nth j s 0%N) = false.
Proof.
  induction s as [|c s IH]; simpl; intros H j Hj; [lia|].
  destruct (P c) eqn:E; [discriminate|]. destruct (first_idx P s); [discriminate|].
  destruct j; [exact E|]. apply IH; [reflexivity|lia].
Qed.
Lemma last_idx_some : forall P s i, last_idx P s = Some i ->
  (i < length s)%nat /\ P (nth i s 0%N) = true /\ forall j, (i < j < length s)%nat -> P (nth j s 0%N) = false.
Proof.
  induction s as [|c s IH]; simpl; intros i H; [discriminate|].
  destruct (last_idx P s) as [i'|] eqn:L.
  - inversion H; subst. destruct (IH i' eq_refl) as (L1 & Q & M). split; [lia|]. split; [exact Q|].
    intros [|j] Hj; [lia|]. apply M. lia.
  - destruct (P c) eqn:E; [|discriminate]. inversion H; subst. split; [lia|]. split; [exact E|].
    intros [|j] Hj; [lia|]. clear IH H. revert j Hj. revert L. clear E. induction s as [|d s IH2]; simpl; intros L j Hj; [lia|].
    destruct (last_idx P s) eqn:L2; [discriminate|]. destruct (P d) eqn:E2; [discriminate|].
    destruct j; [exact E2|]. apply IH2; [reflexivity|lia].
Qed.
Lemma last_idx_none : forall P s, last_idx P s = None -> forall j, (j < length s)%nat -> P (nth j s 0%N) = false.
Proof.
  induction s as [|c s IH]; simpl; intros H j Hj; [lia|].
  destruct (last_idx P s); [discriminate|]. destruct (P c) eqn:E; [discriminate|].
  destruct j; [exact E|]. apply IH; [reflexivity|lia].
Qed.

Lemma find_first_some : forall f s i, find_first f s = Some i ->
  (i <= length s)%nat /\ prefix_eqb f (skipn i s) = true /\ forall j, (j < i)%nat -> prefix_eqb f (skipn j s) = false.
Proof.
  induction s as [|c s IH]; intros i H.
  - simpl in H. destruct (prefix_eqb f []) eqn:E; [|discriminate]. inversion H; subst.
    split; [simpl; lia|]. split; [exact E|]. intros j Hj; lia.
  - simpl in H. destruct (prefix_eqb f (c :: s)) eqn:E.
    + inversion H; subst. split; [simpl; lia|]. split; [exact E|]. intros j Hj; lia.
    + destruct (find_first f s) as [i'|]; [|discriminate]. inversion H; subst.
      destruct (IH i' eq_refl) as (L & Q & M). split; [simpl; lia|]. split; [exact Q|].
      intros [|j] Hj; [exact E|]. apply M. lia.
Qed.
Lemma find_first_none : forall f s, find_first f s = None -> forall j, (j <= length s)%nat -> prefix_eqb f (skipn j s) = false.
Proof.
  induction s as [|c s IH]; intros H j Hj.
  - simpl in H. destruct (prefix_eqb f []) eqn:E; [discriminate|]. destruct j; exact E.
  - simpl in H. destruct (prefix_eqb f (c :: s)) eqn:E; [discriminate|].
    destruct (find_first f s); [discriminate|]. destruct j; [exact E|]. simpl. apply IH; [reflexivity|simpl in Hj; lia].
Qed.
Lemma find_last_none : forall f s, find_last f s = None -> forall j, (j <= length s)%nat -> prefix_eqb f (skipn j s) = false.
Proof.
  induction s as [|c s IH]; intros H j Hj.
  - simpl in H. destruct (prefix_eqb f []) eqn:E; [discriminate|]. destruct j; exact E.
  - simpl in H. destruct (find_last f s); [discriminate|].
    destruct (prefix_eqb f (c :: s)) eqn:E; [discriminate|].
    destruct j; [exact E|]. simpl. apply IH; [reflexivity|simpl in Hj; lia].
Qed.
Lemma find_last_some : forall f s i, find_last f s = Some i ->
  (i <= length s)%nat /\ prefix_eqb f (skipn i s) = true /\ forall j, (i < j <= length s)%nat -> prefix_eqb f (skipn j s) = false.
Proof.
  induction s as [|c s IH]; intros i H.
  - simpl in H. destruct (prefix_eqb f []) eqn:E; [|discriminate]. inversion H; subst.
    split; [simpl; lia|]. split; [exact E|]. simpl. intros j Hj; lia.
  - simpl in H. destruct (find_last f s) as [i'|] eqn:L.
    + inversion H; subst. destruct (IH i' eq_refl) as (L1 & Q & M). split; [simpl; lia|]. split; [exact Q|].
      intros [|j] Hj; [lia|]. simpl. apply M. simpl in Hj. lia.
    + destruct (prefix_eqb f (c :: s)) eqn:E; [|discriminate]. inversion H; subst.
      split; [simpl; lia|]. split; [exact E|]. intros [|j] Hj; [lia|]. simpl.
      eapply find_last_none; [exact L|]. simpl in Hj. lia.
Qed.

Lemma skipn_skipn' : forall A (l : list A) a b, skipn a (skipn b l) = skipn (b + a) l.
Proof. intros A l a b. revert l. induction b; intro l; simpl; [reflexivity|]. destruct l; [destruct a; reflexivity|apply IHb]. Qed.

(* basic_string::find(f, pos): npos when no occurrence starts at or after pos, otherwise the least such start *)
Theorem str_find_spec : forall s f pos, 0 <= pos ->
  (str_find s f pos = npos /\ forall j, pos <= j <= zlen s -> prefix_eqb f (skipn (Z.to_nat j) s) = false)
  \/ (pos <= str_find s f pos <= zlen s /\ prefix_eqb f (skipn (Z.to_nat (str_find s f pos)) s) = true
      /\ forall j, pos <= j < str_find s f pos -> prefix_eqb f (skipn (Z.to_nat j) s) = false).
Proof.
  intros s f pos Hp. unfold str_find. destruct (zlen s <? pos) eqn:E.
  - left. split; [reflexivity|]. intros j Hj. apply Z.ltb_lt in E. lia.
  - apply Z.ltb_ge in E. unfold zlen in *.
    destruct (find_first f (skipn (Z.to_nat pos) s)) as [i|] eqn:F; unfold pos_result.
    + right. destruct (find_first_some _ _ _ F) as (L & Q & M). rewrite skipn_length in L.
      rewrite skipn_skipn' in Q. split; [lia|]. split.
      * replace (Z.to_nat (pos + Z.of_nat i)) with (Z.to_nat pos + i)%nat by lia. exact Q.
      * intros j Hj. specialize (M (Z.to_nat j - Z.to_nat pos)%nat ltac:(lia)). rewrite skipn_skipn' in M.
        replace (Z.to_nat pos + (Z.to_nat j - Z.to_nat pos))%nat with (Z.to_nat j) in M by lia. exact M.
    + left. split; [reflexivity|]. intros j Hj.
      pose proof (find_first_none _ _ F (Z.to_nat j - Z.to_nat pos)%nat) as M. rewrite skipn_length, skipn_skipn' in M.
      replace (Z.to_nat pos + (Z.to_nat j - Z.to_nat pos))%nat with (Z.to_nat j) in M by lia. apply M. lia.
Qed.

(* find_first_of / find_first_not_of: npos when no byte at or after pos satisfies P, otherwise the least such index *)
Theorem str_first_of_spec : forall P s pos, 0 <= pos ->
  (str_first_of P s pos = npos /\ forall j, pos <= j < zlen s -> P (nth (Z.to_nat j) s 0%N) = false)
  \/ (pos <= str_first_of P s pos < zlen s /\ P (nth (Z.to_nat (str_first_of P s pos)) s 0%N) = true
      /\ forall j, pos <= j < str_first_of P s pos -> P (nth (Z.to_nat j) s 0%N) = false).
Proof.
  intros P s pos Hp. unfold str_first_of. destruct (zlen s <=? pos) eqn:E.
  - left. split; [reflexivity|]. intros j Hj. apply Z.leb_le in E. lia.
  - apply Z.leb_gt in E. unfold zlen in *.
    assert (NS : forall j, nth j (skipn (Z.to_nat pos) s) 0%N = nth (Z.to_nat pos + j) s 0%N).
    { intro j. rewrite <- (firstn_skipn (Z.to_nat pos) s) at 2. rewrite app_nth2; rewrite firstn_length; [|lia].
      f_equal. lia. }
    destruct (first_idx P (skipn (Z.to_nat pos) s)) as [i|] eqn:F; unfold pos_result.
    + right. destruct (first_idx_some _ _ _ F) as (L & Q & M). rewrite skipn_length in L. rewrite NS in Q.
      split; [lia|]. split.
      * replace (Z.to_nat (pos + Z.of_nat i)) with (Z.to_nat pos + i)%nat by lia. exact Q.
      * intros j Hj. specialize (M (Z.to_nat j - Z.to_nat pos)%nat ltac:(lia)). rewrite NS in M.
        replace (Z.to_nat pos + (Z.to_nat j - Z.to_nat pos))%nat with (Z.to_nat j) in M by lia. exact M.
    + left. split; [reflexivity|]. intros j Hj.
      pose proof (first_idx_none _ _ F (Z.to_nat j - Z.to_nat pos)%nat) as M. rewrite skipn_length, NS in M.
      replace (Z.to_nat pos + (Z.to_nat j - Z.to_nat pos))%nat with (Z.to_nat j) in M by lia. apply M. lia.
Qed.

(* find_last_of / find_last_not_of: the greatest index <= pos (and < size) whose byte satisfies P, npos when there is none *)
Theorem str_last_of_spec : forall P s pos, 0 <= pos ->
  (str_last_of P s pos = npos /\ forall j, 0 <= j <= pos -> j < zlen s -> P (nth (Z.to_nat j) s 0%N) = false)
  \/ (0 <= str_last_of P s pos <= pos /\ str_last_of P s pos < zlen s /\ P (nth (Z.to_nat (str_last_of P s pos)) s 0%N) = true
      /\ forall j, str_last_of P s pos < j <= pos -> j < zlen s -> P (nth (Z.to_nat j) s 0%N) = false).
Proof.
  intros P s pos Hp. unfold str_last_of. unfold zlen in *.
  set (n := Z.to_nat (Z.min (pos + 1) (Z.of_nat (length s)))).
  assert (Hn : (n <= length s)%nat) by (unfold n; lia).
  assert (NF : forall j, (j < n)%nat -> nth j (firstn n s) 0%N = nth j s 0%N).
  { intros j Hj. rewrite <- (firstn_skipn n s) at 2. rewrite app_nth1; [reflexivity|]. rewrite firstn_length. lia. }
  destruct (last_idx P (firstn n s)) as [i|] eqn:F; unfold pos_result.
  - right. destruct (last_idx_some _ _ _ F) as (L & Q & M). rewrite firstn_length in L, M.
    rewrite NF in Q by lia. split; [unfold n in L; lia|]. split; [lia|]. split.
    + replace (Z.to_nat (0 + Z.of_nat i)) with i by lia. exact Q.
    + intros j Hj Hl. specialize (M (Z.to_nat j) ltac:(unfold n in *; lia)). rewrite NF in M by (unfold n; lia). exact M.
  - left. split; [reflexivity|]. intros j Hj Hl.
    pose proof (last_idx_none _ _ F (Z.to_nat j)) as M. rewrite firstn_length in M.
    rewrite NF in M by (unfold n; lia). apply M. unfold n. lia.
Qed.
