(* C17 — I/O glue shared by the executable specification (PreludeSpecRun.v) and the executable
   mechanism model (PreludeRun.v): the value universe of the correspondence check, the callback menu,
   the case-line parser and the canonical observation printer.  Independent of gen/.
   Nothing here is part of a property statement.

   case line   :  <fn> <callback names...> <values in prefix notation...>
   values      :  I<int>  D<int>(the double int.0)  S<text, _ for space>  C<char code>  B0|B1  L<n> v1..vn  P a b
   observation :  R=<result> T=<callback trace> IN=<by-reference inputs afterwards>     or  ERR(guard|range|fuel)  or NOSPEC *)
From Coq Require Import ZArith NArith List Bool String Ascii.
From ChaiV Require Import StrUtil PreludeDefs.
Import ListNotations.
Local Open Scope string_scope.
Local Open Scope Z_scope.

Inductive val := VI (z : Z) | VD (z : Z) | VS (s : string) | VC (c : ascii) | VB (b : bool) | VU
               | VL (l : list val) | VP (a b : val).

(* ---- parsing (prefix notation, fuel = number of tokens) *)
Definition tail_str (s : string) : string := match s with String _ r => r | EmptyString => EmptyString end.
Definition head_chr (s : string) : ascii := match s with String c _ => c | EmptyString => "000"%char end.
(* token text -> string:  _ space, ~ tab, | newline, ^ carriage return;  and back for printing *)
Definition unus_chr (c : ascii) : ascii :=
  if Ascii.eqb c "_" then " "%char else if Ascii.eqb c "~" then ascii_of_nat 9
  else if Ascii.eqb c "|" then ascii_of_nat 10 else if Ascii.eqb c "^" then ascii_of_nat 13 else c.
Definition esc_chr (c : ascii) : ascii :=
  if Ascii.eqb c (ascii_of_nat 9) then "~"%char else if Ascii.eqb c (ascii_of_nat 10) then "|"%char
  else if Ascii.eqb c (ascii_of_nat 13) then "^"%char else c.
Fixpoint unus (s : string) : string :=
  match s with EmptyString => EmptyString | String c r => String (unus_chr c) (unus r) end.
Fixpoint esc (s : string) : string :=
  match s with EmptyString => EmptyString | String c r => String (esc_chr c) (esc r) end.

Fixpoint parse_val (fuel : nat) (toks : list string) : option (val * list string) :=
  match fuel, toks with
  | S f, t :: rest =>
      let body := tail_str t in
      let parse_n := fix parse_n (n : nat) (toks : list string) : option (list val * list string) :=
        match n with
        | O => Some ([], toks)
        | S n' => match parse_val f toks with
                  | Some (v, r) => match parse_n n' r with Some (vs, r') => Some (v :: vs, r') | None => None end
                  | None => None
                  end
        end in
      match head_chr t with
      | "I"%char => option_map (fun z => (VI z, rest)) (z_of_dec body)
      | "D"%char => option_map (fun z => (VD z, rest)) (z_of_dec body)
      | "S"%char => Some (VS (unus body), rest)
      | "C"%char => option_map (fun z => (VC (ascii_of_N (Z.to_N z)), rest)) (z_of_dec body)
      | "B"%char => Some (VB (String.eqb body "1"), rest)
      | "L"%char => match z_of_dec body with
                    | Some n => option_map (fun p => (VL (fst p), snd p)) (parse_n (Z.to_nat n) rest)
                    | None => None
                    end
      | "P"%char => match parse_n 2%nat rest with
                    | Some ([a; b], r) => Some (VP a b, r)
                    | _ => None
                    end
      | _ => None
      end
  | _, _ => None
  end.

Fixpoint parse_vals (fuel : nat) (toks : list string) : option (list val) :=
  match toks with
  | [] => Some []
  | _ => match fuel with
         | O => None
         | S f => match parse_val (S (List.length toks)) toks with
                  | Some (v, r) => option_map (cons v) (parse_vals f r)
                  | None => None
                  end
         end
  end.

(* ---- printing *)
Definition us (s : string) : string := s.
Fixpoint show (v : val) : string :=
  match v with
  | VI z => dec_of_z z
  | VD z => "d" ++ dec_of_z z
  | VS s => """" ++ esc s ++ """"
  | VC c => "'" ++ String (esc_chr c) "" ++ "'"
  | VB b => if b then "true" else "false"
  | VU => "-"
  | VL l => "[" ++ StrUtil.join "," (map show l) ++ "]"
  | VP a b => "<" ++ show a ++ "," ++ show b ++ ">"
  end.

Definition show_err (e : err) := match e with RangeEmpty => "ERR(range)" | GuardFailed => "ERR(guard)" end.
Definition show_obs (m : M val (val * list val)) : string :=
  match snd m with
  | Ok (r, ins) => "R=" ++ show r ++ " T=" ++ show (VL (fst m)) ++ " IN=" ++ show (VL ins)
  | Err e => show_err e ++ " T=" ++ show (VL (fst m))
  | OutOfFuel => "ERR(fuel)"
  end.

(* ---- the element operations of the value universe *)
Definition is_num v := match v with VI _ | VD _ => true | _ => false end.
Definition num_of v := match v with VI z | VD z => z | _ => 0 end.
Definition v_eq_exists (a b : val) : bool :=
  match a, b with
  | (VI _ | VD _), (VI _ | VD _) => true
  | VS _, VS _ => true | VC _, VC _ => true | VB _, VB _ => true
  | _, _ => false
  end.
Definition v_eq (a b : val) : bool :=
  match a, b with
  | (VI x | VD x), (VI y | VD y) => x =? y
  | VS x, VS y => String.eqb x y
  | VC x, VC y => Ascii.eqb x y
  | VB x, VB y => Bool.eqb x y
  | _, _ => false
  end.
(* int + double and double + double on integer-valued doubles (exact below 2^53) *)
Definition v_add (a b : val) : val := VD (num_of a + num_of b).
Definition v_mul (a b : val) : val := VD (num_of a * num_of b).
Definition atom_to_string (v : val) : string :=
  match v with
  | VI z => dec_of_z z | VS s => s | VC c => String c "" | VB b => if b then "true" else "false"
  | _ => "?"
  end.
Definition mk_ops (ts : val -> string) : Ops val :=
  {| op_eq_exists := v_eq_exists; op_eq := v_eq; op_add := v_add; op_mul := v_mul; lit_d := VD; op_to_string := ts |}.

(* ---- callback menu (pure parts; the harness versions also call the log function first) *)
Definition cb1 (name : string) (x : val) : val :=
  match x with
  | VI z => if String.eqb name "inc" then VI (z + 1) else if String.eqb name "dbl" then VI (z * 2)
            else if String.eqb name "neg" then VI (- z) else x
  | VS s => if String.eqb name "dup" then VS (s ++ s) else x
  | _ => x
  end.
Definition pred1 (name : string) (x : val) : bool :=
  if String.eqb name "tt" then true else if String.eqb name "ff" then false else
  match x with
  | VI z => if String.eqb name "pos" then z >? 0 else if String.eqb name "evenp" then Z.even z
            else if String.eqb name "lt2" then z <? 2 else if String.eqb name "ne0" then negb (z =? 0) else false
  | VS s => if String.eqb name "isa" then String.eqb s "a" else if String.eqb name "nonempty" then negb (String.eqb s "") else false
  | VC c => if String.eqb name "isa" then Ascii.eqb c "a" else false
  | _ => false
  end.
Definition cb2 (name : string) (a b : val) : val :=
  match a, b with
  | VI x, VI y => if String.eqb name "add" then VI (x + y) else if String.eqb name "sub" then VI (x - y)
                  else if String.eqb name "mul" then VI (x * y) else if String.eqb name "fst" then a else b
  | VS x, VS y => if String.eqb name "add" then VS (x ++ y) else if String.eqb name "fst" then a else b
  | _, _ => if String.eqb name "fst" then a else b
  end.
Definition cmp2 (name : string) (a b : val) : bool :=
  match a, b with
  | VI x, VI y => if String.eqb name "eq" then x =? y else if String.eqb name "lt" then x <? y
                  else if String.eqb name "ne" then negb (x =? y) else false
  | VS x, VS y => if String.eqb name "eq" then String.eqb x y else if String.eqb name "ne" then negb (String.eqb x y) else false
  | _, _ => false
  end.

(* ---- the interface both sides implement *)
Definition Obs := M val (val * list val).
Record Impl := {
  i_for_each : (val -> val) -> list val -> Obs;
  i_map : (val -> val) -> list val -> Obs;
  i_map3 : (val -> val) -> list val -> list val -> Obs;
  i_filter : (val -> bool) -> list val -> Obs;
  i_filter3 : (val -> bool) -> list val -> list val -> Obs;
  i_foldl : (val -> val -> val) -> val -> list val -> Obs;
  i_sum : list val -> Obs;
  i_product : list val -> Obs;
  i_any_of : (val -> bool) -> list val -> Obs;
  i_all_of : (val -> bool) -> list val -> Obs;
  i_contains3 : (val -> val -> bool) -> val -> list val -> Obs;
  i_contains : val -> list val -> Obs;
  i_find3 : (val -> val -> bool) -> val -> list val -> Obs;
  i_find : val -> list val -> Obs;
  i_take : Z -> list val -> Obs;
  i_take3 : Z -> list val -> list val -> Obs;
  i_drop : Z -> list val -> Obs;
  i_drop3 : Z -> list val -> list val -> Obs;
  i_take_while : (val -> bool) -> list val -> Obs;
  i_take_while3 : (val -> bool) -> list val -> list val -> Obs;
  i_drop_while : (val -> bool) -> list val -> Obs;
  i_drop_while3 : (val -> bool) -> list val -> list val -> Obs;
  i_zip_with : (val -> val -> val) -> list val -> list val -> Obs;
  i_zip_with4 : (val -> val -> val) -> list val -> list val -> list val -> Obs;
  i_zip : list val -> list val -> Obs;
  i_concat : list val -> list val -> Obs;
  i_join : string -> list val -> Obs;
  i_reverse : list val -> Obs;
  i_retro : list val -> Obs;
  i_retro_back : list val -> Obs;
  i_reduce : (val -> val -> val) -> list val -> Obs;
  i_generate_range : Z -> Z -> Obs;
  i_generate_range3 : Z -> Z -> list val -> Obs;
  i_max : Z -> Z -> Obs;
  i_min : Z -> Z -> Obs;
  i_odd : Z -> Obs;
  i_even : Z -> Obs;
  i_ltrim : list ascii -> Obs;
  i_rtrim : list ascii -> Obs;
  i_trim : list ascii -> Obs;
  i_to_string : val -> Obs
}.

Definition chars_of (s : string) : list val := map VC (list_ascii_of_string s).
Fixpoint string_of_chars (l : list val) : string :=
  match l with VC c :: r => String c (string_of_chars r) | _ => "" end.
(* a string used as a container: run on its characters, show string-typed parts as strings again *)
Definition restring (v : val) : val :=
  match v with VL ((VC _ :: _) as l) => VS (string_of_chars l) | VL [] => VS "" | _ => v end.
Definition as_string_container (o : Obs) : Obs :=
  (fst o, match snd o with Ok (r, ins) => Ok (restring r, map restring ins) | x => x end).

Definition all_int (l : list val) := forallb (fun v => match v with VI _ => true | _ => false end) l.

Definition dispatch (im : Impl) (fn : string) (cbs : list string) (args : list val) : option Obs :=
  let c1 := cb1 (nth 0 cbs "") in let p1 := pred1 (nth 0 cbs "") in
  let c2 := cb2 (nth 0 cbs "") in let m2 := cmp2 (nth 0 cbs "") in
  match fn, args with
  | "for_each", [VL l] => Some (i_for_each im c1 l)
  | "for_each", [VS s] => Some (as_string_container (i_for_each im c1 (chars_of s)))
  | "map", [VL l] => Some (i_map im c1 l)
  | "map3", [VL l; VL o] => Some (i_map3 im c1 l o)
  | "filter", [VL l] => Some (i_filter im p1 l)
  | "filter", [VS s] => Some (as_string_container (i_filter im p1 (chars_of s)))
  | "filter3", [VL l; VL o] => Some (i_filter3 im p1 l o)
  | "foldl", [VL l; z] => Some (i_foldl im c2 z l)
  | "sum", [VL l] => if all_int l then Some (i_sum im l) else None
  | "product", [VL l] => if all_int l then Some (i_product im l) else None
  | "any_of", [VL l] => Some (i_any_of im p1 l)
  | "all_of", [VL l] => Some (i_all_of im p1 l)
  | "contains3", [VL l; x] => Some (i_contains3 im m2 x l)
  | "contains", [VL l; x] => Some (i_contains im x l)
  | "find3", [VL l; x] => Some (i_find3 im m2 x l)
  | "find", [VL l; x] => Some (i_find im x l)
  | "take", [VL l; VI n] => Some (i_take im n l)
  | "take", [VS s; VI n] => Some (as_string_container (i_take im n (chars_of s)))
  | "take3", [VL l; VI n; VL o] => Some (i_take3 im n l o)
  | "drop", [VL l; VI n] => Some (i_drop im n l)
  | "drop", [VS s; VI n] => Some (as_string_container (i_drop im n (chars_of s)))
  | "drop3", [VL l; VI n; VL o] => Some (i_drop3 im n l o)
  | "take_while", [VL l] => Some (i_take_while im p1 l)
  | "take_while3", [VL l; VL o] => Some (i_take_while3 im p1 l o)
  | "drop_while", [VL l] => Some (i_drop_while im p1 l)
  | "drop_while", [VS s] => Some (as_string_container (i_drop_while im p1 (chars_of s)))
  | "drop_while3", [VL l; VL o] => Some (i_drop_while3 im p1 l o)
  | "zip_with", [VL x; VL y] => Some (i_zip_with im c2 x y)
  | "zip_with4", [VL x; VL y; VL o] => Some (i_zip_with4 im c2 x y o)
  | "zip", [VL x; VL y] => Some (i_zip im x y)
  | "concat", [VL x; VL y] => Some (i_concat im x y)
  | "concat", [VS x; VS y] => Some (as_string_container (i_concat im (chars_of x) (chars_of y)))
  | "join", [VL l; VS d] => Some (i_join im d l)
  | "reverse", [VL l] => Some (i_reverse im l)
  | "reverse", [VS s] => Some (as_string_container (i_reverse im (chars_of s)))
  | "retro", [VL l] => Some (i_retro im l)
  | "retro_back", [VL l] => Some (i_retro_back im l)
  | "reduce", [VL l] => Some (i_reduce im c2 l)
  | "generate_range", [VI x; VI y] => Some (i_generate_range im x y)
  | "inline_range", [VI x; VI y] => Some (i_generate_range im x y)
  | "generate_range3", [VI x; VI y; VL o] => Some (i_generate_range3 im x y o)
  | "max", [VI a; VI b] => Some (i_max im a b)
  | "min", [VI a; VI b] => Some (i_min im a b)
  | "odd", [VI x] => Some (i_odd im x)
  | "even", [VI x] => Some (i_even im x)
  | "ltrim", [VS s] => Some (i_ltrim im (list_ascii_of_string s))
  | "rtrim", [VS s] => Some (i_rtrim im (list_ascii_of_string s))
  | "trim", [VS s] => Some (i_trim im (list_ascii_of_string s))
  | "to_string", [v] => Some (i_to_string im v)
  | _, _ => None
  end.

Definition is_value_token (t : string) : bool :=
  match t with
  | String c _ => let n := N_of_ascii c in (65 <=? n)%N && (n <=? 90)%N
  | EmptyString => false
  end.

(* <fn> <lower-case callback names...> <value tokens (upper-case initial)...> *)
Definition run_with (im : Impl) (line : string) : string :=
  match words line with
  | fn :: rest =>
      let cbs := filter (fun t => negb (is_value_token t)) rest in
      let vts := filter is_value_token rest in
      match parse_vals (S (List.length vts)) vts with
      | Some args => match dispatch im fn cbs args with Some o => show_obs o | None => "NOSPEC" end
      | None => "BADCASE"
      end
  | [] => "BADCASE"
  end.

Definition chars_val (l : list ascii) : val := VS (string_of_list_ascii l).
