(* Lexical layer of ChaiScript_Parser (chaiscript_parser.hpp, `Position` .. `Eol`), ported line by line.

   HOW THE GRAMMAR LAYER BUILDS ON THIS FILE
   -----------------------------------------
   * State.  `state U = { pos : Position; depth : nat; user : U }`.  `pos` is m_position, `depth` is
     m_current_parse_depth (Depth_Counter), `user` is whatever the grammar layer needs in addition
     (m_match_stack, m_filename, ...): every scanner here is polymorphic in U and never touches `user`.
   * Monad.  `M U A = state U -> outcome (A * state U)` with `ret`, `bind` (notation `x <- m ;; k`),
     `throw_at reason` (eval_error at the current line/col), `with_depth` (Depth_Counter: ++depth, throw
     "Maximum parse depth exceeded" beyond `max_parse_depth`, --depth on normal exit).
     Outcomes: `Ok`, `Err reason line col` (chaiscript::exception::eval_error; line = col = 0 means the
     C++ throws the one-argument eval_error, i.e. no position and an empty file name), `Crash k`
     (the C++ would leave the buffer / leak a foreign exception / terminate) and `OutOfFuel`.
   * Loops.  `loop body x` runs `body` with fuel = remaining bytes + 1; `body : X -> M U (X * bool)`
     returns the new loop variables and "continue?".  Properties_Lex proves every loop of this file
     finishes within that fuel.  A grammar function is written the same way, e.g.
         Definition Arg_List_sep : M U bool := with_depth (_ <- SkipWS false ;; Char_ 44).
   * Names.  Each scanner has the C++ name: Symbol_, SkipComment, SkipWS, read_exponent_and_suffix,
     Float_, Hex_, IntSuffix_, Binary_, Num, Id_, Id, Quoted_String_, Quoted_String,
     Single_Quoted_String_, Single_Quoted_String, Char_, Char, Keyword_, Keyword, Eol_, Eol, Eos.
     (`Symbol` needs Operator_Matches and is left to the grammar layer.)
   * Tokens.  Num / Id / Single_Quoted_String return `option token` (None = the C++ returned false),
     Quoted_String returns `option qstring`; they do NOT push onto m_match_stack:
       - `TConstant text l1 c1 v` / `TId text l1 c1`: the grammar layer pushes
         make_node<Constant|Id>(text, l1, c1, value), whose end location is the current `pos`.
         `KFile`, `KFunc`, `KClass` are the three values Id() computes from m_filename / m_match_stack.
       - `qstring`: the literal segments and `${...}` texts in source order plus how the scan ended;
         the grammar layer replays Quoted_String's pushes (Constant, to_string Id, parse_instr_eval,
         Arg_List, Fun_Call, Binary "+") segment by segment and only then looks at `qs_final`,
         which keeps the C++ order of errors.
   * Proof rules.  LexProofs.v has the Hoare-style rules the lexer lemmas were proved with and that a grammar
     proof can reuse: `post r Q` (no Crash / OutOfFuel, Q on a normal result), `ext s s'` (same buffer, cursor not
     moved back, wf_pos, depth and user untouched), `fine m R` (m is safe from every wf state and R relates result,
     start and end state), `use_fine` (sequencing), `loop_ok` (invariant + strict progress of continuing
     iterations), `fine_with_depth`, and one `fine_<Scanner>` lemma per scanner (e.g. `fine_SkipComment`:
     returns true => the cursor moved forward).  LexLitProofs.v: `lexer_safe`, `fine_Quoted_String`, the
     Char_Parser facts.  LexNumProofs.v shows how to evaluate scanners on an explicit buffer (`bind_ok`, `run_skip_while`).
   * Tables.  The integer/float type ladders, keyword cases, reserved words and alphabets are
     *parameters* here (records `int_tables`, `kw_tables`, `alphabets`); LexRun/LexTheorems instantiate
     them with the tables regenerated from the source (Gen/G_IntLadder.v, Gen/G_Keywords.v). *)
From Coq Require Import ZArith NArith List Bool String Floats.SpecFloat.
From ChaiV Require Import NumDefs.
Import ListNotations.
Local Open Scope Z_scope.

(* ------------------------------------------------------------------ Position *)
Record Position := mkPos { buf : list N; idx : nat; line : Z; col : Z; last_col : Z }.

Definition pos_begin (b : list N) : Position := mkPos b 0 1 1 1.
Definition has_more (p : Position) : bool := Nat.ltb (idx p) (List.length (buf p)).
Definition remaining (p : Position) : nat := (List.length (buf p) - idx p)%nat.
(* operator*: the byte under the cursor, 0 at the end *)
Definition deref (p : Position) : N := if has_more p then nth (idx p) (buf p) 0%N else 0%N.
(* file_pos[k]: a raw read, not bounds-checked by the C++ *)
Definition raw_at (p : Position) (k : nat) : option N := nth_error (buf p) (idx p + k).

Definition NL : N := 10%N.
Definition CR : N := 13%N.

Definition pos_inc (p : Position) : Position :=
  if has_more p then
    if N.eqb (nth (idx p) (buf p) 0%N) NL
    then mkPos (buf p) (S (idx p)) (line p + 1) 1 (col p)
    else mkPos (buf p) (S (idx p)) (line p) (col p + 1) (last_col p)
  else p.

(* operator--: NOT bounds-checked; None = the C++ moves before `begin` *)
Definition pos_dec (p : Position) : option Position :=
  match idx p with
  | O => None
  | S i =>
      if N.eqb (nth i (buf p) 0%N) NL
      then Some (mkPos (buf p) i (line p - 1) (last_col p) (last_col p))
      else Some (mkPos (buf p) i (line p) (col p - 1) (last_col p))
  end.

Fixpoint pos_add (p : Position) (n : nat) : Position :=
  match n with O => p | S k => pos_add (pos_inc p) k end.
Fixpoint pos_sub (p : Position) (n : nat) : option Position :=
  match n with O => Some p | S k => match pos_dec p with Some q => pos_sub q k | None => None end end.

Definition pos_eqb (a b : Position) : bool := Nat.eqb (idx a) (idx b).
(* Position::str(begin, end) *)
Definition pos_str (a b : Position) : list N := firstn (idx b - idx a) (skipn (idx a) (buf a)).

(* ------------------------------------------------------------------ outcomes, state, monad *)
Inductive crash := OOB_dec | OOB_read | Foreign_out_of_range | Foreign_invalid_argument | Terminate.
Inductive outcome (A : Type) :=
| Ok (a : A)
| Err (reason : string) (l c : Z)
| Crash (k : crash)
| OutOfFuel.
Arguments Ok {A} a.
Arguments Err {A} reason l c.
Arguments Crash {A} k.
Arguments OutOfFuel {A}.

Record state (U : Type) := mkState { pos : Position; depth : nat; user : U }.
Arguments mkState {U} pos depth user.
Arguments pos {U} s.
Arguments depth {U} s.
Arguments user {U} s.

Definition M (U A : Type) := state U -> outcome (A * state U).
Definition max_parse_depth : nat := 512.

Section Lexer.
  Context {U : Type}.
  Local Notation ST := (state U).

  Definition ret {A} (a : A) : M U A := fun s => Ok (a, s).
  Definition bind {A B} (m : M U A) (k : A -> M U B) : M U B :=
    fun s => match m s with
             | Ok (a, s') => k a s'
             | Err r l c => Err r l c
             | Crash c => Crash c
             | OutOfFuel => OutOfFuel
             end.
  Definition get_pos : M U Position := fun s => Ok (pos s, s).
  Definition set_pos (p : Position) : M U unit := fun s => Ok (tt, mkState p (depth s) (user s)).
  Definition throw_at {A} (reason : string) : M U A := fun s => Err reason (line (pos s)) (col (pos s)).
  Definition throw_pos {A} (reason : string) (l c : Z) : M U A := fun _ => Err reason l c.
  Definition crash_with {A} (k : crash) : M U A := fun _ => Crash k.
  Definition inc : M U unit := fun s => Ok (tt, mkState (pos_inc (pos s)) (depth s) (user s)).
  Definition dec : M U unit :=
    fun s => match pos_dec (pos s) with
             | Some p => Ok (tt, mkState p (depth s) (user s))
             | None => Crash OOB_dec
             end.
  Definition add_n (n : nat) : M U unit := fun s => Ok (tt, mkState (pos_add (pos s) n) (depth s) (user s)).
  Definition sub_n (n : nat) : M U unit :=
    fun s => match pos_sub (pos s) n with
             | Some p => Ok (tt, mkState p (depth s) (user s))
             | None => Crash OOB_dec
             end.
  Definition set_col (c : Z) : M U unit :=
    fun s => let p := pos s in Ok (tt, mkState (mkPos (buf p) (idx p) (line p) c (last_col p)) (depth s) (user s)).

  (* Depth_Counter dc{this}; *)
  Definition with_depth {A} (m : M U A) : M U A :=
    fun s =>
      let s1 := mkState (pos s) (S (depth s)) (user s) in
      if Nat.ltb max_parse_depth (depth s1)
      then Err "Maximum parse depth exceeded" (line (pos s)) (col (pos s))
      else match m s1 with
           | Ok (a, s2) => Ok (a, mkState (pos s2) (Nat.pred (depth s2)) (user s2))
           | o => o
           end.

  (* loops: body returns (new loop variables, continue?) *)
  Fixpoint while_ {X} (fuel : nat) (body : X -> M U (X * bool)) (x : X) : M U X :=
    match fuel with
    | O => fun _ => OutOfFuel
    | S f => bind (body x) (fun r => if snd r then while_ f body (fst r) else ret (fst r))
    end.
  Definition loop {X} (body : X -> M U (X * bool)) (x : X) : M U X :=
    fun s => while_ (S (remaining (pos s))) body x s.
End Lexer.

Notation "x <- m ;; k" := (bind m (fun x => k)) (at level 61, m at next level, right associativity).
Notation "m ;;; k" := (bind m (fun _ => k)) (at level 61, right associativity).

(* ------------------------------------------------------------------ alphabets (regenerated from build_alphabet) *)
Record alphabets := mkAlpha {
  a_symbol : list N; a_keyword : list N; a_int : list N; a_float : list N; a_x : list N; a_hex : list N;
  a_b : list N; a_bin : list N; a_id : list N; a_white : list N; a_int_suffix : list N; a_float_suffix : list N }.
Definition in_alpha (a : list N) (c : N) : bool := existsb (N.eqb c) a.

Definition bytes_of_string (s : string) : list N :=
  (fix go s := match s with EmptyString => [] | String c r => Ascii.N_of_ascii c :: go r end) s.
Definition tolower (c : N) : N := if (65 <=? c)%N && (c <=? 90)%N then (c + 32)%N else c.

(* ------------------------------------------------------------------ tables regenerated from the source *)
Inductive ity := IInt | IUInt | ILong | IULong | ILLong | IULLong.
Definition ity_nty (t : ity) : nty :=
  match t with IInt => TI 32 true | IUInt => TI 32 false | ILong | ILLong => TI 64 true | IULong | IULLong => TI 64 false end.
Definition ity_eqb (a b : ity) : bool :=
  match a, b with IInt, IInt | IUInt, IUInt | ILong, ILong | IULong, IULong | ILLong, ILLong | IULLong, IULLong => true | _, _ => false end.
Definition ity_max (t : ity) : Z := match ity_nty t with TI w s => max_of w s | _ => 0 end.
Definition ity_min (t : ity) : Z := match ity_nty t with TI w s => min_of w s | _ => 0 end.
Definition ity_cast (t : ity) (z : Z) : Z := match ity_nty t with TI w s => wrap w s z | _ => z end.

Inductive flag := F_unsigned | F_long | F_longlong | F_float.
(* conditions of the `if / else if` ladders of buildInt / buildFloat, as written *)
Inductive cond :=
| CTrue | CNot (c : cond) | CAnd (a b : cond) | COr (a b : cond)
| CFlag (f : flag)
| CBaseNe (b : Z)                 (* base != b *)
| CGeMin (t : ity)                (* u >= std::numeric_limits<t>::min() *)
| CLeMax (t : ity) (off : Z).     (* u <= std::numeric_limits<t>::max() + off *)
(* the suffix scans: `if (val == a || val == b) { action } else if ... else break` *)
Inductive suffix_action :=
| SA_unsigned       (* unsigned_ = true *)
| SA_long           (* if (long_) longlong_ = true; long_ = true *)
| SA_long_plain     (* long_ = true *)
| SA_float.         (* float_ = true *)

Record int_tables := mkIntTables {
  it_suffix : list (list N * suffix_action);
  it_signed : list (cond * ity);  it_signed_else : ity;       (* ladder over `auto u = std::stoll(...)` *)
  it_unsigned : list (cond * ity); it_unsigned_else : ity;    (* ladder over `auto u = std::stoull(...)` *)
  it_fallback : ity * Z;                                       (* const_var(std::numeric_limits<long long>::max()) *)
  ft_suffix : list (list N * suffix_action);
  ft_ladder : list (cond * fk); ft_else : fk }.

Inductive kwcase := KW_true | KW_false | KW_Infinity | KW_NaN | KW_LINE | KW_FILE | KW_FUNC | KW_CLASS | KW_placeholder.
Record kw_tables := mkKwTables {
  fnv_basis : N; fnv_prime : N;
  kw_spellings : list (list N);            (* keyword_spellings[] in Id() *)
  kw_cases : list (list N * kwcase);       (* case utility::hash("<label>"): what it builds *)
  rw_hashed : list (list N);               (* Name_Validator: the words whose hashes form the set *)
  rw_spellings : list (list N) }.          (* Name_Validator: spellings[] compared after the hash test *)

(* ------------------------------------------------------------------ FNV-1a (utility/hash.hpp) *)
Definition fnv_step (prime : N) (h c : N) : N :=
  (* `h ^ *begin`: the byte is a (signed) char, promoted to int and converted to uint32_t *)
  let v := if (128 <=? c)%N then (c + 4294967040)%N else c in
  ((N.lxor h v * prime) mod 4294967296)%N.
Definition fnv1a (basis prime : N) (s : list N) : N := fold_left (fnv_step prime) s basis.

(* ------------------------------------------------------------------ std::stoll / stoull / stoul ([string.conversions], strtoll) *)
Inductive sto_result := StoOk (z : Z) | StoInvalid | StoRange.
Definition digit_val (c : N) : option Z :=
  if (48 <=? c)%N && (c <=? 57)%N then Some (Z.of_N c - 48)
  else if (97 <=? c)%N && (c <=? 122)%N then Some (Z.of_N c - 87)
  else if (65 <=? c)%N && (c <=? 90)%N then Some (Z.of_N c - 55)
  else None.
Definition digit_in (base : Z) (c : N) : option Z :=
  match digit_val c with Some d => if d <? base then Some d else None | None => None end.
(* longest prefix of digits of the base: (number of digits, value) *)
Fixpoint take_digits (base : Z) (s : list N) (n : nat) (acc : Z) : nat * Z :=
  match s with
  | [] => (n, acc)
  | c :: r => match digit_in base c with Some d => take_digits base r (S n) (acc * base + d) | None => (n, acc) end
  end.
Definition c_isspace (c : N) : bool := (c =? 32)%N || ((9 <=? c)%N && (c <=? 13)%N).
Fixpoint drop_space (s : list N) : list N :=
  match s with c :: r => if c_isspace c then drop_space r else s | [] => [] end.
Definition strto (base : Z) (s : list N) : option (bool * Z) :=   (* None: no conversion; Some (negative, magnitude) *)
  let s1 := drop_space s in
  let '(neg, s2) := match s1 with
                     | c :: r => if (c =? 45)%N then (true, r) else if (c =? 43)%N then (false, r) else (false, s1)
                     | [] => (false, s1)
                     end in
  let s3 := match s2 with
            | z :: x :: d :: r =>
                if (z =? 48)%N && (base =? 16) && ((x =? 120)%N || (x =? 88)%N) && (match digit_in 16 d with Some _ => true | None => false end)
                then d :: r else s2
            | _ => s2
            end in
  match take_digits base s3 0 0 with
  | (O, _) => None
  | (_, v) => Some (neg, v)
  end.
Definition stoll (s : list N) (base : Z) : sto_result :=
  match strto base s with
  | None => StoInvalid
  | Some (neg, v) => let z := if neg then - v else v in
                     if (- 2 ^ 63 <=? z) && (z <=? 2 ^ 63 - 1) then StoOk z else StoRange
  end.
Definition stoull (s : list N) (base : Z) : sto_result :=
  match strto base s with
  | None => StoInvalid
  | Some (neg, v) => if v <=? 2 ^ 64 - 1 then StoOk (if neg then (- v) mod 2 ^ 64 else v) else StoRange
  end.
Definition stoul := stoull.   (* LP64: unsigned long is 64 bits wide *)

(* ------------------------------------------------------------------ buildInt / buildFloat over the regenerated ladders *)
Record flags := mkFlags { fl_unsigned : bool; fl_long : bool; fl_longlong : bool; fl_float : bool }.
Definition no_flags := mkFlags false false false false.
Definition apply_action (a : suffix_action) (f : flags) : flags :=
  match a with
  | SA_unsigned => mkFlags true (fl_long f) (fl_longlong f) (fl_float f)
  | SA_long => mkFlags (fl_unsigned f) true (fl_long f || fl_longlong f) (fl_float f)
  | SA_long_plain => mkFlags (fl_unsigned f) true (fl_longlong f) (fl_float f)
  | SA_float => mkFlags (fl_unsigned f) (fl_long f) (fl_longlong f) true
  end.
Definition suffix_rule (rules : list (list N * suffix_action)) (c : N) : option suffix_action :=
  match find (fun r => in_alpha (fst r) c) rules with Some r => Some (snd r) | None => None end.
(* `for (; i > 0; --i) { val = t_val[i-1]; ... else break; }` on the reversed text: (flags, i) *)
Fixpoint scan_suffix (rules : list (list N * suffix_action)) (rev_text : list N) (f : flags) : flags * nat :=
  match rev_text with
  | [] => (f, O)
  | c :: r => match suffix_rule rules c with
              | Some a => scan_suffix rules r (apply_action a f)
              | None => (f, List.length rev_text)
              end
  end.

Definition flag_val (f : flags) (x : flag) : bool :=
  match x with F_unsigned => fl_unsigned f | F_long => fl_long f | F_longlong => fl_longlong f | F_float => fl_float f end.
(* `u OP bound` where u has type ut and bound type t: the usual arithmetic conversions apply *)
Definition conv_cmp (ut t : ity) (z : Z) : Z :=
  match common (ity_nty ut) (ity_nty t) with TI w s => wrap w s z | _ => z end.
Fixpoint eval_cond (c : cond) (f : flags) (base : Z) (ut : ity) (u : Z) : bool :=
  match c with
  | CTrue => true
  | CNot a => negb (eval_cond a f base ut u)
  | CAnd a b => eval_cond a f base ut u && eval_cond b f base ut u
  | COr a b => eval_cond a f base ut u || eval_cond b f base ut u
  | CFlag x => flag_val f x
  | CBaseNe b => negb (base =? b)
  | CGeMin t => conv_cmp ut t (ity_min t) <=? conv_cmp ut t u
  | CLeMax t off => conv_cmp ut t u <=? conv_cmp ut t (ity_max t + off)
  end.
Definition run_ladder {T} (l : list (cond * T)) (dflt : T) (f : flags) (base : Z) (ut : ity) (u : Z) : T :=
  match find (fun r => eval_cond (fst r) f base ut u) l with Some r => snd r | None => dflt end.

Inductive build_result := BI (t : ity) (z : Z) | BI_invalid.
Definition buildInt (T : int_tables) (base : Z) (t_val : list N) (prefixed : bool) : build_result :=
  let '(f, _) := scan_suffix (it_suffix T) (rev t_val) no_flags in
  let txt := if prefixed then skipn 2 t_val else t_val in
  match stoll txt base with
  | StoOk u => let t := run_ladder (it_signed T) (it_signed_else T) f base ILLong u in BI t (ity_cast t u)
  | StoInvalid => BI_invalid
  | StoRange =>
      match stoull txt base with
      | StoOk u => let t := run_ladder (it_unsigned T) (it_unsigned_else T) f base IULLong u in BI t (ity_cast t u)
      | StoInvalid => BI_invalid
      | StoRange => BI (fst (it_fallback T)) (snd (it_fallback T))
      end
  end.

(* parse_num<T> for floating T (chaiscript_defines.hpp), every digit operation in T's own format, the final scaling in long double.
   std::pow(T(10), y) is libm, not source: `pow10_model` is the CORRECTLY ROUNDED power, which libm only
   guarantees when 10^y is representable (see C16_float_value_partial and the tolerance test in p_C16). *)
Definition pow10_model (k : fk) (y : spec_float) : spec_float :=
  let p := fprec k in let e := femax k in
  match y with
  | S754_nan => S754_nan
  | S754_zero _ => f_of_Z k 1
  | S754_infinity false => S754_infinity false
  | S754_infinity true => S754_zero false
  | S754_finite s m ex =>
      match f_trunc y with
      | Some n =>
          if 6000 <? n then S754_infinity false
          else if n <? -6000 then S754_zero false
          else if 0 <=? n then binary_normalize p e (10 ^ n) 0 false
          else match 10 ^ (- n) with
               | Zpos d => SFdiv p e (S754_finite false 1 0) (S754_finite false d 0)
               | _ => S754_nan
               end
      | None => S754_nan
      end
  end.

Record pn_state := mkPn { pn_t : spec_float; pn_base : spec_float; pn_dp : spec_float; pn_exp : Z }.
Definition pn_step (k : fk) (st : pn_state) (c : N) : pn_state :=
  let p := fprec k in let e := femax k in
  let ten := f_of_Z k 10 in
  if (c =? 46)%N then mkPn (pn_t st) (pn_base st) ten (pn_exp st)
  else if (c =? 101)%N || (c =? 69)%N then mkPn (S754_zero false) (pn_t st) (S754_zero false) 1
  else if (c =? 45)%N then mkPn (pn_t st) (pn_base st) (pn_dp st) (-1)
  else if (48 <=? c)%N && (c <=? 57)%N then
    let d := f_of_Z k (Z.of_N c - 48) in
    match SFcompare (pn_dp st) ten with
    | Some Lt => mkPn (SFadd p e (SFmul p e (pn_t st) ten) d) (pn_base st) (pn_dp st) (pn_exp st)
    | _ => mkPn (SFadd p e (pn_t st) (SFdiv p e d (pn_dp st))) (pn_base st) (SFmul p e (pn_dp st) ten) (pn_exp st)
    end
  else st.
Definition parse_num_float (k : fk) (s : list N) : spec_float :=
  let z := S754_zero false in
  let st := fold_left (pn_step k) s (mkPn z z z 0) in
  if pn_exp st =? 0 then pn_t st
  else
    (* static_cast<T>(static_cast<long double>(base) * std::pow(static_cast<long double>(10), static_cast<long double>(t) * exponent)):
       the power and the product are formed in x87 long double, the result is converted to T *)
    let p80 := fprec F80 in let e80 := femax F80 in
    f_conv k (SFmul p80 e80 (f_conv F80 (pn_base st))
                    (pow10_model F80 (SFmul p80 e80 (f_conv F80 (pn_t st)) (f_of_Z F80 (pn_exp st))))).

Definition buildFloat (T : int_tables) (t_val : list N) : fk * spec_float :=
  let '(f, i) := scan_suffix (ft_suffix T) (rev t_val) no_flags in
  let k := run_ladder (ft_ladder T) (ft_else T) f 10 ILLong 0 in
  (k, parse_num_float k (firstn i t_val)).

(* ------------------------------------------------------------------ tokens *)
Inductive constval :=
| KInt (t : ity) (z : Z)
| KFloat (k : fk) (f : spec_float)
| KBool (b : bool)
| KChar (c : N)                 (* const_var(char(match.at(0))) *)
| KString (s : list N)
| KFile | KFunc | KClass        (* computed by Id() from m_filename / m_match_stack: left to the grammar layer *)
| KPlaceholder.
Inductive token :=
| TConstant (text : list N) (l1 c1 : Z) (v : constval)
| TId (text : list N) (l1 c1 : Z).

Inductive qs_end := QFin (tail : list N) | QErr (reason : string) (l c : Z).
Record qstring := mkQs { qs_l : Z; qs_c : Z; qs_segs : list (list N * list N); qs_final : qs_end }.
Inductive qs_result := QS (q : qstring) | QSCrash (k : crash) | QSFuel.

(* ------------------------------------------------------------------ Char_Parser<std::string> *)
Record cp := mkCp { cp_match : list N; cp_escaped : bool; cp_interpolated : bool; cp_marker : bool; cp_octal : bool; cp_hex : bool;
                    cp_usize : nat; cp_octs : list N; cp_hexs : list N }.
Definition cp_init := mkCp [] false false false false false 0 [] [].
Inductive cpres := CPOk (c : cp) | CPErr (reason : string) (positioned : bool) | CPCrash (k : crash).
Definition cp_bind (r : cpres) (k : cp -> cpres) : cpres := match r with CPOk c => k c | o => o end.
Definition byte_of (z : Z) : N := Z.to_N (z mod 256).

Definition process_hex (c : cp) : cpres :=
  let c' := mkCp (cp_match c) false (cp_interpolated c) (cp_marker c) (cp_octal c) false (cp_usize c) (cp_octs c) [] in
  match cp_hexs c with
  | [] => CPErr "Incomplete hex escape sequence" false
  | h => match stoll h 16 with
         | StoOk v => CPOk (mkCp (cp_match c ++ [byte_of v]) false (cp_interpolated c) (cp_marker c) (cp_octal c) false (cp_usize c) (cp_octs c) [])
         | StoInvalid => CPCrash Foreign_invalid_argument
         | StoRange => CPCrash Foreign_out_of_range
         end
  end.
Definition process_octal (c : cp) : cpres :=
  let fin v := if 255 <? v then CPErr "Octal escape sequence out of range" false
               else CPOk (mkCp (cp_match c ++ [byte_of v]) false (cp_interpolated c) (cp_marker c) false (cp_hex c) (cp_usize c) [] (cp_hexs c)) in
  match cp_octs c with
  | [] => fin 0
  | o => match stoll o 8 with
         | StoOk v => fin v
         | StoInvalid => CPCrash Foreign_invalid_argument
         | StoRange => CPCrash Foreign_out_of_range
         end
  end.
Definition utf8 (ch : Z) : option (list N) :=
  if ch <? 128 then Some [Z.to_N ch]
  else if ch <? 2048 then Some [Z.to_N (Z.lor 192 (Z.shiftr ch 6)); Z.to_N (Z.lor 128 (Z.land ch 63))]
  else if ch <? 65536 then Some [Z.to_N (Z.lor 224 (Z.shiftr ch 12)); Z.to_N (Z.lor 128 (Z.land (Z.shiftr ch 6) 63)); Z.to_N (Z.lor 128 (Z.land ch 63))]
  else if ch <? 2097152 then Some [Z.to_N (Z.lor 240 (Z.shiftr ch 18)); Z.to_N (Z.lor 128 (Z.land (Z.shiftr ch 12) 63));
                                   Z.to_N (Z.lor 128 (Z.land (Z.shiftr ch 6) 63)); Z.to_N (Z.lor 128 (Z.land ch 63))]
  else None.
Definition process_unicode (c : cp) : cpres :=
  let msize := List.length (cp_hexs c) in
  let usz := cp_usize c in
  let go (ch : Z) :=
    if negb (Nat.eqb usz msize) then CPErr "Incomplete unicode escape sequence" false
    else if Nat.eqb usz 4 && (55296 <=? ch) && (ch <=? 57343) then CPErr "Invalid 16 bit universal character" false
    else if Nat.eqb usz 8 && (((55296 <=? ch) && (ch <=? 57343)) || (1114111 <? ch)) then CPErr "Invalid 32 bit universal character" false
    else match utf8 ch with
         | Some bs => CPOk (mkCp (cp_match c ++ bs) false (cp_interpolated c) (cp_marker c) (cp_octal c) (cp_hex c) 0 (cp_octs c) [])
         | None => CPErr "Invalid 32 bit universal character" false
         end in
  match cp_hexs c with
  | [] => go 0
  | h => match stoul h 16 with
         | StoOk v => go (v mod 2 ^ 32)
         | StoInvalid => CPCrash Foreign_invalid_argument
         | StoRange => CPCrash Foreign_out_of_range
         end
  end.
Definition cp_finish (c : cp) : cpres :=
  cp_bind (if cp_octal c then process_octal c else CPOk c) (fun c =>
  cp_bind (if cp_hex c then process_hex c else CPOk c) (fun c =>
  if Nat.ltb 0 (cp_usize c) then process_unicode c else CPOk c)).

Definition is_octal_char (t : N) := (48 <=? t)%N && (t <=? 55)%N.
Definition is_hex_char (t : N) := ((48 <=? t)%N && (t <=? 57)%N) || ((97 <=? t)%N && (t <=? 102)%N) || ((65 <=? t)%N && (t <=? 70)%N).
Definition simple_escape (t : N) : option N :=
  match t with
  | 39%N => Some 39%N | 34%N => Some 34%N | 63%N => Some 63%N | 97%N => Some 7%N | 98%N => Some 8%N | 102%N => Some 12%N
  | 110%N => Some 10%N | 114%N => Some 13%N | 116%N => Some 9%N | 118%N => Some 11%N | 36%N => Some 36%N
  | _ => None
  end%N.
Definition cp_set_match c m := mkCp m (cp_escaped c) (cp_interpolated c) (cp_marker c) (cp_octal c) (cp_hex c) (cp_usize c) (cp_octs c) (cp_hexs c).
Definition cp_set_escaped c b := mkCp (cp_match c) b (cp_interpolated c) (cp_marker c) (cp_octal c) (cp_hex c) (cp_usize c) (cp_octs c) (cp_hexs c).
(* the part of parse() after the pending-escape prologue *)
Definition cp_plain (interp_allowed : bool) (c : cp) (t : N) : cpres :=
  if (t =? 92)%N then
    if cp_escaped c then CPOk (cp_set_escaped (cp_set_match c (cp_match c ++ [92%N])) false) else CPOk (cp_set_escaped c true)
  else if cp_escaped c then
    if is_octal_char t then CPOk (mkCp (cp_match c) true (cp_interpolated c) (cp_marker c) true (cp_hex c) (cp_usize c) (cp_octs c ++ [t]) (cp_hexs c))
    else if (t =? 120)%N then CPOk (mkCp (cp_match c) true (cp_interpolated c) (cp_marker c) (cp_octal c) true (cp_usize c) (cp_octs c) (cp_hexs c))
    else if (t =? 117)%N then CPOk (mkCp (cp_match c) true (cp_interpolated c) (cp_marker c) (cp_octal c) (cp_hex c) 4 (cp_octs c) (cp_hexs c))
    else if (t =? 85)%N then CPOk (mkCp (cp_match c) true (cp_interpolated c) (cp_marker c) (cp_octal c) (cp_hex c) 8 (cp_octs c) (cp_hexs c))
    else match simple_escape t with
         | Some b => CPOk (cp_set_escaped (cp_set_match c (cp_match c ++ [b])) false)
         | None => CPErr "Unknown escaped sequence in string" true
         end
  else if interp_allowed && (t =? 36)%N then
    CPOk (mkCp (cp_match c) (cp_escaped c) (cp_interpolated c) true (cp_octal c) (cp_hex c) (cp_usize c) (cp_octs c) (cp_hexs c))
  else CPOk (cp_set_match c (cp_match c ++ [t])).
Definition cp_parse (interp_allowed : bool) (c : cp) (t : N) : cpres :=
  if cp_octal c then
    if is_octal_char t then
      let c1 := mkCp (cp_match c) (cp_escaped c) (cp_interpolated c) (cp_marker c) true (cp_hex c) (cp_usize c) (cp_octs c ++ [t]) (cp_hexs c) in
      if Nat.eqb (List.length (cp_octs c1)) 3 then process_octal c1 else CPOk c1
    else cp_bind (process_octal c) (fun c => cp_plain interp_allowed c t)
  else if cp_hex c then
    if is_hex_char t then
      let c1 := mkCp (cp_match c) (cp_escaped c) (cp_interpolated c) (cp_marker c) (cp_octal c) true (cp_usize c) (cp_octs c) (cp_hexs c ++ [t]) in
      if Nat.eqb (List.length (cp_hexs c1)) 2 then process_hex c1 else CPOk c1
    else cp_bind (process_hex c) (fun c => cp_plain interp_allowed c t)
  else if Nat.ltb 0 (cp_usize c) then
    if is_hex_char t then
      let c1 := mkCp (cp_match c) (cp_escaped c) (cp_interpolated c) (cp_marker c) (cp_octal c) (cp_hex c) (cp_usize c) (cp_octs c) (cp_hexs c ++ [t]) in
      if Nat.eqb (List.length (cp_hexs c1)) (cp_usize c1) then process_unicode c1 else CPOk c1
    else cp_bind (process_unicode c) (fun c => cp_plain interp_allowed c t)
  else cp_plain interp_allowed c t.

Fixpoint cp_feed (interp_allowed : bool) (c : cp) (s : list N) : cpres :=
  match s with [] => CPOk c | t :: r => cp_bind (cp_parse interp_allowed c t) (fun c => cp_feed interp_allowed c r) end.
(* the body of Single_Quoted_String's block / of Quoted_String without markers: feed every byte, then the explicit finish() *)
Definition cp_run (interp_allowed : bool) (s : list N) : cpres :=
  cp_bind (cp_feed interp_allowed cp_init s) cp_finish.

(* Quoted_String's lambda over the bytes between the quotes (`s` runs from start+1 to end, `*end` is the closing quote) *)
Fixpoint split_brace_aux (s acc : list N) : list N * list N :=
  match s with [] => (acc, []) | c :: r => if (c =? 125)%N then (acc, s) else split_brace_aux r (acc ++ [c]) end.
Definition split_brace (s : list N) : list N * list N := split_brace_aux s [].
Fixpoint qs_scan (fuel : nat) (l c : Z) (cp0 : cp) (segs : list (list N * list N)) (s : list N) : qs_result :=
  match fuel with
  | O => QSFuel
  | S f =>
      let fail r (positioned : bool) := QS (mkQs l c segs (if positioned then QErr r l c else QErr r 0 0)) in
      match s with
      | [] =>
          match cp_finish cp0 with
          | CPOk c1 => QS (mkQs l c segs (QFin (if cp_marker c1 then cp_match c1 ++ [36%N] else cp_match c1)))
          | CPErr r _ => fail r true          (* finish() errors are rethrown with start.line/col *)
          | CPCrash k => QSCrash k
          end
      | t :: r =>
          if cp_marker cp0 then
            if (t =? 123)%N then
              let '(ev, rest) := split_brace r in
              match rest with
              | [] => fail "Unclosed in-string eval"%string true
              | _ :: rest' =>
                  qs_scan f l c (mkCp [] (cp_escaped cp0) true false (cp_octal cp0) (cp_hex cp0) (cp_usize cp0) (cp_octs cp0) (cp_hexs cp0))
                          (segs ++ [(cp_match cp0, ev)]) rest'
              end
            else
              qs_scan f l c (mkCp (cp_match cp0 ++ [36%N]) (cp_escaped cp0) (cp_interpolated cp0) false (cp_octal cp0) (cp_hex cp0)
                                  (cp_usize cp0) (cp_octs cp0) (cp_hexs cp0)) segs s
          else
            match cp_parse true cp0 t with
            | CPOk c1 => qs_scan f l c c1 segs r
            | CPErr rsn p => fail rsn p
            | CPCrash k => QSCrash k
            end
      end
  end.

(* ------------------------------------------------------------------ the scanners *)
Definition s_ml_begin : list N := [47; 42]%N.     (* "/*" *)
Definition s_ml_end : list N := [42; 47]%N.
Definition s_sl_comment : list N := [47; 47]%N.   (* "//" *)
Definition s_annotation : list N := [35]%N.       (* "#" *)
Definition s_cr_lf : list N := [13; 10]%N.

Definition string_of_bytes (l : list N) : string := fold_right (fun b acc => String (Ascii.ascii_of_N b) acc) EmptyString l.
Fixpoint has_coloncolon (s : list N) : bool :=
  match s with
  | 58%N :: ((58%N :: _) as r) => true
  | _ :: r => has_coloncolon r
  | [] => false
  end.
Definition bytes_eqb (a b : list N) : bool := if list_eq_dec N.eq_dec a b then true else false.
Definition mem_bytes (x : list N) (l : list (list N)) : bool := existsb (bytes_eqb x) l.

Section Scanners.
  Context {U : Type}.
  Variable A : alphabets.
  Variable T : int_tables.
  Variable K : kw_tables.
  Local Notation MM := (M U).

  Fixpoint sym_match (sym : list N) (p : Position) (k : nat) : option bool :=   (* None: file_pos[k] outside the buffer *)
    match sym with
    | [] => Some true
    | c :: r => match raw_at p k with
                | None => None
                | Some b => if N.eqb c b then sym_match r p (S k) else Some false
                end
    end.
  Definition Symbol_ (sym : list N) : MM bool :=
    p <- get_pos ;;
    if Nat.leb (List.length sym) (remaining p) then
      match sym_match sym p 0 with
      | None => crash_with OOB_read
      | Some true => add_n (List.length sym) ;;; ret true
      | Some false => ret false
      end
    else ret false.

  Definition Char_ (c : N) : MM bool :=
    p <- get_pos ;;
    if has_more p && N.eqb (deref p) c then inc ;;; ret true else ret false.

  Fixpoint kw_match (t : list N) (tmp : Position) : option Position :=
    match t with
    | [] => Some tmp
    | c :: r => if has_more tmp then (if N.eqb (deref tmp) c then kw_match r (pos_inc tmp) else None) else Some tmp
    end.
  Definition Keyword_ (t : list N) : MM bool :=
    p <- get_pos ;;
    if Nat.leb (List.length t) (remaining p) then
      match kw_match t p with
      | Some tmp => set_pos tmp ;;; ret true
      | None => ret false
      end
    else ret false.

  Definition Eol_ (t_eos : bool) : MM bool :=
    p <- get_pos ;;
    b <- (if has_more p then (b1 <- Symbol_ s_cr_lf ;; if b1 then ret true else Char_ NL) else ret false) ;;
    if b then set_col 1 ;;; ret true
    else p <- get_pos ;;
         if has_more p && negb t_eos then Char_ 59%N else ret false.

  Definition ml_comment_body (_ : unit) : MM (unit * bool) :=
    p <- get_pos ;;
    if has_more p then
      e <- Symbol_ s_ml_end ;;
      if e then ret (tt, false)
      else l <- Eol_ false ;; if l then ret (tt, true) else inc ;;; ret (tt, true)
    else ret (tt, false).
  Definition line_comment_body (_ : unit) : MM (unit * bool) :=
    p <- get_pos ;;
    if has_more p then
      c <- Symbol_ s_cr_lf ;;
      if c then sub_n 2 ;;; ret (tt, false)
      else n <- Char_ NL ;;
           if n then dec ;;; ret (tt, false)
           else inc ;;; ret (tt, true)
    else ret (tt, false).
  Definition SkipComment : MM bool :=
    b <- Symbol_ s_ml_begin ;;
    if b then loop ml_comment_body tt ;;; ret true
    else b <- Symbol_ s_sl_comment ;;
         if b then loop line_comment_body tt ;;; ret true
         else b <- Symbol_ s_annotation ;;
              if b then loop line_comment_body tt ;;; ret true
              else ret false.

  Definition skipws_body (skip_cr : bool) (retval : bool) : MM (bool * bool) :=
    p <- get_pos ;;
    if has_more p then
      let c := deref p in
      if (126 <? c)%N then throw_at "Illegal character"
      else
        let end_line := negb (c =? 0)%N && ((c =? NL)%N || ((c =? CR)%N && (deref (pos_add p 1) =? NL)%N)) in
        if in_alpha (a_white A) c || (skip_cr && end_line) then
          (if end_line && (c =? CR)%N then inc else ret tt) ;;; inc ;;; ret (true, true)
        else b <- SkipComment ;; if b then ret (true, true) else ret (retval, false)
    else ret (retval, false).
  Definition SkipWS (skip_cr : bool) : MM bool := loop (skipws_body skip_cr) false.

  (* while (has_more && char_in_alphabet( *m_position, a)) ++m_position; *)
  Definition skip_while_body (a : list N) (_ : unit) : MM (unit * bool) :=
    p <- get_pos ;;
    if has_more p && in_alpha a (deref p) then inc ;;; ret (tt, true) else ret (tt, false).
  Definition skip_while (a : list N) : MM unit := loop (skip_while_body a) tt.
  Definition at_alpha (a : list N) : MM bool := p <- get_pos ;; ret (has_more p && in_alpha a (deref p)).
  Definition at_char (f : N -> bool) : MM bool := p <- get_pos ;; ret (has_more p && f (deref p)).

  Definition read_exponent_and_suffix : MM bool :=
    e <- at_char (fun c => (tolower c =? 101)%N) ;;
    ok <- (if e then
             inc ;;;
             sg <- at_char (fun c => (c =? 45)%N || (c =? 43)%N) ;;
             (if sg then inc else ret tt) ;;;
             exponent_pos <- get_pos ;;
             skip_while (a_int A) ;;;
             p <- get_pos ;;
             ret (negb (pos_eqb p exponent_pos))
           else ret true) ;;
    if ok then skip_while (a_float_suffix A) ;;; ret true else ret false.

  Definition Float_ : MM bool :=
    f <- at_alpha (a_float A) ;;
    if f then
      skip_while (a_int A) ;;;
      e <- at_char (fun c => (tolower c =? 101)%N) ;;
      if e then read_exponent_and_suffix
      else d <- at_char (fun c => (c =? 46)%N) ;;
           if d then
             inc ;;;
             g <- at_alpha (a_int A) ;;
             if g then skip_while (a_int A) ;;; read_exponent_and_suffix
             else dec ;;; ret false
           else ret false
    else ret false.

  (* Hex_ and (since the suffix fix) Binary_ have the same shape: '0', a letter, digits, suffix letters *)
  Definition prefixed_ (letter digits : list N) : MM bool :=
    z <- at_char (fun c => (c =? 48)%N) ;;
    if z then
      inc ;;;
      x <- at_alpha letter ;;
      if x then
        inc ;;;
        h <- at_alpha digits ;;
        if h then skip_while digits ;;; skip_while (a_int_suffix A) ;;; ret true
        else dec ;;; ret false      (* one step back only: the position is left after the '0' *)
      else dec ;;; ret false
    else ret false.
  Definition Hex_ : MM bool := prefixed_ (a_x A) (a_hex A).
  Definition Binary_ : MM bool := prefixed_ (a_b A) (a_bin A).
  Definition IntSuffix_ : MM unit := skip_while (a_int_suffix A).

  Definition int_token (start : Position) (base : Z) (prefixed : bool) : MM (option token) :=
    p <- get_pos ;;
    let m := pos_str start p in
    match buildInt T base m prefixed with
    | BI t z => ret (Some (TConstant m (line start) (col start) (KInt t z)))
    | BI_invalid => set_pos start ;;; ret None     (* catch (const std::invalid_argument &) { m_position = start; return false; }  (fix 3bd5fe4) *)
    end.
  Definition Num : MM (option token) :=
    SkipWS false ;;;
    start <- get_pos ;;
    f <- at_alpha (a_float A) ;;
    if f then
      h <- Hex_ ;;
      if h then int_token start 16 true
      else b <- Binary_ ;;
           if b then int_token start 2 true
           else fl <- Float_ ;;
                if fl then
                  p <- get_pos ;;
                  let m := pos_str start p in
                  let '(k, v) := buildFloat T m in
                  ret (Some (TConstant m (line start) (col start) (KFloat k v)))
                else
                  (* not a floating literal; Float_ may have stopped inside a malformed one (`1.5e+`, `.1e`): the integer is read again
                     from the start, its digits and suffix only (fix 3bd5fe4) *)
                  set_pos start ;;;
                  skip_while (a_int A) ;;;
                  IntSuffix_ ;;;
                  p <- get_pos ;;
                  let m := pos_str start p in
                  match m with
                  | [] => ret None
                  | c :: _ => if (c =? 48)%N then int_token start 8 false else int_token start 10 false
                  end
    else ret None.

  Definition Eol : MM bool := with_depth (SkipWS false ;;; Eol_ false).
  Definition Eos : MM bool := with_depth (SkipWS false ;;; Eol_ true).
  Definition Char (c : N) : MM bool := with_depth (SkipWS false ;;; Char_ c).
  Definition Keyword (t : list N) : MM bool :=
    with_depth (SkipWS false ;;;
                start <- get_pos ;;
                r <- Keyword_ t ;;
                k <- at_alpha (a_keyword A) ;;
                if r && k then set_pos start ;;; ret false else ret r).

  Definition backtick_body (_ : unit) : MM (unit * bool) :=
    p <- get_pos ;;
    if has_more p && negb (deref p =? 96)%N then
      e <- Eol ;;
      if e then throw_at "Carriage return in identifier literal" else inc ;;; ret (tt, true)
    else ret (tt, false).
  Definition Id_ : MM bool :=
    i <- at_alpha (a_id A) ;;
    if i then skip_while (a_keyword A) ;;; ret true
    else q <- at_char (fun c => (c =? 96)%N) ;;
         if q then
           inc ;;;
           start <- get_pos ;;
           loop backtick_body tt ;;;
           p <- get_pos ;;
           if pos_eqb start p then throw_at "Missing contents of identifier literal"
           else if negb (has_more p) then throw_at "Incomplete identifier literal"
           else inc ;;; ret true
         else ret false.

  Definition is_reserved_word (s : list N) : bool :=
    let h := fnv1a (fnv_basis K) (fnv_prime K) in
    if existsb (fun w => N.eqb (h w) (h s)) (rw_hashed K) then mem_bytes s (rw_spellings K) else false.
  Definition valid_object_name (s : list N) : bool := negb (has_coloncolon s) && negb (is_reserved_word s).
  (* the hash Id() switches on *)
  Definition id_text_hash (text : list N) : N :=
    let h := fnv1a (fnv_basis K) (fnv_prime K) in
    if mem_bytes text (kw_spellings K) then h text else h [].
  Definition classify (text : list N) : option kwcase :=
    let h := fnv1a (fnv_basis K) (fnv_prime K) in
    match find (fun e => N.eqb (h (fst e)) (id_text_hash text)) (kw_cases K) with
    | Some e => Some (snd e)
    | None => None
    end.
  (* the recogniser as it was before the spelling comparison was added (fix 70706ab): the hash alone decides *)
  Definition classify_hash_only (text : list N) : option kwcase :=
    let h := fnv1a (fnv_basis K) (fnv_prime K) in
    match find (fun e => N.eqb (h (fst e)) (h text)) (kw_cases K) with Some e => Some (snd e) | None => None end.
  Definition is_reserved_hash_only (s : list N) : bool :=
    let h := fnv1a (fnv_basis K) (fnv_prime K) in existsb (fun w => N.eqb (h w) (h s)) (rw_hashed K).
  Definition kw_value (k : kwcase) (start : Position) : constval :=
    match k with
    | KW_true => KBool true | KW_false => KBool false
    | KW_Infinity => KFloat F64 (S754_infinity false) | KW_NaN => KFloat F64 S754_nan
    | KW_LINE => KInt IInt (line start)
    | KW_FILE => KFile | KW_FUNC => KFunc | KW_CLASS => KClass | KW_placeholder => KPlaceholder
    end.

  Definition Id (validate : bool) : MM (option token) :=
    SkipWS false ;;;
    start <- get_pos ;;
    b <- Id_ ;;
    if b then
      p <- get_pos ;;
      let text := pos_str start p in
      (if validate && negb (valid_object_name text)
       then throw_at (String.append "Invalid Object Name: " (string_of_bytes text)) else ret tt) ;;;
      match classify text with
      | Some k => ret (Some (TConstant text (line start) (col start) (kw_value k start)))
      | None =>
          if (deref start =? 96)%N then
            match pos_sub p 1 with
            | Some e => ret (Some (TId (pos_str (pos_add start 1) e) (line start) (col start)))
            | None => crash_with OOB_dec
            end
          else ret (Some (TId text (line start) (col start)))
      end
    else ret None.

  (* loop variables of Quoted_String_: prev_char, in_interpolation, in_quote *)
  Definition qs_body (v : N * Z * bool) : MM ((N * Z * bool) * bool) :=
    let '(prev_char, in_interp, in_quote) := v in
    p <- get_pos ;;
    if has_more p && (negb (deref p =? 34)%N || (0 <? in_interp) || (prev_char =? 92)%N) then
      e <- Eol_ false ;;
      if e then ret (v, true)
      else
        p <- get_pos ;;
        let c := deref p in
        let '(ii, iq) :=
          if (prev_char =? 36)%N && (c =? 123)%N then (in_interp + 1, in_quote)
          else if negb (prev_char =? 92)%N && (c =? 34)%N then (in_interp, negb in_quote)
          else if (c =? 125)%N && negb in_quote then (in_interp - 1, in_quote)
          else (in_interp, in_quote) in
        let pc := if (prev_char =? 92)%N then 0%N else c in
        inc ;;; ret ((pc, ii, iq), true)
    else ret (v, false).
  Definition Quoted_String_ : MM bool :=
    q <- at_char (fun c => (c =? 34)%N) ;;
    if q then
      inc ;;;
      loop qs_body (34%N, 0, false) ;;;
      p <- get_pos ;;
      if has_more p then inc ;;; ret true else throw_at "Unclosed quoted string"
    else ret false.

  Definition sqs_body (prev_char : N) : MM (N * bool) :=
    p <- get_pos ;;
    if has_more p && (negb (deref p =? 39)%N || (prev_char =? 92)%N) then
      e <- Eol_ false ;;
      if e then ret (prev_char, true)
      else p <- get_pos ;;
           let pc := if (prev_char =? 92)%N then 0%N else deref p in
           inc ;;; ret (pc, true)
    else ret (prev_char, false).
  Definition Single_Quoted_String_ : MM bool :=
    q <- at_char (fun c => (c =? 39)%N) ;;
    if q then
      inc ;;;
      loop sqs_body 39%N ;;;
      p <- get_pos ;;
      if has_more p then inc ;;; ret true else throw_at "Unclosed single-quoted string"
    else ret false.

  (* the bytes `s = start + 1 .. end = m_position - 1` *)
  Definition between (start : Position) : MM (list N) :=
    p <- get_pos ;;
    match pos_sub p 1 with
    | Some e => ret (pos_str (pos_add start 1) e)
    | None => crash_with OOB_dec
    end.

  Definition Quoted_String : MM (option qstring) :=
    with_depth (
      SkipWS false ;;;
      start <- get_pos ;;
      b <- Quoted_String_ ;;
      if b then
        content <- between start ;;
        match qs_scan (2 * List.length content + 2) (line start) (col start) cp_init [] content with
        | QS q => ret (Some q)
        | QSCrash k => crash_with k
        | QSFuel => (fun _ => OutOfFuel)
        end
      else ret None).

  Definition Single_Quoted_String : MM (option token) :=
    with_depth (
      SkipWS false ;;;
      start <- get_pos ;;
      b <- Single_Quoted_String_ ;;
      if b then
        content <- between start ;;
        match cp_feed false cp_init content with
        | CPCrash k => crash_with k
        | CPErr r positioned => if positioned then throw_pos r (line start) (col start) else throw_pos r 0 0
        | CPOk c1 =>
            match cp_finish c1 with
            | CPCrash k => crash_with k
            | CPErr r _ => throw_pos r (line start) (col start)
            | CPOk c2 =>
                match cp_match c2 with
                | [ch] => ret (Some (TConstant [ch] (line start) (col start) (KChar ch)))
                | _ => throw_at "Single-quoted strings must be 1 character long"
                end
            end
        end
      else ret None).
End Scanners.

(* ------------------------------------------------------------------ what line/col are supposed to mean (C20) *)
Definition count_nl (l : list N) : Z := fold_left (fun n x => if N.eqb x NL then n + 1 else n) l 0.
(* number of bytes since the last newline = distance from the start of the line *)
Definition since_nl (l : list N) : nat := fold_left (fun n x => if N.eqb x NL then O else S n) l O.
Definition before (p : Position) : list N := firstn (idx p) (buf p).
Definition wf_pos (p : Position) : Prop :=
  (idx p <= List.length (buf p))%nat /\ line p = 1 + count_nl (before p) /\ col p = 1 + Z.of_nat (since_nl (before p)).
