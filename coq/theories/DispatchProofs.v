(* C06 / C07 — proofs about the dispatch model (DispatchDefs). Nothing here depends on coq/gen: every lemma is
   stated for an arbitrary rule set R satisfying the computable condition [rules_ok R]; DispatchTheorems.v
   checks that condition on the regenerated table. *)
From Coq Require Import ZArith List Bool Arith Lia Permutation.
From ChaiV Require Import DispatchDefs.
Import ListNotations.

(* ---------------------------------------------------------------------------------------------- *)
(** * Boolean plumbing *)

Lemma ident_eqb_refl : forall i, ident_eqb i i = true.
Proof. induction i; cbn; rewrite ?Nat.eqb_refl, ?IHi; reflexivity. Qed.
Lemma ident_eqb_eq : forall i j, ident_eqb i j = true -> i = j.
Proof.
  induction i; destruct j; cbn; intros H; try discriminate.
  - apply Nat.eqb_eq in H; congruence.
  - f_equal; auto.
  - apply andb_true_iff in H; destruct H as [H1 H2]; apply Nat.eqb_eq in H1; f_equal; auto.
Qed.
Lemma elems_eqb_refl : forall l, elems_eqb l l = true.
Proof. induction l as [|[t z] l IH]; cbn; rewrite ?Nat.eqb_refl, ?Z.eqb_refl, ?IH; reflexivity. Qed.
Lemma pay_eqb_refl : forall p, pay_eqb p p = true.
Proof. destruct p; cbn; rewrite ?Nat.eqb_refl, ?Z.eqb_refl, ?elems_eqb_refl; reflexivity. Qed.
Lemma access_beq_refl : forall a, access_beq a a = true.
Proof. destruct a; reflexivity. Qed.
Lemma access_beq_eq : forall a b, access_beq a b = true -> a = b.
Proof. destruct a, b; cbn; congruence. Qed.
Lemma form_beq_eq : forall a b, form_beq a b = true -> a = b.
Proof. exact internal_form_dec_bl. Qed.
Lemma form_beq_refl : forall a, form_beq a a = true.
Proof. destruct a; reflexivity. Qed.
Lemma recv_eqb_refl : forall r, recv_eqb r r = true.
Proof.
  intros [t i p a n h]; unfold recv_eqb; cbn.
  rewrite Nat.eqb_refl, ident_eqb_refl, pay_eqb_refl, access_beq_refl, !eqb_reflx; reflexivity.
Qed.

Ltac bool_hyps :=
  repeat match goal with
         | H : _ && _ = true |- _ => apply andb_true_iff in H; destruct H
         | H : negb _ = true |- _ => apply negb_true_iff in H
         | H : negb _ = false |- _ => apply negb_false_iff in H
         end.

(* ---------------------------------------------------------------------------------------------- *)
(** * Cast_Helper_Inner by a sound rule hands over the box's own object *)

(* the value [r] is the object of box [b] itself, seen through form [f] at type [t] *)
Definition self_ok (f : form) (t : tyid) (b : box) (r : recv) : bool :=
  negb (b_undef b) && Nat.eqb (b_ty b) t && Nat.eqb (r_ty r) t && ident_eqb (r_id r) (b_id b)
  && pay_eqb (r_pay r) (copy_pay (r_acc r) t (b_pay b)) && access_beq (r_acc r) (access_of_form_inner f)
  && implb (access_beq (r_acc r) AcMut) (negb (b_const b))
  && Bool.eqb (r_isnull r) (b_null b && form_pointer_like f) && implb (b_null b) (form_pointer_like f).

Lemma inner_cast_self :
  forall R f t b r, form_rule_ok R f = true -> form_handle f = false ->
    inner_cast R f t b = DOk r -> self_ok f t b r = true.
Proof.
  intros R f t b r Hok Hh. unfold inner_cast, form_rule_ok in *.
  destruct (resolve 8 (r_cast R) f) as [[g|v a d m|[|]| |cc]|]; try discriminate.
  - (* RVerify *)
    cbn [eval_crule].
    destruct (lookup_vrule (r_verify R) v (acc_const a)) as [vr|]; try discriminate.
    bool_hyps.
    match goal with H : access_beq _ _ = true |- _ => apply access_beq_eq in H; rename H into Hacc end.
    repeat match goal with H : Bool.eqb _ _ = true |- _ => apply eqb_prop in H end.
    unfold self_ok. rewrite <- Hacc.
    match goal with H : _ = form_pointer_like f |- _ => rewrite <- H end.
    destruct vr as [nc cm nt]; cbn [vr_nonconst vr_nullthrow] in *.
    unfold ptr_null.
    destruct (b_undef b); [ destruct (nc && b_const b); cbn; discriminate |].
    destruct (Nat.eqb (b_ty b) t) eqn:Ety; [| destruct (nc && b_const b); cbn; discriminate ].
    destruct m, nc, a, d, (b_const b), (b_null b), nt, (r_null_when_const R); cbn in *; try discriminate;
      intros Heq; try discriminate; injection Heq as <-; cbn;
      rewrite ?Nat.eqb_refl, ?ident_eqb_refl, ?pay_eqb_refl; reflexivity.
  - (* RAny AnyShared *)
    cbn [eval_crule]. unfold any_holds, self_ok. bool_hyps.
    match goal with H : access_beq _ _ = true |- _ => apply access_beq_eq in H; rename H into Hacc end.
    assert (Hin : access_of_form_inner f = form_access f) by (destruct f; try reflexivity; cbn in *; discriminate).
    rewrite Hin, <- Hacc.
    match goal with H : form_pointer_like f = true |- _ => rewrite H end.
    destruct (b_undef b), (Nat.eqb (b_ty b) t), (b_const b), (b_stor b), (b_null b); cbn; intros Heq; try discriminate;
      injection Heq as <-; cbn; rewrite ?Nat.eqb_refl, ?ident_eqb_refl, ?pay_eqb_refl; reflexivity.
  - (* RAny AnyUnique *)
    cbn [eval_crule]. unfold any_holds, self_ok. bool_hyps.
    match goal with H : access_beq _ _ = true |- _ => apply access_beq_eq in H; rename H into Hacc end.
    assert (Hin : access_of_form_inner f = form_access f) by (destruct f; try reflexivity; cbn in *; discriminate).
    rewrite Hin, <- Hacc.
    match goal with H : form_pointer_like f = true |- _ => rewrite H end.
    destruct (b_undef b), (Nat.eqb (b_ty b) t), (b_const b), (b_stor b), (b_null b); cbn; intros Heq; try discriminate;
      injection Heq as <-; cbn; rewrite ?Nat.eqb_refl, ?ident_eqb_refl, ?pay_eqb_refl; reflexivity.
  - (* RAnySplit *)
    cbn [eval_crule]. unfold any_holds, self_ok. bool_hyps.
    match goal with H : access_beq _ _ = true |- _ => apply access_beq_eq in H; rename H into Hacc end.
    assert (Hin : access_of_form_inner f = form_access f) by (destruct f; try reflexivity; cbn in *; discriminate).
    rewrite Hin, <- Hacc.
    match goal with H : form_pointer_like f = true |- _ => rewrite H end.
    destruct (b_undef b), (Nat.eqb (b_ty b) t), (b_const b), (b_stor b), (b_null b); cbn; intros Heq; try discriminate;
      injection Heq as <-; cbn; rewrite ?Nat.eqb_refl, ?ident_eqb_refl, ?pay_eqb_refl; reflexivity.
  - (* RSelf: only for handle forms *)
    congruence.
Qed.

Lemma inner_cast_handle :
  forall R f t b r, form_rule_ok R f = true -> form_handle f = true ->
    inner_cast R f t b = DOk r -> r = handle_of b.
Proof.
  intros R f t b r Hok Hh. unfold inner_cast, form_rule_ok in *.
  destruct (resolve 8 (r_cast R) f) as [[g|v a d m|[|]| |cc]|]; try discriminate.
  - destruct (lookup_vrule (r_verify R) v (acc_const a)); try discriminate. bool_hyps.
    exfalso. destruct f; cbn in *; try discriminate;
      match goal with H : access_beq _ _ = true |- _ => destruct d, m; cbn in H; discriminate end.
  - bool_hyps. congruence.
  - bool_hyps. congruence.
  - bool_hyps. congruence.
  - cbn. congruence.
Qed.

(* ---------------------------------------------------------------------------------------------- *)
(** * Cast_Helper<T>::cast on the box itself *)

Definition direct_ok (p : param) (b : box) (r : recv) : bool :=
  if form_handle (p_form p) then is_handle_of r b
  else if form_beq (p_form p) FBN then b_arith b && negb (b_undef b) && is_handle_of r b
  else if form_beq (p_form p) FFn then
    (Nat.eqb (b_ty b) T_FUN && negb (b_undef b) && is_handle_of r b
     && match b_pay b with PFn ar _ => (ar <? 0)%Z || (ar =? p_fnar p)%Z | _ => false end)
    || self_ok FVal (p_bare p) b r
  else self_ok (p_form p) (p_bare p) b r.

Lemma rules_ok_form : forall R f, rules_ok R = true -> In f inner_forms -> form_rule_ok R f = true.
Proof.
  intros R f H Hin. unfold rules_ok in H. bool_hyps.
  match goal with H : forallb (form_rule_ok R) _ = true |- _ => rewrite forallb_forall in H; auto end.
Qed.
Lemma inner_forms_all : forall f, f <> FBN -> f <> FFn -> In f inner_forms.
Proof. intros f H1 H2. destruct f; cbn; try tauto; repeat (try (left; reflexivity); right). Qed.

Lemma cast_helper_ok :
  forall R p b r, rules_ok R = true -> cast_helper R p b = DOk r -> direct_ok p b r = true.
Proof.
  intros R p b r HR H. unfold cast_helper in H. unfold direct_ok.
  destruct (p_form p) eqn:Ef;
    try (assert (Hf : form_rule_ok R (p_form p) = true) by (apply rules_ok_form; [assumption | rewrite Ef; apply inner_forms_all; discriminate]);
         rewrite Ef in Hf; cbn [form_handle form_beq];
         first [ solve [ apply inner_cast_self in H; [exact H | exact Hf | reflexivity] ]
               | solve [ apply inner_cast_handle in H; [subst r; unfold is_handle_of; apply recv_eqb_refl | exact Hf | reflexivity] ] ]).
  - (* FBN *)
    cbn. destruct (b_arith b), (b_undef b); cbn in *; try discriminate. injection H as <-. unfold is_handle_of. apply recv_eqb_refl.
  - (* FFn *)
    cbn [form_handle form_beq]. cbn.
    destruct (negb (b_undef b) && Nat.eqb (b_ty b) T_FUN) eqn:Efun.
    + bool_hyps.
      destruct (inner_cast R FShC T_FUN b) as [r0|[]]; try discriminate.
      destruct (b_pay b) eqn:Ep; try discriminate.
      destruct ((arity <? 0)%Z || (arity =? p_fnar p)%Z) eqn:Ear; try discriminate.
      injection H as <-. apply orb_true_iff. left.
      match goal with H : Nat.eqb (b_ty b) T_FUN = true |- _ => rewrite H end.
      match goal with H : b_undef b = false |- _ => rewrite H end.
      unfold is_handle_of. rewrite recv_eqb_refl. cbn. try rewrite Ear. reflexivity.
    + apply orb_true_iff. right.
      apply inner_cast_self in H; [exact H | apply rules_ok_form; [assumption | cbn; auto] | reflexivity].
Qed.

(* ---------------------------------------------------------------------------------------------- *)
(** * ... is acceptable by the specification *)

Lemma access_inner_eq : forall f, form_handle f = false -> access_of_form_inner f = form_access f.
Proof. destruct f; cbn; intros; try reflexivity; discriminate. Qed.

Lemma recv_ok_of_self :
  forall E p a r, form_handle (p_form p) = false -> form_beq (p_form p) FBN = false ->
    self_ok (p_form p) (p_bare p) a r = true -> recv_ok E p a r = true.
Proof.
  intros E p a r Hh Hn Hs. unfold self_ok in Hs. bool_hyps.
  match goal with H : access_beq (r_acc r) _ = true |- _ => rewrite access_inner_eq in H by assumption; rename H into Hacc end.
  match goal with H : Bool.eqb (r_isnull r) _ = true |- _ => rename H into Hnull end.
  unfold recv_ok. apply orb_true_iff. right.
  rewrite Hh, Hn. cbn [negb andb].
  repeat (apply andb_true_iff; split); try assumption.
  - rewrite H. reflexivity.
  - apply eqb_prop in Hnull. rewrite Hnull. destruct (b_null a), (form_pointer_like (p_form p)); reflexivity.
  - apply orb_true_iff. left. apply orb_true_iff. left.
    repeat (apply andb_true_iff; split); try assumption.
    unfold acc_ok.
    match goal with H : implb (access_beq (r_acc r) AcMut) _ = true |- _ => destruct (r_acc r); cbn in H |- *; auto end.
Qed.

Lemma recv_ok_of_self_fn :
  forall E p a r, p_form p = FFn -> self_ok FVal (p_bare p) a r = true -> recv_ok E p a r = true.
Proof.
  intros E p a r Hf Hs. unfold self_ok in Hs. bool_hyps. cbn in *.
  unfold recv_ok. apply orb_true_iff. right. rewrite Hf. cbn [form_handle form_beq negb andb form_access form_by_value form_pointer_like].
  match goal with H : eqb (r_isnull r) _ = true |- _ => apply eqb_prop in H; rewrite andb_false_r in H; rename H into Hnull end.
  repeat (apply andb_true_iff; split); try assumption.
  - rewrite H. reflexivity.
  - rewrite Hnull. reflexivity.
  - apply orb_true_iff. left. apply orb_true_iff. left.
    repeat (apply andb_true_iff; split); try assumption.
    + unfold acc_ok. match goal with H : access_beq (r_acc r) AcCopy = true |- _ => apply access_beq_eq in H; rewrite H end. reflexivity.
    + rewrite Hnull, andb_false_r. reflexivity.
Qed.

Lemma recv_ok_of_direct :
  forall E p a r, direct_ok p a r = true -> recv_ok E p a r = true.
Proof.
  intros E p a r H. unfold direct_ok in H.
  destruct (form_handle (p_form p)) eqn:Hh.
  - unfold recv_ok. rewrite Hh, H. reflexivity.
  - destruct (form_beq (p_form p) FBN) eqn:Hn.
    + unfold recv_ok. rewrite Hn. bool_hyps.
      apply orb_true_iff; left. apply orb_true_iff; left. apply orb_true_iff; right.
      repeat (first [assumption | apply negb_true_iff; assumption | apply andb_true_iff; split]).
    + destruct (form_beq (p_form p) FFn) eqn:Hf.
      * apply orb_true_iff in H. destruct H as [H|H].
        -- unfold recv_ok. rewrite Hf. bool_hyps.
           apply orb_true_iff; left. apply orb_true_iff; right.
           repeat (first [assumption | apply negb_true_iff; assumption | apply andb_true_iff; split]).
        -- apply recv_ok_of_self_fn; [apply form_beq_eq; exact Hf | exact H].
      * apply recv_ok_of_self; assumption.
Qed.

(* ---------------------------------------------------------------------------------------------- *)
(** * Registered conversions *)

Lemma self_ok_facts :
  forall f t b r, self_ok f t b r = true ->
    b_undef b = false /\ b_ty b = t /\ r_ty r = t /\ r_id r = b_id b /\
    pay_eqb (r_pay r) (copy_pay (r_acc r) t (b_pay b)) = true /\ r_acc r = access_of_form_inner f /\
    (r_acc r = AcMut -> b_const b = false) /\ r_isnull r = (b_null b && form_pointer_like f) /\
    (b_null b = true -> form_pointer_like f = true).
Proof.
  intros f t b r H. unfold self_ok in H. bool_hyps.
  repeat match goal with
         | H : Nat.eqb _ _ = true |- _ => apply Nat.eqb_eq in H
         | H : ident_eqb _ _ = true |- _ => apply ident_eqb_eq in H
         | H : access_beq _ (access_of_form_inner _) = true |- _ => apply access_beq_eq in H
         | H : eqb _ _ = true |- _ => apply eqb_prop in H
         end.
  repeat split; auto.
  - intros Hm. match goal with H : implb (access_beq (r_acc r) AcMut) _ = true |- _ => rewrite Hm in H; cbn in H; apply negb_true_iff in H; exact H end.
  - intros Hn. match goal with H : implb (b_null b) _ = true |- _ => rewrite Hn in H; exact H end.
Qed.

Lemma base_cast_shape :
  forall R cs from to checked b b', rules_ok R = true -> base_cast R cs from to checked b = inl b' ->
    b_undef b = false /\ b_ty b = from /\ b_null b = false /\
    b_ty b' = to /\ b_const b' = b_const b /\ b_undef b' = false /\ b_null b' = false /\ b_id b' = b_id b /\ b_pay b' = b_pay b /\
    (checked = true -> match b_pay b with PObj d _ => isa cs d to = true | _ => False end).
Proof.
  intros R cs from to checked b b' HR H. unfold base_cast in H.
  assert (Hck : (if checked then match b_pay b with PObj d _ => isa cs d to | _ => false end else true) = true ->
                checked = true -> match b_pay b with PObj d _ => isa cs d to = true | _ => False end).
  { intros Hx Hc. subst checked. destruct (b_pay b); try discriminate; exact Hx. }
  destruct (is_pointer_box b).
  - destruct (inner_cast R (if b_const b then FShC else FSh) from b) as [r|e] eqn:Ec; try discriminate.
    destruct (r_isnull r || negb (if checked then match b_pay b with PObj d _ => isa cs d to | _ => false end else true)) eqn:En; try discriminate.
    injection H as <-. apply orb_false_iff in En. destruct En as [En1 En2]. apply negb_false_iff in En2.
    apply inner_cast_self in Ec; [| apply rules_ok_form; [assumption | destruct (b_const b); cbn; auto 20] | destruct (b_const b); reflexivity ].
    apply self_ok_facts in Ec. destruct Ec as (U & T & _ & _ & _ & _ & _ & N & _).
    assert (b_null b = false).
    { rewrite En1 in N. destruct (b_null b), (b_const b); cbn in N; congruence. }
    cbn. repeat split; auto; apply Hck; assumption.
  - destruct (inner_cast R (if b_const b then FCRef else FRef) from b) as [r|e] eqn:Ec; try discriminate.
    destruct (negb (if checked then match b_pay b with PObj d _ => isa cs d to | _ => false end else true)) eqn:En; try discriminate.
    injection H as <-. apply negb_false_iff in En.
    apply inner_cast_self in Ec; [| apply rules_ok_form; [assumption | destruct (b_const b); cbn; auto 20] | destruct (b_const b); reflexivity ].
    apply self_ok_facts in Ec. destruct Ec as (U & T & _ & _ & _ & _ & _ & _ & N).
    assert (b_null b = false).
    { destruct (b_null b); auto. specialize (N eq_refl). destruct (b_const b); cbn in N; discriminate. }
    cbn. repeat split; auto; apply Hck; assumption.
Qed.

(* the converted image of a box, as the specification describes it *)
Definition conv_image (E : env) (t : tyid) (a b' : box) : Prop :=
  b_undef a = false /\ b_null a = false /\ b_ty b' = t /\ b_undef b' = false /\ b_null b' = false /\
  exists c, In c (e_convs E) /\
    match cv_kind c with
    | CUser uid => cv_to c = t /\ cv_from c = b_ty a /\ b_const b' = false /\ b_id b' = IdConv uid (b_id a) /\ e_ufun E uid (b_pay a) = Some (b_pay b')
    | _ => ((cv_to c = t /\ cv_from c = b_ty a) \/
            (cv_bidir c = true /\ cv_from c = t /\ cv_to c = b_ty a /\ match b_pay a with PObj d _ => isa (e_convs E) d t = true | _ => False end))
           /\ b_const b' = b_const a /\ b_id b' = b_id a /\ b_pay b' = b_pay a
    end.

Lemma get_conversion_some :
  forall cs to from c, get_conversion cs to from = Some c -> In c cs /\ cv_to c = to /\ cv_from c = from.
Proof.
  intros cs to from c H. unfold get_conversion in H. apply find_some in H. destruct H as [Hin H].
  apply andb_true_iff in H. destruct H as [H1 H2]. apply Nat.eqb_eq in H1, H2. auto.
Qed.

Lemma conv_up_image :
  forall R E t b b', rules_ok R = true -> conv_up R E t b = inl b' -> conv_image E t b b'.
Proof.
  intros R E t b b' HR H. unfold conv_up in H.
  destruct (b_undef b) eqn:Eu; try discriminate.
  destruct (get_conversion (e_convs E) t (b_ty b)) as [c|] eqn:Eg; try discriminate.
  apply get_conversion_some in Eg. destruct Eg as (Hin & Hto & Hfrom).
  destruct (cv_kind c) eqn:Ek.
  - apply base_cast_shape in H; auto. destruct H as (U & T & N & T' & C' & U' & N' & I' & P' & _).
    unfold conv_image. repeat split; auto; try congruence. exists c. split; auto. rewrite Ek. split; [left; split; congruence | repeat split; auto].
  - apply base_cast_shape in H; auto. destruct H as (U & T & N & T' & C' & U' & N' & I' & P' & _).
    unfold conv_image. repeat split; auto; try congruence. exists c. split; auto. rewrite Ek. split; [left; split; congruence | repeat split; auto].
  - destruct (inner_cast R FCRef (cv_from c) b) as [r|e] eqn:Ec; try discriminate.
    destruct (e_ufun E uid (b_pay b)) as [p'|] eqn:Ef; try discriminate.
    injection H as <-.
    apply inner_cast_self in Ec; [| apply rules_ok_form; [assumption | cbn; auto 20] | reflexivity ].
    apply self_ok_facts in Ec. destruct Ec as (U & T & _ & _ & _ & _ & _ & _ & N).
    assert (b_null b = false) by (destruct (b_null b); auto; specialize (N eq_refl); discriminate).
    unfold conv_image. cbn. repeat split; auto. exists c. split; auto. rewrite Ek. repeat split; auto.
Qed.

Lemma conv_down_image :
  forall R E t b b', rules_ok R = true -> conv_down R E t b = inl b' -> conv_image E t b b'.
Proof.
  intros R E t b b' HR H. unfold conv_down in H.
  destruct (b_undef b) eqn:Eu; try discriminate.
  destruct (get_conversion (e_convs E) (b_ty b) t) as [c|] eqn:Eg; try discriminate.
  apply get_conversion_some in Eg. destruct Eg as (Hin & Hto & Hfrom).
  destruct (cv_kind c) eqn:Ek; try discriminate.
  apply base_cast_shape in H; auto. destruct H as (U & T & N & T' & C' & U' & N' & I' & P' & Hck).
  specialize (Hck eq_refl).
  unfold conv_image. repeat split; auto; try congruence. exists c. split; auto. rewrite Ek.
  split; [| repeat split; auto].
  right. unfold cv_bidir. rewrite Ek. repeat split; auto. rewrite <- Hfrom. exact Hck.
Qed.

Lemma env_ok_conv :
  forall E c, env_ok E = true -> In c (e_convs E) ->
    cv_to c <> T_BV /\ cv_to c <> T_BN /\ cv_to c <> T_FUN /\ cv_from c <> T_BV /\ cv_from c <> T_BN /\ cv_from c <> T_FUN /\ cv_to c <> cv_from c.
Proof.
  intros E c H Hin. unfold env_ok in H. rewrite forallb_forall in H. specialize (H c Hin). bool_hyps.
  repeat match goal with H : Nat.eqb _ _ = false |- _ => apply Nat.eqb_neq in H end. auto 10.
Qed.

Lemma conv_image_target :
  forall E t a b', env_ok E = true -> conv_image E t a b' -> t <> T_BV /\ t <> T_BN /\ t <> T_FUN.
Proof.
  intros E t a b' HE (_ & _ & _ & _ & _ & c & Hin & Hc).
  destruct (env_ok_conv E c HE Hin) as (A1 & A2 & A3 & A4 & A5 & A6 & _).
  destruct (cv_kind c).
  - destruct Hc as ([[H1 H2]|(_ & H1 & _)] & _); subst t; auto.
  - destruct Hc as ([[H1 H2]|(_ & H1 & _)] & _); subst t; auto.
  - destruct Hc as (H1 & _); subst t; auto.
Qed.

(* generic part of recv_ok from a self_ok on the converted image *)
Lemma recv_ok_of_conv_self :
  forall E p f a b' r, form_handle (p_form p) = false -> form_beq (p_form p) FBN = false ->
    access_of_form_inner f = form_access (p_form p) -> form_pointer_like f = form_pointer_like (p_form p) ->
    conv_image E (p_bare p) a b' -> self_ok f (p_bare p) b' r = true -> recv_ok E p a r = true.
Proof.
  intros E p f a b' r Hh Hn Hacc Hpl Him Hs.
  apply self_ok_facts in Hs. destruct Hs as (U' & T' & RT & RI & RP & RA & RM & RN & _).
  destruct Him as (U & N & _ & _ & N' & c & Hin & Hc).
  rewrite N' in RN. cbn in RN.
  unfold recv_ok. apply orb_true_iff. right. rewrite Hh, Hn, U. cbn [negb andb].
  repeat (first [assumption | apply andb_true_iff; split]).
  - apply Nat.eqb_eq; assumption.
  - rewrite RA, Hacc. apply access_beq_refl.
  - rewrite RN. reflexivity.
  - apply orb_true_iff. right. apply existsb_exists. exists c. split; [assumption|].
    destruct (cv_kind c) eqn:Ek.
    + destruct Hc as (Hd & C' & I' & P').
      repeat (first [assumption | apply andb_true_iff; split]).
      * destruct Hd as [[H1 H2]|(B & H1 & H2 & H3)].
        -- apply orb_true_iff; left. rewrite H1, H2, !Nat.eqb_refl. reflexivity.
        -- apply orb_true_iff; right. rewrite B, H1, H2, !Nat.eqb_refl. destruct (b_pay a); try contradiction. rewrite H3. reflexivity.
      * rewrite N; reflexivity.
      * rewrite RN; reflexivity.
      * rewrite RI, I'. apply ident_eqb_refl.
      * rewrite <- P'. exact RP.
      * unfold acc_ok. destruct (r_acc r) eqn:Ea; auto. rewrite <- C'. rewrite RM; auto.
    + destruct Hc as (Hd & C' & I' & P').
      repeat (first [assumption | apply andb_true_iff; split]).
      * destruct Hd as [[H1 H2]|(B & H1 & H2 & H3)].
        -- apply orb_true_iff; left. rewrite H1, H2, !Nat.eqb_refl. reflexivity.
        -- apply orb_true_iff; right. rewrite B, H1, H2, !Nat.eqb_refl. destruct (b_pay a); try contradiction. rewrite H3. reflexivity.
      * rewrite N; reflexivity.
      * rewrite RN; reflexivity.
      * rewrite RI, I'. apply ident_eqb_refl.
      * rewrite <- P'. exact RP.
      * unfold acc_ok. destruct (r_acc r) eqn:Ea; auto. rewrite <- C'. rewrite RM; auto.
    + destruct Hc as (H1 & H2 & C' & I' & F').
      repeat (first [assumption | apply andb_true_iff; split]).
      * rewrite H1. apply Nat.eqb_refl.
      * rewrite H2. apply Nat.eqb_refl.
      * rewrite N; reflexivity.
      * rewrite RN; reflexivity.
      * rewrite RI, I'. apply ident_eqb_refl.
      * rewrite F'. exact RP.
Qed.

Lemma recv_ok_of_conv :
  forall E p a b' r, env_ok E = true -> param_wf p = true ->
    conv_image E (p_bare p) a b' -> direct_ok p b' r = true -> recv_ok E p a r = true.
Proof.
  intros E p a b' r HE Hwf Him Hd.
  destruct (conv_image_target E _ a b' HE Him) as (NBV & NBN & NFUN).
  unfold param_wf in Hwf. unfold direct_ok in Hd.
  destruct (form_handle (p_form p)) eqn:Hh.
  { bool_hyps. match goal with H : Nat.eqb (p_bare p) T_BV = true |- _ => apply Nat.eqb_eq in H; congruence end. }
  destruct (form_beq (p_form p) FBN) eqn:Hn.
  { bool_hyps. match goal with H : Nat.eqb (p_bare p) T_BN = true |- _ => apply Nat.eqb_eq in H; congruence end. }
  destruct (form_beq (p_form p) FFn) eqn:Hf.
  - apply orb_true_iff in Hd. destruct Hd as [Hd|Hd].
    + exfalso. bool_hyps. destruct Him as (_ & _ & T' & _).
      match goal with H : Nat.eqb (b_ty b') T_FUN = true |- _ => apply Nat.eqb_eq in H; congruence end.
    + apply form_beq_eq in Hf.
      eapply recv_ok_of_conv_self with (f := FVal); eauto; rewrite Hf; reflexivity.
  - eapply recv_ok_of_conv_self with (f := p_form p); eauto. apply access_inner_eq; assumption.
Qed.

(* ---------------------------------------------------------------------------------------------- *)
(** * boxed_cast<T> hands over only what the specification allows (C06_cast_out, and the core of C06_sound) *)

Lemma boxed_cast_cases :
  forall R E wc p b r, rules_ok R = true ->
    boxed_cast_gen R E wc p b = COk r ->
    direct_ok p b r = true \/ exists b', conv_image E (p_bare p) b b' /\ direct_ok p b' r = true.
Proof.
  intros R E wc p b r HR H. unfold boxed_cast_gen in H.
  destruct (existsb _ (r_direct_when R)) eqn:Edir.
  - destruct (cast_helper R p b) as [r0|e] eqn:Ech.
    + injection H as <-. left. eapply cast_helper_ok; eauto.
    + destruct (catches (r_direct_catch R) e); [| discriminate ].
      destruct (wc && convertible (e_convs E) (p_bare p)); [| discriminate ].
      destruct (conv_up R E (p_bare p) b) as [b1|e1] eqn:Eup; cbn [on_box] in H.
      * destruct (cast_helper R p b1) as [r1|e2] eqn:Ec1.
        -- injection H as <-. right. exists b1. split; [eapply conv_up_image; eauto | eapply cast_helper_ok; eauto].
        -- destruct (catches (r_up_catch R) e2); [| discriminate ].
           destruct (conv_down R E (p_bare p) b) as [b2|e3] eqn:Edn; cbn [on_box] in H.
           ++ destruct (cast_helper R p b2) as [r2|e4] eqn:Ec2.
              ** injection H as <-. right. exists b2. split; [eapply conv_down_image; eauto | eapply cast_helper_ok; eauto].
              ** destruct (catches (r_down_catch R) e4); discriminate.
           ++ destruct (catches (r_down_catch R) e3); discriminate.
      * destruct (catches (r_up_catch R) e1); [| discriminate ].
        destruct (conv_down R E (p_bare p) b) as [b2|e3] eqn:Edn; cbn [on_box] in H.
        -- destruct (cast_helper R p b2) as [r2|e4] eqn:Ec2.
           ++ injection H as <-. right. exists b2. split; [eapply conv_down_image; eauto | eapply cast_helper_ok; eauto].
           ++ destruct (catches (r_down_catch R) e4); discriminate.
        -- destruct (catches (r_down_catch R) e3); discriminate.
  - destruct (wc && convertible (e_convs E) (p_bare p)); [| discriminate ].
    destruct (conv_up R E (p_bare p) b) as [b1|e1] eqn:Eup; cbn [on_box] in H.
    + destruct (cast_helper R p b1) as [r1|e2] eqn:Ec1.
      * injection H as <-. right. exists b1. split; [eapply conv_up_image; eauto | eapply cast_helper_ok; eauto].
      * destruct (catches (r_up_catch R) e2); [| discriminate ].
        destruct (conv_down R E (p_bare p) b) as [b2|e3] eqn:Edn; cbn [on_box] in H.
        -- destruct (cast_helper R p b2) as [r2|e4] eqn:Ec2.
           ++ injection H as <-. right. exists b2. split; [eapply conv_down_image; eauto | eapply cast_helper_ok; eauto].
           ++ destruct (catches (r_down_catch R) e4); discriminate.
        -- destruct (catches (r_down_catch R) e3); discriminate.
    + destruct (catches (r_up_catch R) e1); [| discriminate ].
      destruct (conv_down R E (p_bare p) b) as [b2|e3] eqn:Edn; cbn [on_box] in H.
      * destruct (cast_helper R p b2) as [r2|e4] eqn:Ec2.
        -- injection H as <-. right. exists b2. split; [eapply conv_down_image; eauto | eapply cast_helper_ok; eauto].
        -- destruct (catches (r_down_catch R) e4); discriminate.
      * destruct (catches (r_down_catch R) e3); discriminate.
Qed.

Theorem boxed_cast_sound :
  forall R E wc p b r, rules_ok R = true -> env_ok E = true -> param_wf p = true ->
    boxed_cast_gen R E wc p b = COk r -> recv_ok E p b r = true.
Proof.
  intros R E wc p b r HR HE Hwf H. apply boxed_cast_cases in H; auto.
  destruct H as [H|(b' & Him & H)].
  - apply recv_ok_of_direct; assumption.
  - eapply recv_ok_of_conv; eauto.
Qed.

(* the same for an argument that dispatch_with_conversions replaced by its arithmetic conversion *)
Lemma boxed_cast_sound_arith :
  forall R E p a r, rules_ok R = true -> env_ok E = true -> param_wf p = true ->
    needs_arith (p_ti p) a = true -> b_null a = false ->
    boxed_cast R E p (arith_box E (p_ti p) a) = COk r -> recv_ok E p a r = true.
Proof.
  intros R E p a r HR HE Hwf Hna Hnn H. unfold boxed_cast in H. apply boxed_cast_cases in H; auto.
  unfold needs_arith in Hna. bool_hyps.
  assert (Hfh : form_handle (p_form p) = false /\ form_beq (p_form p) FBN = false /\ form_beq (p_form p) FFn = false).
  { unfold param_wf in Hwf. apply andb_true_iff in Hwf. destruct Hwf as [_ Hwf].
    destruct (form_handle (p_form p)); [ bool_hyps; congruence |].
    destruct (form_beq (p_form p) FBN); [ bool_hyps; congruence |].
    destruct (form_beq (p_form p) FFn); [ bool_hyps; congruence |]. auto. }
  destruct Hfh as (Hh & Hn & Hf).
  destruct H as [H|(b' & Him & H)].
  - unfold direct_ok in H. rewrite Hh, Hn, Hf in H.
    apply self_ok_facts in H. destruct H as (_ & _ & RT & RI & RP & RA & _ & RN & _).
    cbn [arith_box b_id b_pay b_null] in *. cbn in RN.
    unfold recv_ok. apply orb_true_iff; right. rewrite Hh, Hn.
    match goal with H : b_undef a = false |- _ => rewrite H end. cbn [negb andb].
    repeat (first [assumption | apply andb_true_iff; split]).
    + apply Nat.eqb_eq; assumption.
    + rewrite RA, access_inner_eq by assumption. apply access_beq_refl.
    + rewrite RN; reflexivity.
    + apply orb_true_iff; left. apply orb_true_iff; right.
      repeat (first [assumption | apply andb_true_iff; split]).
      * rewrite Hnn; reflexivity.
      * rewrite RN; reflexivity.
      * rewrite RI. apply ident_eqb_refl.
      * destruct (r_acc r); exact RP.
  - exfalso. destruct Him as (_ & _ & _ & _ & _ & c & Hin & Hc).
    destruct (env_ok_conv E c HE Hin) as (_ & _ & _ & _ & _ & _ & Hne).
    cbn [arith_box b_ty] in Hc. unfold p_bare in Hc.
    destruct (cv_kind c).
    + destruct Hc as ([[Q1 Q2]|(_ & Q1 & Q2 & _)] & _); congruence.
    + destruct Hc as ([[Q1 Q2]|(_ & Q1 & Q2 & _)] & _); congruence.
    + destruct Hc as (Q1 & Q2 & _); congruence.
Qed.

(* ---------------------------------------------------------------------------------------------- *)
(** * Calling one function *)

(* the argument list a function is called with: the script values, some arithmetic ones possibly replaced by
   their conversion to the parameter type (dispatch_with_conversions) *)
Inductive conv_args (E : env) : list param -> list box -> list box -> Prop :=
  | ca_nil : conv_args E [] [] []
  | ca_same : forall p ps a args args', conv_args E ps args args' -> conv_args E (p :: ps) (a :: args) (a :: args')
  | ca_arith : forall p ps a args args', needs_arith (p_ti p) a = true -> b_null a = false -> conv_args E ps args args' ->
                 conv_args E (p :: ps) (a :: args) (arith_box E (p_ti p) a :: args').

Lemma conv_args_refl : forall E ps args, length ps = length args -> conv_args E ps args args.
Proof. induction ps; destruct args; cbn; intros H; try discriminate; constructor; auto. Qed.

Lemma conv_args_length : forall E ps args args', conv_args E ps args args' -> length ps = length args /\ length args = length args'.
Proof. induction 1; cbn; intuition. Qed.

Lemma new_plist_conv_args :
  forall E ps args args', length ps = length args -> new_plist E ps args = Some args' -> conv_args E ps args args'.
Proof.
  induction ps as [|p ps IH]; destruct args as [|a args]; cbn; intros args' Hl H; try discriminate.
  - injection H as <-. constructor.
  - destruct (new_plist E ps args) as [r|] eqn:Er; try discriminate.
    destruct (needs_arith (p_ti p) a) eqn:En.
    + destruct (b_null a) eqn:Enull; try discriminate. injection H as <-. apply ca_arith; auto.
    + injection H as <-. apply ca_same; auto.
Qed.

Lemma unbox_seq_sound :
  forall R E ps args args' rs, rules_ok R = true -> env_ok E = true -> forallb param_wf ps = true ->
    conv_args E ps args args' -> unbox_seq R E ps args' = inl rs -> forall3b (recv_ok E) ps args rs = true.
Proof.
  intros R E ps args args' rs HR HE Hwf Hca. revert rs Hwf.
  induction Hca; intros rs Hwf Hu; cbn in *.
  - injection Hu as <-. reflexivity.
  - apply andb_true_iff in Hwf. destruct Hwf as [Hp Hps].
    destruct (boxed_cast R E p a) as [r|e] eqn:Ec; try discriminate.
    destruct (unbox_seq R E ps args') as [rs'|e] eqn:Eu; try discriminate. injection Hu as <-. cbn.
    apply andb_true_iff. split; [eapply boxed_cast_sound; eauto | apply IHHca; auto].
  - apply andb_true_iff in Hwf. destruct Hwf as [Hp Hps].
    destruct (boxed_cast R E p (arith_box E (p_ti p) a)) as [r|e] eqn:Ec; try discriminate.
    destruct (unbox_seq R E ps args') as [rs'|e] eqn:Eu; try discriminate. injection Hu as <-. cbn.
    apply andb_true_iff. split; [eapply boxed_cast_sound_arith; eauto | apply IHHca; auto].
Qed.

Lemma unbox_rtl_sound :
  forall R E ps args args' rs, rules_ok R = true -> env_ok E = true -> forallb param_wf ps = true ->
    conv_args E ps args args' -> unbox_rtl R E ps args' = inl rs -> forall3b (recv_ok E) ps args rs = true.
Proof.
  intros R E ps args args' rs HR HE Hwf Hca. revert rs Hwf.
  induction Hca; intros rs Hwf Hu; cbn in *.
  - injection Hu as <-. reflexivity.
  - apply andb_true_iff in Hwf. destruct Hwf as [Hp Hps].
    destruct (unbox_rtl R E ps args') as [rs'|e] eqn:Eu; try discriminate.
    destruct (boxed_cast R E p a) as [r|e] eqn:Ec; try discriminate. injection Hu as <-. cbn.
    apply andb_true_iff. split; [eapply boxed_cast_sound; eauto | apply IHHca; auto].
  - apply andb_true_iff in Hwf. destruct Hwf as [Hp Hps].
    destruct (unbox_rtl R E ps args') as [rs'|e] eqn:Eu; try discriminate.
    destruct (boxed_cast R E p (arith_box E (p_ti p) a)) as [r|e] eqn:Ec; try discriminate. injection Hu as <-. cbn.
    apply andb_true_iff. split; [eapply boxed_cast_sound_arith; eauto | apply IHHca; auto].
Qed.

Lemma unbox_all_sound :
  forall R E ps args args' rs, rules_ok R = true -> env_ok E = true -> forallb param_wf ps = true ->
    conv_args E ps args args' -> unbox_all R E ps args' = inl rs -> forall3b (recv_ok E) ps args rs = true.
Proof.
  intros. unfold unbox_all in *. destruct (e_rtl E); [eapply unbox_rtl_sound | eapply unbox_seq_sound]; eauto.
Qed.

Lemma is_handle_of_refl : forall a, is_handle_of (handle_of a) a = true.
Proof. intros. unfold is_handle_of. apply recv_eqb_refl. Qed.

Lemma handles_variadic : forall args, forall2b (fun a r => is_handle_of r a) args (map handle_of args) = true.
Proof. induction args; cbn; auto. rewrite is_handle_of_refl. exact IHargs. Qed.

Lemma recv_ok_dyn_of_image :
  forall E p a x, conv_image E (p_bare p) a x -> recv_ok_dyn E true p a (handle_of x) = true.
Proof.
  intros E p a x (U & N & T' & U' & N' & c & Hin & Hc).
  unfold recv_ok_dyn. apply orb_true_iff; right. cbn [andb handle_of r_ty r_acc r_id r_pay r_isnull r_hconst].
  rewrite U, T', Nat.eqb_refl, N'. cbn [negb andb access_beq].
  apply orb_true_iff; right. apply existsb_exists. exists c. split; [assumption|].
  destruct (cv_kind c) eqn:Ek.
  - destruct Hc as (Hd & C' & I' & P').
    repeat (first [assumption | apply andb_true_iff; split]); try reflexivity.
    + destruct Hd as [[H1 H2]|(B & H1 & H2 & H3)].
      * apply orb_true_iff; left. rewrite H1, H2, !Nat.eqb_refl. reflexivity.
      * apply orb_true_iff; right. rewrite B, H1, H2, !Nat.eqb_refl. destruct (b_pay a); try contradiction. rewrite H3. reflexivity.
    + rewrite I'. apply ident_eqb_refl.
    + rewrite P'. apply pay_eqb_refl.
    + rewrite C'. apply eqb_reflx.
  - destruct Hc as (Hd & C' & I' & P').
    repeat (first [assumption | apply andb_true_iff; split]); try reflexivity.
    + destruct Hd as [[H1 H2]|(B & H1 & H2 & H3)].
      * apply orb_true_iff; left. rewrite H1, H2, !Nat.eqb_refl. reflexivity.
      * apply orb_true_iff; right. rewrite B, H1, H2, !Nat.eqb_refl. destruct (b_pay a); try contradiction. rewrite H3. reflexivity.
    + rewrite I'. apply ident_eqb_refl.
    + rewrite P'. apply pay_eqb_refl.
    + rewrite C'. apply eqb_reflx.
  - destruct Hc as (H1 & H2 & C' & I' & F').
    repeat (first [assumption | apply andb_true_iff; split]); try reflexivity.
    + rewrite H1. apply Nat.eqb_refl.
    + rewrite H2. apply Nat.eqb_refl.
    + rewrite I'. apply ident_eqb_refl.
    + rewrite F'. apply pay_eqb_refl.
    + rewrite C'. reflexivity.
Qed.

Lemma recv_ok_dyn_arith :
  forall E p a, needs_arith (p_ti p) a = true -> b_null a = false ->
    recv_ok_dyn E true p a (handle_of (arith_box E (p_ti p) a)) = true.
Proof.
  intros E p a Hn Hnull. unfold needs_arith in Hn. bool_hyps.
  unfold recv_ok_dyn. apply orb_true_iff; right.
  cbn [andb handle_of arith_box r_ty r_acc r_id r_pay r_isnull r_hconst b_ty b_id b_pay b_null b_const].
  unfold p_bare. rewrite Nat.eqb_refl.
  match goal with H : b_undef a = false |- _ => rewrite H end. cbn [negb andb access_beq].
  apply orb_true_iff; left.
  repeat (first [assumption | apply andb_true_iff; split]); try reflexivity.
  - rewrite Hnull; reflexivity.
  - apply ident_eqb_refl.
  - apply pay_eqb_refl.
Qed.

Lemma dyn_convert_sound :
  forall R E ps args args', rules_ok R = true -> conv_args E ps args args' ->
    forall named vals, forall2b (fun n p => n || negb (ti_arith (p_ti p))) named ps = true ->
      dyn_convert R E named ps args' = inl vals ->
      forall3b (fun np a r => recv_ok_dyn E (fst np) (snd np) a r) (combine (pad_named named (length args)) ps) args (map handle_of vals) = true.
Proof.
  intros R E ps args args' HR Hca.
  induction Hca; intros named vals Hnm Hd.
  - destruct named; cbn in *; try discriminate. injection Hd as <-. reflexivity.
  - destruct named as [|n named]; cbn in Hnm; try discriminate.
    apply andb_true_iff in Hnm. destruct Hnm as [Hn Hnm].
    cbn [dyn_convert] in Hd. cbn [length pad_named combine].
    match type of Hd with (match ?X with _ => _ end) = _ => destruct X as [x|e] eqn:Ex end;
      [| destruct (dyn_convert R E named ps args'); discriminate ].
    destruct (dyn_convert R E named ps args') as [xs|e] eqn:Exs; try discriminate.
    injection Hd as <-. cbn [map forall3b fst snd].
    apply andb_true_iff. split; [| apply IHHca; auto ].
    destruct (n && negb (ti_undef (p_ti p)) && negb (negb (b_undef a) && Nat.eqb (b_ty a) (p_bare p)) && converts (e_convs E) (p_bare p) (b_ty a)) eqn:Ecv.
    + bool_hyps. subst n.
      destruct (conv_up R E (p_bare p) a) as [y|e1] eqn:Eup.
      * injection Ex as <-. apply recv_ok_dyn_of_image. eapply conv_up_image; eauto.
      * destruct (is_exception e1); try discriminate.
        destruct (conv_down R E (p_bare p) a) as [y|e2] eqn:Edn.
        -- injection Ex as <-. apply recv_ok_dyn_of_image. eapply conv_down_image; eauto.
        -- destruct e2; discriminate.
    + injection Ex as <-. unfold recv_ok_dyn. rewrite is_handle_of_refl. reflexivity.
  - destruct named as [|n named]; cbn in Hnm; try discriminate.
    apply andb_true_iff in Hnm. destruct Hnm as [Hn Hnm].
    assert (n = true).
    { unfold needs_arith in H. bool_hyps. match goal with H : ti_arith (p_ti p) = true |- _ => rewrite H in Hn end. destruct n; auto. }
    subst n.
    cbn [dyn_convert] in Hd. cbn [length pad_named combine].
    assert (Hsame : negb (negb (b_undef (arith_box E (p_ti p) a)) && Nat.eqb (b_ty (arith_box E (p_ti p) a)) (p_bare p)) = false).
    { cbn. unfold p_bare. rewrite Nat.eqb_refl. reflexivity. }
    rewrite Hsame in Hd. rewrite andb_false_r in Hd. cbn [andb] in Hd.
    destruct (dyn_convert R E named ps args') as [xs|e] eqn:Exs; try discriminate.
    injection Hd as <-. cbn [map forall3b fst snd].
    apply andb_true_iff. split; [| apply IHHca; auto ].
    apply recv_ok_dyn_arith; assumption.
Qed.

Lemma handles_sound :
  forall E ps args args', conv_args E ps args args' ->
    forall named, forall2b (fun n p => n || negb (ti_arith (p_ti p))) named ps = true ->
      forall3b (fun np a r => recv_ok_dyn E (fst np) (snd np) a r) (combine (pad_named named (length args)) ps) args (map handle_of args') = true.
Proof.
  intros E ps args args' Hca. induction Hca; intros named Hnm.
  - reflexivity.
  - destruct named as [|n named]; cbn in Hnm; try discriminate.
    apply andb_true_iff in Hnm. destruct Hnm as [Hn Hnm].
    cbn [length pad_named combine map forall3b fst snd]. apply andb_true_iff. split; [| apply IHHca; auto ].
    unfold recv_ok_dyn. rewrite is_handle_of_refl. reflexivity.
  - destruct named as [|n named]; cbn in Hnm; try discriminate.
    apply andb_true_iff in Hnm. destruct Hnm as [Hn Hnm].
    assert (n = true).
    { unfold needs_arith in H. bool_hyps. match goal with H : ti_arith (p_ti p) = true |- _ => rewrite H in Hn end. destruct n; auto. }
    subst n.
    cbn [length pad_named combine map forall3b fst snd]. apply andb_true_iff. split; [| apply IHHca; auto ].
    apply recv_ok_dyn_arith; assumption.
Qed.

(* a call either fails before any body is reached, or enters exactly this function once *)
Lemma call_one_shape :
  forall R E f args, (exists e, call_one R E f args = fail e) \/ (exists rs, call_one R E f args = enter E f rs).
Proof.
  intros. unfold call_one.
  destruct (r_arity_check R && negb (f_arity f <? 0)%Z && negb (f_arity f =? Z.of_nat (length args))%Z); [left; eauto|].
  destruct (f_kind f).
  - destruct (unbox_all R E (f_params f) args); [right|left]; eauto.
  - destruct (if (f_arity f <? 0)%Z then (true, false) else if (f_arity f =? Z.of_nat (length args))%Z
              then (if existsb (fun x => x) named then dyn_match (e_convs E) named (f_params f) args else (true, false)) else (false, false)) as [m c].
    destruct (m && match f_guard f with Some gid => e_guard E gid args | None => true end); [| left; eauto ].
    destruct c; [| right; eauto ].
    destruct (dyn_convert R E named (f_params f) args); [right|left]; eauto.
  - destruct (f_params f) as [|p [|]]; try (left; eauto; fail).
    destruct args as [|a [|]]; try (left; eauto; fail).
    destruct (boxed_cast R E _ a); [| left; eauto ].
    destruct (r_isnull r); [destruct (r_attr_nullcheck R); left | right]; eauto.
Qed.

Definition call_args_ok (E : env) (f : func) (args args' : list box) : Prop :=
  ((f_arity f <? 0)%Z = false /\ conv_args E (f_params f) args args') \/ ((f_arity f <? 0)%Z = true /\ args' = args).

Lemma call_one_sound :
  forall R E f args args' rs, rules_ok R = true -> env_ok E = true -> func_wf f = true ->
    call_args_ok E f args args' ->
    call_one R E f args' = enter E f rs -> entry_ok E f args rs = true.
Proof.
  intros R E f args args' rs HR HE Hwf Hargs H. unfold call_one in H. unfold enter, fail in H.
  destruct (r_arity_check R && negb (f_arity f <? 0)%Z && negb (f_arity f =? Z.of_nat (length args'))%Z) eqn:Ear; try discriminate.
  unfold func_wf in Hwf. apply andb_true_iff in Hwf. destruct Hwf as [Hlen Hk].
  unfold entry_ok.
  destruct (f_kind f) eqn:Ek.
  - (* native *)
    bool_hyps.
    destruct (unbox_all R E (f_params f) args') as [rs'|e] eqn:Eu; try discriminate. injection H as <-.
    destruct Hargs as [[_ Hca]|[Hv _]]; [| congruence ].
    destruct (conv_args_length _ _ _ _ Hca) as [L1 L2]. rewrite L1, Nat.eqb_refl. cbn [andb].
    eapply unbox_all_sound; eauto.
  - (* script function *)
    destruct (f_arity f <? 0)%Z eqn:Eneg.
    + cbn [orb andb].
      destruct Hargs as [[Hv _]|[_ ->]]; [ congruence |].
      destruct (match f_guard f with Some gid => e_guard E gid args | None => true end); cbn [andb] in H; try discriminate.
      injection H as <-. apply handles_variadic.
    + cbn [orb] in Hlen. apply Z.eqb_eq in Hlen.
      destruct Hargs as [[_ Hca]|[Hv _]]; [| congruence ].
      destruct (conv_args_length _ _ _ _ Hca) as [L1 L2]. rewrite L1, Nat.eqb_refl. cbn [orb andb].
      destruct (f_arity f =? Z.of_nat (length args'))%Z eqn:Ear2.
      2:{ cbn in H. discriminate. }
      destruct (if existsb (fun x => x) named then dyn_match (e_convs E) named (f_params f) args' else (true, false)) as [m c] eqn:Em.
      destruct (m && match f_guard f with Some gid => e_guard E gid args' | None => true end); try discriminate.
      destruct c.
      * destruct (dyn_convert R E named (f_params f) args') as [vals|e] eqn:Ed; try discriminate.
        injection H as <-. eapply dyn_convert_sound; eauto.
      * injection H as <-. eapply handles_sound; eauto.
  - (* data member *)
    bool_hyps.
    destruct (f_params f) as [|p [|]] eqn:Eps; try discriminate.
    destruct args' as [|a' [|]] eqn:Ea; try discriminate.
    destruct (boxed_cast R E (mkparam (p_ti p) (if b_const a' then FCPtr else FPtr) 0) a') as [r|e] eqn:Ec; try discriminate.
    destruct (r_isnull r) eqn:En; [destruct (r_attr_nullcheck R); discriminate|]. injection H as <-.
    cbn [forallb] in *. bool_hyps.
    assert (Hsame : args = [a']).
    { destruct Hargs as [[_ Hca]|[Hv _]].
      - rewrite Eps in Hca. inversion Hca; subst.
        + match goal with H : conv_args _ [] _ _ |- _ => inversion H; subst; reflexivity end.
        + exfalso. match goal with H : needs_arith (p_ti p) _ = true |- _ => unfold needs_arith in H; apply andb_true_iff in H; destruct H as [H _]; apply andb_true_iff in H; destruct H as [H _]; apply andb_true_iff in H; destruct H as [H _] end. congruence.
      - match goal with H : (f_arity f =? 1)%Z = true |- _ => apply Z.eqb_eq in H; rewrite H in Hv; discriminate end. }
    subst args. rewrite En. cbn [negb]. rewrite andb_true_r.
    unfold boxed_cast in Ec. eapply boxed_cast_sound in Ec; eauto.
    unfold param_wf in *. cbn [p_ti p_form]. bool_hyps.
    match goal with H : ti_undef (p_ti p) = false |- _ => rewrite H end.
    rewrite H, H5, H4 in *.
    destruct (b_const a'); cbn; exact H7.
Qed.

(* ---------------------------------------------------------------------------------------------- *)
(** * dispatch *)

Lemma order_funcs_in :
  forall fs args n f, In (n, f) (order_funcs fs args) ->
    In f fs /\ ((f_arity f = -1)%Z \/ f_arity f = Z.of_nat (length args)).
Proof.
  induction fs as [|g fs IH]; cbn; intros args n f H; [contradiction|].
  destruct (f_arity g =? -1)%Z eqn:E1.
  - destruct H as [H|H]; [injection H as <- <-; apply Z.eqb_eq in E1; auto | apply IH in H; intuition].
  - destruct (f_arity g =? Z.of_nat (length args))%Z eqn:E2.
    + destruct H as [H|H]; [injection H as <- <-; apply Z.eqb_eq in E2; auto | apply IH in H; intuition].
    + apply IH in H; intuition.
Qed.

Lemma order_funcs_zero :
  forall fs args f, In (0, f) (order_funcs fs args) <-> In f fs /\ bare_exact f args = true.
Proof.
  induction fs as [|g fs IH]; cbn; intros args f; [intuition|].
  unfold bare_exact at 1.
  destruct (f_arity g =? -1)%Z eqn:E1.
  - cbn. rewrite IH. split.
    + intros [H|H]; [injection H as Hl <-; split; auto; unfold bare_exact; rewrite E1, Hl; reflexivity | intuition].
    + intros [[<-|H] Hb]; [left; unfold bare_exact in Hb; rewrite E1 in Hb; apply Nat.eqb_eq in Hb; rewrite Hb; reflexivity | right; auto].
  - destruct (f_arity g =? Z.of_nat (length args))%Z eqn:E2.
    + cbn. rewrite IH. split.
      * intros [H|H]; [injection H as Hl <-; split; auto; unfold bare_exact; rewrite E1, E2, Hl; reflexivity | intuition].
      * intros [[<-|H] Hb]; [left; unfold bare_exact in Hb; rewrite E1, E2 in Hb; apply Nat.eqb_eq in Hb; rewrite Hb; reflexivity | right; auto].
    + rewrite IH. split; [intuition|].
      intros [[<-|H] Hb]; [unfold bare_exact in Hb; rewrite E1, E2 in Hb; discriminate | auto].
Qed.

Lemma call_args_ok_plain :
  forall E f args, func_wf f = true -> ((f_arity f = -1)%Z \/ f_arity f = Z.of_nat (length args)) -> call_args_ok E f args args.
Proof.
  intros E f args Hwf Har. unfold call_args_ok.
  destruct (f_arity f <? 0)%Z eqn:En; [right; auto|left; split; auto].
  apply conv_args_refl. unfold func_wf in Hwf. apply andb_true_iff in Hwf. destruct Hwf as [Hl _].
  rewrite En in Hl. cbn in Hl. apply Z.eqb_eq in Hl. apply Z.ltb_ge in En.
  destruct Har as [Har|Har]; [lia|]. rewrite Har in Hl. apply Nat2Z.inj in Hl. auto.
Qed.

(* what a finished call looks like: nothing was entered and an error is returned, or exactly one body was
   entered, with acceptable values, and the call returns whatever that body does *)
Definition final_ok (E : env) (fs : list func) (args : list box) (o : outcome) : Prop :=
  (o_trace o = [] /\ exists e, o_res o = Some e)
  \/ (exists f rs, In f fs /\ o_trace o = [Enter (f_id f) rs] /\ o_res o = e_body E (f_id f) /\ entry_ok E f args rs = true).

Section Dispatch.
  Variables (R : rules) (E : env) (fs : list func) (args : list box).
  Hypothesis HR : rules_ok R = true.
  Hypothesis HE : env_ok E = true.
  Hypothesis Hwf : forall f, In f fs -> func_wf f = true.
  (* callee bodies never throw the exceptions dispatch interprets as "did not match" *)
  Hypothesis Hbody : forall id e, e_body E id = Some e -> retries (r_dispatch_retry R) e = false /\ retries (r_dwc_retry R) e = false.

  Lemma bucket_inv :
    forall i ofs, (forall n f, In (n, f) ofs -> In f fs /\ ((f_arity f = -1)%Z \/ f_arity f = Z.of_nat (length args))) ->
      match bucket R E i ofs args [] with
      | Next tr => tr = []
      | Done o => (o_trace o = [] /\ exists e, o_res o = Some e)
                  \/ (exists f rs, In (i, f) ofs /\ o_trace o = [Enter (f_id f) rs] /\ o_res o = e_body E (f_id f) /\ entry_ok E f args rs = true)
      end.
  Proof.
    induction ofs as [|[n f] ofs IH]; intros Hin; cbn [bucket]; [reflexivity|].
    assert (Hin' : forall n f, In (n, f) ofs -> In f fs /\ ((f_arity f = -1)%Z \/ f_arity f = Z.of_nat (length args))) by (intros n0 f0 H0; apply (Hin n0 f0); right; exact H0).
    specialize (IH Hin').
    assert (Hext : match bucket R E i ofs args [] with
                   | Next tr => tr = []
                   | Done o => (o_trace o = [] /\ exists e, o_res o = Some e)
                               \/ (exists f0 rs, In (i, f0) ((n, f) :: ofs) /\ o_trace o = [Enter (f_id f0) rs] /\ o_res o = e_body E (f_id f0) /\ entry_ok E f0 args rs = true)
                   end).
    { destruct (bucket R E i ofs args []); auto. destruct IH as [IH|(f0 & rs & I1 & I2)]; [left; auto | right; exists f0, rs; split; [right; auto | auto]]. }
    destruct (Nat.eqb n i) eqn:En; [| exact Hext ].
    apply Nat.eqb_eq in En. subst n.
    destruct (if Nat.eqb i 0 then Some true else fn_filter R (e_convs E) f args) as [[|]|].
    - destruct (Hin i f (or_introl eq_refl)) as [Hf Har].
      destruct (call_one_shape R E f args) as [[e He]|[rs He]]; rewrite He; cbn [o_res o_trace fail enter].
      + destruct (retries (r_dispatch_retry R) e); [exact Hext | left; cbn; eauto].
      + assert (Hok : entry_ok E f args rs = true).
        { eapply call_one_sound; eauto. apply call_args_ok_plain; auto. }
        destruct (e_body E (f_id f)) as [e|] eqn:Eb.
        * destruct (Hbody _ _ Eb) as [Hr _]. rewrite Hr. right. exists f, rs. cbn. split; [left; reflexivity | repeat split; auto].
        * right. exists f, rs. cbn. split; [left; reflexivity | repeat split; auto].
    - exact Hext.
    - left. cbn. eauto.
  Qed.

  Lemma buckets_inv :
    forall k i ofs, (forall n f, In (n, f) ofs -> In f fs /\ ((f_arity f = -1)%Z \/ f_arity f = Z.of_nat (length args))) ->
      match buckets R E k i ofs args [] with
      | Next tr => tr = []
      | Done o => (o_trace o = [] /\ exists e, o_res o = Some e)
                  \/ (exists j f rs, In (j, f) ofs /\ o_trace o = [Enter (f_id f) rs] /\ o_res o = e_body E (f_id f) /\ entry_ok E f args rs = true)
      end.
  Proof.
    induction k as [|k IH]; intros i ofs Hin; cbn [buckets]; [reflexivity|].
    pose proof (bucket_inv i ofs Hin) as Hb.
    destruct (bucket R E i ofs args []) as [o|tr].
    - destruct Hb as [Hb|(f & rs & Hb)]; [left; auto | right; exists i, f, rs; auto].
    - subst tr. apply IH; auto.
  Qed.

  Lemma pick_conv_in :
    forall ofs cur f, pick_conv R (e_convs E) ofs args cur = POne f ->
      cur = POne f \/ exists n, In (n, f) ofs /\ types_match_except_for_arithmetic R (e_convs E) f args = true.
  Proof.
    induction ofs as [|[n g] ofs IH]; cbn [pick_conv]; intros cur f H.
    - left; auto.
    - destruct (types_match_except_for_arithmetic R (e_convs E) g args) eqn:Et.
      + destruct cur as [|m| |]; try discriminate.
        * apply IH in H. destruct H as [H|(k & H1 & H2)].
          -- injection H as <-. right. exists n. split; [left; reflexivity | exact Et].
          -- right. exists k. split; [right; auto | auto].
        * destruct args as [|a0 args']; try discriminate.
          destruct (first_const m) as [mc|]; try discriminate.
          destruct (first_const g) as [nc|]; try discriminate.
          destruct (b_const a0 && negb mc && nc).
          -- apply IH in H. destruct H as [H|(k & H1 & H2)].
             ++ injection H as <-. right. exists n. split; [left; reflexivity | exact Et].
             ++ right. exists k. split; [right; auto | auto].
          -- destruct (negb (b_const a0) && negb mc && nc); try discriminate.
             apply IH in H. destruct H as [H|(k & H1 & H2)]; [left; auto|].
             right. exists k. split; [right; auto | auto].
      + apply IH in H. destruct H as [H|(k & H1 & H2)]; [left; auto|]. right. exists k. split; [right; auto | auto].
  Qed.

  Theorem dispatch_final : final_ok E fs args (dispatch R E fs args).
  Proof.
    unfold dispatch.
    assert (Hin : forall n f, In (n, f) (order_funcs fs args) -> In f fs /\ ((f_arity f = -1)%Z \/ f_arity f = Z.of_nat (length args)))
      by (intros n f; apply order_funcs_in).
    pose proof (buckets_inv (S (length args)) 0 _ Hin) as Hb.
    destruct (buckets R E (S (length args)) 0 (order_funcs fs args) args []) as [o|tr].
    - destruct Hb as [Hb|(j & f & rs & I1 & I2 & I3 & I4)]; [left; auto|].
      right. exists f, rs. repeat split; auto. apply (Hin j f I1).
    - subst tr. unfold dispatch_with_conversions.
      destruct (pick_conv R (e_convs E) (order_funcs fs args) args PNone') as [|f| |] eqn:Ep; try (left; cbn; eauto; fail).
      apply pick_conv_in in Ep. destruct Ep as [Ep|(n & I1 & Htm)]; [discriminate|].
      destruct (Hin n f I1) as [Hf Har].
      destruct (r_dwc_only_converted R && negb (any_needs_arith (f_params f) args)); [left; cbn; eauto|].
      destruct (new_plist E (f_params f) args) as [args'|] eqn:Enp; [| left; cbn; eauto ].
      assert (Hca : call_args_ok E f args args').
      { unfold types_match_except_for_arithmetic in Htm.
        destruct (f_arity f =? -1)%Z eqn:E1; try discriminate. apply andb_true_iff in Htm. destruct Htm as [Hl _].
        apply Nat.eqb_eq in Hl. left. split; [| apply new_plist_conv_args; auto ].
        apply Z.eqb_neq in E1. destruct Har as [Har|Har]; [congruence|]. apply Z.ltb_ge. lia. }
      destruct (call_one_shape R E f args') as [[e He]|[rs He]]; rewrite He; cbn [o_res o_trace fail enter app].
      + left. cbn. eauto.
      + assert (Hok : entry_ok E f args rs = true) by (eapply call_one_sound; eauto).
        right. exists f, rs. cbn.
        destruct (e_body E (f_id f)) as [e|] eqn:Eb.
        * destruct (Hbody _ _ Eb) as [_ Hr]. rewrite Hr. repeat split; auto.
        * repeat split; auto.
  Qed.

  (* C06_exact_preferred: if an overload with zero differences accepts the arguments as they are, then whatever is
     entered has zero differences (the call can otherwise only end in a genuine, non-"try next" error raised while
     unboxing for an earlier zero-difference overload, e.g. a null object) *)
  Theorem dispatch_exact :
    forall g rs0, In g fs -> bare_exact g args = true -> call_one R E g args = enter E g rs0 ->
      let o := dispatch R E fs args in
      (o_trace o = [] /\ exists e, o_res o = Some e /\ retries (r_dispatch_retry R) e = false)
      \/ (exists f rs, In f fs /\ bare_exact f args = true /\ o_trace o = [Enter (f_id f) rs]).
  Proof.
    intros g rs0 Hg Hbe Hcall. unfold dispatch.
    assert (Hg0 : In (0, g) (order_funcs fs args)) by (apply order_funcs_zero; auto).
    cbn [buckets].
    assert (Hdone : forall ofs, In (0, g) ofs ->
                      exists o, bucket R E 0 ofs args [] = Done o /\
                        ((o_trace o = [] /\ exists e, o_res o = Some e /\ retries (r_dispatch_retry R) e = false)
                         \/ (exists f rs, In (0, f) ofs /\ o_trace o = [Enter (f_id f) rs]))).
    { induction ofs as [|[n f] ofs IH]; intros Hi; [contradiction|]. cbn [bucket].
      destruct (Nat.eqb n 0) eqn:En.
      - apply Nat.eqb_eq in En. subst n. cbn [Nat.eqb].
        destruct (call_one_shape R E f args) as [[e He]|[rs He]].
        + rewrite He. cbn [o_res o_trace fail app].
          destruct (retries (r_dispatch_retry R) e) eqn:Er.
          * destruct Hi as [Hi|Hi].
            -- injection Hi as Hf. subst f. rewrite Hcall in He. unfold enter, fail in He. discriminate.
            -- destruct (IH Hi) as (o & Ho & Hd). exists o. split; auto.
               destruct Hd as [Hd|(f0 & rs & I1 & I2)]; [left; auto | right; exists f0, rs; split; [right; auto | auto]].
          * eexists. split; [reflexivity|]. left. cbn. eauto.
        + rewrite He. cbn [o_res o_trace enter app].
          destruct (e_body E (f_id f)) as [e|] eqn:Eb.
          * destruct (Hbody _ _ Eb) as [Hr _]. rewrite Hr. eexists. split; [reflexivity|]. right. exists f, rs. cbn. split; [left; reflexivity | reflexivity].
          * eexists. split; [reflexivity|]. right. exists f, rs. cbn. split; [left; reflexivity | reflexivity].
      - destruct Hi as [Hi|Hi]; [injection Hi as Hn Hf; subst n; discriminate|].
        destruct (IH Hi) as (o & Ho & Hd). exists o. split; auto.
        destruct Hd as [Hd|(f0 & rs & I1 & I2)]; [left; auto | right; exists f0, rs; split; [right; auto | auto]]. }
    destruct (Hdone _ Hg0) as (o & Ho & Hd). rewrite Ho. cbn zeta.
    destruct Hd as [Hd|(f & rs & I1 & I2)]; [left; exact Hd|].
    right. exists f, rs. apply order_funcs_zero in I1. tauto.
  Qed.

  (* C06_arity_none *)
  Theorem dispatch_arity_none :
    (forall f, In f fs -> (f_arity f =? -1)%Z = false /\ (f_arity f =? Z.of_nat (length args))%Z = false) ->
    dispatch R E fs args = mkout [] (Some EDispatch).
  Proof.
    intros Hno. unfold dispatch.
    assert (Ho : order_funcs fs args = []).
    { clear - Hno. induction fs as [|f l IH]; cbn; auto.
      destruct (Hno f (or_introl eq_refl)) as [H1 H2]. rewrite H1, H2. apply IH. intros g Hg. apply Hno. right; auto. }
    rewrite Ho. clear. generalize (S (length args)) at 1. intros k. generalize 0.
    induction k; intros i; cbn; auto.
  Qed.
End Dispatch.

(* ---------------------------------------------------------------------------------------------- *)
(** * Calling the function object registered under a name *)

Theorem call_named_final :
  forall R E fs args, rules_ok R = true -> env_ok E = true -> (forall f, In f fs -> func_wf f = true) ->
    (forall id e, e_body E id = Some e -> retries (r_dispatch_retry R) e = false /\ retries (r_dwc_retry R) e = false) ->
    final_ok E fs args (call_named R E fs args).
Proof.
  intros R E fs args HR HE Hwf Hb. unfold call_named.
  assert (Hd : final_ok E fs args (dispatch R E fs args)) by (apply dispatch_final; auto).
  assert (Hf : forall e, final_ok E fs args (fail e)) by (intros e; left; cbn; eauto).
  destruct fs as [|f [|g fs']].
  - destruct (r_arity_check R && negb (common_arity [] <? 0)%Z && negb (common_arity [] =? Z.of_nat (length args))%Z); auto.
  - destruct (has_arith_param f).
    + destruct (r_arity_check R && negb (f_arity f <? 0)%Z && negb (f_arity f =? Z.of_nat (length args))%Z); auto.
    + destruct (call_one_shape R E f args) as [[e He]|[rs He]]; rewrite He; auto.
      right. exists f, rs. cbn. repeat split; auto.
      eapply call_one_sound; eauto; [apply Hwf; left; auto|].
      (* the arity check let the call through *)
      unfold call_one in He.
      destruct (r_arity_check R && negb (f_arity f <? 0)%Z && negb (f_arity f =? Z.of_nat (length args))%Z) eqn:Ear;
        [unfold fail, enter in He; discriminate|].
      assert (Hac : r_arity_check R = true) by (unfold rules_ok in HR; bool_hyps; auto).
      rewrite Hac in Ear. cbn [andb] in Ear.
      unfold call_args_ok. destruct (f_arity f <? 0)%Z eqn:En; [right; auto|].
      cbn [negb andb] in Ear. apply negb_false_iff in Ear. apply Z.eqb_eq in Ear.
      left. split; auto. apply conv_args_refl.
      specialize (Hwf f (or_introl eq_refl)). unfold func_wf in Hwf. apply andb_true_iff in Hwf. destruct Hwf as [Hl _].
      rewrite En in Hl. cbn in Hl. apply Z.eqb_eq in Hl. rewrite Ear in Hl. apply Nat2Z.inj in Hl. auto.
  - destruct (r_arity_check R && negb (common_arity (f :: g :: fs') <? 0)%Z && negb (common_arity (f :: g :: fs') =? Z.of_nat (length args))%Z); auto.
Qed.

(* final_ok in the words of the property *)
Lemma final_ok_single_entry :
  forall E fs args o, final_ok E fs args o -> length (o_trace o) <= 1.
Proof. intros E fs args o [[H _]|(f & rs & _ & H & _)]; rewrite H; cbn; lia. Qed.

Lemma final_ok_sound :
  forall E fs args o i rs, final_ok E fs args o -> In (Enter i rs) (o_trace o) ->
    exists f, In f fs /\ f_id f = i /\ entry_ok E f args rs = true.
Proof.
  intros E fs args o i rs [[H _]|(f & rs' & Hf & H & _ & Hok)] Hin; rewrite H in Hin; cbn in Hin; [contradiction|].
  destruct Hin as [Hin|[]]. injection Hin as <- <-. eauto.
Qed.

Lemma final_ok_error_none :
  forall E fs args o e, final_ok E fs args o -> o_res o = Some e ->
    o_trace o = [] \/ exists f rs, In f fs /\ o_trace o = [Enter (f_id f) rs] /\ e_body E (f_id f) = Some e.
Proof.
  intros E fs args o e [[H _]|(f & rs & Hf & H & Hr & _)] He; [left; auto|].
  right. exists f, rs. repeat split; auto. congruence.
Qed.

(* ---------------------------------------------------------------------------------------------- *)
(** * Registration keeps exactly the registered overloads *)

Section SortPerm.
  Variable A : Type.
  Variable lt : A -> A -> bool.

  Lemma linear_insert_perm : forall rp x after, Permutation (linear_insert A lt rp x after) (rev rp ++ x :: after).
  Proof.
    induction rp as [|y r IH]; intros x after; cbn [linear_insert].
    - reflexivity.
    - destruct (lt x y).
      + rewrite IH. cbn [rev]. rewrite <- app_assoc. cbn. apply Permutation_app_head. apply perm_swap.
      + reflexivity.
  Qed.
  Lemma insert_one_perm : forall sorted x, Permutation (insert_one A lt sorted x) (x :: sorted).
  Proof.
    intros sorted x. unfold insert_one. destruct sorted as [|h t]; [reflexivity|].
    destruct (lt x h); [reflexivity|].
    rewrite linear_insert_perm. rewrite rev_involutive. symmetry. apply Permutation_cons_append.
  Qed.
  Lemma insertion_sort_perm_gen : forall l acc, Permutation (fold_left (insert_one A lt) l acc) (acc ++ l).
  Proof.
    induction l as [|x l IH]; intros acc; cbn [fold_left].
    - rewrite app_nil_r. reflexivity.
    - rewrite IH. rewrite insert_one_perm. cbn. apply Permutation_middle.
  Qed.
  Lemma insertion_sort_perm : forall l, Permutation (insertion_sort lt l) l.
  Proof. intros. unfold insertion_sort. rewrite insertion_sort_perm_gen. reflexivity. Qed.
  Lemma merge_fwd_perm : forall a b, Permutation (merge_fwd A lt a b) (a ++ b).
  Proof.
    induction a as [|x a IHa]; intros b.
    - destruct b; reflexivity.
    - induction b as [|y b IHb].
      + cbn. rewrite app_nil_r. reflexivity.
      + cbn [merge_fwd]. destruct (lt y x).
        * change (Permutation (y :: merge_fwd A lt (x :: a) b) ((x :: a) ++ y :: b)).
          rewrite IHb. apply Permutation_middle.
        * rewrite IHa. reflexivity.
  Qed.
  Lemma merge_bwd_perm : forall a b, Permutation (merge_bwd A lt a b) (a ++ b).
  Proof.
    induction a as [|x a IHa]; intros b.
    - destruct b; reflexivity.
    - induction b as [|y b IHb].
      + cbn. rewrite app_nil_r. reflexivity.
      + cbn [merge_bwd]. destruct (lt y x).
        * rewrite IHa. reflexivity.
        * change (Permutation (y :: merge_bwd A lt (x :: a) b) ((x :: a) ++ y :: b)).
          rewrite IHb. apply Permutation_middle.
  Qed.
  Lemma stable_sort_perm : forall l, Permutation (stable_sort lt l) l.
  Proof.
    intros l. unfold stable_sort. destruct (Nat.leb (length l) 14).
    - set (h := Nat.div (length l + 1) 2).
      destruct (Nat.leb (length (insertion_sort lt (firstn h l))) (length (insertion_sort lt (skipn h l)))).
      + rewrite merge_fwd_perm, !insertion_sort_perm. rewrite firstn_skipn. reflexivity.
      + rewrite <- Permutation_rev. rewrite merge_bwd_perm. rewrite <- !Permutation_rev.
        rewrite !insertion_sort_perm. rewrite firstn_skipn. reflexivity.
    - apply insertion_sort_perm.
  Qed.
End SortPerm.

Lemma register_all_perm : forall R fs, Permutation (register_all R fs) fs.
Proof.
  intros R fs. unfold register_all.
  assert (H : forall l acc, Permutation (fold_left (register R) l acc) (acc ++ l)).
  { induction l as [|f l IH]; intros acc; cbn [fold_left].
    - rewrite app_nil_r. reflexivity.
    - rewrite IH. unfold register. rewrite stable_sort_perm. rewrite <- app_assoc. reflexivity. }
  apply (H fs []).
Qed.

Lemma register_all_in : forall R fs f, In f (register_all R fs) <-> In f fs.
Proof. intros. split; apply Permutation_in; [apply register_all_perm | symmetry; apply register_all_perm]. Qed.

(* ---------------------------------------------------------------------------------------------- *)
(** * Mutable access is never access to a const object (C07_cast_guard) *)

Lemma ident_neq_arith : forall i, IdArith i <> i.
Proof. induction i; intros H; try discriminate. injection H as H. auto. Qed.
Lemma ident_neq_conv : forall u i, IdConv u i <> i.
Proof. intros u. induction i; intros H; try discriminate. injection H as Hu H. subst. auto. Qed.

Lemma form_mutable_facts : forall f, form_mutable f = true -> form_handle f = false /\ form_beq f FBN = false /\ form_beq f FFn = false /\ form_access f = AcMut.
Proof. destruct f; cbn; intros H; try discriminate; auto. Qed.

(* specification level: whatever a mutable parameter form receives for a const argument is not that argument's object *)
Theorem mutable_recv_not_const :
  forall E p a r, recv_ok E p a r = true -> form_mutable (p_form p) = true -> b_const a = true -> r_id r <> b_id a.
Proof.
  intros E p a r H Hm Hc. destruct (form_mutable_facts _ Hm) as (Hh & Hn & Hf & Hacc).
  unfold recv_ok in H. rewrite Hh, Hn, Hf in H. cbn [andb orb negb] in H.
  apply andb_true_iff in H. destruct H as [Hg Hd].
  assert (Hra : r_acc r = AcMut).
  { bool_hyps. match goal with H : access_beq (r_acc r) (form_access (p_form p)) = true |- _ => apply access_beq_eq in H; rewrite Hacc in H; exact H end. }
  clear Hg.
  apply orb_true_iff in Hd. destruct Hd as [Hd|Hd]; [apply orb_true_iff in Hd; destruct Hd as [Hd|Hd]|].
  - exfalso. bool_hyps. match goal with H : acc_ok r a = true |- _ => unfold acc_ok in H; rewrite Hra, Hc in H; discriminate end.
  - bool_hyps. match goal with H : ident_eqb (r_id r) (IdArith _) = true |- _ => apply ident_eqb_eq in H; rewrite H end. apply ident_neq_arith.
  - apply existsb_exists in Hd. destruct Hd as (c & _ & Hd). destruct (cv_kind c).
    + exfalso. bool_hyps. match goal with H : acc_ok r a = true |- _ => unfold acc_ok in H; rewrite Hra, Hc in H; discriminate end.
    + exfalso. bool_hyps. match goal with H : acc_ok r a = true |- _ => unfold acc_ok in H; rewrite Hra, Hc in H; discriminate end.
    + bool_hyps. match goal with H : ident_eqb (r_id r) (IdConv _ _) = true |- _ => apply ident_eqb_eq in H; rewrite H end. apply ident_neq_conv.
Qed.

(* rule level: a Cast_Helper_Inner whose form permits mutation rejects a const box *)
Theorem cast_guard :
  forall R f t b r, rules_ok R = true -> In f inner_forms -> form_mutable f = true -> b_const b = true ->
    inner_cast R f t b <> DOk r.
Proof.
  intros R f t b r HR Hin Hm Hc H.
  destruct (form_mutable_facts _ Hm) as (Hh & _ & _ & Hacc).
  apply inner_cast_self in H; auto using rules_ok_form.
  apply self_ok_facts in H. destruct H as (_ & _ & _ & _ & _ & Ha & Hmm & _).
  rewrite access_inner_eq in Ha by assumption. rewrite Hacc in Ha. specialize (Hmm Ha). congruence.
Qed.

(* the only exceptions dispatch treats as "try the next overload" are the three named in the property *)
Lemma retries_only_three :
  forall R e, rules_ok R = true -> retries (r_dispatch_retry R) e = true \/ retries (r_dwc_retry R) e = true ->
    e = EBadCast \/ e = EArity \/ e = EGuard.
Proof.
  intros R e HR H. unfold rules_ok in HR. bool_hyps.
  assert (G : forall l, forallb (fun c => match c with RcBadCast | RcArity | RcGuard => true | _ => false end) l = true ->
                        retries l e = true -> e = EBadCast \/ e = EArity \/ e = EGuard).
  { intros l Hl Hr. unfold retries in Hr. apply existsb_exists in Hr. destruct Hr as (c & Hc & Hm).
    rewrite forallb_forall in Hl. specialize (Hl c Hc). destruct c; try discriminate; destruct e; cbn in Hm; try discriminate; auto. }
  destruct H as [H|H]; eauto.
Qed.

Definition body_ok (E : env) : Prop :=
  forall id, e_body E id <> Some EBadCast /\ e_body E id <> Some EArity /\ e_body E id <> Some EGuard.

Lemma body_ok_retries :
  forall R E, rules_ok R = true -> body_ok E ->
    forall id e, e_body E id = Some e -> retries (r_dispatch_retry R) e = false /\ retries (r_dwc_retry R) e = false.
Proof.
  intros R E HR Hb id e He. destruct (Hb id) as (B1 & B2 & B3).
  split.
  - destruct (retries (r_dispatch_retry R) e) eqn:Er; auto.
    destruct (retries_only_three R e HR (or_introl Er)) as [ -> | [ -> | -> ] ]; congruence.
  - destruct (retries (r_dwc_retry R) e) eqn:Er; auto.
    destruct (retries_only_three R e HR (or_intror Er)) as [ -> | [ -> | -> ] ]; congruence.
Qed.

Theorem call_named_arity_none :
  forall R E fs args, rules_ok R = true ->
    (forall f, In f fs -> (f_arity f <? 0)%Z = false /\ (f_arity f =? Z.of_nat (length args))%Z = false) ->
    o_trace (call_named R E fs args) = [] /\ (o_res (call_named R E fs args) = Some EArity \/ o_res (call_named R E fs args) = Some EDispatch).
Proof.
  intros R E fs args HR Hno.
  assert (Hac : r_arity_check R = true) by (unfold rules_ok in HR; bool_hyps; auto).
  assert (Hd : dispatch R E fs args = mkout [] (Some EDispatch)).
  { destruct fs as [|f0 fs0] eqn:Efs.
    - unfold dispatch. cbn [order_funcs]. generalize (S (length args)) at 1. intros k. generalize 0. induction k; intros i; cbn; auto.
    - rewrite <- Efs in *. clear Efs.
      unfold dispatch.
      assert (Ho : order_funcs fs args = []).
      { clear - Hno. induction fs as [|f l IH]; cbn; auto.
        destruct (Hno f (or_introl eq_refl)) as [H1 H2].
        assert (H3 : (f_arity f =? -1)%Z = false) by (apply Z.eqb_neq; apply Z.ltb_ge in H1; lia).
        rewrite H3, H2. apply IH. intros g Hg. apply Hno. right; auto. }
      rewrite Ho. generalize (S (length args)) at 1. intros k. generalize 0. induction k; intros i; cbn; auto. }
  unfold call_named.
  destruct fs as [|f [|g fs']].
  - destruct (r_arity_check R && _ && _); cbn; [auto | rewrite Hd; cbn; auto].
  - destruct (Hno f (or_introl eq_refl)) as [H1 H2].
    destruct (has_arith_param f).
    + rewrite Hac, H1, H2. cbn. auto.
    + unfold call_one. rewrite Hac, H1, H2. cbn. auto.
  - destruct (r_arity_check R && _ && _); cbn; [auto | rewrite Hd; cbn; auto].
Qed.

(* ---------------------------------------------------------------------------------------------- *)
(** * A data member is never read through a null object *)

Theorem attr_null_no_entry :
  forall R E f a, rules_ok R = true -> func_wf f = true -> f_kind f = KAttr -> b_null a = true ->
    o_trace (call_one R E f [a]) = []
    /\ (o_res (call_one R E f [a]) = Some ENull \/ o_res (call_one R E f [a]) = Some EArity
        \/ exists p e, f_params f = [p] /\ boxed_cast R E (mkparam (p_ti p) (if b_const a then FCPtr else FPtr) 0) a = CErr e
                       /\ o_res (call_one R E f [a]) = Some e).
Proof.
  intros R E f a HR Hwf Hk Hn. unfold call_one. rewrite Hk.
  destruct (r_arity_check R && negb (f_arity f <? 0)%Z && negb (f_arity f =? Z.of_nat (length [a]))%Z); [cbn; auto|].
  unfold func_wf in Hwf. rewrite Hk in Hwf. bool_hyps.
  assert (Har : f_arity f = 1%Z) by (apply Z.eqb_eq; assumption).
  assert (Hlen : Z.of_nat (length (f_params f)) = 1%Z).
  { match goal with H : _ || _ = true |- _ => apply orb_true_iff in H; destruct H as [H|H] end.
    - apply Z.ltb_lt in H. lia.
    - apply Z.eqb_eq in H. lia. }
  destruct (f_params f) as [|p [|q ps]] eqn:Eps; cbn [length] in Hlen; try lia.
  destruct (boxed_cast R E (mkparam (p_ti p) (if b_const a then FCPtr else FPtr) 0) a) as [r|e] eqn:Ec.
  - assert (Hnull : r_isnull r = true).
    { unfold boxed_cast in Ec. apply boxed_cast_cases in Ec; auto. destruct Ec as [Hd|(b' & Him & _)].
      - unfold direct_ok in Hd. cbn [p_form] in Hd.
        assert (Hs : self_ok (if b_const a then FCPtr else FPtr) (p_bare (mkparam (p_ti p) (if b_const a then FCPtr else FPtr) 0)) a r = true)
          by (destruct (b_const a); exact Hd).
        apply self_ok_facts in Hs. destruct Hs as (_ & _ & _ & _ & _ & _ & _ & Hi & _). rewrite Hi, Hn. destruct (b_const a); reflexivity.
      - destruct Him as (_ & Hnn & _). congruence. }
    rewrite Hnull.
    assert (Hnc : r_attr_nullcheck R = true) by (unfold rules_ok in HR; bool_hyps; auto).
    rewrite Hnc. cbn. auto.
  - cbn. split; auto. right. right. exists p, e. auto.
Qed.
