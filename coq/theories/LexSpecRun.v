(* C16 — executable *specification* (oracle side; independent of the regenerated tables and of the scanners)
   and the rendering helpers shared with LexRun.  One case per line:
     lit <hex input>          a single literal / identifier as the whole input
     idv <off> <hex input>    an identifier in declaration position (`var X`), starting at byte <off>
   Output: what C++ / the property text demands of that spelling:
     INT <type> <value> | TOOBIG | FLT <type> <bits of the correctly rounded value> | STR <hex bytes> | CHR <signed char value>
     | WORD <which> | NAME <hex text> | RESERVED | ERROR (ill-formed escape: must be rejected) | NOSPEC <why> *)
From Coq Require Import ZArith NArith List Bool String Ascii Floats.SpecFloat.
From ChaiV Require Import StrUtil NumDefs NumSpecRun LexDefs CxxLiteral.
Import ListNotations.
Local Open Scope string_scope.
Local Open Scope Z_scope.

Definition ity_name (t : ity) : string :=
  match t with IInt => "int" | IUInt => "uint" | ILong => "long" | IULong => "ulong" | ILLong => "llong" | IULLong => "ullong" end.
Definition fk_name (k : fk) : string := match k with F32 => "float" | F64 => "double" | F80 => "ldouble" end.

(* ------------------------------------------------------------------ floating literals: the exactly rounded value *)
Definition is_dec (c : N) : bool := (48 <=? c)%N && (c <=? 57)%N.
Fixpoint span_dec (s : list N) : list N * list N :=
  match s with c :: r => if is_dec c then let '(a, b) := span_dec r in (c :: a, b) else ([], s) | [] => ([], []) end.
Definition dec_value (ds : list N) : Z := fold_left (fun a c => a * 10 + (Z.of_N c - 48)) ds 0.
(* digits [. digits] [e [+-] digits] [f|F|l|L]  ->  (mantissa, decimal exponent, type); at least one of '.', 'e' present *)
Definition float_spelling (s : list N) : option (Z * Z * fk) :=
  let '(ip, r1) := span_dec s in
  let '(fp, r2, dot) := match r1 with
                        | 46%N :: r => let '(f, r') := span_dec r in (f, r', true)
                        | _ => ([], r1, false)
                        end in
  let '(ex, r3, hasexp, okexp) :=
    match r2 with
    | c :: r => if (c =? 101)%N || (c =? 69)%N then
                  let '(neg, r') := match r with 45%N :: t => (true, t) | 43%N :: t => (false, t) | _ => (false, r) end in
                  let '(ed, r'') := span_dec r' in
                  ((if neg then - dec_value ed else dec_value ed), r'', true, negb (Nat.eqb (List.length ed) 0))
                else (0, r2, false, true)
    | [] => (0, r2, false, true)
    end in
  if negb okexp || negb (dot || hasexp) || (dot && Nat.eqb (List.length fp) 0) || Nat.eqb (List.length ip + List.length fp) 0 then None
  else match float_suffix_type r3 with
       | Some k => Some (dec_value (ip ++ fp), ex - Z.of_nat (List.length fp), k)
       | None => None
       end.
(* m * 10^e rounded to nearest-even in format k (SFdiv / binary_normalize round an exact integer quotient) *)
Definition round_decimal (k : fk) (m e : Z) : spec_float :=
  let p := fprec k in let em := femax k in
  match m with
  | Zpos mp =>
      if 0 <=? e then (if 6000 <? e then S754_infinity false else binary_normalize p em (m * 10 ^ e) 0 false)
      else if e <? -12000 then S754_zero false
      else match 10 ^ (- e) with Zpos d => SFdiv p em (S754_finite false mp 0) (S754_finite false d 0) | _ => S754_nan end
  | _ => S754_zero false
  end.

(* ------------------------------------------------------------------ identifiers: the word literals of the property text *)
Definition word_literals : list (string * string) :=
  [("true", "true"); ("false", "false"); ("Infinity", "Infinity"); ("NaN", "NaN"); ("__LINE__", "__LINE__");
   ("__FILE__", "__FILE__"); ("__FUNC__", "__FUNC__"); ("__CLASS__", "__CLASS__"); ("_", "placeholder")].
Definition is_id_start (c : N) : bool := ((97 <=? c)%N && (c <=? 122)%N) || ((65 <=? c)%N && (c <=? 90)%N) || (c =? 95)%N.
Definition is_id_char (c : N) : bool := is_id_start c || is_dec c.
Definition plain_identifier (s : list N) : bool :=
  match s with c :: r => is_id_start c && forallb is_id_char r | [] => false end.

Definition signed_char (c : N) : Z := if (128 <=? c)%N then Z.of_N c - 256 else Z.of_N c.

Definition spec_lit (s : list N) : string :=
  match s with
  | [] => "NOSPEC empty"
  | 34%N :: r =>
      match rev r with
      | 34%N :: body_rev =>
          let body := rev body_rev in
          if negb (closed_content 34 body) then "NOSPEC not-one-literal"
          else if has_marker body then "NOSPEC interpolation"
          else match decode body with Some bs => "STR " ++ hex_of_bytes bs | None => "ERROR" end
      | _ => "NOSPEC not-one-literal"
      end
  | 39%N :: r =>
      match rev r with
      | 39%N :: body_rev =>
          let body := rev body_rev in
          if negb (closed_content 39 body) then "NOSPEC not-one-literal"
          else match decode body with
               | Some [c] => "CHR " ++ dec_of_z (signed_char c)
               | _ => "ERROR"
               end
      | _ => "NOSPEC not-one-literal"
      end
  | c :: _ =>
      if is_dec c || (c =? 46)%N then
        match float_spelling s with
        | Some (m, e, k) => "FLT " ++ fk_name k ++ " " ++ bits_of_float k (round_decimal k m e)
        | None =>
            match int_spelling s with
            | IntLit t v => "INT " ++ ity_name t ++ " " ++ dec_of_z v
            | IntTooBig => "TOOBIG"
            | IntIllFormed => "NOSPEC ill-formed-number"
            end
        end
      else if plain_identifier s then
        match find (fun w => String.eqb (fst w) (string_of_bytes s)) word_literals with
        | Some w => "WORD " ++ snd w
        | None => "NAME " ++ hex_of_bytes s
        end
      else "NOSPEC not-a-literal"
  end.

Definition spec_idv (off : nat) (s : list N) : string :=
  let t := skipn off s in
  if plain_identifier t then
    if mem_bytes t reserved_words then "RESERVED"
    else if existsb (fun w => String.eqb (fst w) (string_of_bytes t)) word_literals then "NOSPEC word-literal-not-reserved"
    else "NAME " ++ hex_of_bytes t
  else "NOSPEC not-an-identifier".

Definition spec_line (l : string) : string :=
  let w := words l in
  let cmd := nth_word 0 w in
  if String.eqb cmd "lit" then
    match bytes_of_hex (nth_word 1 w) with Some s => spec_lit s | None => "BADCASE" end
  else if String.eqb cmd "idv" then
    match z_of_dec (nth_word 1 w), bytes_of_hex (nth_word 2 w) with
    | Some o, Some s => spec_idv (Z.to_nat o) s
    | _, _ => "BADCASE"
    end
  else "BADCASE".
