(* C14 — proofs.  With a key that is never reused (ByFreshId, or the specification ByEngine) what an engine
   observes is a function of the operations applied to that engine alone, for every history over any number of
   engines and threads; and both policies give the same observations.  With ByAddress there is a history in
   which the second engine reads the first one's locals. *)
From Coq Require Import List Bool String Arith Lia.
From ChaiV Require Import ThreadStoreDefs.
Import ListNotations.
Local Open Scope list_scope.

(* ================================================================ association lists *)
Lemma nlookup_nremove {V : Type} k r (l : list (nat * V)) :
  nlookup k (nremove r l) = if Nat.eqb r k then None else nlookup k l.
Proof.
  induction l as [| [a v] l IH]; cbn.
  - now destruct (Nat.eqb r k).
  - destruct (Nat.eqb a r) eqn:E1.
    + apply Nat.eqb_eq in E1. subst a. rewrite IH. destruct (Nat.eqb r k); reflexivity.
    + cbn. destruct (Nat.eqb a k) eqn:E3.
      * apply Nat.eqb_eq in E3. subst a. apply Nat.eqb_neq in E1.
        destruct (Nat.eqb r k) eqn:E2; [apply Nat.eqb_eq in E2; congruence | reflexivity].
      * exact IH.
Qed.

Lemma nlookup_nset {V : Type} k r (v : V) l : nlookup k (nset r v l) = if Nat.eqb r k then Some v else nlookup k l.
Proof.
  unfold nset. cbn. destruct (Nat.eqb r k) eqn:E; [reflexivity |]. rewrite nlookup_nremove. now rewrite E.
Qed.

(* ================================================================ the per-thread maps as a function (thread, key) -> locals *)
Lemma locals_set w t k l t' k' :
  locals_of (set_locals w t k l) t' k' = if Nat.eqb t t' && Nat.eqb k k' then l else locals_of w t' k'.
Proof.
  unfold locals_of, set_locals, thread_map. cbn [w_threads]. rewrite nlookup_nset.
  destruct (Nat.eqb t t') eqn:E; cbn [andb]; [| reflexivity].
  apply Nat.eqb_eq in E. subst t'. rewrite nlookup_nset. destruct (Nat.eqb k k'); reflexivity.
Qed.

Lemma locals_erase w t k t' k' :
  locals_of (erase_key w t k) t' k' = if Nat.eqb t t' && Nat.eqb k k' then [] else locals_of w t' k'.
Proof.
  unfold locals_of, erase_key, thread_map. cbn [w_threads]. rewrite nlookup_nset.
  destruct (Nat.eqb t t') eqn:E; cbn [andb]; [| reflexivity].
  apply Nat.eqb_eq in E. subst t'. rewrite nlookup_nremove. destruct (Nat.eqb k k'); reflexivity.
Qed.

Lemma locals_threads w n es t k : locals_of (mkW n es (w_threads w)) t k = locals_of w t k.
Proof. reflexivity. Qed.

(* ================================================================ invariants of the two sound policies *)
Definition distinct_keys (w : world) : Prop :=
  forall e1 e2 en1 en2, e1 <> e2 -> nlookup e1 (w_engines w) = Some en1 -> nlookup e2 (w_engines w) = Some en2 -> e_key en1 <> e_key en2.

Definition I (p : policy) (w : world) : Prop :=
  distinct_keys w /\
  match p with
  | ByFreshId => (forall e en, nlookup e (w_engines w) = Some en -> e_key en <= w_next w) /\
                 (forall t k, w_next w < k -> locals_of w t k = [])
  | ByEngine => (forall e en, nlookup e (w_engines w) = Some en -> e_key en = e) /\
                (forall t k, nlookup k (w_engines w) = None -> locals_of w t k = [])
  | ByAddress => False
  end.

Lemma I_init p : p <> ByAddress -> I p w_init.
Proof.
  intros H. split; [intros e1 e2 en1 en2 _ X; discriminate |].
  destruct p; [congruence | split; [intros e en X; discriminate | reflexivity] | split; [intros e en X; discriminate | reflexivity]].
Qed.

(* a new key is different from every key in use and no thread has data under it *)
Lemma I_fresh p w e addr : I p w -> nlookup e (w_engines w) = None ->
  (forall e2 en2, nlookup e2 (w_engines w) = Some en2 -> e_key en2 <> ckey p w e addr) /\ (forall t, locals_of w t (ckey p w e addr) = []).
Proof.
  intros [D H] N. destruct p; [contradiction | |]; destruct H as [H1 H2]; cbn [ckey].
  - split; [intros e2 en2 L; specialize (H1 _ _ L); lia | intros t; apply H2; lia].
  - split; [intros e2 en2 L; rewrite (H1 _ _ L); intros ->; congruence | intros t; now apply H2].
Qed.

(* replacing an engine record by one with the same key *)
Lemma I_update p w e en en' ths :
  I p (mkW (w_next w) (w_engines w) ths) -> nlookup e (w_engines w) = Some en -> e_key en' = e_key en ->
  I p (mkW (w_next w) (nset e en' (w_engines w)) ths).
Proof.
  intros [D H] L K.
  assert (KK : forall x enx, nlookup x (nset e en' (w_engines w)) = Some enx ->
                             exists eny, nlookup x (w_engines w) = Some eny /\ e_key enx = e_key eny).
  { intros x enx. rewrite nlookup_nset. destruct (Nat.eqb e x) eqn:E.
    - apply Nat.eqb_eq in E. subst x. intros [= <-]. eauto.
    - intros X. eauto. }
  split.
  - intros e1 e2 en1 en2 NE L1 L2. cbn [w_engines] in *.
    destruct (KK _ _ L1) as (y1 & Y1 & ->). destruct (KK _ _ L2) as (y2 & Y2 & ->). exact (D _ _ _ _ NE Y1 Y2).
  - destruct p; [contradiction | |]; destruct H as [H1 H2]; cbn [w_engines w_next] in *; split.
    + intros x enx X. destruct (KK _ _ X) as (y & Y & ->). eauto.
    + exact H2.
    + intros x enx X. destruct (KK _ _ X) as (y & Y & ->). eauto.
    + intros t k X. apply H2. rewrite nlookup_nset in X. destruct (Nat.eqb e k); [discriminate | exact X].
Qed.

Lemma world_eta w : w = mkW (w_next w) (w_engines w) (w_threads w).
Proof. destruct w; reflexivity. Qed.

Lemma I_step p w o : I p w -> I p (fst (step p w o)).
Proof.
  intros HI. destruct o as [e addr t | e t c | e t]; cbn [step].
  - (* create *)
    destruct (nlookup e (w_engines w)) as [en |] eqn:L; [exact HI |].
    assert (PA : policy_eqb p ByAddress = false) by (destruct p; [destruct HI as [_ []] | reflexivity | reflexivity]).
    rewrite PA. cbn [andb fst].
    destruct (I_fresh p w e addr HI L) as [F1 F2]. destruct HI as [D H].
    split.
    + intros e1 e2 en1 en2 NE. cbn [w_engines]. rewrite !nlookup_nset.
      destruct (Nat.eqb e e1) eqn:E1; destruct (Nat.eqb e e2) eqn:E2.
      * apply Nat.eqb_eq in E1, E2. congruence.
      * intros [= <-] L2. cbn [e_key]. intros X. exact (F1 _ _ L2 (eq_sym X)).
      * intros L1 [= <-]. cbn [e_key]. exact (F1 _ _ L1).
      * apply D. exact NE.
    + destruct p; [contradiction | |]; destruct H as [H1 H2]; cbn [cnext ckey w_next w_engines]; split.
      * intros x enx. rewrite nlookup_nset. destruct (Nat.eqb e x); [intros [= <-]; cbn; apply Nat.le_refl | intros X; apply Nat.le_le_succ_r, (H1 _ _ X)].
      * intros t0 k Hk. rewrite locals_threads. apply H2. lia.
      * intros x enx. rewrite nlookup_nset. destruct (Nat.eqb e x) eqn:E; [apply Nat.eqb_eq in E; intros [= <-]; now cbn | apply H1].
      * intros t0 k. rewrite nlookup_nset. destruct (Nat.eqb e k); [discriminate |]. intros X.
        rewrite locals_threads. now apply H2.
  - (* eval *)
    destruct (nlookup e (w_engines w)) as [en |] eqn:L; [| exact HI].
    destruct (e_alive en); [| exact HI].
    destruct c as [n v | n | | n v]; cbn [fst]; try exact HI.
    + (* a local is written under the engine's own key *)
      destruct HI as [D H]. split; [exact D |].
      destruct p; [contradiction | |]; destruct H as [H1 H2]; split; try assumption.
      * intros t0 k Hk. cbn [set_locals w_next w_engines] in Hk. rewrite locals_set. specialize (H1 _ _ L).
        destruct (Nat.eqb (e_key en) k) eqn:E; [apply Nat.eqb_eq in E; lia |]. rewrite andb_false_r. now apply H2.
      * intros t0 k Hk. cbn [set_locals w_next w_engines] in Hk. rewrite locals_set. specialize (H1 _ _ L).
        destruct (Nat.eqb (e_key en) k) eqn:E; [apply Nat.eqb_eq in E; congruence |]. rewrite andb_false_r. now apply H2.
    + destruct (slookup n (e_globals en)); [exact HI |]. cbn [fst].
      apply (I_update p w e en); [now rewrite <- world_eta | exact L | reflexivity].
  - (* destroy *)
    destruct (nlookup e (w_engines w)) as [en |] eqn:L; [| exact HI].
    destruct (e_alive en); [| exact HI]. cbn [fst].
    assert (J : I p (mkW (w_next w) (nset e (mkEng false (e_key en) (e_globals en)) (w_engines w)) (w_threads w))).
    { apply (I_update p w e en); [now rewrite <- world_eta | exact L | reflexivity]. }
    destruct J as [D H]. split; [exact D |].
    destruct p; [contradiction | |]; destruct H as [H1 H2]; split; try assumption.
    * intros t0 k Hk. rewrite locals_erase. destruct (Nat.eqb t t0 && Nat.eqb (e_key en) k); [reflexivity | now apply H2].
    * intros t0 k Hk. rewrite locals_erase. destruct (Nat.eqb t t0 && Nat.eqb (e_key en) k); [reflexivity | now apply H2].
Qed.

(* ================================================================ the simulation *)
Definition R (b : nat) (w w' : world) : Prop :=
  match nlookup b (w_engines w), nlookup b (w_engines w') with
  | None, None => True
  | Some en, Some en' =>
      e_alive en = e_alive en' /\ e_globals en = e_globals en' /\ forall t, locals_of w t (e_key en) = locals_of w' t (e_key en')
  | _, _ => False
  end.

(* an operation on another engine does not disturb b *)
Lemma step_other p b w w' o : I p w -> R b w w' -> op_engine o <> b -> R b (fst (step p w o)) w'.
Proof.
  intros HI HR NE. unfold R in *.
  destruct o as [e addr t | e t c | e t]; cbn [op_engine] in NE; cbn [step].
  - destruct (nlookup e (w_engines w)) as [en |] eqn:L; [exact HR |].
    assert (PA : policy_eqb p ByAddress = false) by (destruct p; [destruct HI as [_ []] | reflexivity | reflexivity]).
    rewrite PA. cbn [andb fst w_engines]. rewrite nlookup_nset.
    destruct (Nat.eqb e b) eqn:E; [apply Nat.eqb_eq in E; congruence |]. exact HR.
  - destruct (nlookup e (w_engines w)) as [en |] eqn:L; [| exact HR].
    destruct (e_alive en); [| exact HR].
    destruct c as [n v | n | | n v]; cbn [fst]; try exact HR.
    + cbn [set_locals w_engines].
      destruct (nlookup b (w_engines w)) as [eb |] eqn:LB; [| exact HR].
      destruct (nlookup b (w_engines w')) as [eb' |]; [| exact HR].
      destruct HR as (A & G & Lo). repeat split; auto. intros t0. rewrite <- Lo.
      change (locals_of (set_locals w t (e_key en) (sset n v (locals_of w t (e_key en)))) t0 (e_key eb) = locals_of w t0 (e_key eb)).
      rewrite locals_set. destruct HI as [D _]. specialize (D e b en eb NE L LB).
      destruct (Nat.eqb (e_key en) (e_key eb)) eqn:E; [apply Nat.eqb_eq in E; congruence |]. now rewrite andb_false_r.
    + destruct (slookup n (e_globals en)); [exact HR |]. cbn [fst w_engines]. rewrite nlookup_nset.
      destruct (Nat.eqb e b) eqn:E; [apply Nat.eqb_eq in E; congruence |]. exact HR.
  - destruct (nlookup e (w_engines w)) as [en |] eqn:L; [| exact HR].
    destruct (e_alive en); [| exact HR]. cbn [fst erase_key w_engines]. rewrite nlookup_nset.
    destruct (Nat.eqb e b) eqn:E; [apply Nat.eqb_eq in E; congruence |].
    destruct (nlookup b (w_engines w)) as [eb |] eqn:LB; [| exact HR].
    destruct (nlookup b (w_engines w')) as [eb' |]; [| exact HR].
    destruct HR as (A & G & Lo). repeat split; auto. intros t0. rewrite <- Lo.
    change (locals_of (erase_key (mkW (w_next w) (nset e (mkEng false (e_key en) (e_globals en)) (w_engines w)) (w_threads w)) t (e_key en)) t0 (e_key eb)
            = locals_of w t0 (e_key eb)).
    rewrite locals_erase. destruct HI as [D _]. apply Nat.eqb_neq in E. specialize (D e b en eb E L LB).
    destruct (Nat.eqb (e_key en) (e_key eb)) eqn:E2; [apply Nat.eqb_eq in E2; congruence |]. rewrite andb_false_r.
    now rewrite locals_threads.
Qed.

(* an operation on b has the same result in both worlds and keeps them related *)
Lemma step_same p p' b w w' o : I p w -> I p' w' -> R b w w' -> op_engine o = b ->
  snd (step p w o) = snd (step p' w' o) /\ R b (fst (step p w o)) (fst (step p' w' o)).
Proof.
  intros HI HI' HR EQ. unfold R in *.
  destruct o as [e addr t | e t c | e t]; cbn [op_engine] in EQ; subst e; cbn [step].
  - (* create *)
    destruct (nlookup b (w_engines w)) as [eb |] eqn:LB; destruct (nlookup b (w_engines w')) as [eb' |] eqn:LB'; try contradiction.
    + cbn. rewrite LB, LB'. auto.
    + assert (PA : policy_eqb p ByAddress = false) by (destruct p; [destruct HI as [_ []] | reflexivity | reflexivity]).
      assert (PA' : policy_eqb p' ByAddress = false) by (destruct p'; [destruct HI' as [_ []] | reflexivity | reflexivity]).
      rewrite PA, PA'. cbn [andb fst snd w_engines]. split; [reflexivity |].
      rewrite !nlookup_nset, !Nat.eqb_refl. cbn [e_alive e_globals e_key]. repeat split.
      intros t0. rewrite !locals_threads.
      destruct (I_fresh p w b addr HI LB) as [_ F]. destruct (I_fresh p' w' b addr HI' LB') as [_ F']. now rewrite F, F'.
  - (* eval *)
    destruct (nlookup b (w_engines w)) as [eb |] eqn:LB; destruct (nlookup b (w_engines w')) as [eb' |] eqn:LB'; try contradiction.
    2: { cbn. rewrite LB, LB'. auto. }
    destruct HR as (A & G & Lo). rewrite <- A. destruct (e_alive eb) eqn:AL.
    2: { cbn. rewrite LB, LB'. rewrite <- A, AL. auto. }
    destruct c as [n v | n | | n v]; cbn [fst snd].
    + split; [reflexivity |]. cbn [set_locals w_engines]. rewrite LB, LB'. rewrite <- A, AL. repeat split; auto.
      intros t0. rewrite !locals_set, !Nat.eqb_refl, !andb_true_r. destruct (Nat.eqb t t0); [now rewrite Lo | apply Lo].
    + rewrite Lo, G. split; [reflexivity |]. rewrite LB, LB'. rewrite <- A, AL. auto.
    + rewrite Lo. split; [reflexivity |]. rewrite LB, LB'. rewrite <- A, AL. auto.
    + rewrite <- G. destruct (slookup n (e_globals eb)); cbn [fst snd].
      * split; [reflexivity |]. rewrite LB, LB'. rewrite <- A, AL. auto.
      * split; [reflexivity |]. cbn [w_engines]. rewrite !nlookup_nset, !Nat.eqb_refl. cbn [e_alive e_globals e_key]. repeat split.
        intros t0. rewrite !locals_threads. apply Lo.
  - (* destroy *)
    destruct (nlookup b (w_engines w)) as [eb |] eqn:LB; destruct (nlookup b (w_engines w')) as [eb' |] eqn:LB'; try contradiction.
    2: { cbn. rewrite LB, LB'. auto. }
    destruct HR as (A & G & Lo). rewrite <- A. destruct (e_alive eb) eqn:AL.
    2: { cbn. rewrite LB, LB'. rewrite <- A, AL. auto. }
    cbn [fst snd]. split; [reflexivity |]. cbn [erase_key w_engines]. rewrite !nlookup_nset, !Nat.eqb_refl. cbn [e_alive e_globals e_key].
    repeat split; auto. intros t0.
    change (locals_of (erase_key (mkW (w_next w) (nset b (mkEng false (e_key eb) (e_globals eb)) (w_engines w)) (w_threads w)) t (e_key eb)) t0 (e_key eb)
            = locals_of (erase_key (mkW (w_next w') (nset b (mkEng false (e_key eb') (e_globals eb')) (w_engines w')) (w_threads w')) t (e_key eb')) t0 (e_key eb')).
    rewrite !locals_erase, !Nat.eqb_refl, !andb_true_r. destruct (Nat.eqb t t0); [reflexivity |].
    rewrite !locals_threads. apply Lo.
Qed.

Lemma observe_sim p p' b : forall h w w', I p w -> I p' w' -> R b w w' -> observe p b w h = observe p' b w' (proj b h).
Proof.
  induction h as [| o h IH]; intros w w' HI HI' HR; [reflexivity |].
  cbn [observe proj filter]. destruct (Nat.eqb (op_engine o) b) eqn:E.
  - apply Nat.eqb_eq in E. destruct (step_same p p' b w w' o HI HI' HR E) as [S1 S2].
    cbn [observe]. destruct (step p w o) as [w1 r1] eqn:E1. destruct (step p' w' o) as [w1' r1'] eqn:E1'.
    cbn [fst snd] in S1, S2. subst r1'. apply Nat.eqb_eq in E. rewrite E. f_equal.
    apply IH; [| | exact S2].
    + pose proof (I_step p w o HI) as X. now rewrite E1 in X.
    + pose proof (I_step p' w' o HI') as X. now rewrite E1' in X.
  - apply Nat.eqb_neq in E. pose proof (step_other p b w w' o HI HR E) as S. pose proof (I_step p w o HI) as X.
    destruct (step p w o) as [w1 r1]. cbn [fst] in S, X. now apply IH.
Qed.

Lemma R_init b : R b w_init w_init.
Proof. exact Logic.I. Qed.

(* noninterference: what b observes depends on the operations applied to b alone *)
Theorem isolated_thm p : p <> ByAddress -> forall h b, observe p b w_init h = observe p b w_init (proj b h).
Proof. intros H h b. apply observe_sim; auto using I_init, R_init. Qed.

(* the never-reused id gives exactly the observations of the specification *)
Theorem fresh_id_is_spec h b : observe ByFreshId b w_init h = observe ByEngine b w_init h.
Proof.
  rewrite (observe_sim ByFreshId ByEngine b h w_init w_init); [| apply I_init; congruence | apply I_init; congruence | apply R_init].
  symmetry. apply isolated_thm. congruence.
Qed.

(* ================================================================ keyed by address: the witness *)
Local Open Scope string_scope.
Definition leak_history : list op :=
  [Create 0 7 0; Eval 0 1 (SetLocal "secret" 42); Destroy 0 0; Create 1 7 0; Eval 1 1 (Read "secret"); Eval 1 1 Locals].

Example address_leaks :
  observe ByAddress 1 w_init leak_history = [ROk; RValue (Some 42); RNames ["secret"]] /\
  observe ByAddress 1 w_init (proj 1 leak_history) = [ROk; RValue None; RNames []] /\
  observe ByFreshId 1 w_init leak_history = [ROk; RValue None; RNames []].
Proof. vm_compute. repeat split; reflexivity. Qed.

Theorem refuted_by_address : exists h b, observe ByAddress b w_init h <> observe ByAddress b w_init (proj b h).
Proof. exists leak_history, 1. vm_compute. discriminate. Qed.

(* a history with two engines, three threads, name collisions, a reused address: engine 1's observations are those
   of its own operations *)
Example isolation_example :
  let h := [Create 0 7 0; Create 1 8 1; Eval 0 0 (SetLocal "a" 1); Eval 1 0 (SetLocal "a" 2); Eval 0 2 (AddGlobal "g" 3);
            Eval 1 0 (Read "a"); Eval 1 2 (Read "g"); Destroy 0 1; Create 2 7 2; Eval 2 0 (Read "a"); Eval 1 0 Locals] in
  observe ByFreshId 1 w_init h = [ROk; ROk; RValue (Some 2); RValue None; RNames ["a"]] /\
  observe ByFreshId 2 w_init h = [ROk; RValue None] /\
  proj 1 h = [Create 1 8 1; Eval 1 0 (SetLocal "a" 2); Eval 1 0 (Read "a"); Eval 1 2 (Read "g"); Eval 1 0 Locals].
Proof. vm_compute. repeat split; reflexivity. Qed.
