(* C19 — proofs.  Part A: the canonical stream-operation lists of skip_bom / load_file return the content minus at
   most one BOM, for every content of every length.  Part B: with the canonical try block, use() never evaluates
   a path again once it is in m_used_files, evaluates the first existing candidate in search-path order, does
   nothing when that candidate is already used, and reports the name it was given when nothing is found. *)
From Coq Require Import List Bool String Arith NArith Lia.
From ChaiV Require Import FilesDefs.
Import ListNotations.
Local Open Scope list_scope.

(* ================================================================ Part A *)
Lemma store_zeros got : store got (repeat 0%N (List.length got)) = got.
Proof. induction got as [| g r IH]; cbn; [reflexivity | now rewrite IH]. Qed.

Lemma ltb_irrefl n : Nat.ltb n n = false.
Proof. apply Nat.ltb_irrefl. Qed.

Lemma read_all c : st_read (List.length c) (mkStream c 0 false false) = (mkStream c (List.length c) false false, c).
Proof. unfold st_read. cbn [s_good s_fail s_eof orb negb s_pos s_data skipn]. rewrite firstn_all, ltb_irrefl. reflexivity. Qed.

Lemma read_rest a b d r :
  st_read (List.length r) (mkStream (a :: b :: d :: r) 3 false false) = (mkStream (a :: b :: d :: r) (3 + List.length r) false false, r).
Proof. unfold st_read. cbn [s_good s_fail s_eof orb negb s_pos s_data skipn]. rewrite firstn_all, ltb_irrefl. reflexivity. Qed.

Lemma finish_all c s0 (H : s0 = mkStream c 0 false false) :
  lf_out (lstep canonical_skip_bom (Some c) (mkLF s0 true (Some (List.length c)) false None) LFinish) = Some (Content c).
Proof.
  subst. destruct c as [| x c']; [reflexivity |].
  cbn [lstep lf_out lf_size lf_neg List.length lf_s lf_open].
  change (S (List.length c')) with (List.length (x :: c')). rewrite (read_all (x :: c')). cbn [lf_out].
  now rewrite (store_zeros (x :: c')).
Qed.

Definition is_bom3 (a b d : byte) : bool := N.eqb a 239 && N.eqb b 187 && N.eqb d 191.

Lemma skip_bom_canon c :
  let fr := run_skip_bom canonical_skip_bom (mkStream c 0 false false) in
  match c with
  | a :: b :: d :: r =>
      if is_bom3 a b d then bf_ret fr = Some true /\ bf_s fr = mkStream c 3 false false
      else bf_ret fr = Some false /\ bf_s fr = mkStream c 0 false false
  | _ => bf_ret fr = Some false /\ bf_s fr = mkStream c 0 false false
  end.
Proof.
  destruct c as [| a [| b [| d r]]]; cbn.
  - auto.
  - rewrite !andb_false_r. cbn. auto.
  - rewrite !andb_false_r. cbn. auto.
  - unfold is_bom3. destruct (N.eqb a 239), (N.eqb b 187), (N.eqb d 191); cbn; auto.
Qed.

Definition after_open (c : bytes) (pos size : nat) : lframe := mkLF (mkStream c pos false false) true (Some size) false None.

Lemma load_prefix c :
  fold_left (lstep canonical_skip_bom (Some c)) [LOpen true; LThrowIfNotOpen; LTell; LSeekBeg 0] (mkLF closed_stream false None false None)
  = after_open c 0 (List.length c).
Proof. reflexivity. Qed.

Lemma skip_step c :
  lstep canonical_skip_bom (Some c) (after_open c 0 (List.length c)) (LSkipBom 3) =
  match c with
  | a :: b :: d :: r => if is_bom3 a b d then after_open c 3 (List.length r) else after_open c 0 (List.length c)
  | _ => after_open c 0 (List.length c)
  end.
Proof.
  pose proof (skip_bom_canon c) as H. cbn zeta in H.
  unfold after_open, lstep. cbn [lf_out lf_s lf_open lf_size lf_neg].
  destruct c as [| a [| b [| d r]]].
  - destruct H as [-> ->]. reflexivity.
  - destruct H as [-> ->]. reflexivity.
  - destruct H as [-> ->]. reflexivity.
  - destruct (is_bom3 a b d); destruct H as [-> ->]; cbn; rewrite ?Nat.sub_0_r; reflexivity.
Qed.

Lemma finish_bom a b d r :
  lf_out (lstep canonical_skip_bom (Some (a :: b :: d :: r)) (after_open (a :: b :: d :: r) 3 (List.length r)) LFinish) = Some (Content r).
Proof.
  unfold after_open. destruct r as [| x r']; [reflexivity |].
  cbn [lstep lf_out lf_size lf_neg List.length lf_s lf_open].
  change (S (List.length r')) with (List.length (x :: r')).
  rewrite (read_rest a b d (x :: r')). cbn [lf_out]. now rewrite (store_zeros (x :: r')).
Qed.

Theorem load_thm file : run_load_file canonical_skip_bom canonical_load_file file = load_spec file.
Proof.
  destruct file as [c |]; [| reflexivity].
  unfold run_load_file, canonical_load_file, load_spec.
  change [LOpen true; LThrowIfNotOpen; LTell; LSeekBeg 0; LSkipBom 3; LFinish]
    with ([LOpen true; LThrowIfNotOpen; LTell; LSeekBeg 0] ++ [LSkipBom 3; LFinish]).
  rewrite fold_left_app, load_prefix. cbn [fold_left]. rewrite skip_step.
  destruct c as [| a [| b [| d r]]]; try (unfold after_open; now rewrite (finish_all _ _ eq_refl)).
  unfold strip_bom. fold (is_bom3 a b d). destruct (is_bom3 a b d).
  - now rewrite finish_bom.
  - unfold after_open. now rewrite (finish_all _ _ eq_refl).
Qed.

(* without the clear() the seek is a no-op on the failed stream and a 1-byte file comes back as a NUL *)
Definition skip_bom_without_clear : list bop :=
  [BS (BMemset 3); BS (BRead 3); BIfBufferIs bom [BSeek 3; BReturn true]; BS (BSeek 0); BS (BReturn false)].
Example no_clear_returns_nuls :
  run_load_file skip_bom_without_clear canonical_load_file (Some [49%N]) = Content [0%N] /\
  run_load_file skip_bom_without_clear canonical_load_file (Some [49; 50]%N) = Content [0; 0]%N /\
  run_load_file skip_bom_without_clear canonical_load_file (Some [49; 50; 51]%N) = Content [49; 50; 51]%N.
Proof. vm_compute. repeat split; reflexivity. Qed.

Example load_examples :
  run_load_file canonical_skip_bom canonical_load_file (Some [239; 187; 191; 49]%N) = Content [49%N] /\
  run_load_file canonical_skip_bom canonical_load_file (Some [239; 187]%N) = Content [239; 187]%N /\
  run_load_file canonical_skip_bom canonical_load_file (Some [239; 187; 191]%N) = Content [] /\
  run_load_file canonical_skip_bom canonical_load_file None = FileNotFound.
Proof. vm_compute. repeat split; reflexivity. Qed.

(* ================================================================ Part B *)
Lemma split_snoc {A : Type} (l1 l2 l : list A) x e :
  l1 ++ x :: l2 = l ++ [e] -> (l2 = [] /\ x = e /\ l1 = l) \/ exists l2', l2 = l2' ++ [e] /\ l = l1 ++ x :: l2'.
Proof.
  assert (C : l2 = [] \/ exists l2' y, l2 = l2' ++ [y]) by (induction l2 as [| y l2' _] using rev_ind; [now left | right; eauto]).
  destruct C as [-> | (l2' & y & ->)]; intros H.
  - left. apply app_inj_tail in H. tauto.
  - right. exists l2'. change (l1 ++ x :: l2' ++ [y]) with (l1 ++ (x :: l2') ++ [y]) in H. rewrite app_assoc in H.
    apply app_inj_tail in H as [H1 H2]. subst. auto.
Qed.

Lemma mem_true_iff p l : mem p l = true <-> In p l.
Proof.
  induction l as [| x l IH]; cbn; [split; [discriminate | tauto] |].
  rewrite orb_true_iff, IH, String.eqb_eq. tauto.
Qed.
Lemma mem_app_r p l q : mem p l = true -> mem p (l ++ [q]) = true.
Proof. rewrite !mem_true_iff, in_app_iff. tauto. Qed.
Lemma mem_app_last p l : mem p (l ++ [p]) = true.
Proof. rewrite mem_true_iff, in_app_iff. right. now left. Qed.

Definition Inv (st : ustate) : Prop :=
  used_once (u_log st) /\ (forall p, In (EvUsed p) (u_log st) -> mem p (u_used st) = true).
Definition cmd_ok (c : cmd) (st : ustate) : Prop :=
  match c with CEvalPath true p => mem p (u_used st) = false | _ => True end.

Lemma inv_init : Inv u_init.
Proof.
  split; cbn; [| tauto]. intros l1 l2 p H. destruct l1; discriminate.
Qed.

Lemma inv_log_eval b p st : Inv st -> (b = true -> mem p (u_used st) = false) -> Inv (log_ev (EvEval b p) st).
Proof.
  intros [H1 H2] Hb. split; cbn.
  - intros l1 l2 q E. symmetry in E. apply split_snoc in E as [(_ & E & _) | (l2' & -> & E)]; [discriminate |].
    rewrite in_app_iff. intros [H | [H | []]].
    + exact (H1 _ _ _ E H).
    + injection H as -> ->. assert (U : In (EvUsed q) (u_log st)) by (rewrite E, in_app_iff; right; now left).
      rewrite (H2 _ U) in Hb. specialize (Hb eq_refl). discriminate.
  - intros q H. apply in_app_iff in H as [H | [H | []]]; [auto | discriminate].
Qed.

Lemma inv_insert p st : Inv st -> Inv (insert_used p st).
Proof.
  intros [H1 H2]. unfold insert_used. destruct (mem p (u_used st)) eqn:M; [split; assumption |]. split; cbn.
  - intros l1 l2 q E. symmetry in E. apply split_snoc in E as [(-> & _ & _) | (l2' & -> & E)]; [tauto |].
    rewrite in_app_iff. intros [H | [H | []]]; [exact (H1 _ _ _ E H) | discriminate].
  - intros q H. apply in_app_iff in H as [H | [H | []]].
    + apply mem_app_r. auto.
    + injection H as ->. apply mem_app_last.
Qed.

Lemma use_try_canon ev p st :
  use_try ev p canonical_use_body st =
  if mem p (u_used st) then (st, UOk)
  else let (st', o) := ev st in match o with UOk => (insert_used p st', UOk) | _ => (st', o) end.
Proof.
  unfold use_try, canonical_use_body. cbn [fold_left ustep fst snd].
  destruct (mem p (u_used st)); [reflexivity |].
  cbn [fold_left ustep_simple fst snd]. destruct (ev st) as [st' o]. destruct o; reflexivity.
Qed.

Section UseProofs.
  Variable cfg : config.
  Notation E := (exec canonical_use_body true cfg).

  Lemma exec_inv : forall fuel c st, Inv st -> cmd_ok c st -> Inv (fst (E fuel c st)).
  Proof.
    induction fuel as [| f IH]; intros c st I K; [exact I |].
    destruct c as [name [| pa ps] | name [| pa ps] | b p | [| x r]]; cbn [exec]; try exact I.
    - (* use *)
      rewrite use_try_canon. destruct (mem (pa ++ name) (u_used st)) eqn:M; [exact I |].
      pose proof (IH (CEvalPath true (pa ++ name)%string) st I M) as I1. destruct (exec canonical_use_body true cfg f (CEvalPath true (pa ++ name)) st) as [st1 o]. cbn [fst] in I1.
      destruct o as [| fn | |]; cbn [fst]; try exact I1.
      + now apply inv_insert.
      + cbn [negb orb]. destruct (String.eqb fn (pa ++ name)); [apply (IH (CUse name ps) st1 I1 Logic.I) | exact I1].
    - (* script eval_file *)
      pose proof (IH (CEvalPath false (pa ++ name)%string) st I Logic.I) as I1.
      destruct (exec canonical_use_body true cfg f (CEvalPath false (pa ++ name)) st) as [st1 o]. cbn [fst] in I1.
      destruct o; try exact I1. apply (IH (CIef name ps) st1 I1 Logic.I).
    - (* eval_file(path) *)
      destruct (lookup p (c_files cfg)) as [facts |]; [| exact I].
      apply (IH (CFacts facts)); [| exact Logic.I]. apply inv_log_eval; [exact I |]. intros ->. exact K.
    - (* statements of a file *)
      assert (I1 : Inv (fst (match x with
                             | FUse n => exec canonical_use_body true cfg f (CUse n (c_paths cfg)) st
                             | FEvalFile n => exec canonical_use_body true cfg f (CIef n (c_paths cfg)) st
                             | FThrow => (st, UError)
                             end))).
      { destruct x; [apply (IH (CUse name (c_paths cfg)) st I Logic.I) | apply (IH (CIef name (c_paths cfg)) st I Logic.I) | exact I]. }
      destruct (match x with FUse n => _ | FEvalFile n => _ | FThrow => _ end) as [st1 o]. cbn [fst] in I1.
      destruct o; try exact I1. apply (IH (CFacts r) st1 I1 Logic.I).
  Qed.

  Lemma cmd_of_ok h st : cmd_ok (cmd_of cfg h) st.
  Proof. destruct h; exact Logic.I. Qed.

  Theorem use_once_thm fuel h : forall st, Inv st -> Inv (hrun canonical_use_body true cfg fuel st h).
  Proof.
    induction h as [| o h IH]; intros st I; cbn [hrun]; [exact I |].
    apply IH. apply exec_inv; [exact I | apply cmd_of_ok].
  Qed.

  (* --- the log only grows *)
  Lemma insert_ext p st : exists l, u_log (insert_used p st) = u_log st ++ l.
  Proof. unfold insert_used. destruct (mem p (u_used st)); [exists []; now rewrite app_nil_r | now exists [EvUsed p]]. Qed.

  Lemma exec_log_ext : forall fuel c st, exists l, u_log (fst (E fuel c st)) = u_log st ++ l.
  Proof.
    assert (R : forall st : ustate, exists l, u_log st = u_log st ++ l) by (intros; exists []; now rewrite app_nil_r).
    induction fuel as [| f IH]; intros c st; [apply R |].
    destruct c as [name [| pa ps] | name [| pa ps] | b p | [| x r]]; cbn [exec]; try apply R.
    - rewrite use_try_canon. destruct (mem (pa ++ name) (u_used st)); [apply R |].
      destruct (IH (CEvalPath true (pa ++ name)%string) st) as [l1 E1].
      destruct (exec canonical_use_body true cfg f (CEvalPath true (pa ++ name)) st) as [st1 o]. cbn [fst] in E1.
      destruct o as [| fn | |]; cbn [fst]; try (now exists l1).
      + destruct (insert_ext (pa ++ name) st1) as [l2 E2]. exists (l1 ++ l2). now rewrite E2, E1, app_assoc.
      + cbn [negb orb]. destruct (String.eqb fn (pa ++ name)); [| now exists l1].
        destruct (IH (CUse name ps) st1) as [l2 E2]. exists (l1 ++ l2). now rewrite E2, E1, app_assoc.
    - destruct (IH (CEvalPath false (pa ++ name)%string) st) as [l1 E1].
      destruct (exec canonical_use_body true cfg f (CEvalPath false (pa ++ name)) st) as [st1 o]. cbn [fst] in E1.
      destruct o; try (now exists l1).
      destruct (IH (CIef name ps) st1) as [l2 E2]. exists (l1 ++ l2). now rewrite E2, E1, app_assoc.
    - destruct (lookup p (c_files cfg)) as [facts |]; [| apply R].
      destruct (IH (CFacts facts) (log_ev (EvEval b p) st)) as [l E1]. exists (EvEval b p :: l). rewrite E1. cbn. now rewrite <- app_assoc.
    - assert (X : exists l, u_log (fst (match x with
                             | FUse n => exec canonical_use_body true cfg f (CUse n (c_paths cfg)) st
                             | FEvalFile n => exec canonical_use_body true cfg f (CIef n (c_paths cfg)) st
                             | FThrow => (st, UError)
                             end)) = u_log st ++ l).
      { destruct x; [apply (IH (CUse name (c_paths cfg)) st) | apply (IH (CIef name (c_paths cfg)) st) | apply R]. }
      destruct X as [l1 E1].
      destruct (match x with FUse n => _ | FEvalFile n => _ | FThrow => _ end) as [st1 o]. cbn [fst] in E1.
      destruct o; try (now exists l1).
      destruct (IH (CFacts r) st1) as [l2 E2]. exists (l1 ++ l2). now rewrite E2, E1, app_assoc.
  Qed.

  Lemma exec_S_use f name pa ps st :
    E (S f) (CUse name (pa :: ps)) st =
    let (st1, o) := use_try (E f (CEvalPath true (pa ++ name)%string)) (pa ++ name)%string canonical_use_body st in
    match o with
    | UMissing fn => if negb true || String.eqb fn (pa ++ name)%string then E f (CUse name ps) st1 else (st1, o)
    | _ => (st1, o)
    end.
  Proof. reflexivity. Qed.
  Lemma exec_S_evalpath f b p st :
    E (S f) (CEvalPath b p) st =
    match lookup p (c_files cfg) with None => (st, UMissing p) | Some facts => E f (CFacts facts) (log_ev (EvEval b p) st) end.
  Proof. reflexivity. Qed.
  Lemma exec_S_ief f name pa ps st :
    E (S f) (CIef name (pa :: ps)) st =
    let (st1, o) := E f (CEvalPath false (pa ++ name)%string) st in
    match o with UMissing _ => E f (CIef name ps) st1 | _ => (st1, o) end.
  Proof. reflexivity. Qed.

  (* --- search order, first use, no-op when used, missing *)
  Theorem use_resolves_thm name : forall paths fuel st, List.length paths + 2 <= fuel ->
    match resolve cfg (u_used st) name paths with
    | None => E fuel (CUse name paths) st = (st, UMissing name)
    | Some (p, true) => E fuel (CUse name paths) st = (st, UOk)
    | Some (p, false) => exists l, u_log (fst (E fuel (CUse name paths) st)) = u_log st ++ EvEval true p :: l
    end.
  Proof.
    induction paths as [| pa ps IH]; intros fuel st Hf.
    - destruct fuel; [cbn in Hf; lia | reflexivity].
    - destruct fuel as [| [| f]]; cbn [List.length] in Hf; try lia.
      cbn [resolve]. rewrite exec_S_use, use_try_canon.
      destruct (mem (pa ++ name) (u_used st)) eqn:M; [reflexivity |].
      rewrite exec_S_evalpath. destruct (lookup (pa ++ name) (c_files cfg)) as [facts |] eqn:L.
      + destruct (exec_log_ext f (CFacts facts) (log_ev (EvEval true (pa ++ name)) st)) as [l1 E1].
        destruct (exec canonical_use_body true cfg f (CFacts facts) (log_ev (EvEval true (pa ++ name)) st)) as [st1 o]. cbn [fst log_ev u_log] in E1.
        destruct o as [| fn | |]; cbn [fst].
        * destruct (insert_ext (pa ++ name) st1) as [l2 E2]. exists (l1 ++ l2). rewrite E2, E1. now rewrite <- !app_assoc.
        * cbn [negb orb]. destruct (String.eqb fn (pa ++ name)).
          -- destruct (exec_log_ext (S f) (CUse name ps) st1) as [l2 E2]. exists (l1 ++ l2). rewrite E2, E1. now rewrite <- !app_assoc.
          -- cbn [fst]. exists l1. rewrite E1. now rewrite <- app_assoc.
        * exists l1. rewrite E1. now rewrite <- app_assoc.
        * exists l1. rewrite E1. now rewrite <- app_assoc.
      + cbn [negb orb]. rewrite String.eqb_refl. apply (IH (S f) st). lia.
  Qed.

  Theorem eval_file_missing_thm b p f st : lookup p (c_files cfg) = None -> E (S f) (CEvalPath b p) st = (st, UMissing p).
  Proof. intros H. rewrite exec_S_evalpath. now rewrite H. Qed.

  Theorem script_eval_file_missing_thm name : forall paths fuel st,
    (forall pa, In pa paths -> lookup (pa ++ name)%string (c_files cfg) = None) -> List.length paths + 2 <= fuel ->
    E fuel (CIef name paths) st = (st, UMissing name).
  Proof.
    induction paths as [| pa ps IH]; intros fuel st H Hf.
    - destruct fuel; [cbn in Hf; lia | reflexivity].
    - destruct fuel as [| [| f]]; cbn [List.length] in Hf; try lia.
      rewrite exec_S_ief, exec_S_evalpath. rewrite (H pa) by now left. apply (IH (S f) st); [intros; apply H; now right | lia].
  Qed.
End UseProofs.

(* inserting before the check: the file is never evaluated *)
Definition use_body_insert_first : list uop := [UTop SInsert; UCheckNotUsed [SUnlock; SEval; SLock]; UReturn].
Local Open Scope string_scope.
Example insert_first_never_evaluates :
  let cfg := mkCfg ["p0/"] [("p0/a", [])] in
  u_log (fst (exec use_body_insert_first true cfg 10 (CUse "a" ["p0/"]) u_init)) = [EvUsed "p0/a"] /\
  u_log (fst (exec canonical_use_body true cfg 10 (CUse "a" ["p0/"]) u_init)) = [EvEval true "p0/a"; EvUsed "p0/a"].
Proof. vm_compute. split; reflexivity. Qed.

(* a history that exercises everything: nested use, second use is a no-op, eval_file evaluates again, search order *)
Example history_example :
  let cfg := mkCfg ["p0/"; "p1/"] [("p0/a", [FUse "b"]); ("p1/a", []); ("p1/b", []); ("p0/c", [FUse "zz"])] in
  let st := hrun canonical_use_body true cfg 50 u_init [HUse "a"; HUse "a"; HUse "b"; HScriptEvalFile "a"] in
  u_log st = [EvEval true "p0/a"; EvEval true "p1/b"; EvUsed "p1/b"; EvUsed "p0/a"; EvEval false "p0/a"] /\
  u_used st = ["p1/b"; "p0/a"] /\
  snd (exec canonical_use_body true cfg 50 (CUse "c" ["p0/"; "p1/"]) st) = UMissing "zz" /\
  snd (exec canonical_use_body true cfg 50 (CUse "q" ["p0/"; "p1/"]) st) = UMissing "q" /\
  resolve cfg (u_used st) "b" ["p0/"; "p1/"] = Some ("p1/b", true).
Proof. vm_compute. repeat split; reflexivity. Qed.
