(* C11 — proofs about the reference-counting machine of LifeDefs (all operation sequences, no bounds). *)
From Coq Require Import List Bool Arith PeanoNat Lia.
From ChaiV Require Import LifeDefs.
Import ListNotations.

(* ------------------------------------------------------------------------------------------ *)
(* small facts                                                                                *)
(* ------------------------------------------------------------------------------------------ *)
Lemma upd_same : forall A (f : nat -> A) i v, upd f i v i = v.
Proof. intros. unfold upd. now rewrite Nat.eqb_refl. Qed.

Lemma upd_other : forall A (f : nat -> A) i j v, j <> i -> upd f i v j = f j.
Proof. intros. unfold upd. destruct (Nat.eqb_spec j i); congruence. Qed.

Lemma filter_split_length : forall A (P : A -> bool) l,
  length (filter P l) + length (filter (fun x => negb (P x)) l) = length l.
Proof. induction l as [|a l IH]; simpl; auto. destruct (P a); simpl; lia. Qed.

Lemma own_count_cons : forall id r l, own_count id (r :: l) = (if owns id (snd r) then 1 else 0) + own_count id l.
Proof. intros. unfold own_count. simpl. destruct (owns id (snd r)); reflexivity. Qed.

Lemma own_count_split : forall id (P : loc * href -> bool) l,
  own_count id l = own_count id (filter P l) + own_count id (filter (fun x => negb (P x)) l).
Proof.
  induction l as [|a l IH]; auto.
  rewrite own_count_cons. simpl. destruct (P a); simpl; rewrite own_count_cons; lia.
Qed.

Lemma own_countH_map : forall id l, own_countH id (map snd l) = own_count id l.
Proof.
  induction l as [|a l IH]; auto. unfold own_countH, own_count in *. simpl.
  destruct (owns id (snd a)); simpl; auto.
Qed.

Lemma own_countH_app : forall id a b, own_countH id (a ++ b) = own_countH id a + own_countH id b.
Proof. intros. unfold own_countH. now rewrite filter_app, app_length. Qed.

Lemma own_countH_cons : forall id h l, own_countH id (h :: l) = (if owns id h then 1 else 0) + own_countH id l.
Proof. intros. unfold own_countH. simpl. destruct (owns id h); reflexivity. Qed.

Lemma own_count_pos_in : forall id l, 0 < own_count id l -> exists lc h, In (lc, h) l /\ h_own h = true /\ h_tgt h = id.
Proof.
  induction l as [|[lc h] l IH]; intros H.
  - inversion H.
  - rewrite own_count_cons in H. simpl in H. destruct (owns id h) eqn:E.
    + unfold owns in E. apply andb_true_iff in E as [E1 E2]. apply Nat.eqb_eq in E2.
      exists lc, h. split; [now left|auto].
    + destruct IH as (lc' & h' & I & O & T); [lia|]. exists lc', h'. split; [now right|auto].
Qed.

Lemma in_own_count_pos : forall id lc h l, In (lc, h) l -> h_own h = true -> h_tgt h = id -> 0 < own_count id l.
Proof.
  induction l as [|a l IH]; intros I O T; [inversion I|].
  rewrite own_count_cons. destruct I as [->|I].
  - simpl. unfold owns. rewrite O, T, Nat.eqb_refl. simpl. lia.
  - specialize (IH I O T). lia.
Qed.

Lemma own_count_map_loc : forall id (g : loc * href -> loc * href) l,
  (forall r, snd (g r) = snd r) -> own_count id (map g l) = own_count id l.
Proof.
  induction l as [|a l IH]; intros G; auto. simpl. rewrite !own_count_cons, G, IH; auto.
Qed.

(* ------------------------------------------------------------------------------------------ *)
(* the invariant                                                                              *)
(* ------------------------------------------------------------------------------------------ *)
(* [winv W s]: the counter of every object equals the number of owning handles to it, counting the places of the
   state and the handles W that are in the middle of being destroyed; an object is alive iff its counter is
   positive; a slot that holds a handle belongs to a live object; ids not yet allocated are not alive. *)
Definition winv (W : list href) (s : state) : Prop :=
  (forall id, rc s id = own_count id (refs s) + own_countH id W) /\
  (forall id, alive s id = true <-> 0 < rc s id) /\
  (forall o k h, In (LSlot o k, h) (refs s) -> alive s o = true) /\
  (forall id, next s <= id -> alive s id = false).

Definition wf (s : state) : Prop := winv [] s.

Lemma wf_init : wf init.
Proof.
  repeat split; simpl; intros; try lia; try discriminate; try contradiction; auto.
Qed.

Lemma wf_rc : forall s id, wf s -> rc s id = own_count id (refs s).
Proof. intros s id (A & _). rewrite A. unfold own_countH. simpl. lia. Qed.

Lemma wf_alive_iff : forall s id, wf s -> (alive s id = true <-> 0 < own_count id (refs s)).
Proof. intros s id H. destruct H as (A & B & C & D). rewrite B, A. unfold own_countH. simpl. lia. Qed.

Lemma wf_own_alive : forall s l h, wf s -> In (l, h) (refs s) -> h_own h = true -> alive s (h_tgt h) = true.
Proof. intros. apply wf_alive_iff; auto. eapply in_own_count_pos; eauto. Qed.

Lemma wf_lt_next : forall s id, wf s -> alive s id = true -> id < next s.
Proof.
  intros s id (A & B & C & D) H. destruct (le_lt_dec (next s) id); auto. rewrite D in H; auto. discriminate.
Qed.

(* what one batch of destructions guarantees *)
Record post (s s' : state) (ev : list event) : Prop := mkPost {
  p_wf : wf s';
  p_only : forall e, In e ev -> exists id, e = Destroyed id;
  p_was : forall id, In (Destroyed id) ev -> alive s id = true /\ alive s' id = false;
  p_nodup : NoDup (destroyed_ids ev);
  p_mono : forall id, alive s' id = true -> alive s id = true;
  p_dead : forall id, alive s id = true -> alive s' id = false -> In (Destroyed id) ev;
  p_next : next s' = next s;
  p_depth : depth s' = depth s;
  p_calls : calls s' = calls s;
  p_tracked : tracked s' = tracked s;
  p_refs : forall r, In r (refs s') -> In r (refs s)
}.

Lemma destroyed_ids_cons_D : forall t ev, destroyed_ids (Destroyed t :: ev) = t :: destroyed_ids ev.
Proof. reflexivity. Qed.

Lemma in_destroyed_ids : forall id ev, In id (destroyed_ids ev) <-> In (Destroyed id) ev.
Proof.
  induction ev as [|e ev IH]; simpl; [tauto|].
  rewrite in_app_iff, IH. destruct e; simpl; split; intros H; try tauto;
    try (destruct H as [H|H]; [discriminate|tauto]); try (destruct H as [[]|H]; tauto).
  - destruct H as [[H|[]]|H]; [left; now subst|tauto].
  - destruct H as [H|H]; [left; left; now inversion H|tauto].
Qed.

Lemma destroyed_ids_app : forall a b, destroyed_ids (a ++ b) = destroyed_ids a ++ destroyed_ids b.
Proof. intros. unfold destroyed_ids. now rewrite flat_map_app. Qed.

Lemma release_post : forall fuel W s s' ev,
  winv W s -> length W + length (refs s) <= fuel -> release fuel W s = (s', ev) -> post s s' ev.
Proof.
  induction fuel as [|f IH]; intros W s s' ev Inv Fuel R.
  - assert (W = []) by (destruct W; simpl in Fuel; [auto|lia]). subst W. simpl in R. inversion R; subst.
    constructor; auto; try (intros; simpl in *; try contradiction; try congruence); try constructor.
  - simpl in R. destruct W as [|h w].
    + inversion R; subst. constructor; auto; try (intros; simpl in *; try contradiction; try congruence); try constructor.
    + destruct Inv as (A & B & C & D).
      destruct (h_own h) eqn:Own.
      * (* owning handle *)
        pose proof (A (h_tgt h)) as At. rewrite own_countH_cons in At.
        assert (Ot : owns (h_tgt h) h = true) by (unfold owns; now rewrite Own, Nat.eqb_refl).
        rewrite Ot in At.
        destruct (rc s (h_tgt h)) as [|[|n]] eqn:Rc; [lia| |].
        -- (* last owner: destroy *)
           set (t := h_tgt h) in *.
           set (mine := filter (fun r => is_slot_of t (fst r)) (refs s)) in *.
           set (rest := filter (fun r => negb (is_slot_of t (fst r))) (refs s)) in *.
           destruct (release f (w ++ map snd mine) (set_refs (kill s t) rest)) as [s1 ev1] eqn:R1.
           inversion R; subst s' ev. clear R.
           assert (Alive_t : alive s t = true) by (apply B; lia).
           assert (Inv1 : winv (w ++ map snd mine) (set_refs (kill s t) rest)).
           { repeat split; simpl.
             - intros id. rewrite own_countH_app, own_countH_map.
               pose proof (own_count_split id (fun r => is_slot_of t (fst r)) (refs s)) as Sp.
               pose proof (A id) as Aid. rewrite own_countH_cons in Aid. unfold mine, rest.
               destruct (Nat.eq_dec id t) as [->|Ne].
               + rewrite upd_same. rewrite Ot in Aid. lia.
               + rewrite upd_other by auto.
                 assert (owns id h = false) as Oh.
                 { unfold owns. fold t. destruct (Nat.eqb_spec t id); [congruence|]. now rewrite andb_false_r. }
                 rewrite Oh in Aid. lia.
             - intros H. destruct (Nat.eq_dec id t) as [->|Ne].
               + rewrite upd_same in H. discriminate.
               + rewrite upd_other in * by auto. now apply B.
             - intros H. destruct (Nat.eq_dec id t) as [->|Ne].
               + rewrite upd_same in H. lia.
               + rewrite upd_other in * by auto. now apply B.
             - intros o k h0 I. unfold rest in I. apply filter_In in I as [I N]. simpl in N.
               destruct (Nat.eq_dec o t) as [->|Ne]; [rewrite Nat.eqb_refl in N; discriminate|].
               rewrite upd_other by auto. eapply C; eauto.
             - intros id L. destruct (Nat.eq_dec id t) as [->|Ne]; [now rewrite upd_same|].
               rewrite upd_other by auto. now apply D. }
           assert (Fuel1 : length (w ++ map snd mine) + length (refs (set_refs (kill s t) rest)) <= f).
           { simpl. rewrite app_length, map_length.
             pose proof (filter_split_length _ (fun r => is_slot_of t (fst r)) (refs s)) as L.
             simpl in Fuel. unfold mine, rest. lia. }
           specialize (IH _ _ _ _ Inv1 Fuel1 R1). destruct IH.
           simpl in *.
           assert (Dead1 : alive s1 t = false).
           { destruct (alive s1 t) eqn:E; auto. apply p_mono0 in E. now rewrite upd_same in E. }
           constructor; auto.
           ++ intros e [<-|I]; eauto.
           ++ intros id [E|I].
              ** inversion E; subst. auto.
              ** apply p_was0 in I as [I1 I2]. split; auto.
                 destruct (Nat.eq_dec id t) as [->|Ne]; [now rewrite upd_same in I1|now rewrite upd_other in I1].
           ++ rewrite destroyed_ids_cons_D. constructor; auto.
              intros I. apply in_destroyed_ids in I. apply p_was0 in I as [I _]. now rewrite upd_same in I.
           ++ intros id H. apply p_mono0 in H.
              destruct (Nat.eq_dec id t) as [->|Ne]; [now rewrite upd_same in H|now rewrite upd_other in H].
           ++ intros id H1 H2. destruct (Nat.eq_dec id t) as [->|Ne]; [now left|].
              right. apply p_dead0; auto. now rewrite upd_other.
           ++ intros r I. apply p_refs0 in I. unfold rest in I. now apply filter_In in I.
        -- (* other owners remain *)
           assert (Inv1 : winv w (set_rc s (h_tgt h) (S n))).
           { repeat split; simpl; auto; try (now eauto).
             - intros id. pose proof (A id) as Aid. rewrite own_countH_cons in Aid.
               destruct (Nat.eq_dec id (h_tgt h)) as [->|Ne].
               + rewrite upd_same. rewrite Ot in Aid. lia.
               + rewrite upd_other by auto.
                 assert (owns id h = false) as Oh.
                 { unfold owns. destruct (Nat.eqb_spec (h_tgt h) id); [congruence|]. now rewrite andb_false_r. }
                 rewrite Oh in Aid. lia.
             - intros H. destruct (Nat.eq_dec id (h_tgt h)) as [->|Ne]; [rewrite upd_same; lia|].
               rewrite upd_other by auto. now apply B.
             - intros H. destruct (Nat.eq_dec id (h_tgt h)) as [->|Ne]; [apply B; lia|].
               rewrite upd_other in H by auto. now apply B. }
           assert (Fuel1 : length w + length (refs (set_rc s (h_tgt h) (S n))) <= f) by (simpl in *; lia).
           specialize (IH _ _ _ _ Inv1 Fuel1 R). destruct IH. simpl in *. constructor; auto.
      * (* non-owning handle: nothing to do *)
        assert (Inv1 : winv w s).
        { repeat split; auto; try apply B; try (now eauto). intros id. rewrite (A id), own_countH_cons.
          assert (owns id h = false) as Oh by (unfold owns; now rewrite Own). now rewrite Oh. }
        assert (Fuel1 : length w + length (refs s) <= f) by (simpl in *; lia).
        exact (IH _ _ _ _ Inv1 Fuel1 R).
Qed.

(* destroying handles never removes a handle from a root place: only the slots of destroyed objects are emptied *)
Lemma release_keep : forall fuel W s s' ev l h,
  release fuel W s = (s', ev) -> In (l, h) (refs s) -> is_root l = true -> In (l, h) (refs s').
Proof.
  induction fuel as [|f IH]; intros W s s' ev l h R I Rt; simpl in R.
  - inversion R; subst; auto.
  - destruct W as [|h0 w]; [inversion R; subst; auto|].
    destruct (h_own h0).
    + destruct (rc s (h_tgt h0)) as [|[|n]].
      * destruct (release f w s) as [s1 e1] eqn:R1. inversion R; subst. eapply IH; eauto.
      * destruct (release f (w ++ map snd (filter (fun r => is_slot_of (h_tgt h0) (fst r)) (refs s)))
                    (set_refs (kill s (h_tgt h0)) (filter (fun r => negb (is_slot_of (h_tgt h0) (fst r))) (refs s)))) as [s1 e1] eqn:R1.
        inversion R; subst. eapply IH; eauto. simpl. apply filter_In. split; auto. simpl. destruct l; [reflexivity|discriminate].
      * eapply IH; eauto.
    + eapply IH; eauto.
Qed.

Lemma drop_where_post : forall P s s' ev,
  wf s -> drop_where P s = (s', ev) ->
  post s s' ev /\ (forall r, In r (refs s') -> P (fst r) = false) /\
  (forall l h, In (l, h) (refs s) -> is_root l = true -> P l = false -> In (l, h) (refs s')).
Proof.
  intros P s s' ev W R. unfold drop_where in R.
  set (gone := filter (fun r => P (fst r)) (refs s)) in *.
  set (kept := filter (fun r => negb (P (fst r))) (refs s)) in *.
  assert (Inv : winv (map snd gone) (set_refs s kept)).
  { destruct W as (A & B & C & D). repeat split; simpl; auto; try apply B.
    - intros id. rewrite own_countH_map. rewrite (A id). unfold own_countH. simpl.
      pose proof (own_count_split id (fun r => P (fst r)) (refs s)) as Sp. unfold gone, kept. lia.
    - intros o k h I. unfold kept in I. apply filter_In in I as [I _]. eapply C; eauto. }
  assert (Fuel : length (map snd gone) + length (refs (set_refs s kept)) <= S (length (refs s))).
  { simpl. rewrite map_length. pose proof (filter_split_length _ (fun r => P (fst r)) (refs s)) as L. unfold gone, kept. lia. }
  assert (K : forall l h, In (l, h) (refs s) -> is_root l = true -> P l = false -> In (l, h) (refs s')).
  { intros l h I Rt E. eapply release_keep; eauto. simpl. unfold kept. apply filter_In. split; auto. simpl. now rewrite E. }
  pose proof (release_post _ _ _ _ _ Inv Fuel R) as Po. destruct Po. simpl in *.
  split; [|split].
  - constructor; auto. intros r I. apply p_refs0 in I. unfold kept in I. now apply filter_In in I.
  - intros r I. apply p_refs0 in I. unfold kept in I. apply filter_In in I as [_ I]. now apply negb_true_iff in I.
  - exact K.
Qed.

(* ------------------------------------------------------------------------------------------ *)
(* one step                                                                                   *)
(* ------------------------------------------------------------------------------------------ *)
Record spost (s s' : state) (ev : list event) : Prop := mkSPost {
  sp_wf : wf s';
  sp_was : forall id, In (Destroyed id) ev -> alive s id = true /\ alive s' id = false;
  sp_nodup : NoDup (destroyed_ids ev);
  sp_mono : forall id, id < next s -> alive s' id = true -> alive s id = true;
  sp_dead : forall id, alive s id = true -> alive s' id = false -> In (Destroyed id) ev;
  sp_next : next s <= next s';
  sp_new : forall id, next s <= id -> id < next s' -> alive s' id = true;
  sp_nofault : forall e, In e ev -> is_fault e = true -> exists id, e = UseAfterFree id
}.

Lemma post_spost : forall s s' ev, wf s -> post s s' ev -> spost s s' ev.
Proof.
  intros s s' ev W []. constructor; auto.
  - rewrite p_next0. lia.
  - intros. rewrite p_next0 in *. lia.
  - intros e I F. apply p_only0 in I as [id ->]. discriminate.
Qed.

Lemma spost_same : forall s s' ev,
  wf s -> wf s' -> alive s' = alive s -> next s' = next s -> (forall e, In e ev -> exists id, (e = Touched id \/ e = Value id) \/ e = UseAfterFree id \/ e = BadOp id \/ e = Live id) ->
  spost s s' ev.
Proof.
  intros s s' ev W W' A N E. constructor; auto; try rewrite A; try rewrite N; auto; try lia.
  - intros id I. apply E in I as [x [[H|H]|[H|[H|H]]]]; discriminate.
  - assert (destroyed_ids ev = []) as ->; [|constructor].
    induction ev as [|e ev IH]; auto. simpl. destruct (E e (or_introl eq_refl)) as [x [[H|H]|[H|[H|H]]]]; subst; simpl; apply IH; intros; apply E; now right.
  - intros id H1 H2. congruence.
  - intros e I F. apply E in I as [x [[H|H]|[H|[H|H]]]]; subst; try discriminate. eauto.
Qed.

Lemma resolve_slot_alive : forall s p o k, resolve s p = RLoc (LSlot o k) -> alive s o = true.
Proof.
  intros s [r|q k0] o k H; simpl in H; [discriminate|].
  destruct (resolve s q); try discriminate. destruct (find_ref l s); try discriminate.
  destruct (alive s (h_tgt h)) eqn:E; inversion H; subst; auto.
Qed.

Lemma find_ref_in : forall l s h, find_ref l s = Some h -> exists l', In (l', h) (refs s).
Proof.
  intros l s h H. unfold find_ref in H.
  destruct (filter (fun r => loc_eqb (fst r) l) (refs s)) as [|[l' h'] t] eqn:E; [discriminate|].
  inversion H; subst. exists l'. assert (In (l', h) (filter (fun r => loc_eqb (fst r) l) (refs s))) as I by (rewrite E; now left).
  now apply filter_In in I.
Qed.

Lemma wf_set_depth : forall s d, wf s -> wf (set_depth s d).
Proof. intros s d H. exact H. Qed.
Lemma wf_set_calls : forall s d, wf s -> wf (set_calls s d).
Proof. intros s d H. exact H. Qed.

Lemma wf_create : forall s l tr, wf s -> (forall o k, l = LSlot o k -> alive s o = true) -> wf (create s l tr).
Proof.
  intros s l tr W L. pose proof W as (A & B & C & D).
  assert (Fresh : own_count (next s) (refs s) = 0).
  { pose proof (wf_alive_iff s (next s) W) as I. rewrite D in I by lia. destruct (own_count (next s) (refs s)); auto.
    assert (false = true) by (apply I; lia). discriminate. }
  repeat split; simpl.
  - intros id. rewrite own_count_cons. simpl. unfold own_countH. simpl. unfold owns. simpl.
    destruct (Nat.eq_dec id (next s)) as [->|Ne].
    + rewrite upd_same, Nat.eqb_refl, Fresh. reflexivity.
    + rewrite upd_other by auto. destruct (Nat.eqb_spec (next s) id); [congruence|]. rewrite (wf_rc s id W). simpl. lia.
  - intros H. destruct (Nat.eq_dec id (next s)) as [->|Ne]; [rewrite upd_same; lia|].
    rewrite upd_other in * by auto. now apply B.
  - intros H. destruct (Nat.eq_dec id (next s)) as [->|Ne]; [now rewrite upd_same|].
    rewrite upd_other in * by auto. now apply B.
  - intros o k h [E|I].
    + inversion E; subst. specialize (L o k eq_refl).
      pose proof (wf_lt_next s o W L). rewrite upd_other by lia. auto.
    + pose proof (C o k h I) as Ao. pose proof (wf_lt_next s o W Ao). rewrite upd_other by lia. auto.
  - intros id Le. rewrite upd_other by lia. apply D. lia.
Qed.

Lemma wf_add_ref : forall s l h, wf s ->
  (forall o k, l = LSlot o k -> alive s o = true) -> (h_own h = true -> alive s (h_tgt h) = true) -> wf (add_ref s l h).
Proof.
  intros s l h W L O. pose proof W as (A & B & C & D). unfold add_ref.
  destruct (h_own h) eqn:Own.
  - specialize (O eq_refl). repeat split; simpl.
    + intros id. rewrite own_count_cons. simpl. unfold own_countH. simpl. unfold owns. rewrite Own. simpl.
      destruct (Nat.eq_dec id (h_tgt h)) as [->|Ne].
      * rewrite upd_same, Nat.eqb_refl, (wf_rc s _ W). lia.
      * rewrite upd_other by auto. destruct (Nat.eqb_spec (h_tgt h) id); [congruence|]. rewrite (wf_rc s id W). lia.
    + intros H. destruct (Nat.eq_dec id (h_tgt h)) as [->|Ne]; [rewrite upd_same; lia|].
      rewrite upd_other by auto. now apply B.
    + intros H. destruct (Nat.eq_dec id (h_tgt h)) as [->|Ne]; [auto|].
      rewrite upd_other in H by auto. now apply B.
    + intros o k h0 [E|I]; [inversion E; subst; eauto|eauto].
    + auto.
  - repeat split; simpl; try apply B; auto.
    + intros id. rewrite own_count_cons. simpl. unfold owns at 1. rewrite Own. simpl. apply A.
    + intros o k h0 [E|I]; [inversion E; subst; eauto|eauto].
Qed.

Lemma wf_relocate : forall s from f, wf s ->
  (forall l o k, from l = true -> f l = LSlot o k -> alive s o = true) -> wf (relocate from f s).
Proof.
  intros s from f W L. pose proof W as (A & B & C & D). repeat split; simpl; try apply B; auto.
  - intros id. rewrite own_count_map_loc; [apply A|]. intros [l h]. simpl. destruct (from l); reflexivity.
  - intros o k h I. apply in_map_iff in I as ([l0 h0] & E & I). simpl in E.
    destruct (from l0) eqn:F; inversion E; subst; eauto.
Qed.

Ltac inv H := injection H as <- <-.

Lemma step_spost : forall s o s' ev, wf s -> step s o = (s', ev) -> spost s s' ev.
Proof.
  intros s o s' ev W St.
  assert (Same : forall evs, (forall e, In e evs -> exists id, (e = Touched id \/ e = Value id) \/ e = UseAfterFree id \/ e = BadOp id \/ e = Live id) -> spost s s evs)
    by (intros; apply spost_same; auto).
  assert (Created : forall l tr evs, (forall o k, l = LSlot o k -> alive s o = true) ->
            (forall e, In e evs -> exists id, (e = Touched id \/ e = Value id) \/ e = UseAfterFree id \/ e = BadOp id \/ e = Live id) -> spost s (create s l tr) evs).
  { intros l tr evs L E. pose proof W as (A & B & C & D). constructor; simpl; auto.
    - now apply wf_create.
    - intros id I. apply E in I as [x [[H|H]|[H|[H|H]]]]; discriminate.
    - assert (destroyed_ids evs = []) as ->; [|constructor].
      clear - E. induction evs as [|e evs IH]; auto. simpl. destruct (E e (or_introl eq_refl)) as [x [[H|H]|[H|[H|H]]]]; subst; simpl; apply IH; intros; apply E; now right.
    - intros id L1 H. rewrite upd_other in H by lia. auto.
    - intros id H1 H2. pose proof (wf_lt_next s id W H1). rewrite upd_other in H2 by lia. congruence.
    - intros id L1 L2. assert (id = next s) as -> by lia. now rewrite upd_same.
    - intros e I F. apply E in I as [x [[H|H]|[H|[H|H]]]]; subst; try discriminate. eauto. }
  assert (Dropped : forall P s1 ev1, drop_where P s = (s1, ev1) -> spost s s1 ev1)
    by (intros P s1 ev1 R; apply post_spost; auto; now apply drop_where_post in R as [R _]).
  destruct o; simpl in St.
  - (* PCreate *)
    unfold with_dst in St. destruct (resolve s dst) as [l|id|] eqn:R; inv St.
    + apply Created; [|intros e []]. intros o k ->. eapply resolve_slot_alive; eauto.
    + apply Same. intros e [<-|[]]; eauto.
    + apply Same. intros e [<-|[]]; eauto.
  - (* PShare *)
    unfold with_src, with_dst, handle_at in St.
    destruct (resolve s src) as [ls|id|] eqn:Rs; [destruct (find_ref ls s) as [h|] eqn:F| |];
      try (inv St; apply Same; intros e [<-|[]]; eauto; fail).
    destruct (resolve s dst) as [l|id|] eqn:R; try (inv St; apply Same; intros e [<-|[]]; eauto; fail).
    destruct (h_own h && negb (alive s (h_tgt h))) eqn:G; inv St; [apply Same; intros e [<-|[]]; eauto|].
    apply spost_same; auto; [|unfold add_ref; destruct (h_own h); reflexivity|unfold add_ref; destruct (h_own h); reflexivity|intros e []].
    apply wf_add_ref; auto.
    + intros o k ->. eapply resolve_slot_alive; eauto.
    + intros O. rewrite O in G. simpl in G. now apply negb_false_iff in G.
  - (* PBorrow *)
    unfold with_src, with_dst, handle_at in St.
    destruct (resolve s src) as [ls|id|] eqn:Rs; [destruct (find_ref ls s) as [h|] eqn:F| |];
      try (inv St; apply Same; intros e [<-|[]]; eauto; fail).
    destruct (resolve s dst) as [l|id|] eqn:R; try (inv St; apply Same; intros e [<-|[]]; eauto; fail).
    inv St. apply spost_same; auto; [|intros e []].
    apply wf_add_ref; auto; [|simpl; discriminate].
    intros o k ->. eapply resolve_slot_alive; eauto.
  - (* PClone *)
    unfold with_src, with_dst, handle_at in St.
    destruct (resolve s src) as [ls|id|] eqn:Rs; [destruct (find_ref ls s) as [h|] eqn:F| |];
      try (inv St; apply Same; intros e [<-|[]]; eauto; fail).
    destruct (resolve s dst) as [l|id|] eqn:R; try (inv St; apply Same; intros e [<-|[]]; eauto; fail).
    destruct (alive s (h_tgt h)); inv St; (apply Created; [intros o k ->; eapply resolve_slot_alive; eauto|intros e [<-|[]]; eauto]).
  - (* PMove *)
    destruct (resolve s src) as [ls|id|] eqn:Rs; [destruct (find_ref ls s) as [h|] eqn:F| |];
      try (inv St; apply Same; intros e [<-|[]]; eauto; fail).
    unfold with_dst in St.
    destruct (resolve s dst) as [l|id|] eqn:R; try (inv St; apply Same; intros e [<-|[]]; eauto; fail).
    inv St. apply spost_same; auto; [|intros e []].
    apply wf_relocate; auto. intros l0 o k _ ->. eapply resolve_slot_alive; eauto.
  - (* PDrop *)
    destruct (resolve s p) as [l|id|] eqn:R; try (inv St; apply Same; intros e [<-|[]]; eauto; fail).
    eapply Dropped; eauto.
  - (* PTouch *)
    unfold with_src, handle_at in St.
    destruct (resolve s p) as [ls|id|] eqn:Rs; [destruct (find_ref ls s) as [h|] eqn:F| |];
      try (inv St; apply Same; intros e [<-|[]]; eauto; fail).
    inv St. apply Same. intros e [<-|[]]. destruct (alive s (h_tgt h)); eauto.
  - (* PPush *) inv St. apply spost_same; auto. intros e [].
  - (* PPop *)
    destruct (depth s) as [|d] eqn:Dp; [inv St; apply Same; intros e [<-|[]]; eauto|].
    destruct (drop_where (in_scope (S d)) s) as [s1 ev1] eqn:R. inv St.
    apply Dropped in R. destruct R. constructor; auto.
  - (* PCallBegin *)
    inv St. apply spost_same; auto; [|intros e []].
    apply wf_set_calls. apply wf_relocate; auto.
    intros l o k Fr E. destruct l as [[]|]; simpl in *; discriminate.
  - (* PCallEnd *)
    destruct (calls s) as [|[|c]] eqn:Cs.
    + inv St. apply Same. intros e [<-|[]]; eauto.
    + destruct (drop_where (fun l => is_param_of lvl l || is_conv l) s) as [s1 ev1] eqn:R. inv St.
      apply Dropped in R. destruct R. constructor; auto.
    + inv St. apply spost_same; auto. intros e [].
  - (* PStmtEnd *) eapply Dropped; eauto.
  - (* PCheckpoint *) inv St. apply Same. intros e [<-|[]]; eauto.
  - (* PEngineEnd *) eapply Dropped; eauto.
  - (* PCxxRelease *) eapply Dropped; eauto.
  - (* PWrite *)
    unfold with_src, handle_at in St.
    destruct (resolve s p) as [ls|id|] eqn:Rs; [destruct (find_ref ls s) as [h|] eqn:F| |];
      try (inv St; apply Same; intros e [<-|[]]; eauto; fail).
    destruct (alive s (h_tgt h)); inv St; [|apply Same; intros e [<-|[]]; eauto].
    apply spost_same; auto. intros e [].
  - (* PRead *)
    unfold with_src, handle_at in St.
    destruct (resolve s p) as [ls|id|] eqn:Rs; [destruct (find_ref ls s) as [h|] eqn:F| |];
      try (inv St; apply Same; intros e [<-|[]]; eauto; fail).
    inv St. apply Same. intros e [<-|[]]. destruct (alive s (h_tgt h)); eauto.
Qed.

(* ------------------------------------------------------------------------------------------ *)
(* runs                                                                                       *)
(* ------------------------------------------------------------------------------------------ *)
(* the history of a run agrees with the state: an allocated object is dead iff its destruction was reported *)
Definition hist (s : state) (evs : list event) : Prop :=
  (forall id, id < next s -> (alive s id = false <-> In (Destroyed id) evs)) /\
  NoDup (destroyed_ids evs) /\
  (forall id, In (Destroyed id) evs -> id < next s).

Lemma hist_init : hist init [].
Proof.
  split; [|split].
  - intros id L. simpl in L. lia.
  - constructor.
  - intros id [].
Qed.

Lemma nodup_app : forall A (a b : list A), NoDup a -> NoDup b -> (forall x, In x a -> ~ In x b) -> NoDup (a ++ b).
Proof.
  induction a as [|x a IH]; intros b Na Nb D; simpl; auto.
  inversion Na; subst. constructor.
  - intros I. apply in_app_or in I as [I|I]; [auto|]. apply (D x); [now left|auto].
  - apply IH; auto. intros y I. apply D. now right.
Qed.

Lemma hist_step : forall s s' evs ev, wf s -> hist s evs -> spost s s' ev -> hist s' (evs ++ ev).
Proof.
  intros s s' evs ev W (H1 & H2 & H3) []. split; [|split].
  - intros id Ln. split.
    + intros Dd. apply in_or_app. destruct (lt_dec id (next s)) as [L|L].
      * destruct (alive s id) eqn:E; [right; auto|left; now apply H1].
      * rewrite sp_new0 in Dd by lia. discriminate.
    + intros I. apply in_app_or in I as [I|I].
      * pose proof (H3 _ I) as L. apply H1 in I; auto. destruct (alive s' id) eqn:E; auto. apply sp_mono0 in E; auto. congruence.
      * now apply sp_was0 in I.
  - rewrite destroyed_ids_app. apply nodup_app; auto.
    intros id I1 I2. apply in_destroyed_ids in I1, I2.
    pose proof (H3 _ I1) as L. apply H1 in I1; auto. apply sp_was0 in I2 as [I2 _]. congruence.
  - intros id I. apply in_app_or in I as [I|I].
    + apply H3 in I. lia.
    + apply sp_was0 in I as [I _]. pose proof (wf_lt_next s id W I). lia.
Qed.

Lemma run_inv : forall ops s evs s' ev,
  wf s -> hist s evs -> run ops s = (s', ev) ->
  wf s' /\ hist s' (evs ++ ev) /\ (forall e, In e ev -> is_fault e = true -> exists id, e = UseAfterFree id).
Proof.
  induction ops as [|o ops IH]; intros s evs s' ev W H R; simpl in R.
  - injection R as <- <-. rewrite app_nil_r. split; [auto|split; [auto|intros e []]].
  - destruct (step s o) as [s1 e1] eqn:St. destruct (run ops s1) as [s2 e2] eqn:Rn. injection R as <- <-.
    pose proof (step_spost _ _ _ _ W St) as SP.
    pose proof (hist_step _ _ _ _ W H SP) as H1.
    destruct (IH _ _ _ _ (sp_wf _ _ _ SP) H1 Rn) as (W2 & H2 & F2).
    rewrite app_assoc. split; [auto|split; [auto|]].
    intros e I F. apply in_app_or in I as [I|I]; [eapply sp_nofault; eauto|auto].
Qed.

Lemma run_app : forall a b s,
  run (a ++ b) s = let (s1, e1) := run a s in let (s2, e2) := run b s1 in (s2, e1 ++ e2).
Proof.
  induction a as [|o a IH]; intros b s; simpl.
  - destruct (run b s); reflexivity.
  - destruct (step s o) as [s1 e1]. rewrite IH. destruct (run a s1) as [s2 e2]. destruct (run b s2) as [s3 e3].
    now rewrite app_assoc.
Qed.

(* ------------------------------------------------------------------------------------------ *)
(* (i) destroyed at most once; (ii) the counter is the number of owning referrers, and an       *)
(*     object with an owning referrer is alive                                                *)
(* ------------------------------------------------------------------------------------------ *)
Theorem destroyed_at_most_once : forall ops s ev, run ops init = (s, ev) -> NoDup (destroyed_ids ev).
Proof.
  intros ops s ev R. destruct (run_inv _ _ _ _ _ wf_init hist_init R) as (_ & (_ & N & _) & _). exact N.
Qed.

Theorem destroyed_iff_dead : forall ops s ev id,
  run ops init = (s, ev) -> id < next s -> (alive s id = false <-> In (Destroyed id) ev).
Proof.
  intros ops s ev id R L. destruct (run_inv _ _ _ _ _ wf_init hist_init R) as (_ & (H & _ & _) & _). now apply H.
Qed.

Theorem refcount_invariant : forall ops s ev, run ops init = (s, ev) ->
  (forall id, rc s id = own_count id (refs s)) /\
  (forall id, 0 < own_count id (refs s) <-> alive s id = true) /\
  (forall o k h, In (LSlot o k, h) (refs s) -> alive s o = true).
Proof.
  intros ops s ev R. destruct (run_inv _ _ _ _ _ wf_init hist_init R) as (W & _ & _).
  split; [|split].
  - intros id. now apply wf_rc.
  - intros id. symmetry. now apply wf_alive_iff.
  - destruct W as (_ & _ & C & _). exact C.
Qed.

Theorem alive_while_owned : forall ops s ev l h,
  run ops init = (s, ev) -> In (l, h) (refs s) -> h_own h = true -> alive s (h_tgt h) = true.
Proof.
  intros ops s ev l h R I O. destruct (run_inv _ _ _ _ _ wf_init hist_init R) as (W & _ & _). eapply wf_own_alive; eauto.
Qed.

Theorem no_mechanism_fault : forall ops s ev e,
  run ops init = (s, ev) -> In e ev -> e <> OutOfFuel /\ (forall id, e <> RcUnderflow id).
Proof.
  intros ops s ev e R I. destruct (run_inv _ _ _ _ _ wf_init hist_init R) as (_ & _ & F).
  split; [intros ->|intros id ->]; destruct (F _ I eq_refl) as [x E]; discriminate.
Qed.

(* ------------------------------------------------------------------------------------------ *)
(* (iii) destroyed in the very step that removes the last owning referrer                     *)
(* ------------------------------------------------------------------------------------------ *)
Lemma last_owner_wf : forall s o s' ev id,
  wf s -> step s o = (s', ev) -> alive s id = true ->
  (own_count id (refs s') = 0 <-> In (Destroyed id) ev).
Proof.
  intros s o s' ev id W St A. pose proof (step_spost _ _ _ _ W St) as [].
  pose proof (wf_alive_iff s' id sp_wf0) as I. split.
  - intros Z. apply sp_dead0; auto. destruct (alive s' id); auto. assert (0 < own_count id (refs s')) by now apply I. lia.
  - intros D. apply sp_was0 in D as [_ D]. destruct (own_count id (refs s')); auto.
    assert (alive s' id = true) by (apply I; lia). congruence.
Qed.

Theorem destroyed_with_last_owner : forall ops s ev0 o s' ev id,
  run ops init = (s, ev0) -> step s o = (s', ev) -> alive s id = true ->
  (own_count id (refs s') = 0 <-> In (Destroyed id) ev).
Proof.
  intros ops s ev0 o s' ev id R St A. destruct (run_inv _ _ _ _ _ wf_init hist_init R) as (W & _ & _).
  eapply last_owner_wf; eauto.
Qed.

(* ------------------------------------------------------------------------------------------ *)
(* engine destruction                                                                         *)
(* ------------------------------------------------------------------------------------------ *)
Lemma list_max_ge : forall l x, In x l -> x <= list_max l.
Proof.
  induction l as [|a l IH]; intros x []; simpl.
  - subst. lia.
  - specialize (IH _ H). lia.
Qed.

Lemma only_slots_acyclic_dead : forall s,
  wf s -> (forall l h, In (l, h) (refs s) -> is_root l = false) -> acyclic s -> forall id, alive s id = false.
Proof.
  intros s W Sl [rank Rk] id0.
  set (B := S (list_max (map rank (seq 0 (next s))))).
  assert (Bd : forall id, alive s id = true -> rank id < B).
  { intros id A. apply (wf_lt_next s id W) in A. unfold B.
    assert (rank id <= list_max (map rank (seq 0 (next s)))); [|lia].
    apply list_max_ge. apply in_map. apply in_seq. lia. }
  assert (Cl : forall n id, B - rank id <= n -> alive s id = true -> False).
  { induction n as [|n IH]; intros id Le A.
    - apply Bd in A. lia.
    - pose proof A as A'. apply (wf_alive_iff s id W) in A'. apply own_count_pos_in in A' as (l & h & I & O & T).
      pose proof (Sl _ _ I) as NR. destruct l as [r|o k]; [discriminate|].
      destruct W as (_ & _ & C & _). pose proof (C _ _ _ I) as Ao.
      pose proof (Rk _ _ _ I O) as Lt. rewrite T in Lt.
      apply (IH o); auto. pose proof (Bd _ Ao). pose proof (Bd _ A). lia. }
  destruct (alive s id0) eqn:E; auto. exfalso. eapply Cl; eauto.
Qed.

(* whatever survives the destruction of the engine and of the C++ side's handles is held from inside another survivor *)
Lemma only_slots_leftover : forall s id,
  wf s -> (forall l h, In (l, h) (refs s) -> is_root l = false) -> alive s id = true ->
  exists o k h, In (LSlot o k, h) (refs s) /\ h_own h = true /\ h_tgt h = id /\ alive s o = true.
Proof.
  intros s id W Sl A. apply (wf_alive_iff s id W) in A. apply own_count_pos_in in A as (l & h & I & O & T).
  pose proof (Sl _ _ I) as NR. destruct l as [r|o k]; [discriminate|].
  exists o, k, h. repeat split; auto. destruct W as (_ & _ & C & _). eapply C; eauto.
Qed.

Lemma engine_end_only_slots : forall s0 s ev,
  wf s0 -> run [PEngineEnd; PCxxRelease] s0 = (s, ev) -> forall l h, In (l, h) (refs s) -> is_root l = false.
Proof.
  intros s0 s ev W R l h I. simpl in R.
  destruct (drop_where (fun l => is_root l && negb (is_cxx l)) s0) as [s1 e1] eqn:D1.
  destruct (drop_where is_cxx s1) as [s2 e2] eqn:D2. injection R as <- <-.
  apply drop_where_post in D1 as (P1 & N1 & _); auto.
  apply drop_where_post in D2 as (P2 & N2 & _); [|apply P1].
  pose proof (N2 _ I) as C2. pose proof (N1 _ (p_refs _ _ _ P2 _ I)) as C1. simpl in *.
  destruct (is_root l); auto. simpl in C1. rewrite C2 in C1. discriminate.
Qed.

Theorem engine_end_exactly_once : forall ops s ev,
  run (ops ++ [PEngineEnd; PCxxRelease]) init = (s, ev) -> acyclic s ->
  forall id, id < next s -> count_occ Nat.eq_dec (destroyed_ids ev) id = 1.
Proof.
  intros ops s ev R Ac id L.
  pose proof R as R0. rewrite run_app in R0.
  destruct (run ops init) as [s1 e1] eqn:R1. destruct (run [PEngineEnd; PCxxRelease] s1) as [s2 e2] eqn:R2. injection R0 as <- <-.
  destruct (run_inv _ _ _ _ _ wf_init hist_init R1) as (W1 & _ & _).
  destruct (run_inv _ _ _ _ _ wf_init hist_init R) as (W & (H & N & _) & _).
  apply (proj1 (NoDup_count_occ' Nat.eq_dec _) N). apply in_destroyed_ids. apply H; auto.
  apply only_slots_acyclic_dead; auto. eapply (engine_end_only_slots s1); eauto.
Qed.

Theorem engine_end_leftover_is_held_inside : forall ops s ev id,
  run (ops ++ [PEngineEnd; PCxxRelease]) init = (s, ev) -> alive s id = true ->
  exists o k h, In (LSlot o k, h) (refs s) /\ h_own h = true /\ h_tgt h = id /\ alive s o = true.
Proof.
  intros ops s ev id R A.
  pose proof R as R0. rewrite run_app in R0.
  destruct (run ops init) as [s1 e1] eqn:R1. destruct (run [PEngineEnd; PCxxRelease] s1) as [s2 e2] eqn:R2. injection R0 as <- <-.
  destruct (run_inv _ _ _ _ _ wf_init hist_init R1) as (W1 & _ & _).
  destruct (run_inv _ _ _ _ _ wf_init hist_init R) as (W & _ & _).
  apply only_slots_leftover; auto. eapply (engine_end_only_slots s1); eauto.
Qed.

(* ------------------------------------------------------------------------------------------ *)
(* (iv) non-owning handles                                                                    *)
(* ------------------------------------------------------------------------------------------ *)
Lemma covered_alive : forall s l h, wf s -> covered s -> In (l, h) (refs s) -> alive s (h_tgt h) = true.
Proof.
  intros s l h W Cv I. destruct (h_own h) eqn:O.
  - eapply wf_own_alive; eauto.
  - apply wf_alive_iff; auto. eapply Cv; eauto.
Qed.

Lemma resolve_dead : forall s p id, resolve s p = RDead id -> exists l h, In (l, h) (refs s) /\ h_tgt h = id /\ alive s id = false.
Proof.
  induction p as [r|q IH k]; intros id H; simpl in H; [discriminate|].
  destruct (resolve s q) as [l|id'|] eqn:R; try discriminate.
  - destruct (find_ref l s) as [h|] eqn:F; try discriminate.
    destruct (alive s (h_tgt h)) eqn:A; inversion H; subst.
    apply find_ref_in in F as [l' F]. eauto.
  - inversion H; subst. now apply IH.
Qed.

Lemma step_uaf : forall s o s' ev id,
  wf s -> step s o = (s', ev) -> In (UseAfterFree id) ev ->
  exists l h, In (l, h) (refs s) /\ h_tgt h = id /\ alive s id = false.
Proof.
  intros s o s' ev id W St I.
  assert (Dr : forall P s1 ev1, drop_where P s = (s1, ev1) -> In (UseAfterFree id) ev1 -> False).
  { intros P s1 ev1 R I1. apply drop_where_post in R as [R _]; auto. apply (p_only _ _ _ R) in I1 as [x E]. discriminate. }
  destruct o; simpl in St.
  - unfold with_dst in St. destruct (resolve s dst) as [l|x|] eqn:R; inv St; simpl in I; try tauto;
      destruct I as [E|[]]; inversion E; subst; try discriminate. eapply resolve_dead; eauto.
  - unfold with_src, with_dst, handle_at in St.
    destruct (resolve s src) as [ls|x|] eqn:Rs; [destruct (find_ref ls s) as [h|] eqn:F| |].
    + destruct (resolve s dst) as [l|x|] eqn:R.
      * destruct (h_own h && negb (alive s (h_tgt h))) eqn:G; inv St; simpl in I; try tauto.
        destruct I as [E|[]]. inversion E; subst. apply andb_true_iff in G as [_ G]. apply negb_true_iff in G.
        apply find_ref_in in F as [l' F]. eauto.
      * inv St. destruct I as [E|[]]. inversion E; subst. eapply resolve_dead; eauto.
      * inv St. destruct I as [E|[]]. discriminate.
    + inv St. destruct I as [E|[]]. discriminate.
    + inv St. destruct I as [E|[]]. inversion E; subst. eapply resolve_dead; eauto.
    + inv St. destruct I as [E|[]]. discriminate.
  - unfold with_src, with_dst, handle_at in St.
    destruct (resolve s src) as [ls|x|] eqn:Rs; [destruct (find_ref ls s) as [h|] eqn:F| |].
    + destruct (resolve s dst) as [l|x|] eqn:R; inv St; simpl in I; try tauto;
        destruct I as [E|[]]; inversion E; subst. eapply resolve_dead; eauto.
    + inv St. destruct I as [E|[]]. discriminate.
    + inv St. destruct I as [E|[]]. inversion E; subst. eapply resolve_dead; eauto.
    + inv St. destruct I as [E|[]]. discriminate.
  - unfold with_src, with_dst, handle_at in St.
    destruct (resolve s src) as [ls|x|] eqn:Rs; [destruct (find_ref ls s) as [h|] eqn:F| |].
    + destruct (resolve s dst) as [l|x|] eqn:R.
      * destruct (alive s (h_tgt h)) eqn:A; inv St; destruct I as [E|[]]; inversion E; subst.
        apply find_ref_in in F as [l' F]. eauto.
      * inv St. destruct I as [E|[]]. inversion E; subst. eapply resolve_dead; eauto.
      * inv St. destruct I as [E|[]]. discriminate.
    + inv St. destruct I as [E|[]]. discriminate.
    + inv St. destruct I as [E|[]]. inversion E; subst. eapply resolve_dead; eauto.
    + inv St. destruct I as [E|[]]. discriminate.
  - destruct (resolve s src) as [ls|x|] eqn:Rs; [destruct (find_ref ls s) as [h|] eqn:F| |].
    + unfold with_dst in St. destruct (resolve s dst) as [l|x|] eqn:R; inv St; simpl in I; try tauto;
        destruct I as [E|[]]; inversion E; subst. eapply resolve_dead; eauto.
    + inv St. destruct I as [E|[]]. discriminate.
    + inv St. destruct I as [E|[]]. inversion E; subst. eapply resolve_dead; eauto.
    + inv St. destruct I as [E|[]]. discriminate.
  - destruct (resolve s p) as [l|x|] eqn:R.
    + exfalso. eapply Dr; eauto.
    + inv St. destruct I as [E|[]]. inversion E; subst. eapply resolve_dead; eauto.
    + inv St. destruct I as [E|[]]. discriminate.
  - unfold with_src, handle_at in St.
    destruct (resolve s p) as [ls|x|] eqn:Rs; [destruct (find_ref ls s) as [h|] eqn:F| |].
    + inv St. destruct I as [E|[]]. destruct (alive s (h_tgt h)) eqn:A; inversion E; subst.
      apply find_ref_in in F as [l' F]. eauto.
    + inv St. destruct I as [E|[]]. discriminate.
    + inv St. destruct I as [E|[]]. inversion E; subst. eapply resolve_dead; eauto.
    + inv St. destruct I as [E|[]]. discriminate.
  - inv St. destruct I.
  - destruct (depth s) as [|d]; [inv St; destruct I as [E|[]]; discriminate|].
    destruct (drop_where (in_scope (S d)) s) as [s1 ev1] eqn:R. inv St. exfalso. eapply Dr; eauto.
  - inv St. destruct I.
  - destruct (calls s) as [|[|c]].
    + inv St. destruct I as [E|[]]; discriminate.
    + destruct (drop_where (fun l => is_param_of lvl l || is_conv l) s) as [s1 ev1] eqn:R. inv St. exfalso. eapply Dr; eauto.
    + inv St. destruct I.
  - exfalso. eapply Dr; eauto.
  - inv St. destruct I as [E|[]]; discriminate.
  - exfalso. eapply Dr; eauto.
  - exfalso. eapply Dr; eauto.
  - unfold with_src, handle_at in St.
    destruct (resolve s p) as [ls|x|] eqn:Rs; [destruct (find_ref ls s) as [h|] eqn:F| |].
    + destruct (alive s (h_tgt h)) eqn:A; inv St; [destruct I|]. destruct I as [E|[]]. inversion E; subst.
      apply find_ref_in in F as [l' F]. eauto.
    + inv St. destruct I as [E|[]]. discriminate.
    + inv St. destruct I as [E|[]]. inversion E; subst. eapply resolve_dead; eauto.
    + inv St. destruct I as [E|[]]. discriminate.
  - unfold with_src, handle_at in St.
    destruct (resolve s p) as [ls|x|] eqn:Rs; [destruct (find_ref ls s) as [h|] eqn:F| |].
    + inv St. destruct I as [E|[]]. destruct (alive s (h_tgt h)) eqn:A; inversion E; subst.
      apply find_ref_in in F as [l' F]. eauto.
    + inv St. destruct I as [E|[]]. discriminate.
    + inv St. destruct I as [E|[]]. inversion E; subst. eapply resolve_dead; eauto.
    + inv St. destruct I as [E|[]]. discriminate.
Qed.

Lemma step_no_uaf : forall s o s' ev id, wf s -> covered s -> step s o = (s', ev) -> ~ In (UseAfterFree id) ev.
Proof.
  intros s o s' ev id W Cv St I. destruct (step_uaf _ _ _ _ _ W St I) as (l & h & In_ & T & D).
  pose proof (covered_alive _ _ _ W Cv In_). congruence.
Qed.

Lemma run_no_uaf : forall ops s s' ev id,
  wf s -> Forall covered (trace ops s) -> run ops s = (s', ev) -> ~ In (UseAfterFree id) ev.
Proof.
  induction ops as [|o ops IH]; intros s s' ev id W Cv R; simpl in R.
  - injection R as <- <-. intros [].
  - destruct (step s o) as [s1 e1] eqn:St. destruct (run ops s1) as [s2 e2] eqn:Rn. injection R as <- <-.
    simpl in Cv. inversion Cv; subst. rewrite St in H2. simpl in H2.
    intros I. apply in_app_or in I as [I|I].
    + eapply step_no_uaf; eauto.
    + exact (IH s1 s2 e2 id (sp_wf _ _ _ (step_spost _ _ _ _ W St)) H2 Rn I).
Qed.

(* The side condition, stated exactly: in every state the run goes through, each non-owning handle is covered by an
   owning referrer of the same object (its lifetime lies within that of an owner). *)
Theorem no_use_after_free_if_covered : forall ops s ev,
  Forall covered (trace ops init) -> run ops init = (s, ev) ->
  forall e, In e ev -> is_fault e = false.
Proof.
  intros ops s ev Cv R e I. destruct (is_fault e) eqn:F; auto.
  destruct (run_inv _ _ _ _ _ wf_init hist_init R) as (_ & _ & Fl).
  destruct (Fl _ I F) as [id ->]. exfalso. eapply run_no_uaf; eauto. exact wf_init.
Qed.

(* a run without non-owning handles satisfies the side condition trivially *)
Definition owning_only (o : prim) : bool := match o with PBorrow _ _ => false | _ => true end.

(* ------------------------------------------------------------------------------------------ *)
(* a syntactic discipline that implies the side condition                                     *)
(* ------------------------------------------------------------------------------------------ *)
Lemma nested_covered : forall s, nested s -> covered s.
Proof.
  intros s [_ N] l h I O. destruct (N l h I O) as (db & _ & d & n & _ & Io). eapply in_own_count_pos; eauto.
Qed.

Lemma root_eqb_eq : forall a b, root_eqb a b = true -> a = b.
Proof.
  intros [] []; simpl; intros H; try discriminate;
    repeat match goal with
           | H : _ && _ = true |- _ => apply andb_true_iff in H as [? ?]
           | H : (_ =? _) = true |- _ => apply Nat.eqb_eq in H; subst
           end; reflexivity.
Qed.

Lemma loc_eqb_eq : forall a b, loc_eqb a b = true -> a = b.
Proof.
  intros [r|o k] [r'|o' k']; simpl; intros H; try discriminate.
  - apply root_eqb_eq in H. now subst.
  - apply andb_true_iff in H as [H1 H2]. apply Nat.eqb_eq in H1, H2. now subst.
Qed.

Lemma find_ref_in_loc : forall l s h, find_ref l s = Some h -> In (l, h) (refs s).
Proof.
  intros l s h H. unfold find_ref in H.
  destruct (filter (fun r => loc_eqb (fst r) l) (refs s)) as [|[l' h'] t] eqn:E; [discriminate|].
  inversion H; subst. assert (In (l', h) (filter (fun r => loc_eqb (fst r) l) (refs s))) as I by (rewrite E; now left).
  apply filter_In in I as [I L]. simpl in L. apply loc_eqb_eq in L. now subst.
Qed.

Lemma resolve_var : forall s p d n, resolve s p = RLoc (LRoot (RVar d n)) -> p = PRoot (RVar d n).
Proof.
  intros s [r|q k] d n H; simpl in H.
  - now inversion H.
  - destruct (resolve s q); try discriminate. destruct (find_ref l s); try discriminate.
    destruct (alive s (h_tgt h)); discriminate.
Qed.

(* adding a handle: an owning one anywhere (a variable place must belong to a live scope), or a non-owning one
   into a variable whose scope is inside that of a variable owning the same object *)
Lemma nested_add : forall s s' l h,
  nested s -> depth s' = depth s -> refs s' = (l, h) :: refs s ->
  (forall d n, l = LRoot (RVar d n) -> d <= depth s) ->
  (h_own h = false -> exists db, var_depth l = Some db /\ exists d n, d <= db /\ In (LRoot (RVar d n), mkH true (h_tgt h)) (refs s)) ->
  nested s'.
Proof.
  intros s s' l h [N1 N2] D R V B. split.
  - intros d n h0 I. rewrite R in I. rewrite D. destruct I as [E|I]; [inversion E; subst; eauto|eauto].
  - intros l0 h0 I O. rewrite R in I. rewrite R. destruct I as [E|I].
    + inversion E; subst. destruct (B O) as (db & Vd & d & n & Le & Io). exists db. split; auto. exists d, n. split; auto. now right.
    + destruct (N2 _ _ I O) as (db & Vd & d & n & Le & Io). exists db. split; auto. exists d, n. split; auto. now right.
Qed.

Lemma nested_drop_novar : forall P s s1 ev,
  wf s -> nested s -> (forall d n, P (LRoot (RVar d n)) = false) -> drop_where P s = (s1, ev) -> nested s1.
Proof.
  intros P s s1 ev W [N1 N2] NV R. apply drop_where_post in R as (Po & Np & K); auto. destruct Po. split.
  - intros d n h I. rewrite p_depth0. eapply N1. eapply p_refs0; eauto.
  - intros l h I O. destruct (N2 _ _ (p_refs0 _ I) O) as (db & Vd & d & n & Le & Io).
    exists db. split; auto. exists d, n. split; auto.
Qed.

Lemma nested_step : forall s o s' ev,
  wf s -> nested s -> disciplined s o = true -> step s o = (s', ev) -> nested s'.
Proof.
  intros s o s' ev W N Dsc St. pose proof N as [N1 N2].
  destruct o; simpl in St, Dsc.
  - (* PCreate *)
    unfold with_dst in St. destruct (resolve s dst) as [l|x|] eqn:R; inv St; auto.
    eapply nested_add; eauto; simpl; auto; try discriminate.
    intros d n ->. apply resolve_var in R. subst dst. simpl in Dsc. now apply Nat.leb_le.
  - (* PShare *)
    apply andb_true_iff in Dsc as [Ow Dst]. unfold owning_at in Ow.
    unfold with_src, with_dst in St. destruct (handle_at s src) as [[ls|x|] [h|]] eqn:Ha; try discriminate; try (inv St; auto; fail).
    destruct (resolve s dst) as [l|x|] eqn:R; try (inv St; auto; fail).
    destruct (h_own h && negb (alive s (h_tgt h))); inv St; auto.
    eapply (nested_add s (add_ref s l h) l h); eauto.
    + unfold add_ref. destruct (h_own h); reflexivity.
    + unfold add_ref. destruct (h_own h); reflexivity.
    + intros d n ->. apply resolve_var in R. subst dst. simpl in Dst. now apply Nat.leb_le.
    + congruence.
  - (* PBorrow *)
    destruct src as [[d n| | | |]|]; try discriminate. destruct dst as [[d' n'| | | |]|]; try discriminate.
    apply andb_true_iff in Dsc as [Dsc Ow]. apply andb_true_iff in Dsc as [L1 L2].
    apply Nat.leb_le in L1, L2. unfold owning_at in Ow. unfold with_src, with_dst in St. simpl in St, Ow.
    destruct (find_ref (LRoot (RVar d n)) s) as [h|] eqn:F; try discriminate.
    inv St. eapply (nested_add s _ (LRoot (RVar d' n')) (mkH false (h_tgt h))); eauto.
    + intros d0 n0 E. inversion E; subst. auto.
    + intros _. exists d'. split; auto. exists d, n. split; auto.
      apply find_ref_in_loc in F. destruct h as [ho ht]. simpl in *. now subst.
  - (* PClone *)
    unfold with_src, with_dst in St. destruct (handle_at s src) as [[ls|x|] [h|]] eqn:Ha; try (inv St; auto; fail).
    destruct (resolve s dst) as [l|x|] eqn:R; try (inv St; auto; fail).
    destruct (alive s (h_tgt h)); inv St;
      (eapply nested_add; eauto; simpl; auto; try discriminate;
       intros d n ->; apply resolve_var in R; subst dst; simpl in Dsc; now apply Nat.leb_le).
  - discriminate.
  - (* PDrop *)
    destruct (resolve s p) as [l|x|] eqn:R; try (inv St; auto; fail).
    eapply nested_drop_novar; eauto. intros d n.
    destruct (loc_eqb l (LRoot (RVar d n))) eqn:E; auto. apply loc_eqb_eq in E. subst l.
    apply resolve_var in R. subst p. discriminate.
  - (* PTouch *)
    unfold with_src in St. destruct (handle_at s p) as [[ls|x|] [h|]]; inv St; auto.
  - (* PPush *)
    inv St. split; simpl; auto. intros d n h I. apply N1 in I. lia.
  - (* PPop *)
    destruct (depth s) as [|d0] eqn:Dp; [inv St; auto|].
    destruct (drop_where (in_scope (S d0)) s) as [s1 ev1] eqn:R. inv St.
    apply drop_where_post in R as (Po & Np & K); auto. destruct Po. split; simpl.
    + intros d n h I. pose proof (Np _ I) as F. simpl in F. apply p_refs0 in I. apply N1 in I.
      apply Nat.eqb_neq in F. lia.
    + intros l h I O. pose proof (Np _ I) as F. destruct (N2 _ _ (p_refs0 _ I) O) as (db & Vd & d & n & Le & Io).
      exists db. split; auto. exists d, n. split; auto. apply K; auto. simpl.
      destruct l as [[dl nl| | | |]|]; simpl in Vd; try discriminate. inversion Vd; subst.
      simpl in F. apply Nat.eqb_neq in F. apply Nat.eqb_neq. pose proof (N1 _ _ _ (p_refs0 _ I)). lia.
  - (* PCallBegin *)
    inv St. split; simpl.
    + intros d n h I. apply in_map_iff in I as ([l0 h0] & E & I). simpl in E.
      destruct (is_conv l0) eqn:C.
      * destruct l0 as [[]|]; simpl in *; try discriminate.
      * inversion E; subst. eauto.
    + intros l h I O. apply in_map_iff in I as ([l0 h0] & E & I). simpl in E.
      assert (l0 = l /\ h0 = h) as [-> ->].
      { destruct (is_conv l0) eqn:C; [|now inversion E].
        inversion E; subst. destruct (N2 _ _ I O) as (db & Vd & _). destruct l0 as [[]|]; simpl in *; discriminate. }
      destruct (N2 _ _ I O) as (db & Vd & d & n & Le & Io). exists db. split; auto. exists d, n. split; auto.
      apply in_map_iff. exists (LRoot (RVar d n), mkH true (h_tgt h)). split; auto.
  - (* PCallEnd *)
    destruct (calls s) as [|[|c]]; try (inv St; auto; fail).
    destruct (drop_where (fun l => is_param_of lvl l || is_conv l) s) as [s1 ev1] eqn:R. inv St.
    assert (Ns : nested s1) by (eapply nested_drop_novar; eauto; intros; reflexivity). exact Ns.
  - (* PStmtEnd *) eapply nested_drop_novar; eauto; intros; reflexivity.
  - (* PCheckpoint *) inv St. auto.
  - (* PEngineEnd *)
    apply drop_where_post in St as (Po & Np & K); auto. destruct Po. split.
    + intros d n h I. apply Np in I. discriminate.
    + intros l h I O. pose proof (Np _ I) as F. destruct (N2 _ _ (p_refs0 _ I) O) as (db & Vd & _).
      destruct l as [[]|]; simpl in *; discriminate.
  - (* PCxxRelease *) eapply nested_drop_novar; eauto; intros; reflexivity.
  - (* PWrite *)
    unfold with_src in St. destruct (handle_at s p) as [[ls|x|] [h|]]; try (inv St; auto; fail).
    destruct (alive s (h_tgt h)); inv St; auto.
  - (* PRead *)
    unfold with_src in St. destruct (handle_at s p) as [[ls|x|] [h|]]; inv St; auto.
Qed.

Lemma nested_init : nested init.
Proof. split; simpl; intros; contradiction. Qed.

Lemma disciplined_trace_covered : forall ops s,
  wf s -> nested s -> disciplined_run ops s = true -> Forall covered (trace ops s).
Proof.
  induction ops as [|o ops IH]; intros s W N D; simpl.
  - constructor; [now apply nested_covered|constructor].
  - simpl in D. apply andb_true_iff in D as [D1 D2]. constructor; [now apply nested_covered|].
    destruct (step s o) as [s1 e1] eqn:St. simpl in *. apply IH; auto.
    + exact (sp_wf _ _ _ (step_spost _ _ _ _ W St)).
    + eapply nested_step; eauto.
Qed.

(* a history that follows the scope discipline never uses an object after its destruction *)
Theorem no_use_after_free_if_nested : forall ops s ev,
  disciplined_run ops init = true -> run ops init = (s, ev) -> forall e, In e ev -> is_fault e = false.
Proof.
  intros ops s ev D R. eapply no_use_after_free_if_covered; eauto.
  apply disciplined_trace_covered; auto using wf_init, nested_init.
Qed.
