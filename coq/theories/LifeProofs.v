(* C11 — proofs about the reference-counting machine of LifeDefs (all operation sequences, no bounds). *)
From Coq Require Import List Bool Arith PeanoNat Lia.
From ChaiV Require Import LifeDefs.
Import ListNotations.

(* ------------------------------------------------------------------------------------------ *)
(* small facts                                                                                *)
(* ------------------------------------------------------------------------------------------ *)
Lemma upd_same : forall A (f : nat -> A) i v, upd f i v i = v.
Proof. intros. unfold upd. now rewrite Nat.eqb_refl. Qed.

Lemma upd_other : forall A (f : nat -> A) i j v, j <> i -> upd f i v j = f j.
Proof. intros. unfold upd. destruct (Nat.eqb_spec j i); congruence. Qed.

Lemma filter_split_length : forall A (P : A -> bool) l,
  length (filter P l) + length (filter (fun x => negb (P x)) l) = length l.
Proof. induction l as [|a l IH]; simpl; auto. destruct (P a); simpl; lia. Qed.

Lemma own_count_cons : forall id r l, own_count id (r :: l) = (if owns id (snd r) then 1 else 0) + own_count id l.
Proof. intros. unfold own_count. simpl. destruct (owns id (snd r)); reflexivity. Qed.

Lemma own_count_split : forall id (P : loc * href -> bool) l,
  own_count id l = own_count id (filter P l) + own_count id (filter (fun x => negb (P x)) l).
Proof.
  induction l as [|a l IH]; auto.
  rewrite own_count_cons. simpl. destruct (P a); simpl; rewrite own_count_cons; lia.
Qed.

Lemma own_countH_map : forall id l, own_countH id (map snd l) = own_count id l.
Proof.
  induction l as [|a l IH]; auto. unfold own_countH, own_count in *. simpl.
  destruct (owns id (snd a)); simpl; auto.
Qed.

Lemma own_countH_app : forall id a b, own_countH id (a ++ b) = own_countH id a + own_countH id b.
Proof. intros. unfold own_countH. now rewrite filter_app, app_length. Qed.

Lemma own_countH_cons : forall id h l, own_countH id (h :: l) = (if owns id h then 1 else 0) + own_countH id l.
Proof. intros. unfold own_countH. simpl. destruct (owns id h); reflexivity. Qed.

Lemma own_count_pos_in : forall id l, 0 < own_count id l -> exists lc h, In (lc, h) l /\ h_own h = true /\ h_tgt h = id.
Proof.
  induction l as [|[lc h] l IH]; intros H.
  - inversion H.
  - rewrite own_count_cons in H. simpl in H. destruct (owns id h) eqn:E.
    + unfold owns in E. apply andb_true_iff in E as [E1 E2]. apply Nat.eqb_eq in E2.
      exists lc, h. split; [now left|auto].
    + destruct IH as (lc' & h' & I & O & T); [lia|]. exists lc', h'. split; [now right|auto].
Qed.

Lemma in_own_count_pos : forall id lc h l, In (lc, h) l -> h_own h = true -> h_tgt h = id -> 0 < own_count id l.
Proof.
  induction l as [|a l IH]; intros I O T; [inversion I|].
  rewrite own_count_cons. destruct I as [->|I].
  - simpl. unfold owns. rewrite O, T, Nat.eqb_refl. simpl. lia.
  - specialize (IH I O T). lia.
Qed.

Lemma own_count_map_loc : forall id (g : loc * href -> loc * href) l,
  (forall r, snd (g r) = snd r) -> own_count id (map g l) = own_count id l.
Proof.
  induction l as [|a l IH]; intros G; auto. simpl. rewrite !own_count_cons, G, IH; auto.
Qed.

(* ------------------------------------------------------------------------------------------ *)
(* the invariant                                                                              *)
(* ------------------------------------------------------------------------------------------ *)
(* [winv W s]: the counter of every object equals the number of owning handles to it, counting the places of the
   state and the handles W that are in the middle of being destroyed; an object is alive iff its counter is
   positive; a slot that holds a handle belongs to a live object; ids not yet allocated are not alive. *)
Definition winv (W : list href) (s : state) : Prop :=
  (forall id, rc s id = own_count id (refs s) + own_countH id W) /\
  (forall id, alive s id = true <-> 0 < rc s id) /\
  (forall o k h, In (LSlot o k, h) (refs s) -> alive s o = true) /\
  (forall id, next s <= id -> alive s id = false).

Definition wf (s : state) : Prop := winv [] s.

Lemma wf_init : wf init.
Proof.
  repeat split; simpl; intros; try lia; try discriminate; try contradiction; auto.
Qed.

Lemma wf_rc : forall s id, wf s -> rc s id = own_count id (refs s).
Proof. intros s id (A & _). rewrite A. unfold own_countH. simpl. lia. Qed.

Lemma wf_alive_iff : forall s id, wf s -> (alive s id = true <-> 0 < own_count id (refs s)).
Proof. intros s id H. destruct H as (A & B & C & D). rewrite B, A. unfold own_countH. simpl. lia. Qed.

Lemma wf_own_alive : forall s l h, wf s -> In (l, h) (refs s) -> h_own h = true -> alive s (h_tgt h) = true.
Proof. intros. apply wf_alive_iff; auto. eapply in_own_count_pos; eauto. Qed.

Lemma wf_lt_next : forall s id, wf s -> alive s id = true -> id < next s.
Proof.
  intros s id (A & B & C & D) H. destruct (le_lt_dec (next s) id); auto. rewrite D in H; auto. discriminate.
Qed.

(* what one batch of destructions guarantees *)
Record post (s s' : state) (ev : list event) : Prop := mkPost {
  p_wf : wf s';
  p_only : forall e, In e ev -> exists id, e = Destroyed id;
  p_was : forall id, In (Destroyed id) ev -> alive s id = true /\ alive s' id = false;
  p_nodup : NoDup (destroyed_ids ev);
  p_mono : forall id, alive s' id = true -> alive s id = true;
  p_dead : forall id, alive s id = true -> alive s' id = false -> In (Destroyed id) ev;
  p_next : next s' = next s;
  p_depth : depth s' = depth s;
  p_calls : calls s' = calls s;
  p_tracked : tracked s' = tracked s;
  p_refs : forall r, In r (refs s') -> In r (refs s)
}.

Lemma destroyed_ids_cons_D : forall t ev, destroyed_ids (Destroyed t :: ev) = t :: destroyed_ids ev.
Proof. reflexivity. Qed.

Lemma in_destroyed_ids : forall id ev, In id (destroyed_ids ev) <-> In (Destroyed id) ev.
Proof.
  induction ev as [|e ev IH]; simpl; [tauto|].
  rewrite in_app_iff, IH. destruct e; simpl; split; intros H; try tauto;
    try (destruct H as [H|H]; [discriminate|tauto]); try (destruct H as [[]|H]; tauto).
  - destruct H as [[H|[]]|H]; [left; now subst|tauto].
  - destruct H as [H|H]; [left; left; now inversion H|tauto].
Qed.

Lemma destroyed_ids_app : forall a b, destroyed_ids (a ++ b) = destroyed_ids a ++ destroyed_ids b.
Proof. intros. unfold destroyed_ids. now rewrite flat_map_app. Qed.

Lemma release_post : forall fuel W s s' ev,
  winv W s -> length W + length (refs s) <= fuel -> release fuel W s = (s', ev) -> post s s' ev.
Proof.
  induction fuel as [|f IH]; intros W s s' ev Inv Fuel R.
  - assert (W = []) by (destruct W; simpl in Fuel; [auto|lia]). subst W. simpl in R. inversion R; subst.
    constructor; auto; try (intros; simpl in *; try contradiction; try congruence); try constructor.
  - simpl in R. destruct W as [|h w].
    + inversion R; subst. constructor; auto; try (intros; simpl in *; try contradiction; try congruence); try constructor.
    + destruct Inv as (A & B & C & D).
      destruct (h_own h) eqn:Own.
      * (* owning handle *)
        pose proof (A (h_tgt h)) as At. rewrite own_countH_cons in At.
        assert (Ot : owns (h_tgt h) h = true) by (unfold owns; now rewrite Own, Nat.eqb_refl).
        rewrite Ot in At.
        destruct (rc s (h_tgt h)) as [|[|n]] eqn:Rc; [lia| |].
        -- (* last owner: destroy *)
           set (t := h_tgt h) in *.
           set (mine := filter (fun r => is_slot_of t (fst r)) (refs s)) in *.
           set (rest := filter (fun r => negb (is_slot_of t (fst r))) (refs s)) in *.
           destruct (release f (w ++ map snd mine) (set_refs (kill s t) rest)) as [s1 ev1] eqn:R1.
           inversion R; subst s' ev. clear R.
           assert (Alive_t : alive s t = true) by (apply B; lia).
           assert (Inv1 : winv (w ++ map snd mine) (set_refs (kill s t) rest)).
           { repeat split; simpl.
             - intros id. rewrite own_countH_app, own_countH_map.
               pose proof (own_count_split id (fun r => is_slot_of t (fst r)) (refs s)) as Sp.
               pose proof (A id) as Aid. rewrite own_countH_cons in Aid. unfold mine, rest.
               destruct (Nat.eq_dec id t) as [->|Ne].
               + rewrite upd_same. rewrite Ot in Aid. lia.
               + rewrite upd_other by auto.
                 assert (owns id h = false) as Oh.
                 { unfold owns. fold t. destruct (Nat.eqb_spec t id); [congruence|]. now rewrite andb_false_r. }
                 rewrite Oh in Aid. lia.
             - intros H. destruct (Nat.eq_dec id t) as [->|Ne].
               + rewrite upd_same in H. discriminate.
               + rewrite upd_other in * by auto. now apply B.
             - intros H. destruct (Nat.eq_dec id t) as [->|Ne].
               + rewrite upd_same in H. lia.
               + rewrite upd_other in * by auto. now apply B.
             - intros o k h0 I. unfold rest in I. apply filter_In in I as [I N]. simpl in N.
               destruct (Nat.eq_dec o t) as [->|Ne]; [rewrite Nat.eqb_refl in N; discriminate|].
               rewrite upd_other by auto. eapply C; eauto.
             - intros id L. destruct (Nat.eq_dec id t) as [->|Ne]; [now rewrite upd_same|].
               rewrite upd_other by auto. now apply D. }
           assert (Fuel1 : length (w ++ map snd mine) + length (refs (set_refs (kill s t) rest)) <= f).
           { simpl. rewrite app_length, map_length.
             pose proof (filter_split_length _ (fun r => is_slot_of t (fst r)) (refs s)) as L.
             simpl in Fuel. unfold mine, rest. lia. }
           specialize (IH _ _ _ _ Inv1 Fuel1 R1). destruct IH.
           simpl in *.
           assert (Dead1 : alive s1 t = false).
           { destruct (alive s1 t) eqn:E; auto. apply p_mono0 in E. now rewrite upd_same in E. }
           constructor; auto.
           ++ intros e [<-|I]; eauto.
           ++ intros id [E|I].
              ** inversion E; subst. auto.
              ** apply p_was0 in I as [I1 I2]. split; auto.
                 destruct (Nat.eq_dec id t) as [->|Ne]; [now rewrite upd_same in I1|now rewrite upd_other in I1].
           ++ rewrite destroyed_ids_cons_D. constructor; auto.
              intros I. apply in_destroyed_ids in I. apply p_was0 in I as [I _]. now rewrite upd_same in I.
           ++ intros id H. apply p_mono0 in H.
              destruct (Nat.eq_dec id t) as [->|Ne]; [now rewrite upd_same in H|now rewrite upd_other in H].
           ++ intros id H1 H2. destruct (Nat.eq_dec id t) as [->|Ne]; [now left|].
              right. apply p_dead0; auto. now rewrite upd_other.
           ++ intros r I. apply p_refs0 in I. unfold rest in I. now apply filter_In in I.
        -- (* other owners remain *)
           assert (Inv1 : winv w (set_rc s (h_tgt h) (S n))).
           { repeat split; simpl; auto.
             - intros id. pose proof (A id) as Aid. rewrite own_countH_cons in Aid.
               destruct (Nat.eq_dec id (h_tgt h)) as [->|Ne].
               + rewrite upd_same. rewrite Ot in Aid. lia.
               + rewrite upd_other by auto.
                 assert (owns id h = false) as Oh.
                 { unfold owns. destruct (Nat.eqb_spec (h_tgt h) id); [congruence|]. now rewrite andb_false_r. }
                 rewrite Oh in Aid. lia.
             - intros H. destruct (Nat.eq_dec id (h_tgt h)) as [->|Ne]; [rewrite upd_same; lia|].
               rewrite upd_other by auto. now apply B.
             - intros H. destruct (Nat.eq_dec id (h_tgt h)) as [->|Ne]; [apply B; lia|].
               rewrite upd_other in H by auto. now apply B. }
           assert (Fuel1 : length w + length (refs (set_rc s (h_tgt h) (S n))) <= f) by (simpl in *; lia).
           specialize (IH _ _ _ _ Inv1 Fuel1 R). destruct IH. simpl in *. constructor; auto.
      * (* non-owning handle: nothing to do *)
        assert (Inv1 : winv w s).
        { repeat split; auto. intros id. rewrite (A id), own_countH_cons.
          assert (owns id h = false) as Oh by (unfold owns; now rewrite Own). now rewrite Oh. }
        assert (Fuel1 : length w + length (refs s) <= f) by (simpl in *; lia).
        exact (IH _ _ _ _ Inv1 Fuel1 R).
Qed.

Lemma drop_where_post : forall P s s' ev,
  wf s -> drop_where P s = (s', ev) ->
  post s s' ev /\ (forall r, In r (refs s') -> P (fst r) = false).
Proof.
  intros P s s' ev W R. unfold drop_where in R.
  set (gone := filter (fun r => P (fst r)) (refs s)) in *.
  set (kept := filter (fun r => negb (P (fst r))) (refs s)) in *.
  assert (Inv : winv (map snd gone) (set_refs s kept)).
  { destruct W as (A & B & C & D). repeat split; simpl; auto; try apply B.
    - intros id. rewrite own_countH_map. rewrite (A id). unfold own_countH. simpl.
      pose proof (own_count_split id (fun r => P (fst r)) (refs s)) as Sp. unfold gone, kept. lia.
    - intros o k h I. unfold kept in I. apply filter_In in I as [I _]. eapply C; eauto. }
  assert (Fuel : length (map snd gone) + length (refs (set_refs s kept)) <= S (length (refs s))).
  { simpl. rewrite map_length. pose proof (filter_split_length _ (fun r => P (fst r)) (refs s)) as L. unfold gone, kept. lia. }
  pose proof (release_post _ _ _ _ _ Inv Fuel R) as Po. destruct Po. simpl in *.
  split.
  - constructor; auto. intros r I. apply p_refs0 in I. unfold kept in I. now apply filter_In in I.
  - intros r I. apply p_refs0 in I. unfold kept in I. apply filter_In in I as [_ I]. now apply negb_true_iff in I.
Qed.

(* ------------------------------------------------------------------------------------------ *)
(* one step                                                                                   *)
(* ------------------------------------------------------------------------------------------ *)
Record spost (s s' : state) (ev : list event) : Prop := mkSPost {
  sp_wf : wf s';
  sp_was : forall id, In (Destroyed id) ev -> alive s id = true /\ alive s' id = false;
  sp_nodup : NoDup (destroyed_ids ev);
  sp_mono : forall id, id < next s -> alive s' id = true -> alive s id = true;
  sp_dead : forall id, alive s id = true -> alive s' id = false -> In (Destroyed id) ev;
  sp_next : next s <= next s';
  sp_new : forall id, next s <= id -> id < next s' -> alive s' id = true;
  sp_nofault : forall e, In e ev -> is_fault e = true -> exists id, e = UseAfterFree id
}.

Lemma post_spost : forall s s' ev, wf s -> post s s' ev -> spost s s' ev.
Proof.
  intros s s' ev W []. constructor; auto.
  - rewrite p_next0. lia.
  - intros. rewrite p_next0 in *. lia.
  - intros e I F. apply p_only0 in I as [id ->]. discriminate.
Qed.

Lemma spost_same : forall s s' ev,
  wf s -> wf s' -> alive s' = alive s -> next s' = next s -> (forall e, In e ev -> exists id, e = Touched id \/ e = UseAfterFree id \/ e = BadOp id \/ e = Live id) ->
  spost s s' ev.
Proof.
  intros s s' ev W W' A N E. constructor; auto; try rewrite A; try rewrite N; auto; try lia.
  - intros id I. apply E in I as [x [H|[H|[H|H]]]]; discriminate.
  - assert (destroyed_ids ev = []) as ->; [|constructor].
    induction ev as [|e ev IH]; auto. simpl. destruct (E e (or_introl eq_refl)) as [x [H|[H|[H|H]]]]; subst; simpl; apply IH; intros; apply E; now right.
  - intros id H1 H2. congruence.
  - intros e I F. apply E in I as [x [H|[H|[H|H]]]]; subst; try discriminate. eauto.
Qed.

Lemma resolve_slot_alive : forall s p o k, resolve s p = RLoc (LSlot o k) -> alive s o = true.
Proof.
  intros s [r|q k0] o k H; simpl in H; [discriminate|].
  destruct (resolve s q); try discriminate. destruct (find_ref l s); try discriminate.
  destruct (alive s (h_tgt h)) eqn:E; inversion H; subst; auto.
Qed.

Lemma find_ref_in : forall l s h, find_ref l s = Some h -> exists l', In (l', h) (refs s).
Proof.
  intros l s h H. unfold find_ref in H.
  destruct (filter (fun r => loc_eqb (fst r) l) (refs s)) as [|[l' h'] t] eqn:E; [discriminate|].
  inversion H; subst. exists l'. assert (In (l', h) (filter (fun r => loc_eqb (fst r) l) (refs s))) as I by (rewrite E; now left).
  now apply filter_In in I.
Qed.

Lemma wf_set_depth : forall s d, wf s -> wf (set_depth s d).
Proof. intros s d H. exact H. Qed.
Lemma wf_set_calls : forall s d, wf s -> wf (set_calls s d).
Proof. intros s d H. exact H. Qed.

Lemma wf_create : forall s l tr, wf s -> (forall o k, l = LSlot o k -> alive s o = true) -> wf (create s l tr).
Proof.
  intros s l tr W L. pose proof W as (A & B & C & D).
  assert (Fresh : own_count (next s) (refs s) = 0).
  { pose proof (wf_alive_iff s (next s) W) as I. rewrite D in I by lia. destruct (own_count (next s) (refs s)); auto.
    assert (false = true) by (apply I; lia). discriminate. }
  repeat split; simpl.
  - intros id. rewrite own_count_cons. simpl. unfold own_countH. simpl. unfold owns. simpl.
    destruct (Nat.eq_dec id (next s)) as [->|Ne].
    + rewrite upd_same, Nat.eqb_refl, Fresh. reflexivity.
    + rewrite upd_other by auto. destruct (Nat.eqb_spec (next s) id); [congruence|]. rewrite (wf_rc s id W). simpl. lia.
  - intros H. destruct (Nat.eq_dec id (next s)) as [->|Ne]; [rewrite upd_same; lia|].
    rewrite upd_other in * by auto. now apply B.
  - intros H. destruct (Nat.eq_dec id (next s)) as [->|Ne]; [now rewrite upd_same|].
    rewrite upd_other in * by auto. now apply B.
  - intros o k h [E|I].
    + inversion E; subst. specialize (L o k eq_refl).
      pose proof (wf_lt_next s o W L). rewrite upd_other by lia. auto.
    + pose proof (C o k h I) as Ao. pose proof (wf_lt_next s o W Ao). rewrite upd_other by lia. auto.
  - intros id Le. rewrite upd_other by lia. apply D. lia.
Qed.

Lemma wf_add_ref : forall s l h, wf s ->
  (forall o k, l = LSlot o k -> alive s o = true) -> (h_own h = true -> alive s (h_tgt h) = true) -> wf (add_ref s l h).
Proof.
  intros s l h W L O. pose proof W as (A & B & C & D). unfold add_ref.
  destruct (h_own h) eqn:Own.
  - specialize (O eq_refl). repeat split; simpl.
    + intros id. rewrite own_count_cons. simpl. unfold own_countH. simpl. unfold owns. rewrite Own. simpl.
      destruct (Nat.eq_dec id (h_tgt h)) as [->|Ne].
      * rewrite upd_same, Nat.eqb_refl, (wf_rc s _ W). lia.
      * rewrite upd_other by auto. destruct (Nat.eqb_spec (h_tgt h) id); [congruence|]. rewrite (wf_rc s id W). lia.
    + intros H. destruct (Nat.eq_dec id (h_tgt h)) as [->|Ne]; [rewrite upd_same; lia|].
      rewrite upd_other by auto. now apply B.
    + intros H. destruct (Nat.eq_dec id (h_tgt h)) as [->|Ne]; [auto|].
      rewrite upd_other in H by auto. now apply B.
    + intros o k h0 [E|I]; [inversion E; subst; eauto|eauto].
    + auto.
  - repeat split; simpl; try apply B; auto.
    + intros id. rewrite own_count_cons. simpl. unfold owns at 1. rewrite Own. simpl. apply A.
    + intros o k h0 [E|I]; [inversion E; subst; eauto|eauto].
Qed.

Lemma wf_relocate : forall s from f, wf s ->
  (forall l o k, from l = true -> f l = LSlot o k -> alive s o = true) -> wf (relocate from f s).
Proof.
  intros s from f W L. pose proof W as (A & B & C & D). repeat split; simpl; try apply B; auto.
  - intros id. rewrite own_count_map_loc; [apply A|]. intros [l h]. simpl. destruct (from l); reflexivity.
  - intros o k h I. apply in_map_iff in I as ([l0 h0] & E & I). simpl in E.
    destruct (from l0) eqn:F; inversion E; subst; eauto.
Qed.

Ltac inv H := inversion H; subst; clear H.

Lemma step_spost : forall s o s' ev, wf s -> step s o = (s', ev) -> spost s s' ev.
Proof.
  intros s o s' ev W St.
  assert (Same : forall evs, (forall e, In e evs -> exists id, e = Touched id \/ e = UseAfterFree id \/ e = BadOp id \/ e = Live id) -> spost s s evs)
    by (intros; apply spost_same; auto).
  assert (Created : forall l tr evs, (forall o k, l = LSlot o k -> alive s o = true) ->
            (forall e, In e evs -> exists id, e = Touched id \/ e = UseAfterFree id \/ e = BadOp id \/ e = Live id) -> spost s (create s l tr) evs).
  { intros l tr evs L E. pose proof W as (A & B & C & D). constructor; simpl; auto.
    - now apply wf_create.
    - intros id I. apply E in I as [x [H|[H|[H|H]]]]; discriminate.
    - assert (destroyed_ids evs = []) as ->; [|constructor].
      clear - E. induction evs as [|e evs IH]; auto. simpl. destruct (E e (or_introl eq_refl)) as [x [H|[H|[H|H]]]]; subst; simpl; apply IH; intros; apply E; now right.
    - intros id L1 H. rewrite upd_other in H by lia. auto.
    - intros id H1 H2. pose proof (wf_lt_next s id W H1). rewrite upd_other in H2 by lia. congruence.
    - intros id L1 L2. assert (id = next s) as -> by lia. now rewrite upd_same.
    - intros e I F. apply E in I as [x [H|[H|[H|H]]]]; subst; try discriminate. eauto. }
  assert (Dropped : forall P s1 ev1, drop_where P s = (s1, ev1) -> spost s s1 ev1)
    by (intros P s1 ev1 R; apply post_spost; auto; now apply drop_where_post in R as [R _]).
  destruct o; simpl in St.
  - (* PCreate *)
    unfold with_dst in St. destruct (resolve s dst) as [l|id|] eqn:R; inv St.
    + apply Created; [|intros e []]. intros o k ->. eapply resolve_slot_alive; eauto.
    + apply Same. intros e [<-|[]]; eauto.
    + apply Same. intros e [<-|[]]; eauto.
  - (* PShare *)
    unfold with_src, with_dst, handle_at in St.
    destruct (resolve s src) as [ls|id|] eqn:Rs; [destruct (find_ref ls s) as [h|] eqn:F| |];
      try (inv St; apply Same; intros e [<-|[]]; eauto; fail).
    destruct (resolve s dst) as [l|id|] eqn:R; try (inv St; apply Same; intros e [<-|[]]; eauto; fail).
    destruct (h_own h && negb (alive s (h_tgt h))) eqn:G; inv St; [apply Same; intros e [<-|[]]; eauto|].
    apply spost_same; auto; [|unfold add_ref; destruct (h_own h); reflexivity|unfold add_ref; destruct (h_own h); reflexivity|intros e []].
    apply wf_add_ref; auto.
    + intros o k ->. eapply resolve_slot_alive; eauto.
    + intros O. rewrite O in G. simpl in G. now apply negb_false_iff in G.
  - (* PBorrow *)
    unfold with_src, with_dst, handle_at in St.
    destruct (resolve s src) as [ls|id|] eqn:Rs; [destruct (find_ref ls s) as [h|] eqn:F| |];
      try (inv St; apply Same; intros e [<-|[]]; eauto; fail).
    destruct (resolve s dst) as [l|id|] eqn:R; try (inv St; apply Same; intros e [<-|[]]; eauto; fail).
    inv St. apply spost_same; auto; [|intros e []].
    apply wf_add_ref; auto; [|simpl; discriminate].
    intros o k ->. eapply resolve_slot_alive; eauto.
  - (* PClone *)
    unfold with_src, with_dst, handle_at in St.
    destruct (resolve s src) as [ls|id|] eqn:Rs; [destruct (find_ref ls s) as [h|] eqn:F| |];
      try (inv St; apply Same; intros e [<-|[]]; eauto; fail).
    destruct (resolve s dst) as [l|id|] eqn:R; try (inv St; apply Same; intros e [<-|[]]; eauto; fail).
    destruct (alive s (h_tgt h)); inv St; (apply Created; [intros o k ->; eapply resolve_slot_alive; eauto|intros e [<-|[]]; eauto]).
  - (* PMove *)
    destruct (resolve s src) as [ls|id|] eqn:Rs; [destruct (find_ref ls s) as [h|] eqn:F| |];
      try (inv St; apply Same; intros e [<-|[]]; eauto; fail).
    unfold with_dst in St.
    destruct (resolve s dst) as [l|id|] eqn:R; try (inv St; apply Same; intros e [<-|[]]; eauto; fail).
    inv St. apply spost_same; auto; [|intros e []].
    apply wf_relocate; auto. intros l0 o k _ ->. eapply resolve_slot_alive; eauto.
  - (* PDrop *)
    destruct (resolve s p) as [l|id|] eqn:R; try (inv St; apply Same; intros e [<-|[]]; eauto; fail).
    eapply Dropped; eauto.
  - (* PTouch *)
    unfold with_src, handle_at in St.
    destruct (resolve s p) as [ls|id|] eqn:Rs; [destruct (find_ref ls s) as [h|] eqn:F| |];
      try (inv St; apply Same; intros e [<-|[]]; eauto; fail).
    inv St. apply Same. intros e [<-|[]]. destruct (alive s (h_tgt h)); eauto.
  - (* PPush *) inv St. apply spost_same; auto. intros e [].
  - (* PPop *)
    destruct (depth s) as [|d] eqn:Dp; [inv St; apply Same; intros e [<-|[]]; eauto|].
    destruct (drop_where (in_scope (S d)) s) as [s1 ev1] eqn:R. inv St.
    apply Dropped in R. destruct R. constructor; auto.
  - (* PCallBegin *)
    inv St. apply spost_same; auto; [|intros e []].
    apply wf_set_calls. apply wf_relocate; auto.
    intros l o k Fr E. destruct l as [[]|]; simpl in *; discriminate.
  - (* PCallEnd *)
    destruct (calls s) as [|[|c]] eqn:Cs.
    + inv St. apply Same. intros e [<-|[]]; eauto.
    + destruct (drop_where (fun l => is_param_of (depth s) l || is_conv l) s) as [s1 ev1] eqn:R. inv St.
      apply Dropped in R. destruct R. constructor; auto.
    + inv St. apply spost_same; auto. intros e [].
  - (* PStmtEnd *) eapply Dropped; eauto.
  - (* PCheckpoint *) inv St. apply Same. intros e [<-|[]]; eauto.
  - (* PEngineEnd *) eapply Dropped; eauto.
  - (* PCxxRelease *) eapply Dropped; eauto.
Qed.

(* ------------------------------------------------------------------------------------------ *)
(* runs                                                                                       *)
(* ------------------------------------------------------------------------------------------ *)
(* the history of a run agrees with the state: an allocated object is dead iff its destruction was reported *)
Definition hist (s : state) (evs : list event) : Prop :=
  (forall id, id < next s -> (alive s id = false <-> In (Destroyed id) evs)) /\
  NoDup (destroyed_ids evs) /\
  (forall id, In (Destroyed id) evs -> id < next s).

Lemma hist_init : hist init [].
Proof. repeat split; simpl; intros; try lia; try contradiction. constructor. Qed.

Lemma hist_step : forall s s' evs ev, wf s -> hist s evs -> spost s s' ev -> hist s' (evs ++ ev).
Proof.
  intros s s' evs ev W (H1 & H2 & H3) []. repeat split.
  - intros Dd. apply in_or_app. destruct (lt_dec id (next s)) as [L|L].
    + destruct (alive s id) eqn:E; [right; auto|left; now apply H1].
    + rewrite sp_new0 in Dd by lia. discriminate.
  - intros I. apply in_app_or in I as [I|I].
    + pose proof (H3 _ I) as L. apply H1 in I; auto. destruct (alive s' id) eqn:E; auto. apply sp_mono0 in E; auto. congruence.
    + now apply sp_was0 in I.
  - rewrite destroyed_ids_app. apply NoDup_app_iff'.
Abort.
