(* C06 — further proofs about the dispatch model (DispatchDefs): no internal exception leaves boxed_cast / dispatch,
   the order of overloads does not depend on return types (and the non-const twin goes first), script variables
   re-seated through std::shared_ptr<T>& parameters stay coherent, a const argument is never bound to a mutable
   parameter form. Stated for an arbitrary rule set R under the computable conditions [rules_ok], [flow_ok], [order_ok],
   [sentinel_ok]; DispatchTheorems.v checks them on the regenerated table. *)
From Coq Require Import ZArith List Bool Arith Lia Permutation.
From ChaiV Require Import DispatchDefs DispatchProofs.
Import ListNotations.

(* ---------------------------------------------------------------------------------------------- *)
(** * No internal exception (detail::exception::bad_any_cast) leaves boxed_cast or a call *)

Lemma boxed_cast_no_internal :
  forall R E wc p b, flow_ok R = true -> boxed_cast_gen R E wc p b <> CErr EBadAny.
Proof.
  intros R E wc p b HF. unfold flow_ok in HF. unfold boxed_cast_gen.
  set (don := existsb _ (r_direct_when R)).
  assert (Hu : r_up_catch R = CatchAll).
  { destruct (r_direct_catch R), (r_up_catch R); try discriminate; reflexivity. }
  rewrite Hu in HF.
  assert (Hd : forall x, catches (r_direct_catch R) x = false -> x <> EBadAny).
  { intros x Hx ->. destruct (r_direct_catch R) eqn:Ed; cbn in Hx; try discriminate. }
  assert (Hn : forall x, catches (r_down_catch R) x = false -> x <> EBadAny).
  { intros x Hx ->. destruct (r_down_catch R) eqn:Edn; cbn in Hx; try discriminate. destruct (r_direct_catch R); discriminate. }
  assert (Hrest : (if wc && convertible (e_convs E) (p_bare p)
                   then match on_box R p (conv_up R E (p_bare p) b) with
                        | DOk r => COk r
                        | DThrow e => if catches (r_up_catch R) e
                                      then match on_box R p (conv_down R E (p_bare p) b) with
                                           | DOk r => COk r
                                           | DThrow e2 => if catches (r_down_catch R) e2 then CErr EBadCast else CErr e2
                                           end
                                      else CErr e
                        end
                   else CErr EBadCast) <> CErr EBadAny).
  { destruct (wc && convertible (e_convs E) (p_bare p)); [| discriminate ].
    destruct (on_box R p (conv_up R E (p_bare p) b)) as [r|e]; [discriminate|].
    rewrite Hu. destruct (catches CatchAll e) eqn:Ec.
    - destruct (on_box R p (conv_down R E (p_bare p) b)) as [r|e2]; [discriminate|].
      destruct (catches (r_down_catch R) e2) eqn:Ec2; [discriminate|]. intros H. injection H as H. exact (Hn _ Ec2 H).
    - intros H. injection H as ->. discriminate. }
  destruct don.
  - destruct (cast_helper R p b) as [r|e]; [discriminate|].
    destruct (catches (r_direct_catch R) e) eqn:Ec; [exact Hrest|].
    intros H. injection H as H. exact (Hd _ Ec H).
  - exact Hrest.
Qed.

Lemma unbox_seq_no_internal :
  forall R E ps args e, flow_ok R = true -> unbox_seq R E ps args = inr e -> e <> EBadAny.
Proof.
  intros R E ps. induction ps as [|p ps IH]; intros [|a args] e HF H; cbn in H; try discriminate; try (injection H as <-; discriminate).
  destruct (boxed_cast R E p a) as [r|e0] eqn:Ec.
  - destruct (unbox_seq R E ps args) as [rs|e1] eqn:Eu; [discriminate|]. injection H as <-. eapply IH; eauto.
  - injection H as <-. intros ->. exact (boxed_cast_no_internal R E true p a HF Ec).
Qed.
Lemma unbox_rtl_no_internal :
  forall R E ps args e, flow_ok R = true -> unbox_rtl R E ps args = inr e -> e <> EBadAny.
Proof.
  intros R E ps. induction ps as [|p ps IH]; intros [|a args] e HF H; cbn in H; try discriminate; try (injection H as <-; discriminate).
  destruct (unbox_rtl R E ps args) as [rs|e1] eqn:Eu.
  - destruct (boxed_cast R E p a) as [r|e0] eqn:Ec; [discriminate|]. injection H as <-. intros ->. exact (boxed_cast_no_internal R E true p a HF Ec).
  - injection H as <-. eapply IH; eauto.
Qed.

Lemma dyn_convert_no_internal :
  forall R E named ps args e, dyn_convert R E named ps args = inr e -> is_exception e = true -> e <> EBadAny.
Proof.
  intros R E named. induction named as [|n named IH]; intros ps args e H Hx; [cbn in H; discriminate|].
  destruct ps as [|p ps]; [cbn in H; discriminate|]. destruct args as [|a args]; [cbn in H; discriminate|].
  cbn [dyn_convert] in H.
  set (c := n && negb (ti_undef (p_ti p)) && negb (negb (b_undef a) && Nat.eqb (b_ty a) (p_bare p)) && converts (e_convs E) (p_bare p) (b_ty a)) in H.
  destruct c.
  - destruct (conv_up R E (p_bare p) a) as [x|e0].
    + destruct (dyn_convert R E named ps args) as [xs|e1] eqn:Ed; [discriminate|]. injection H as <-. eapply IH; eauto.
    + destruct (is_exception e0) eqn:Ex.
      * destruct (conv_down R E (p_bare p) a) as [x|e2].
        -- destruct (dyn_convert R E named ps args) as [xs|e1] eqn:Ed; [discriminate|]. injection H as <-. eapply IH; eauto.
        -- destruct e2; injection H as <-; discriminate.
      * injection H as <-. intros ->. discriminate.
  - destruct (dyn_convert R E named ps args) as [xs|e1] eqn:Ed; [discriminate|]. injection H as <-. eapply IH; eauto.
Qed.

(* bodies do not throw the internal exception themselves *)
Definition body_clean (E : env) : Prop := forall id, e_body E id <> Some EBadAny.

Lemma call_one_no_internal :
  forall R E f args, flow_ok R = true -> body_clean E -> o_res (call_one R E f args) <> Some EBadAny.
Proof.
  intros R E f args HF Hb. unfold call_one.
  destruct (r_arity_check R && negb (f_arity f <? 0)%Z && negb (f_arity f =? Z.of_nat (length args))%Z); [cbn; discriminate|].
  destruct (f_kind f).
  - unfold unbox_all. destruct (e_rtl E).
    + destruct (unbox_rtl R E (f_params f) args) as [rs|e] eqn:Eu; cbn; [apply Hb|]. intros H. injection H as ->. eapply unbox_rtl_no_internal; eauto.
    + destruct (unbox_seq R E (f_params f) args) as [rs|e] eqn:Eu; cbn; [apply Hb|]. intros H. injection H as ->. eapply unbox_seq_no_internal; eauto.
  - destruct (if (f_arity f <? 0)%Z then (true, false) else if (f_arity f =? Z.of_nat (length args))%Z
              then (if existsb (fun x => x) named then dyn_match (e_convs E) named (f_params f) args else (true, false)) else (false, false)) as [m c].
    destruct (m && match f_guard f with Some gid => e_guard E gid args | None => true end); [| cbn; discriminate ].
    destruct c; [| cbn; apply Hb ].
    destruct (dyn_convert R E named (f_params f) args) as [vals|e] eqn:Ed; cbn; [apply Hb|].
    intros H. injection H as ->. eapply dyn_convert_no_internal; eauto.
  - destruct (f_params f) as [|p [|]]; try (cbn; discriminate).
    destruct args as [|a [|]]; try (cbn; discriminate).
    destruct (boxed_cast R E _ a) as [r|e] eqn:Ec.
    + destruct (r_isnull r); [destruct (r_attr_nullcheck R); cbn; discriminate | cbn; apply Hb].
    + cbn. intros H. injection H as ->. exact (boxed_cast_no_internal R E true _ a HF Ec).
Qed.

Lemma bucket_no_internal :
  forall R E i ofs args tr o, flow_ok R = true -> body_clean E -> bucket R E i ofs args tr = Done o -> o_res o <> Some EBadAny.
Proof.
  intros R E i ofs args. induction ofs as [|[n f] ofs IH]; intros tr o HF Hb H; cbn [bucket] in H; [discriminate|].
  destruct (Nat.eqb n i); [| eapply IH; eauto ].
  destruct (if Nat.eqb i 0 then Some true else fn_filter R (e_convs E) f args) as [[|]|].
  - pose proof (call_one_no_internal R E f args HF Hb) as Hc.
    destruct (o_res (call_one R E f args)) as [e|] eqn:Er.
    + destruct (retries (r_dispatch_retry R) e); [eapply IH; eauto|]. injection H as <-. cbn. exact Hc.
    + injection H as <-. cbn. discriminate.
  - eapply IH; eauto.
  - injection H as <-. cbn. discriminate.
Qed.
Lemma buckets_no_internal :
  forall R E k i ofs args tr o, flow_ok R = true -> body_clean E -> buckets R E k i ofs args tr = Done o -> o_res o <> Some EBadAny.
Proof.
  intros R E k. induction k as [|k IH]; intros i ofs args tr o HF Hb H; cbn [buckets] in H; [discriminate|].
  destruct (bucket R E i ofs args tr) as [o'|tr'] eqn:Eb.
  - injection H as <-. eapply bucket_no_internal; eauto.
  - eapply IH; eauto.
Qed.

Theorem dispatch_no_internal :
  forall R E fs args, flow_ok R = true -> body_clean E -> o_res (dispatch R E fs args) <> Some EBadAny.
Proof.
  intros R E fs args HF Hb. unfold dispatch.
  destruct (buckets R E (S (length args)) 0 (order_funcs fs args) args []) as [o|tr] eqn:Eb.
  - eapply buckets_no_internal; eauto.
  - unfold dispatch_with_conversions.
    destruct (pick_conv R (e_convs E) (order_funcs fs args) args PNone') as [|f| |]; cbn; try discriminate.
    destruct (r_dwc_only_converted R && negb (any_needs_arith (f_params f) args)); [cbn; discriminate|].
    destruct (new_plist E (f_params f) args) as [args'|]; [| cbn; discriminate ].
    pose proof (call_one_no_internal R E f args' HF Hb) as Hc.
    destruct (o_res (call_one R E f args')) as [e|]; cbn; [| discriminate ].
    destruct (retries (r_dwc_retry R) e); [discriminate|]. exact Hc.
Qed.

Theorem call_named_no_internal :
  forall R E fs args, flow_ok R = true -> body_clean E -> o_res (call_named R E fs args) <> Some EBadAny.
Proof.
  intros R E fs args HF Hb. unfold call_named.
  destruct fs as [|f [|g fs']].
  - destruct (r_arity_check R && _ && _); [cbn; discriminate | apply dispatch_no_internal; auto].
  - destruct (has_arith_param f).
    + destruct (r_arity_check R && _ && _); [cbn; discriminate | apply dispatch_no_internal; auto].
    + apply call_one_no_internal; auto.
  - destruct (r_arity_check R && _ && _); [cbn; discriminate | apply dispatch_no_internal; auto].
Qed.

(* ---------------------------------------------------------------------------------------------- *)
(** * Sorting commutes with a renaming the comparator does not see *)

Section SortMap.
  Variable A : Type.
  Variable lt : A -> A -> bool.
  Variable g : A -> A.
  Hypothesis Hlt : forall x y, lt (g x) (g y) = lt x y.

  Lemma linear_insert_map : forall rp x after,
    linear_insert A lt (map g rp) (g x) (map g after) = map g (linear_insert A lt rp x after).
  Proof.
    induction rp as [|y r IH]; intros x after; cbn [linear_insert map]; [reflexivity|].
    rewrite Hlt. destruct (lt x y).
    - apply (IH x (y :: after)).
    - change (g y :: map g r) with (map g (y :: r)). rewrite <- map_rev. change (g x :: map g after) with (map g (x :: after)).
      rewrite <- map_app. reflexivity.
  Qed.
  Lemma insert_one_map : forall sorted x, insert_one A lt (map g sorted) (g x) = map g (insert_one A lt sorted x).
  Proof.
    intros [|h t] x; cbn [insert_one map]; [reflexivity|].
    rewrite Hlt. destruct (lt x h); [reflexivity|].
    change (g h :: map g t) with (map g (h :: t)). rewrite <- map_rev. apply (linear_insert_map (rev (h :: t)) x []).
  Qed.
  Lemma insertion_sort_map : forall l, insertion_sort lt (map g l) = map g (insertion_sort lt l).
  Proof.
    intros l. unfold insertion_sort.
    assert (H : forall l acc, fold_left (insert_one A lt) (map g l) (map g acc) = map g (fold_left (insert_one A lt) l acc)).
    { induction l0 as [|x l0 IH]; intros acc; cbn [fold_left map]; [reflexivity|]. rewrite insert_one_map. apply IH. }
    apply (H l []).
  Qed.
  Lemma merge_fwd_map : forall a b, merge_fwd A lt (map g a) (map g b) = map g (merge_fwd A lt a b).
  Proof.
    induction a as [|x a IHa]; intros b.
    - destruct b; reflexivity.
    - induction b as [|y b IHb]; [reflexivity|].
      cbn [map]. cbn [merge_fwd]. rewrite Hlt. destruct (lt y x).
      + cbn [map]. f_equal. exact IHb.
      + cbn [map]. f_equal. apply (IHa (y :: b)).
  Qed.
  Lemma merge_bwd_map : forall a b, merge_bwd A lt (map g a) (map g b) = map g (merge_bwd A lt a b).
  Proof.
    induction a as [|x a IHa]; intros b.
    - destruct b; reflexivity.
    - induction b as [|y b IHb]; [reflexivity|].
      cbn [map]. cbn [merge_bwd]. rewrite Hlt. destruct (lt y x).
      + cbn [map]. f_equal. apply (IHa (y :: b)).
      + cbn [map]. f_equal. exact IHb.
  Qed.
  Lemma stable_sort_map : forall l, stable_sort lt (map g l) = map g (stable_sort lt l).
  Proof.
    intros l. unfold stable_sort. rewrite map_length.
    destruct (Nat.leb (length l) 14); [| apply insertion_sort_map ].
    rewrite firstn_map, skipn_map, !insertion_sort_map, !map_length.
    destruct (Nat.leb _ _).
    - apply merge_fwd_map.
    - rewrite <- !map_rev, merge_bwd_map, map_rev. reflexivity.
  Qed.
End SortMap.

(* ---------------------------------------------------------------------------------------------- *)
(** * The order of overloads, and what a call does, do not depend on return types *)

(* [f'] is [f] with another return type *)
Definition ret_variant (f f' : func) : Prop :=
  f_id f' = f_id f /\ f_arity f' = f_arity f /\ f_params f' = f_params f /\ f_kind f' = f_kind f /\ f_guard f' = f_guard f.
Definition set_ret (t : tinfo) (f : func) : func := mkfunc (f_id f) (f_arity f) (f_params f) (f_kind f) (f_guard f) t.
Lemma set_ret_variant : forall t f, ret_variant f (set_ret t f).
Proof. intros. unfold ret_variant. cbn. auto. Qed.

Lemma flt_ret_irrelevant :
  forall R l l' r r', order_ok R = true -> ret_variant l l' -> ret_variant r r' ->
    function_less_than R l' r' = function_less_than R l r.
Proof.
  intros R l l' r r' HO (_ & _ & Hp & Hk & Hg) (_ & _ & Hp' & Hk' & Hg').
  unfold order_ok in HO. apply Nat.eqb_eq in HO.
  unfold function_less_than, is_dyn, has_guard, f_types. rewrite HO, Hp, Hk, Hg, Hp', Hk', Hg'. reflexivity.
Qed.

Section RetIrrelevant.
  Variable R : rules.
  Variable g : func -> func.
  Hypothesis HO : order_ok R = true.
  Hypothesis Hg : forall f, ret_variant f (g f).

  Lemma register_all_map : forall fs, register_all R (map g fs) = map g (register_all R fs).
  Proof.
    intros fs. unfold register_all.
    assert (H : forall l acc, fold_left (register R) (map g l) (map g acc) = map g (fold_left (register R) l acc)).
    { induction l as [|f l IH]; intros acc; cbn [fold_left map]; [reflexivity|].
      unfold register at 2. change [g f] with (map g [f]). rewrite <- map_app.
      rewrite (stable_sort_map func (function_less_than R) g); [| intros x y; apply flt_ret_irrelevant; auto ].
      apply (IH (register R acc f)). }
    apply (H fs []).
  Qed.

  Lemma call_one_variant : forall E f args, call_one R E (g f) args = call_one R E f args.
  Proof.
    intros E f args. destruct (Hg f) as (Hi & Ha & Hp & Hk & Hgd).
    unfold call_one, enter. rewrite Hi, Ha, Hp, Hk, Hgd. reflexivity.
  Qed.
  Definition gg (nf : nat * func) : nat * func := (fst nf, g (snd nf)).
  Lemma order_funcs_map : forall fs args, order_funcs (map g fs) args = map gg (order_funcs fs args).
  Proof.
    induction fs as [|f fs IH]; intros args; cbn [order_funcs map]; [reflexivity|].
    destruct (Hg f) as (Hi & Ha & Hp & Hk & Hgd). rewrite Ha, Hp, IH.
    destruct (f_arity f =? -1)%Z; [reflexivity|]. destruct (f_arity f =? Z.of_nat (length args))%Z; reflexivity.
  Qed.
  Lemma fn_filter_variant : forall cs f args, fn_filter R cs (g f) args = fn_filter R cs f args.
  Proof.
    intros cs f args. destruct (Hg f) as (Hi & Ha & Hp & Hk & Hgd). unfold fn_filter, nth_ti. rewrite Ha, Hp. reflexivity.
  Qed.
  Lemma bucket_map : forall E i ofs args tr, bucket R E i (map gg ofs) args tr = bucket R E i ofs args tr.
  Proof.
    intros E i ofs args. induction ofs as [|[n f] ofs IH]; intros tr; cbn [bucket map gg fst snd]; [reflexivity|].
    rewrite fn_filter_variant, call_one_variant.
    destruct (Nat.eqb n i); [| apply IH ].
    destruct (if Nat.eqb i 0 then Some true else fn_filter R (e_convs E) f args) as [[|]|]; auto.
    destruct (o_res (call_one R E f args)) as [e|]; auto. destruct (retries (r_dispatch_retry R) e); auto.
  Qed.
  Lemma buckets_map : forall E k i ofs args tr, buckets R E k i (map gg ofs) args tr = buckets R E k i ofs args tr.
  Proof.
    intros E k. induction k as [|k IH]; intros i ofs args tr; cbn [buckets]; [reflexivity|].
    rewrite bucket_map. destruct (bucket R E i ofs args tr); auto.
  Qed.
  Definition pick_map (p : pick) : pick := match p with POne f => POne (g f) | x => x end.
  Lemma tmefa_variant : forall cs f args, types_match_except_for_arithmetic R cs (g f) args = types_match_except_for_arithmetic R cs f args.
  Proof.
    intros cs f args. destruct (Hg f) as (Hi & Ha & Hp & Hk & Hgd). unfold types_match_except_for_arithmetic. rewrite Ha, Hp. reflexivity.
  Qed.
  Lemma first_const_variant : forall f, first_const (g f) = first_const f.
  Proof. intros f. destruct (Hg f) as (Hi & Ha & Hp & Hk & Hgd). unfold first_const, nth_ti. rewrite Hp. reflexivity. Qed.
  Lemma pick_conv_map : forall cs ofs args cur, pick_conv R cs (map gg ofs) args (pick_map cur) = pick_map (pick_conv R cs ofs args cur).
  Proof.
    intros cs ofs args. induction ofs as [|[n f] ofs IH]; intros cur; cbn [pick_conv map gg fst snd]; [reflexivity|].
    rewrite tmefa_variant. destruct (types_match_except_for_arithmetic R cs f args); [| apply IH ].
    destruct cur as [|m| |]; cbn [pick_map]; try reflexivity.
    - apply (IH (POne f)).
    - rewrite !first_const_variant. destruct args as [|a0 args']; [reflexivity|].
      destruct (first_const m) as [mc|]; [| reflexivity ]. destruct (first_const f) as [nc|]; [| reflexivity ].
      destruct (b_const a0 && negb mc && nc); [apply (IH (POne f))|].
      destruct (negb (b_const a0) && negb mc && nc); [apply (IH (POne m)) | reflexivity].
  Qed.
  Lemma dispatch_map : forall E fs args, dispatch R E (map g fs) args = dispatch R E fs args.
  Proof.
    intros E fs args. unfold dispatch. rewrite order_funcs_map, buckets_map.
    destruct (buckets R E (S (length args)) 0 (order_funcs fs args) args []) as [o|tr]; [reflexivity|].
    unfold dispatch_with_conversions.
    pose proof (pick_conv_map (e_convs E) (order_funcs fs args) args PNone') as Hpk. cbn [pick_map] in Hpk. rewrite Hpk. clear Hpk.
    destruct (pick_conv R (e_convs E) (order_funcs fs args) args PNone') as [|f| |]; cbn [pick_map]; try reflexivity.
    destruct (Hg f) as (Hi & Ha & Hp & Hk & Hgd). rewrite Hp.
    destruct (r_dwc_only_converted R && negb (any_needs_arith (f_params f) args)); [reflexivity|].
    destruct (new_plist E (f_params f) args); [| reflexivity ]. rewrite call_one_variant. reflexivity.
  Qed.
  Lemma common_arity_map : forall fs, common_arity (map g fs) = common_arity fs.
  Proof.
    intros [|f fs]; [reflexivity|]. cbn [common_arity map].
    destruct (Hg f) as (_ & Ha & _). rewrite Ha.
    assert (H : forall l, forallb (fun h => (f_arity h =? f_arity f)%Z) (map g l) = forallb (fun h => (f_arity h =? f_arity f)%Z) l).
    { induction l as [|x l IH]; cbn; [reflexivity|]. destruct (Hg x) as (_ & Hx & _). rewrite Hx, IH. reflexivity. }
    change (g f :: map g fs) with (map g (f :: fs)). rewrite H. reflexivity.
  Qed.
  Lemma call_named_map : forall E fs args, call_named R E (map g fs) args = call_named R E fs args.
  Proof.
    intros E fs args. unfold call_named.
    destruct fs as [|f [|h fs']].
    - reflexivity.
    - cbn [map]. destruct (Hg f) as (Hi & Ha & Hp & Hk & Hgd).
      assert (Hh : has_arith_param (g f) = has_arith_param f) by (unfold has_arith_param; rewrite Hp; reflexivity).
      rewrite Hh, Ha, call_one_variant. change [g f] with (map g [f]). rewrite dispatch_map. reflexivity.
    - change (map g (f :: h :: fs')) with (g f :: g h :: map g fs').
      change (g f :: g h :: map g fs') with (map g (f :: h :: fs')). rewrite common_arity_map, dispatch_map. reflexivity.
  Qed.

  (* registering the same overloads with other return types gives the same order and the same calls *)
  Theorem registered_call_ret_irrelevant :
    forall E fs args, call_named R E (register_all R (map g fs)) args = call_named R E (register_all R fs) args.
  Proof. intros. rewrite register_all_map. apply call_named_map. Qed.
  Theorem registered_order_ret_irrelevant :
    forall fs, map f_id (register_all R (map g fs)) = map f_id (register_all R fs).
  Proof.
    intros. rewrite register_all_map, map_map. apply map_ext. intros f. destruct (Hg f) as (Hi & _). exact Hi.
  Qed.
End RetIrrelevant.

(* ---------------------------------------------------------------------------------------------- *)
(** * Twins f(T&) / f(const T&): the non-const version is stored first and is the one entered for a mutable T *)

Definition twins (l r : func) : Prop :=
  f_kind l = KNative /\ f_kind r = KNative /\
  exists pl pr, f_params l = [pl] /\ f_params r = [pr]
    /\ ti_bare_equal (p_ti pl) (p_ti pr) = true /\ ti_bare_equal (p_ti pr) (p_ti pl) = true
    /\ ti_const (p_ti pl) = false /\ ti_const (p_ti pr) = true.

Lemma twins_less : forall R l r, order_ok R = true -> twins l r -> function_less_than R l r = true /\ function_less_than R r l = false.
Proof.
  intros R l r HO (Hkl & Hkr & pl & pr & Hpl & Hpr & Hb1 & Hb2 & Hc1 & Hc2).
  unfold order_ok in HO. apply Nat.eqb_eq in HO.
  unfold function_less_than, is_dyn, f_types. rewrite HO, Hkl, Hkr, Hpl, Hpr. cbn [andb map skipn flt_tis].
  rewrite Hb1, Hb2, Hc1, Hc2. cbn. auto.
Qed.

Lemma register_all_pair : forall R a b, register_all R [a; b] = if function_less_than R b a then [b; a] else [a; b].
Proof. intros. reflexivity. Qed.

Lemma twins_registered : forall R l r, order_ok R = true -> twins l r -> register_all R [l; r] = [l; r] /\ register_all R [r; l] = [l; r].
Proof.
  intros R l r HO Ht. destruct (twins_less R l r HO Ht) as [H1 H2]. rewrite !register_all_pair, H1, H2. auto.
Qed.

Lemma dispatch_first_exact :
  forall R E l rest args rs,
    (forall id e, e_body E id = Some e -> retries (r_dispatch_retry R) e = false) ->
    bare_exact l args = true -> call_one R E l args = enter E l rs ->
    dispatch R E (l :: rest) args = mkout [Enter (f_id l) rs] (e_body E (f_id l)).
Proof.
  intros R E l rest args rs Hb Hbe Hc. unfold dispatch.
  assert (Ho : exists tl, order_funcs (l :: rest) args = (0, l) :: tl).
  { cbn [order_funcs]. unfold bare_exact in Hbe. destruct (f_arity l =? -1)%Z.
    - apply Nat.eqb_eq in Hbe. rewrite Hbe. eauto.
    - apply andb_true_iff in Hbe. destruct Hbe as [H1 H2]. rewrite H1. apply Nat.eqb_eq in H2. rewrite H2. eauto. }
  destruct Ho as (tl & ->). cbn [buckets bucket Nat.eqb]. rewrite Hc. cbn [o_res o_trace enter app].
  destruct (e_body E (f_id l)) as [e|] eqn:Eb; [rewrite (Hb _ _ Eb)|]; reflexivity.
Qed.

Theorem twins_nonconst_first :
  forall R E l r args rs,
    rules_ok R = true -> order_ok R = true -> twins l r -> func_wf l = true -> func_wf r = true ->
    (forall id e, e_body E id = Some e -> retries (r_dispatch_retry R) e = false) ->
    bare_exact l args = true -> call_one R E l args = enter E l rs ->
    call_named R E (register_all R [l; r]) args = mkout [Enter (f_id l) rs] (e_body E (f_id l))
    /\ call_named R E (register_all R [r; l]) args = mkout [Enter (f_id l) rs] (e_body E (f_id l)).
Proof.
  intros R E l r args rs HR HO Ht Hwl Hwr Hb Hbe Hc.
  destruct (twins_registered R l r HO Ht) as [-> ->].
  assert (Hcall : call_named R E [l; r] args = mkout [Enter (f_id l) rs] (e_body E (f_id l))).
  { unfold call_named.
    destruct Ht as (Hkl & Hkr & pl & pr & Hpl & Hpr & _).
    assert (Hal : f_arity l = 1%Z).
    { unfold func_wf in Hwl. rewrite Hkl, Hpl in Hwl. bool_hyps. cbn in *.
      match goal with H : (f_arity l <? 0)%Z || _ = true |- _ => apply orb_true_iff in H; destruct H as [H|H]; [congruence | apply Z.eqb_eq in H; exact H] end. }
    assert (Har : f_arity r = 1%Z).
    { unfold func_wf in Hwr. rewrite Hkr, Hpr in Hwr. bool_hyps. cbn in *.
      match goal with H : (f_arity r <? 0)%Z || _ = true |- _ => apply orb_true_iff in H; destruct H as [H|H]; [congruence | apply Z.eqb_eq in H; exact H] end. }
    assert (Hn : Z.of_nat (length args) = 1%Z).
    { unfold bare_exact in Hbe. rewrite Hal in Hbe. replace ((1 =? -1)%Z) with false in Hbe by reflexivity. apply andb_true_iff in Hbe. destruct Hbe as [H _]. apply Z.eqb_eq in H. lia. }
    cbn [common_arity forallb]. rewrite Hal, Har, Hn. cbn. rewrite andb_false_r.
    apply dispatch_first_exact; auto. }
  auto.
Qed.

(* ---------------------------------------------------------------------------------------------- *)
(** * Variables re-seated through std::shared_ptr<T>& parameters *)

Lemma elems_eqb_eq : forall a b, elems_eqb a b = true -> a = b.
Proof.
  induction a as [|[t z] a IH]; intros [|[u w] b] H; cbn in H; try discriminate; auto.
  bool_hyps. apply Nat.eqb_eq in H. apply Z.eqb_eq in H1. subst. f_equal. auto.
Qed.
Lemma pay_eqb_eq : forall a b, pay_eqb a b = true -> a = b.
Proof.
  intros [x|d x|x|x k|] [y|e y|y|y l|] H; cbn in H; try discriminate; auto.
  - apply Z.eqb_eq in H. congruence.
  - bool_hyps. apply Nat.eqb_eq in H. apply Z.eqb_eq in H0. congruence.
  - apply elems_eqb_eq in H. congruence.
  - bool_hyps. apply Z.eqb_eq in H. apply Nat.eqb_eq in H0. congruence.
Qed.
Lemma place_eqb_eq : forall a b, place_eqb a b = true -> a = b.
Proof.
  intros [i p n] [j q m] H. unfold place_eqb in H. cbn in H. bool_hyps.
  apply ident_eqb_eq in H. apply pay_eqb_eq in H1. apply eqb_prop in H0. congruence.
Qed.
Lemma place_eqb_refl : forall a, place_eqb a a = true.
Proof. intros [i p n]. unfold place_eqb. cbn. rewrite ident_eqb_refl, pay_eqb_refl, eqb_reflx. reflexivity. Qed.
Lemma with_place_self : forall b, with_place b (place_of b) = b.
Proof. intros []. reflexivity. Qed.

Lemma coherent_places : forall v, coherent v = true -> v_m v = place_of (v_box v) /\ v_c v = place_of (v_box v).
Proof. intros v H. unfold coherent in H. bool_hyps. split; apply place_eqb_eq; assumption. Qed.
Lemma coherent_vbox_of : forall b, coherent (vbox_of b) = true.
Proof. intros b. unfold coherent, vbox_of. cbn. rewrite place_eqb_refl. reflexivity. Qed.

(* a coherent variable looks the same from every place *)
Lemma coherent_view : forall R f v, coherent v = true -> view R f v = v_box v.
Proof.
  intros R f v H. destruct (coherent_places v H) as [Hm Hc]. unfold view.
  destruct (resolve 8 (r_cast R) f) as [[| ? [|] ? ? | | |]|]; rewrite ?Hm, ?Hc, ?with_place_self; reflexivity.
Qed.
Lemma boxed_cast_v_coherent :
  forall R E wc p v, coherent v = true -> boxed_cast_v R E wc p v = boxed_cast_gen R E wc p (v_box v).
Proof.
  intros R E wc p v H. unfold boxed_cast_v. rewrite coherent_view by assumption.
  destruct (coherent_places v H) as [_ Hc]. rewrite Hc, with_place_self.
  destruct (negb (b_undef (v_box v)) && Nat.eqb (b_ty (v_box v)) (p_bare p)); [reflexivity|].
  destruct (form_handle_b (p_form p) || form_beq (p_form p) FBN); reflexivity.
Qed.

(* one re-seat leaves the variable coherent, holding the new object, with its type and flags unchanged *)
Lemma reseat_coherent :
  forall R v i py v', sentinel_ok R = true -> reseat R v i py = inl v' ->
    coherent v' = true /\ place_of (v_box v') = mkplace i py false
    /\ b_ty (v_box v') = b_ty (v_box v) /\ b_const (v_box v') = b_const (v_box v) /\ b_stor (v_box v') = b_stor (v_box v)
    /\ b_undef (v_box v') = b_undef (v_box v) /\ b_arith (v_box v') = b_arith (v_box v).
Proof.
  intros R v i py v' HS H. unfold sentinel_ok in HS. apply andb_true_iff in HS. destruct HS as [Hm Hc].
  unfold reseat in H. destruct (inner_cast R FShRef (b_ty (v_box v)) (v_box v)); [| discriminate ].
  rewrite Hm, Hc in H. injection H as <-. unfold coherent. cbn. change (place_of (with_place (v_box v) (mkplace i py false))) with (mkplace i py false). rewrite place_eqb_refl. cbn. repeat split; reflexivity.
Qed.

Definition last_place (h : list (ident * pay)) (d : place) : place :=
  match rev h with [] => d | (i, py) :: _ => mkplace i py false end.

Theorem history_coherent :
  forall R h v v', sentinel_ok R = true -> coherent v = true -> history R v h = inl v' ->
    coherent v' = true /\ place_of (v_box v') = last_place h (place_of (v_box v))
    /\ b_ty (v_box v') = b_ty (v_box v) /\ b_const (v_box v') = b_const (v_box v) /\ b_stor (v_box v') = b_stor (v_box v)
    /\ b_undef (v_box v') = b_undef (v_box v) /\ b_arith (v_box v') = b_arith (v_box v).
Proof.
  intros R h. induction h as [|[i py] h IH]; intros v v' HS Hv H; cbn [history] in H.
  - injection H as <-. unfold last_place. cbn. repeat split; auto.
  - destruct (reseat R v i py) as [v1|e] eqn:Er; [| discriminate ].
    destruct (reseat_coherent R v i py v1 HS Er) as (C1 & P1 & T1 & K1 & S1 & U1 & A1).
    destruct (IH v1 v' HS C1 H) as (C2 & P2 & T2 & K2 & S2 & U2 & A2).
    split; [exact C2|]. split; [| repeat split; congruence ].
    rewrite P2, P1. unfold last_place. cbn [rev].
    destruct (rev h) as [|[j q] t]; reflexivity.
Qed.

(* whatever C++ is handed for a variable after any history of re-seats is a rendering of the object it holds now *)
Theorem history_cast_sound :
  forall R E wc p b h v r, rules_ok R = true -> sentinel_ok R = true -> env_ok E = true -> param_wf p = true ->
    history R (vbox_of b) h = inl v -> boxed_cast_v R E wc p v = COk r ->
    recv_ok E p (v_box v) r = true /\ place_of (v_box v) = last_place h (place_of b) /\ b_ty (v_box v) = b_ty b /\ b_const (v_box v) = b_const b.
Proof.
  intros R E wc p b h v r HR HS HE Hwf Hh Hc.
  destruct (history_coherent R h (vbox_of b) v HS (coherent_vbox_of b) Hh) as (C & P & T & K & _).
  rewrite boxed_cast_v_coherent in Hc by assumption.
  split; [eapply boxed_cast_sound; eauto|]. cbn in *. auto.
Qed.

(* ---------------------------------------------------------------------------------------------- *)
(** * A const argument is never bound to a parameter form that permits mutation *)

Lemma forall3b_nth :
  forall A B C (P : A -> B -> C -> bool) l m n j x y z,
    forall3b P l m n = true -> nth_error l j = Some x -> nth_error m j = Some y -> nth_error n j = Some z -> P x y z = true.
Proof.
  intros A B C P. induction l as [|a l IH]; intros [|b m] [|c n] j x y z H Hx Hy Hz; cbn in H; try discriminate;
    try (destruct j; discriminate).
  apply andb_true_iff in H. destruct H as [H1 H2].
  destruct j as [|j]; cbn in Hx, Hy, Hz.
  - injection Hx as <-. injection Hy as <-. injection Hz as <-. exact H1.
  - eapply IH; eauto.
Qed.

Theorem entry_const_not_mutable :
  forall E f args rs j p a r,
    entry_ok E f args rs = true -> f_kind f = KNative ->
    nth_error (f_params f) j = Some p -> nth_error args j = Some a -> nth_error rs j = Some r ->
    form_mutable (p_form p) = true -> b_const a = true -> r_id r <> b_id a.
Proof.
  intros E f args rs j p a r Hok Hk Hp Ha Hr Hm Hc.
  unfold entry_ok in Hok. rewrite Hk in Hok. apply andb_true_iff in Hok. destruct Hok as [_ Hok].
  eapply mutable_recv_not_const; eauto. eapply forall3b_nth; eauto.
Qed.
