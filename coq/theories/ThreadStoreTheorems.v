(* C14 — facts about the description regenerated from chaiscript_threading.hpp (gen/G_ThreadStorage.v). *)
From Coq Require Import List Bool String Arith.
From ChaiV Require Import ThreadStoreDefs ThreadStoreProofs.
From ChaiV.Gen Require Import G_ThreadStorage.
Import ListNotations.
Local Open Scope string_scope.

Fixpoint smem (k : string) (l : list string) : bool :=
  match l with [] => false | x :: r => String.eqb x k || smem k r end.

(* every accessor and the destructor use the same key, and that key is a never-reused id *)
Definition same_key_everywhere : bool :=
  forallb (fun a => String.eqb (snd a) destructor_key) accessor_keys && Nat.eqb (List.length accessor_keys) 4.
Lemma gen_same_key : same_key_everywhere = true.
Proof. vm_compute. reflexivity. Qed.
Lemma gen_policy : thread_storage_policy_opt = Some ByFreshId.
Proof. vm_compute. reflexivity. Qed.
Lemma gen_policy_sound : thread_storage_policy <> ByAddress.
Proof. vm_compute. discriminate. Qed.

(* the process-wide data of the anchor files: the id counter, the per-thread maps themselves, and three immutable
   constants (void_var, const_var(true/false)); per-thread engine state lives only in Thread_Storage members *)
Definition static_data_known : list string := ["s_counter"; "my_t"; "v"; "t"; "f"].
Definition storage_members_known : list string := ["m_stack_holder"; "m_thread_cache"; "m_conversion_saves"].
Lemma gen_statics_known :
  forallb (fun s => smem (snd s) static_data_known) static_data = true /\
  forallb (fun s => smem (snd s) storage_members_known) storage_members = true /\
  forallb (fun m => existsb (fun s => String.eqb (snd s) m) storage_members) storage_members_known = true.
Proof. vm_compute. repeat split; reflexivity. Qed.

Lemma gen_isolated h b : observe thread_storage_policy b w_init h = observe thread_storage_policy b w_init (proj b h).
Proof. apply isolated_thm. exact gen_policy_sound. Qed.

Lemma gen_is_spec h b : observe thread_storage_policy b w_init h = observe ByEngine b w_init h.
Proof.
  assert (E : thread_storage_policy = ByFreshId) by (vm_compute; reflexivity).
  rewrite E. apply fresh_id_is_spec.
Qed.
