(* C18 — executable mechanism model: one case per line in, one canonical observation per line out,
   same format as harness/h_json.cpp.
     from <hex text>   ->  tree1 [ | <hex of to_json(tree1)> | tree2 ]      or ERR(class)
     rt <tree>         ->  <hex of to_json(tree)> | from_json of that text *)
From Coq Require Import ZArith NArith Ascii String List Bool.
From ChaiV Require Import StrUtil JsonDefs JsonIO.
Import ListNotations.
Local Open Scope string_scope.

Definition run_from (text : bytes) : string :=
  match from_json text with
  | FValue v =>
      if sval_float_free v then
        let t2 := to_json v in
        show_fj (FValue v) ++ " | " ++ hex_of t2 ++ " | " ++ show_fj (from_json t2)
      else show_fj (FValue v)
  | r => show_fj r
  end.

Definition run_rt (v : sval) : string :=
  let t := to_json v in hex_of t ++ " | " ++ show_fj (from_json t).

Definition run_line (line : string) : string :=
  match tokens line with
  | cmd :: rest =>
      if String.eqb cmd "from" then
        match rest with
        | [h] => match unhex h with Some b => run_from b | None => "BADCASE" end
        | _ => "BADCASE"
        end
      else if String.eqb cmd "rt" then
        match read_tree rest with Some v => run_rt v | None => "BADCASE" end
      else "BADCASE"
  | [] => "BADCASE"
  end.
