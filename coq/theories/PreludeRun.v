(* C17 — executable MECHANISM model: the functions regenerated from the prelude's text
   (coq/gen/G_Prelude.v) run on the value universe of the correspondence check. *)
From Coq Require Import ZArith List Bool String Ascii.
From ChaiV Require Import StrUtil PreludeDefs PreludeIO PreludeMech.
From ChaiV.Gen Require Import G_Prelude.
Import ListNotations.
Local Open Scope Z_scope.

Definition conv {E A} (ev : E -> val) (g : A -> val * list val) (m : M E A) : Obs :=
  (map ev (fst m), match snd m with Ok a => Ok (g a) | Err e => Err e | OutOfFuel => OutOfFuel end).
Definition ev1 (v : val) : val := v.
Definition evp (p : val * val) : val := VL [fst p; snd p].
Definition pairv (p : val * val) : val := VL [fst p; snd p].

(* to_string through the regenerated to_string overloads; depth fuel for nested containers *)
Fixpoint mts (d : nat) (v : val) : string :=
  match d with
  | O => "?"
  | S d' =>
      match v with
      | VL l => match snd (@p_to_string_container val val (mk_ops (mts d')) l) with Ok (s, _) => s | _ => "?" end
      | VP a b => match snd (@p_to_string_pair val val val (mk_ops (mts d')) (mk_ops (mts d')) (a, b)) with Ok s => s | _ => "?" end
      | _ => atom_to_string v
      end
  end.
Fixpoint depth (v : val) : nat :=
  match v with VL l => S (fold_right (fun x m => Nat.max (depth x) m) O l) | VP a b => S (Nat.max (depth a) (depth b)) | _ => 1%nat end.
Definition mech_ops : Ops val := mk_ops (fun v => mts (S (depth v)) v).

Definition L1 (r : val) (p : list val) := (r, [VL p]).

Definition mech_impl : Impl := {|
  i_for_each := fun f l => conv ev1 (fun '(_, c) => (VU, [VL c])) (p_for_each l (logged f));
  i_map := fun f l => conv ev1 (fun '(r, c) => (VL r, [VL c])) (p_map l (logged f));
  i_map3 := fun f l o => conv ev1 (fun '(_, (c, o')) => (VU, [VL c; VL o'])) (p_map_3 l (logged f) o);
  i_filter := fun p l => conv ev1 (fun '(r, c) => (VL r, [VL c])) (p_filter l (logged p));
  i_filter3 := fun p l o => conv ev1 (fun '(_, (c, o')) => (VU, [VL c; VL o'])) (p_filter_3 l (logged p) o);
  i_foldl := fun f z l => conv evp (fun '(r, c) => (r, [VL c])) (p_foldl l (logged2 f) z);
  i_sum := fun l => conv ev1 (fun '(r, c) => (r, [VL c])) (@p_sum val val mech_ops l);
  i_product := fun l => conv ev1 (fun '(r, c) => (r, [VL c])) (@p_product val val mech_ops l);
  i_any_of := fun p l => conv ev1 (fun '(r, c) => (VB r, [VL c])) (p_any_of l (logged p));
  i_all_of := fun p l => conv ev1 (fun '(r, c) => (VB r, [VL c])) (p_all_of l (logged p));
  i_contains3 := fun cm x l => conv evp (fun '(r, c) => (VB r, [VL c])) (p_contains_3 l x (logged2 cm));
  i_contains := fun x l => conv ev1 (fun '(r, c) => (VB r, [VL c])) (@p_contains val val mech_ops l x);
  i_find3 := fun cm x l => conv evp (fun '(r, c) => (VL (r_items r), [VL c])) (p_find_3 l x (logged2 cm));
  i_find := fun x l => conv ev1 (fun '(r, c) => (VL (r_items r), [VL c])) (@p_find val val mech_ops l x);
  i_take := fun n l => conv ev1 (fun '(r, c) => (VL r, [VL c])) (p_take l n);
  i_take3 := fun n l o => conv ev1 (fun '(_, (c, o')) => (VU, [VL c; VL o'])) (p_take_3 l n o);
  i_drop := fun n l => conv ev1 (fun '(r, c) => (VL r, [VL c])) (p_drop l n);
  i_drop3 := fun n l o => conv ev1 (fun '(_, (c, o')) => (VU, [VL c; VL o'])) (p_drop_3 l n o);
  i_take_while := fun p l => conv ev1 (fun '(r, c) => (VL r, [VL c])) (p_take_while l (logged p));
  i_take_while3 := fun p l o => conv ev1 (fun '(_, (c, o')) => (VU, [VL c; VL o'])) (p_take_while_3 l (logged p) o);
  i_drop_while := fun p l => conv ev1 (fun '(r, c) => (VL r, [VL c])) (p_drop_while l (logged p));
  i_drop_while3 := fun p l o => conv ev1 (fun '(_, (c, o')) => (VU, [VL c; VL o'])) (p_drop_while_3 l (logged p) o);
  i_zip_with := fun f x y => conv evp (fun '(r, (cx, cy)) => (VL r, [VL cx; VL cy])) (p_zip_with (logged2 f) x y);
  i_zip_with4 := fun f x y o => conv evp (fun '(_, (cx, cy, o')) => (VU, [VL cx; VL cy; VL o'])) (p_zip_with_4 (logged2 f) x y o);
  i_zip := fun x y => conv ev1 (fun '(r, (cx, cy)) => (VL (map pairv r), [VL cx; VL cy])) (p_zip x y);
  i_concat := fun x y => conv ev1 (fun '(r, (cx, cy)) => (VL r, [VL cx; VL cy])) (p_concat x y);
  i_join := fun d l => conv ev1 (fun '(r, c) => (VS r, [VL c])) (@p_join val val mech_ops l d);
  i_reverse := fun l => conv ev1 (fun '(r, c) => (VL r, [VL c])) (p_reverse l);
  i_retro := fun l => conv ev1 (fun r => (VL r, [VL l]))
               ('(_, m) <- p_retro_ctor (Rng []) (mk_range l) ;; retro_drain (S (List.length l)) m);
  i_retro_back := fun l => conv ev1 (fun r => (VL r, [VL l]))
               ('(_, m) <- p_retro_ctor (Rng []) (mk_range l) ;; retro_drain_back (S (List.length l)) m);
  i_reduce := fun f l => conv evp (fun '(r, c) => (r, [VL c])) (p_reduce l (logged2 f));
  i_generate_range := fun x y => conv ev1 (fun r => (VL (map VI r), [])) (p_generate_range x y);
  i_generate_range3 := fun x y o =>
     match fold_right (fun v acc => match v, acc with VI z, Some l => Some (z :: l) | _, _ => None end) (Some []) o with
     | Some oz => conv ev1 (fun '(_, o') => (VU, [VL (map VI o')])) (p_generate_range_3 x y oz)
     | None => ([], OutOfFuel)
     end;
  i_max := fun a b => conv ev1 (fun r => (VI r, [])) (p_max a b);
  i_min := fun a b => conv ev1 (fun r => (VI r, [])) (p_min a b);
  i_odd := fun x => conv ev1 (fun r => (VB r, [])) (p_odd x);
  i_even := fun x => conv ev1 (fun r => (VB r, [])) (p_even x);
  i_ltrim := fun s => conv ev1 (fun '(r, c) => (chars_val r, [chars_val c])) (p_string_ltrim s);
  i_rtrim := fun s => conv ev1 (fun '(r, c) => (chars_val r, [chars_val c])) (p_string_rtrim s);
  i_trim := fun s => conv ev1 (fun '(r, c) => (chars_val r, [chars_val c])) (p_string_trim s);
  i_to_string := fun v => ([], Ok (VS (mts (S (depth v)) v), [v]))
|}.

Definition run_line (line : string) : string := run_with mech_impl line.
