(* C19 — executable MECHANISM model: interprets the stream operations and use() statements regenerated from the source. *)
From Coq Require Import List String.
From ChaiV Require Import StrUtil FilesDefs FilesSpecRun.
From ChaiV.Gen Require Import G_LoadFile.
Definition run_line (line : string) : string := run_with skip_bom_ops load_file_ops use_body use_rethrows_nested line.
