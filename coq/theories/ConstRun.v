(* C07 — executable mechanism model: runs the route + attempt of a case through ConstDefs.exec with the rules
   regenerated from the source (G_CastRules, G_ConstRules).
   line: <const> <ret> <arith> <shared> <nroutes> {route}* <mutator> [<form> <conv>]
     route: 1 new Data copying the old one (var &r = x, auto r := x, m[k] := x, capture) | 2 same Data (parameter, return,
            push_back_ref) | 3 clone (var y = x) | 4 member / element reference obtained from the object (returns T& or const T&)
     mutator: 0 x op= v (arithmetic) | 1 x = v (class) | 2 x := y | 3 ++x (arithmetic) | 4 ++x (class) | 5 `op=`(x, v) | 9 `++`(x)
              | 6 C++ function with parameter <form>, <conv> = arithmetic conversion applicable | 7 C++ function taking another
              arithmetic type | 8 C++ function taking an unrelated type
   output: ERR | OK <object changed> <source Data changed> *)
From Coq Require Import ZArith List Bool String Arith.
From ChaiV Require Import StrUtil DispatchDefs DispatchSpecRun ConstDefs.
From ChaiV.Gen Require Import G_CastRules G_ConstRules.
Import ListNotations.
Local Open Scope string_scope.

Definition route_cmd (code : Z) (const : bool) (newv oldv : nat) : option cmd :=
  match code with
  | 1%Z => Some (CAlias ARefDecl newv oldv)
  | 2%Z => Some (CAlias AShare newv oldv)
  | 3%Z => Some (CClone newv oldv)
  | 4%Z => Some (CField newv oldv)
  | _ => None
  end.
Fixpoint build (routes : list Z) (const : bool) (cur next : nat) : option (list cmd * nat) :=
  match routes with
  | [] => Some ([], cur)
  | r :: rs =>
      match route_cmd r const next cur, build rs const next (S next) with
      | Some c, Some (cs, last) => Some (c :: cs, last)
      | _, _ => None
      end
  end.
Definition mut_of (l : list Z) : option mutk :=
  match l with
  | [0%Z] => Some MEqArith | [1%Z] => Some MEqObj | [2%Z] => Some (MRebind 1) | [3%Z] => Some MPreArith | [4%Z] => Some MPreObj
  | [5%Z] => Some MOperFn | [9%Z] => Some MOperFn1 | [6%Z; f; c] => Some (MForm (form_of_nat (Z.to_nat f)) (zb c)) | [7%Z] => Some MFormConv | [8%Z] => Some MMismatch
  | _ => None
  end.
Definition data_eqb (a b : data) : bool :=
  (* the return-value flag is bookkeeping of the evaluator, not part of what the name denotes *)
  Nat.eqb (d_loc a) (d_loc b) && Bool.eqb (d_const a) (d_const b) && Bool.eqb (d_arith a) (d_arith b) && Bool.eqb (d_shared a) (d_shared b).

Definition run_line (line : string) : string :=
  match toks line with
  | Some (c :: r :: a :: sh :: n :: rest) =>
      let routes := firstn (Z.to_nat n) rest in
      match mut_of (skipn (Z.to_nat n) rest), build routes (zb c) 0 10 with
      | Some m, Some (cmds, last) =>
          let d0 := mkdata 0 (zb c) (zb r) (zb a) (zb sh) in
          let s0 := mkstore [5%Z; 7%Z] [d0; mkdata 1 false false (zb a) true] [(0, 0); (1, 1)] in
          let '(s1, outs) := run gen_crules gen_rules s0 (cmds ++ [CMut m last 99%Z]) in
          match (fun o => (o_target o, o_result o)) (List.last outs (mkoutc None false RStuck)) with
          | (_, RErr) => if existsb (fun o => match o_result o with RErr | RStuck => true | _ => false end) (removelast outs) then "ROUTE-ERR" else "ERR"
          | (_, RStuck) => "STUCK"
          | (_, _) =>
              if existsb (fun o => match o_result o with RErr | RStuck => true | _ => false end) (removelast outs) then "ROUTE-ERR"
              else "OK " ++ (if Z.eqb (cell s1 0) 5 then "0" else "1") ++ " "
                   ++ (match nth_error (s_datas s1) 0 with Some d => if data_eqb d d0 then "0" else "1" | None => "1" end)
          end
      | _, _ => "BADCASE"
      end
  | _ => "BADCASE"
  end.
