(* C07 — executable mechanism model: runs the route + attempt of a case through ConstDefs.exec with the rules
   regenerated from the source (G_CastRules, G_ConstRules).
   line: <const> <ret> <arith> <shared> <nroutes> {route}* <mutator> [<form> <conv>]
     const: 0 | 1 the const flag of the source's Data, given | 8 a function object reached by its name (boxed by the entry point
            G_ConstRules.fnobj_entry) | 10 + 2*i + t + 100*g : made by the i-th row of G_ConstRules.entry_table from an object whose C++ type
            is const iff t = 1 (the const flag and the storage are then computed from that row), and registered with g = 0 add,
            1 add_global_const, 2 add_global, 3 set_global (G_ConstRules.reg_table decides whether it is accepted: output REGERR if not)
     route: 1 new Data copying the old one (var &r = x, auto r := x, m[k] := x, capture) | 2 same Data (parameter, return,
            push_back_ref) | 3 clone (var y = x) | 4 member / element reference obtained from the object (returns T& or const T&)
     mutator: 0 x op= v (arithmetic) | 1 x = v (class) | 2 x := y | 3 ++x (arithmetic) | 4 ++x (class) | 5 `op=`(x, v) | 9 `++`(x)
              | 6 C++ function with parameter <form>, <conv> = arithmetic conversion applicable | 7 C++ function taking another
              arithmetic type | 8 C++ function taking an unrelated type / an operator function with no overload for the operand
              | 10 <op> <same> `op`(x, y) called as a function on a function object (only the functions taking the Boxed_Value itself can
              apply), op = index in oper_names, same = y is a function object too | 11 <op> <same> x op y on a function object
   output: ERR | OK <object changed> <source Data changed> | REGERR *)
From Coq Require Import ZArith List Bool String Arith.
From ChaiV Require Import StrUtil DispatchDefs DispatchSpecRun ConstDefs.
From ChaiV.Gen Require Import G_CastRules G_ConstRules.
Import ListNotations.
Local Open Scope string_scope.

Definition oper_names : list string := ["="; ":="; "+="; "-="; "*="; "/="; "%="; "<<="; ">>="; "&="; "|="; "^="].

Definition route_cmd (code : Z) (const : bool) (newv oldv : nat) : option cmd :=
  match code with
  | 1%Z => Some (CAlias ARefDecl newv oldv)
  | 2%Z => Some (CAlias AShare newv oldv)
  | 3%Z => Some (CClone newv oldv)
  | 4%Z => Some (CField newv oldv)
  | _ => None
  end.
Fixpoint build (routes : list Z) (const : bool) (cur next : nat) : option (list cmd * nat) :=
  match routes with
  | [] => Some ([], cur)
  | r :: rs =>
      match route_cmd r const next cur, build rs const next (S next) with
      | Some c, Some (cs, last) => Some (c :: cs, last)
      | _, _ => None
      end
  end.
Definition mut_of (l : list Z) : option mutk :=
  match l with
  | [0%Z] => Some MEqArith | [1%Z] => Some MEqObj | [2%Z] => Some (MRebind 1) | [3%Z] => Some MPreArith | [4%Z] => Some MPreObj
  | [5%Z] => Some MOperFn | [9%Z] => Some MOperFn1 | [6%Z; f; c] => Some (MForm (form_of_nat (Z.to_nat f)) (zb c)) | [7%Z] => Some MFormConv | [8%Z] => Some MMismatch
  | [10%Z; o; sm] => Some (MOperBoxed (nth (Z.to_nat o) oper_names "?") 1 (zb sm))
  | [11%Z; o; sm] => Some (MEqBoxed (nth (Z.to_nat o) oper_names "?") 1 (zb sm))
  | _ => None
  end.

(* the Data record of the source: Some d, or None when the registration function refuses it *)
Definition reg_names : list string := ["Dispatch_Engine::add_global_const"; "Dispatch_Engine::add_global"; "Dispatch_Engine::set_global"].
Definition source_data (C : crules) (c : Z) (r a sh : bool) : option (option data) :=
  if (c <? 2)%Z then Some (Some (mkdata 0 (zb c) r a sh))
  else if (c =? 8)%Z then
    match find_entry C (fst (cr_fnobj C)) (snd (cr_fnobj C)) with
    | Some e => Some (Some (mkdata 0 (entry_const e false) r a (entry_shared (en_arg e) sh)))
    | None => None
    end
  else if (c <? 10)%Z then None
  else
    let k := (c - 10)%Z in
    let g := Z.to_nat (k / 100) in
    let i := Z.to_nat ((k mod 100) / 2) in
    let t := zb (k mod 2) in
    match nth_error (cr_entries C) i with
    | None => None
    | Some e =>
        let d := mkdata 0 (entry_const e t) r a (entry_shared (en_arg e) sh) in
        match g with
        | O => Some (Some d)
        | S g' =>
            match nth_error reg_names g' with
            | None => None
            | Some nm =>
                match find (fun rg => String.eqb (rg_name rg) nm) (cr_regs C) with
                | None => None
                | Some rg => Some (if reg_accepts rg d then Some d else None)
                end
            end
        end
    end.
Definition data_eqb (a b : data) : bool :=
  (* the return-value flag is bookkeeping of the evaluator, not part of what the name denotes *)
  Nat.eqb (d_loc a) (d_loc b) && Bool.eqb (d_const a) (d_const b) && Bool.eqb (d_arith a) (d_arith b) && Bool.eqb (d_shared a) (d_shared b).

Definition run_line (line : string) : string :=
  match toks line with
  | Some (c :: r :: a :: sh :: n :: rest) =>
      let routes := firstn (Z.to_nat n) rest in
      match mut_of (skipn (Z.to_nat n) rest), build routes (zb c) 0 10, source_data gen_crules c (zb r) (zb a) (zb sh) with
      | Some _, Some _, Some None => "REGERR"
      | Some m, Some (cmds, last), Some (Some d0) =>
          let s0 := mkstore [5%Z; 7%Z] [d0; mkdata 1 false false (zb a) true] [(0, 0); (1, 1)] in
          let '(s1, outs) := run gen_crules gen_rules s0 (cmds ++ [CMut m last 99%Z]) in
          match (fun o => (o_target o, o_result o)) (List.last outs (mkoutc None false RStuck)) with
          | (_, RErr) => if existsb (fun o => match o_result o with RErr | RStuck => true | _ => false end) (removelast outs) then "ROUTE-ERR" else "ERR"
          | (_, RStuck) => "STUCK"
          | (_, _) =>
              if existsb (fun o => match o_result o with RErr | RStuck => true | _ => false end) (removelast outs) then "ROUTE-ERR"
              else "OK " ++ (if Z.eqb (cell s1 0) 5 then "0" else "1") ++ " "
                   ++ (match nth_error (s_datas s1) 0 with Some d => if data_eqb d d0 then "0" else "1" | None => "1" end)
          end
      | _, _, _ => "BADCASE"
      end
  | _ => "BADCASE"
  end.
