(* The recursive grammar functions (ParserDefs, Section Bodies): each body is safe and has the stated effect provided the
   functions it calls have (at one nesting level deeper); `P_ok` then closes the recursion by induction on the call-depth fuel. *)
From Coq Require Import ZArith NArith List Bool String Lia Arith.
From ChaiV Require Import StrUtil NumDefs Ast LexDefs LexProofs LexLitProofs ParserLexProofs ParserDefs ParserProofs.
Import ListNotations.
Local Open Scope nat_scope.

Lemma op_prec_eqb_eq a b : op_prec_eqb a b = true <-> a = b.
Proof. destruct a, b; simpl; split; intros H; try reflexivity; try discriminate. Qed.

Section Bodies.
  Variable A : alphabets.
  Variable T : int_tables.
  Variable K : kw_tables.
  Variable G : gtables.
  Hypothesis id_sub_keyword : forall c, in_alpha (a_id A) c = true -> in_alpha (a_keyword A) c = true.
  Hypothesis Htables : tables_ok G = true.

  Local Notation sKw := (spec_kw A G Htables).
  Local Notation sId := (spec_Id_g A K id_sub_keyword).
  Local Notation sChar := (spec_Char A).
  Local Notation sEols := (spec_eat_eols A).
  Local Notation sWS := (spec_SkipWS A).
  Local Notation sSym := (spec_Symbol A G).
  Local Notation sUnless := (spec_unless _ _ _).

  (* the ladder m_operators *)
  Lemma ops_shape : exists r, g_operators G = rev r ++ [Prefix] /\ forallb (fun o => negb (op_prec_eqb o Prefix)) r = true.
  Proof.
    pose proof (Hladder G Htables) as H. unfold ladder_ok in H.
    destruct (rev (g_operators G)) as [|o r] eqn:E; [discriminate|]. destruct o; try discriminate.
    exists r. split; [|exact H]. rewrite <- (rev_involutive (g_operators G)), E. reflexivity.
  Qed.
  Lemma ops_pos : 0 < List.length (g_operators G).
  Proof. destruct ops_shape as (r & E & _). rewrite E, app_length. simpl. lia. Qed.
  Lemma ladder_step prec op :
    nth_error (g_operators G) prec = Some op -> op_prec_eqb op Prefix = false -> S prec < List.length (g_operators G).
  Proof.
    destruct ops_shape as (r & E & Hr). rewrite E, app_length. cbn [List.length]. intros Hn Hp.
    destruct (Nat.lt_ge_cases prec (List.length (rev r))) as [L|L]; [lia|].
    rewrite nth_error_app2 in Hn by exact L.
    destruct (prec - List.length (rev r)) as [|k] eqn:D; simpl in Hn.
    - inversion Hn; subst op. discriminate.
    - destruct k; discriminate.
  Qed.
  Lemma action_ok prec op :
    nth_error (g_operators G) prec = Some op -> op_prec_eqb op Prefix = false ->
    op_action_of G op <> OA_Unreachable /\ (forall k, op_action_of G op = OA_Build k -> ctor_check k 2 = None).
  Proof.
    intros Hn Hp. pose proof (Hactions G Htables) as H. unfold actions_ok in H. rewrite forallb_forall in H.
    specialize (H op (nth_error_In _ _ Hn)). rewrite Hp in H. cbn [orb] in H. unfold op_action_of.
    destruct (find _ (g_actions G)) as [[o a]|]; [|discriminate]. cbn [snd]. destruct a; try discriminate.
    - split; [discriminate|]. intros k0 Hk. discriminate.
    - split; [discriminate|]. intros k0 Hk. inversion Hk; subst k0. destruct (ctor_check k 2); [discriminate|reflexivity].
  Qed.

  Definition valid_nt (nt : NT) : Prop :=
    match nt with NOperator prec => prec < List.length (g_operators G) | _ => True end.

  Section WithCall.
    Variable call : NT -> PM bool.
    Variable d : nat.
    Hypothesis Hcall : forall nt, valid_nt nt -> spec (S d) (call nt) (Rnt nt).

    Lemma Hop0 : spec (S d) (call (NOperator 0)) Rexpr.
    Proof. apply (Hcall (NOperator 0)). exact ops_pos. Qed.
    Lemma Hblock : spec (S d) (call NBlock) Rexpr.
    Proof. apply (Hcall NBlock I). Qed.
    Lemma Hequation : spec (S d) (call NEquation) Rexpr.
    Proof. apply (Hcall NEquation I). Qed.

    Lemma Arg_List_ok : spec d (Arg_List_b A call) Rone.
    Proof. unfold Arg_List_b. apply spec_arg_list_of, Hequation. Qed.

    Lemma Container_Arg_List_ok : spec d (Container_Arg_List_b A call) Rexpr.
    Proof.
      unfold Container_Arg_List_b. apply spec_with_depth. start.
      gstep (spec_SkipWS A (S d) true). gstep (spec_stack_size (S d)). gstep (Hcall NValue_Range I). cbn [Rnt] in R1.
      apply post_bind. destruct a1.
      - gbuild. apply post_ret. gstep (spec_SkipWS A (S d) true). gdone. fin.
      - gstep (Hcall NMap_Pair I). cbn [Rnt] in R2. destruct a1.
        + gstep (spec_comma_items A (S d) (call NMap_Pair) "Unexpected value in container" (Hcall NMap_Pair I)).
          gbuild. apply post_ret. gstep (spec_SkipWS A (S d) true). gdone. fin.
        + gstep Hop0. destruct a1.
          * gstep (spec_comma_items A (S d) (call (NOperator 0)) "Unexpected value in container" Hop0).
            gbuild. apply post_ret. gstep (spec_SkipWS A (S d) true). gdone. fin.
          * apply post_ret. gstep (spec_SkipWS A (S d) true). gdone. fin.
    Qed.

    Lemma Lambda_ok : spec d (Lambda_b A K G call) Rexpr.
    Proof.
      unfold Lambda_b. apply spec_with_depth. start.
      gstep (spec_stack_size (S d)). gstep (sKw (S d) "Lambda" 0 ltac:(simpl; tauto)). destruct a0; [|gdone; fin].
      gstep (sChar (S d) 91%N). apply post_bind. destruct a0.
      - gstep (spec_Id_Arg_List A K id_sub_keyword (S d)). gstep (sChar (S d) 93%N). gq sUnless.
        gstep (sChar (S d) 40%N). apply post_bind. destruct a3; [|exact I].
        gstep (spec_Decl_Arg_List A K id_sub_keyword (S d)). gstep (sChar (S d) 41%N). gq sUnless.
        gstep (sEols (S d)). gstep Hblock. gstep sUnless. gbuildn 3. gdone. fin.
      - gbuildq.
        gstep (sChar (S d) 40%N). apply post_bind. destruct a0; [|exact I].
        gstep (spec_Decl_Arg_List A K id_sub_keyword (S d)). gstep (sChar (S d) 41%N). gq sUnless.
        gstep (sEols (S d)). gstep Hblock. gstep sUnless. gbuildn 3. gdone. fin.
    Qed.

    Lemma Def_ok cc cn : spec d (Def_b A K G call cc cn) Rexpr.
    Proof.
      unfold Def_b. apply spec_with_depth. start.
      gstep (spec_stack_size (S d)). gstep (sKw (S d) "Def" 0 ltac:(simpl; tauto)). destruct a0; [|gdone; fin].
      assert (H0 : spec (S d) (if cc then class_id_node cn else ret tt) Rup).
      { destruct cc; [eapply spec_weaken; [apply spec_class_id_node|]|eapply spec_weaken; [apply spec_ret|]]; intros; fin. }
      gstep H0. gstep (sId (S d) true). gstep sUnless.
      assert (H1 : spec (S d) (s <- Symbol A G (bos "::") false ;;
                                if s then i2 <- Id_g A K true ;; unless i2 "Missing method name in definition" ;;; ret true else ret false) Rup).
      { start. gstep (sSym (S d) (bos "::") false ltac:(discriminate)). destruct a3.
        - gstep (sId (S d) true). gstep sUnless. gdone. fin.
        - gdone. fin. }
      gstep H1.
      gstep (sChar (S d) 40%N). apply post_bind.
      assert (Rest : forall sx : ST, gext s sx -> len s + 1 <= len sx -> idx (pos s) < idx (pos sx) ->
                post ((eat_eoss A ;;; g <- Char A 58%N ;;
                       (if g then o <- call (NOperator 0) ;; unless o "Missing guard expression for function" else ret tt) ;;;
                       eat_eols A ;;; b <- call NBlock ;; unless b "Incomplete function definition" ;;;
                       (if a3 || cc then build_match KMethod a "" else build_match KDef a "") ;;; ret true) sx)
                     (fun b s' => gext s s' /\ Rexpr b (pos s) (stack s) (pos s') (stack s'))).
      { intros sx Gx Lx Ix. gstep (spec_eat_eoss A (S d)). gstep (sChar (S d) 58%N). apply post_bind. destruct a6.
        - gstep Hop0. gq sUnless. gstep (sEols (S d)). gstep Hblock. gstep sUnless.
          apply post_bind. destruct (a3 || cc)%bool; gbuildq_ge1; gdone; fin.
        - apply post_ret. gstep (sEols (S d)). gstep Hblock. gstep sUnless.
          apply post_bind. destruct (a3 || cc)%bool; gbuildq_ge1; gdone; fin. }
      destruct a4.
      - gstep (spec_Decl_Arg_List A K id_sub_keyword (S d)). gstep (sChar (S d) 41%N). gq sUnless. apply Rest; [assumption|fin|fin].
      - apply post_ret. apply Rest; [assumption|fin|fin].
    Qed.

    Lemma Try_ok : spec d (Try_b A K G call) Rexpr.
    Proof.
      unfold Try_b. apply spec_with_depth. start.
      gstep (spec_stack_size (S d)). gstep (sKw (S d) "Try" 0 ltac:(simpl; tauto)). destruct a0; [|gdone; fin].
      gstep (sEols (S d)). gstep Hblock. gstep sUnless.
      apply post_bind. eapply post_mono.
      { apply (spec_loop _ (fun _ sx => len s4 <= len sx) s4 tt); [|eapply gext_wf; eassumption|fin].
        intros [] sx Gx Jx. cbv beta in Jx. enter_iter sx Gx.
        gstep (sEols (S d)). gstep (sKw (S d) "Try" 1 ltac:(simpl; tauto)). destruct a4; [|iter_ret].
        gstep (spec_stack_size (S d)). gstep (sChar (S d) 40%N). apply post_bind. destruct a5.
        - gstep (spec_Arg A K id_sub_keyword (S d) true). apply post_bind. destruct a5.
          + gq (sChar (S d) 41%N). gq sUnless. gstep (sEols (S d)). gstep Hblock. gstep sUnless. gbuild. iter_ret.
          + apply post_ret. exact I.
        - apply post_ret. gstep (sEols (S d)). gstep Hblock. gstep sUnless. gbuild. iter_ret. }
      intros [] s5 [Gl Jl]. cbv beta in Jl |- *.
      assert (Gs5 : gext s s5) by (eapply gext_trans; eauto).
      gstep (sEols (S d)). gstep (sKw (S d) "Try" 2 ltac:(simpl; tauto)). apply post_bind. destruct a4.
      - gstep (spec_stack_size (S d)). gstep (sEols (S d)). gstep Hblock. gstep sUnless. gbuildq. gbuild. gdone. fin.
      - apply post_ret. gbuild. gdone. fin.
    Qed.

    Lemma If_ok : spec d (If_b A G call) Rexpr.
    Proof.
      unfold If_b. apply spec_with_depth. start.
      gstep (spec_stack_size (S d)). gstep (sKw (S d) "If" 0 ltac:(simpl; tauto)). ifb; [|gdone; fin].
      gstep (sChar (S d) 40%N). gstep sUnless. gstep Hequation. gstep sUnless.
      assert (Hinit : spec (S d) (l <- Eol A ;; if l then call NEquation else ret false) Rexpr).
      { start. gstep (spec_Eol A (S d)). ifb; [gtail Hequation; fin|gdone; fin]. }
      gstep Hinit. gstep (sChar (S d) 41%N). gstep sUnless. gstep (sEols (S d)). gstep Hblock. gstep sUnless.
      apply post_bind. apply loop_once.
      (* the else part: at most one more node *)
      match goal with |- post (_ ?sc) _ =>
        assert (Helse : post ((eat_eols A ;;;
                 el <- Keyword A (kw G "If" 1) ;;
                 (if el then i <- call NIf ;; (if i then ret (tt, false)
                                              else eat_eols A ;;; b <- call NBlock ;; unless b "Incomplete 'else' block" ;;; ret (tt, false))
                  else ret (tt, false))) sc)
               (fun r sx => snd r = false /\ gext sc sx /\ len sc <= len sx <= len sc + 1))
      end.
      { match goal with H : gext s ?sc |- post (_ ?sc) _ => enter_iter sc H end.
        gstep (sEols (S d)). gstep (sKw (S d) "If" 1 ltac:(simpl; tauto)). ifb.
        - gstep (Hcall NIf I). cbn [Rnt] in *. ifb.
          + apply post_ret. cbn [snd]. split; [reflexivity|]. split; [assumption|fin].
          + gstep (sEols (S d)). gstep Hblock. gstep sUnless. apply post_ret. cbn [snd]. split; [reflexivity|]. split; [assumption|fin].
        - apply post_ret. cbn [snd]. split; [reflexivity|]. split; [assumption|fin]. }
      eapply post_mono; [exact Helse|]. clear Helse. intros [[] b] sx (Hb & Gx' & Lx). cbn [snd fst] in *. split; [exact Hb|].
      assert (Gx : gext s sx) by (eapply gext_trans; [|exact Gx']; assumption).
      gstep (spec_stack_size (S d)).
      apply post_bind.
      destruct a4.
      - (* if (init; cond) *)
        match goal with |- context [if ?c then push noop_node else ret tt] => destruct c eqn:Ec end.
        + cbn [andb orb negb] in Ec. rewrite orb_false_r in Ec. apply Nat.eqb_eq in Ec.
          gq (spec_push (S d) noop_node).
          apply post_bind. gbuildn 3. gbuildq. gdone. fin.
        + apply post_ret. cbn [andb orb negb] in Ec. rewrite orb_false_r in Ec. apply Nat.eqb_neq in Ec.
          apply post_bind. gbuildn 3. gbuildq. gdone. fin.
      - match goal with |- context [if ?c then push noop_node else ret tt] => destruct c eqn:Ec end.
        + cbn [andb orb negb] in Ec. apply Nat.eqb_eq in Ec. gq (spec_push (S d) noop_node). gbuildn 3. gdone. fin.
        + apply post_ret. cbn [andb orb negb] in Ec. apply Nat.eqb_neq in Ec. gbuildn 3. gdone. fin.
    Qed.

    Lemma Class_ok ca : spec d (Class_b A K G call ca) Rexpr.
    Proof.
      unfold Class_b. apply spec_with_depth. start.
      gstep (spec_stack_size (S d)). gstep (sKw (S d) "Class" 0 ltac:(simpl; tauto)). ifb; [|gdone; fin].
      gstep sUnless. gstep (sId (S d) true). gstep sUnless. gstep (spec_get_stack (S d)). gstep (sEols (S d)).
      gstep (Hcall (NClass_Block _) I). cbn [Rnt] in *. gstep sUnless. gbuild. gdone. fin.
    Qed.

    Lemma cond_block_ok what :
      spec (S d) (cond_block A call what) (fun _ p st p' st' => List.length st' = List.length st + 2).
    Proof.
      unfold cond_block. start.
      gstep (sChar (S d) 40%N). gstep sUnless. gstep Hop0. apply post_bind. ifb.
      - gq (sChar (S d) 41%N). gstep sUnless. gstep (sEols (S d)). gstep Hblock. gq sUnless. gfin.
      - apply post_ret. exact I.
    Qed.

    Lemma While_ok : spec d (While_b A G call) Rexpr.
    Proof.
      unfold While_b. apply spec_with_depth. start.
      gstep (spec_stack_size (S d)). gstep (sKw (S d) "While" 0 ltac:(simpl; tauto)). ifb; [|gdone; fin].
      gstep (cond_block_ok "while"). gbuild. gdone. fin.
    Qed.

    Lemma Range_Expression_ok : spec d (Range_Expression_b A call) Rexpr.
    Proof.
      unfold Range_Expression_b. apply spec_with_depth. start.
      gstep (sChar (S d) 58%N). ifb; [gtail Hequation; fin|gdone; fin].
    Qed.

    Lemma for_guard_ok dflt : spec (S d) (for_guard A call dflt) Rany.
    Proof.
      unfold for_guard. start.
      gstep Hequation. apply post_bind. ifb.
      - gq (spec_Eol A (S d)). ifb; [gdone; fin|].
        gstep (spec_Eol A (S d)). ifb; [|gdone; fin]. gstep (spec_push (S d) dflt). gdone. fin.
      - apply post_ret. gstep (spec_Eol A (S d)). ifb; [|gdone; fin]. gstep (spec_push (S d) dflt). gdone. fin.
    Qed.

    Lemma For_Guards_ok : spec d (For_Guards_b A call) Rany.
    Proof.
      unfold For_Guards_b. apply spec_with_depth. start.
      gstep (for_guard_ok noop_node). ifb; [|gdone; fin].
      gstep (for_guard_ok true_node). ifb; [|gdone; fin].
      gstep Hequation. apply post_bind. ifb.
      - apply post_ret. gdone. fin.
      - gq (spec_push (S d) noop_node). gdone. fin.
    Qed.

    Lemma For_ok : spec d (For_b A G call) Rexpr.
    Proof.
      unfold For_b. apply spec_with_depth. start.
      gstep (spec_stack_size (S d)). gstep (sKw (S d) "For" 0 ltac:(simpl; tauto)). ifb; [|gdone; fin].
      gstep (sChar (S d) 40%N). gstep sUnless.
      assert (Hclassic : spec (S d) (g <- call NFor_Guards ;; if g then Char A 41%N else ret false) Rany).
      { start. gstep (Hcall NFor_Guards I). cbn [Rnt] in *. ifb; [gtail (sChar (S d) 41%N); fin|gdone; fin]. }
      gstep Hclassic. apply post_bind.
      assert (Rest : forall (cf : bool) (sx : ST), gext s sx -> len s <= len sx -> idx (pos s) < idx (pos sx) ->
                post ((eat_eols A ;;; b <- call NBlock ;; unless b "Incomplete 'for' block" ;;;
                       n <- stack_size ;;
                       (if cf then unless (Nat.eqb (n - a) 4) "Incomplete 'for' expression" ;;; build_match KFor a ""
                        else unless (Nat.eqb (n - a) 3) "Incomplete ranged-for expression" ;;; build_match KRanged_For a "") ;;;
                       ret true) sx)
                     (fun b s' => gext s s' /\ Rexpr b (pos s) (stack s) (pos s') (stack s'))).
      { intros cf sx Gx Lx Ix. gstep (sEols (S d)). gstep Hblock. gstep sUnless. gstep (spec_stack_size (S d)).
        apply post_bind. destruct cf.
        - gstep sUnless. match goal with H : _ /\ _ /\ Nat.eqb _ _ = true |- _ => destruct H as (? & ? & E4) end. apply Nat.eqb_eq in E4.
          gbuildqn 4. gdone. fin.
        - gstep sUnless. match goal with H : _ /\ _ /\ Nat.eqb _ _ = true |- _ => destruct H as (? & ? & E4) end. apply Nat.eqb_eq in E4.
          gbuildqn 3. gdone. fin. }
      ifb.
      - apply post_ret. apply (Rest true); [assumption|fin|fin].
      - gstep (Hcall NRange_Expression I). cbn [Rnt] in *. apply post_bind. ifb.
        + gq (sChar (S d) 41%N). gq sUnless. apply (Rest false); [assumption|fin|fin].
        + apply post_ret. exact I.
    Qed.

    Lemma Case_ok : spec d (Case_b A G call) Rexpr.
    Proof.
      unfold Case_b. apply spec_with_depth. start.
      gstep (spec_stack_size (S d)). gstep (sKw (S d) "Case" 0 ltac:(simpl; tauto)). ifb.
      - gstep (cond_block_ok "case"). gbuildn 2. gdone. fin.
      - gstep (sKw (S d) "Case" 1 ltac:(simpl; tauto)). ifb; [|gdone; fin].
        gstep (sEols (S d)). gstep Hblock. gstep sUnless. gbuildn 1. gdone. fin.
    Qed.

    Lemma Switch_ok : spec d (Switch_b A G call) Rexpr.
    Proof.
      unfold Switch_b. apply spec_with_depth. start.
      gstep (spec_stack_size (S d)). gstep (sKw (S d) "Switch" 0 ltac:(simpl; tauto)). ifb; [|gdone; fin].
      gstep (sChar (S d) 40%N). gstep sUnless. gstep Hop0. apply post_bind. ifb; [|apply post_ret; exact I].
      gq (sChar (S d) 41%N). gstep sUnless. gstep (sEols (S d)). gstep (sChar (S d) 123%N). apply post_bind. ifb; [|exact I].
      gstep (sEols (S d)).
      apply post_bind. eapply post_mono.
      { match goal with |- post (_ ?sc) _ =>
          apply (spec_loop _ (fun _ sx => len sc <= len sx) sc tt); [|eapply gext_wf; eassumption|fin] end.
        intros [] sx Gx Jx. cbv beta in Jx. enter_iter sx Gx.
        gstep (Hcall NCase I). cbn [Rnt] in *. ifb; [|iter_ret]. gstep (sEols (S d)). iter_ret. }
      intros [] sl [Gl Jl]. cbv beta in Jl |- *.
      assert (Gsl : gext s sl) by (eapply gext_trans; eauto).
      gstep (sEols (S d)). gstep (sChar (S d) 125%N). gq sUnless. gbuild. gdone. fin.
    Qed.

    Lemma block_of_ok inner reason : spec (S d) inner Rgrow -> spec d (block_of A inner reason) Rexpr.
    Proof.
      intros Hi. unfold block_of. apply spec_with_depth. start.
      gstep (spec_stack_size (S d)). gstep (sChar (S d) 123%N). ifb; [|gdone; fin].
      gstep Hi. gstep (sChar (S d) 125%N). gstep sUnless. gstep (spec_stack_size (S d)). apply post_bind. ifb.
      - gq (spec_push (S d) noop_node). gbuild. gdone. fin.
      - apply post_ret. gbuild. gdone. fin.
    Qed.
    Lemma Class_Block_ok cn : spec d (Class_Block_b A call cn) Rexpr.
    Proof. apply block_of_ok, (Hcall (NClass_Statements cn) I). Qed.
    Lemma Block_ok : spec d (Block_b A call) Rexpr.
    Proof. apply block_of_ok, (Hcall (NStatements false) I). Qed.

    Lemma Return_ok : spec d (Return_b A G call) Rexpr.
    Proof.
      unfold Return_b. apply spec_with_depth. start.
      gstep (spec_stack_size (S d)). gstep (sKw (S d) "Return" 0 ltac:(simpl; tauto)). ifb; [|gdone; fin].
      gstep Hop0. gbuild. gdone. fin.
    Qed.

    Lemma Paren_Expression_ok : spec d (Paren_Expression_b A call) Rexpr.
    Proof.
      unfold Paren_Expression_b. apply spec_with_depth. start.
      gstep (sChar (S d) 40%N). ifb; [|gdone; fin].
      gstep Hop0. gstep sUnless. gstep (sChar (S d) 41%N). gstep sUnless. gdone. fin.
    Qed.

    Lemma Inline_Container_ok : spec d (Inline_Container_b A call) Rexpr.
    Proof.
      unfold Inline_Container_b. apply spec_with_depth. start.
      gstep (spec_stack_size (S d)). gstep (sChar (S d) 91%N). ifb; [|gdone; fin].
      gstep (Hcall NContainer_Arg_List I). cbn [Rnt] in *. gstep (sChar (S d) 93%N). gstep sUnless. gstep (spec_get_stack (S d)).
      cbv zeta.
      match goal with |- context [build_match ?k _ _] =>
        assert (Hk : forall n, ctor_check k n = None)
          by (intros; repeat match goal with
                             | |- context [if ?c then _ else _] => destruct c
                             | |- context [match ?x with _ => _ end] => destruct x
                             end; reflexivity)
      end.
      eapply use_build_match; [pick_gext|fin|apply Hk|]. intros s6 G12 G13 Bp _ Bl. cbv beta. gdone. fin.
    Qed.

    Lemma prefix_try_post opers :
      forallb nonempty opers = true ->
      forall (s0 s : ST) prev, okst (S d) s0 -> gext s0 s -> prev = len s ->
      post (prefix_try A G call opers prev s)
           (fun b s' => gext s0 s' /\ (b = true -> idx (pos s) < idx (pos s')) /\ len s' = prev + (if b then 1 else 0)).
    Proof.
      induction opers as [|o r IH]; intros Hn s0 s prev O0 G0 E; cbn [prefix_try].
      - gdone. fin.
      - simpl in Hn. apply andb_prop in Hn. destruct Hn as [Ho Hr].
        assert (Hm : spec (S d) (match o with [c] => Char A c | _ => Symbol A G o false end) Rlex).
        { destruct o as [|c [|c2 r2]]; [discriminate|apply sChar|apply sSym; discriminate]. }
        gstep Hm. ifb.
        + assert (Hv : valid_nt (NOperator (List.length (g_operators G) - 1))) by (simpl; pose proof ops_pos; lia).
          gstep (Hcall _ Hv). cbn [Rnt] in *. gstep sUnless. gbuild. gdone. fin.
        + eapply post_mono; [apply (IH Hr s0 s1 prev O0); [assumption|fin]|].
          intros b s' (Gb & Pb & Lb). split; [exact Gb|]. split; [|exact Lb]. intros Hb. specialize (Pb Hb). fin.
    Qed.
    Lemma Prefix_ok : spec d (Prefix_b A G call) Rexpr.
    Proof.
      unfold Prefix_b. apply spec_with_depth. start. gstep (spec_stack_size (S d)).
      assert (Hp : forallb nonempty (g_prefix G) = true).
      { pose proof (Hsyms G Htables) as H. unfold symbols_nonempty in H. apply andb_prop in H. tauto. }
      eapply post_mono; [apply (prefix_try_post _ Hp s s0 a Hs); [assumption|fin]|].
      intros b s' (Gb & Pb & Lb). split; [exact Gb|]. fin.
    Qed.

    Lemma Value_ok : spec d (Value_b A K G call) Rexpr.
    Proof.
      unfold Value_b. apply spec_with_depth. start.
      gstep (spec_Var_Decl A K G id_sub_keyword Htables (S d) false ""). ifb; [gdone; fin|].
      gstep (Hcall NDot_Fun_Array I). cbn [Rnt] in *. ifb; [gdone; fin|].
      gtail (Hcall NPrefix I). cbn [Rnt] in *. fin.
    Qed.

    Lemma pair_of_ok sep k reason : sep <> [] -> (forall n, ctor_check k n = None) -> spec d (pair_of A G call sep k reason) Rexpr.
    Proof.
      intros Hsep Hk. unfold pair_of. apply spec_with_depth. start.
      gstep (spec_stack_size (S d)). gstep (spec_get_pos (S d)). gstep Hop0. ifb; [|gdone; fin].
      gstep (sSym (S d) sep false Hsep). ifb.
      - gstep Hop0. gstep sUnless. eapply use_build_match; [pick_gext|fin|apply Hk|]. intros s6 G12 G13 Bp _ Bl. cbv beta. gdone. fin.
      - (* m_position = prev_pos; pop back to prev_stack_top *)
        destruct R0 as (Rp0 & Rs0 & Ra0).
        apply post_bind. unfold set_pos. cbn [post].
        set (sr := mkState a0 (depth s3) (user s3)).
        assert (Gr3 : gext s sr).
        { subst a0 sr. destruct R as (Rp & _). rewrite Rp. unfold gext. cbn [pos depth user].
          split; [reflexivity|]. split; [lia|]. split; [apply Hs|]. split; [apply (gext_depth _ _ G6)|apply (gext_fname _ _ G6)]. }
        assert (Lr : len sr = len s3) by reflexivity.
        gstep (spec_truncate (S d) a). gdone. fin.
    Qed.

    Lemma Map_Pair_ok : spec d (Map_Pair_b A G call) Rexpr.
    Proof. apply pair_of_ok; [discriminate|reflexivity]. Qed.
    Lemma Value_Range_ok : spec d (Value_Range_b A G call) Rexpr.
    Proof. apply pair_of_ok; [discriminate|reflexivity]. Qed.

    Lemma equation_try_post syms :
      forallb nonempty syms = true ->
      forall (s0 s : ST) prev, okst (S d) s0 -> gext s0 s -> len s = S prev ->
      post (equation_try A G call syms prev s) (fun b s' => gext s0 s' /\ b = true /\ len s' = S prev /\ idx (pos s) <= idx (pos s')).
    Proof.
      induction syms as [|o r IH]; intros Hn s0 s prev O0 G0 E; cbn [equation_try].
      - gdone. fin.
      - simpl in Hn. apply andb_prop in Hn. destruct Hn as [Ho Hr].
        gstep (sSym (S d) o true (nonempty_ne _ Ho)). ifb.
        + gstep (sWS (S d) true). gstep Hequation. gstep sUnless. gbuildn 2. gdone. fin.
        + eapply post_mono; [apply (IH Hr s0 s1 prev O0); [assumption|fin]|]. intros b s' (Gb & Pb & Lb & Ib). split; [exact Gb|]. fin.
    Qed.
    Lemma Equation_ok : spec d (Equation_b A G call) Rexpr.
    Proof.
      unfold Equation_b. apply spec_with_depth. start. gstep (spec_stack_size (S d)). gstep Hop0. ifb; [|gdone; fin].
      assert (He : forallb nonempty (g_equation G) = true).
      { pose proof (Hsyms G Htables) as H. unfold symbols_nonempty in H. apply andb_prop in H. destruct H as [H _]. apply andb_prop in H. tauto. }
      eapply post_mono; [apply (equation_try_post _ He s s1 a Hs); [assumption|fin]|].
      intros b s' (Gb & Pb & Lb & Ib). split; [exact Gb|]. fin.
    Qed.

    Lemma Operator_ok prec : prec < List.length (g_operators G) -> spec d (Operator_b A G call prec) Rexpr.
    Proof.
      intros Hprec. unfold Operator_b. apply spec_with_depth. start. gstep (spec_stack_size (S d)).
      destruct (nth_error (g_operators G) prec) as [op|] eqn:En; [|apply nth_error_None in En; lia].
      destruct (op_prec_eqb op Prefix) eqn:Ep.
      { gtail (Hcall NValue I). cbn [Rnt] in *. fin. }
      pose proof (ladder_step _ _ En Ep) as Hnext. destruct (action_ok _ _ En Ep) as [Hact Hact2].
      assert (Hn : spec (S d) (call (NOperator (S prec))) Rexpr) by (apply (Hcall (NOperator (S prec))); exact Hnext).
      gstep Hn. ifb; [|gdone; fin].
      apply post_bind. eapply post_mono.
      { match goal with |- post (_ ?sc) _ =>
          apply (spec_loop _ (fun _ sx => len sx = S a) sc tt); [|eapply gext_wf; eassumption|fin] end.
        intros [] sx Gx Jx. cbv beta in Jx. enter_iter sx Gx.
        gstep (spec_Operator_Helper A G Htables (S d) prec). destruct a0 as [oper|]; [|iter_ret].
        gstep (sEols (S d)). gstep Hn. gstep sUnless.
        apply post_bind. destruct (op_action_of G op) as [|k|] eqn:Ea; [| |contradiction].
        - gstep (sSym (S d) (bos ":") false ltac:(discriminate)). ifb; [|exact I].
          gstep Hn. gstep sUnless. gbuildqn 3. iter_ret.
        - eapply use_build_match_q; [pick_gext|fin| |].
          + match goal with |- ctor_check _ ?e = None => replace e with 2 by fin end. apply Hact2. reflexivity.
          + intros s6 G12 G13 Bp _ Bl. cbv beta. iter_ret. }
      intros [] sl [Gl Jl]. cbv beta in Jl |- *.
      assert (Gsl : gext s sl) by (eapply gext_trans; eauto). gdone. fin.
    Qed.

    (* Quoted_String: the pushes of the interpolation segments *)
    Lemma qs_segments_post l c segs :
      forall (first : bool) (s0 s : ST) (prev : nat), okst (S (S d)) s0 -> gext s0 s -> len s = (if first then prev else S prev) ->
      post (qs_segments call prev l c segs first s)
           (fun _ s' => gext s0 s' /\ len s' = match segs with [] => len s | _ => S prev end).
    Proof.
      induction segs as [|[lit ev] r IH]; intros first s0 s prev O0 G0 E; cbn [qs_segments].
      - gdone. reflexivity.
      - gstep (spec_make_node (S (S d)) KConstant _ _ _ _). gstep (spec_push (S (S d)) _).
        apply post_bind.
        assert (Rest : forall sx : ST, gext s0 sx -> len sx = S prev ->
                  post ((tostr_top <- stack_size ;; n2 <- make_node KId "to_string" l c None ;; push n2 ;;;
                         ev_top <- stack_size ;; catch_instr (call (NInstr ev)) l c ;;;
                         build_match KArg_List ev_top "" ;;; build_match KFun_Call tostr_top "" ;;; build_match KBinary prev "+" ;;;
                         qs_segments call prev l c r false) sx)
                       (fun _ s' => gext s0 s' /\ len s' = S prev)).
        { intros sx Gx Lx. gstep (spec_stack_size (S (S d))). gstep (spec_make_node (S (S d)) KId _ _ _ _). gstep (spec_push (S (S d)) _).
          gstep (spec_stack_size (S (S d))).
          gstep (spec_catch_instr (S (S d)) _ _ l c (spec_le _ _ _ _ (Nat.le_succ_diag_r (S d)) (Hcall (NInstr ev) I))). cbn [Rnt] in *.
          gbuild. gbuildn 2. gbuild.
          eapply post_mono; [apply (IH false s0 _ prev O0); [assumption|fin]|].
          intros [] s' [Gs Ls]. split; [exact Gs|]. destruct r; [rewrite Ls; fin|exact Ls]. }
        destruct first.
        + apply post_ret. apply Rest; [assumption|fin].
        + gbuildq. apply Rest; [assumption|fin].
    Qed.

    Lemma qs_replay_ok q : spec (S (S d)) (qs_replay call q) (fun b p st p' st' => b = true /\ List.length st' = List.length st + 1).
    Proof.
      unfold qs_replay. start. gstep (spec_stack_size (S (S d))).
      apply post_bind. eapply post_mono; [apply (qs_segments_post (qs_l q) (qs_c q) (qs_segs q) true s s0 a Hs); [assumption|fin]|].
      intros [] s1 [G1' L1]. cbv beta.
      destruct (qs_final q) as [tail|r el ec]; [|exact I].
      gstep (spec_make_node (S (S d)) KConstant _ _ _ _). gstep (spec_push (S (S d)) _). apply post_bind.
      destruct (qs_segs q) as [|sg rest].
      - apply post_ret. gdone. fin.
      - gbuildq. gdone. fin.
    Qed.
    Lemma Quoted_String_g_ok : spec (S d) (Quoted_String_g A call) Rexpr.
    Proof.
      unfold Quoted_String_g. start. gstep (spec_Quoted_String A (S d)). destruct a as [q|]; [|gdone; fin].
      gtail (spec_with_depth (S d) _ _ (qs_replay_ok q)). fin.
    Qed.

    Lemma spec_orx D (m1 m2 : PM bool) : spec D m1 Rexpr -> spec D m2 Rexpr -> spec D (a <- m1 ;; if a then ret true else m2) Rexpr.
    Proof. intros H1 H2. start. gstep H1. ifb; [gdone; fin|gtail H2; fin]. Qed.

    Lemma Dot_Fun_Array_ok : spec d (Dot_Fun_Array_b A T K G call) Rexpr.
    Proof.
      unfold Dot_Fun_Array_b. apply spec_with_depth. start. gstep (spec_stack_size (S d)).
      assert (Hfirst : spec (S d)
                (a <- call NLambda ;; if a then ret true else
                 a <- Num_g A T ;; if a then ret true else
                 a <- Quoted_String_g A call ;; if a then ret true else
                 a <- Single_Quoted_String_g A ;; if a then ret true else
                 a <- call NParen_Expression ;; if a then ret true else
                 a <- call NInline_Container ;; if a then ret true else
                 Id_g A K false) Rexpr).
      { apply spec_orx; [apply (Hcall NLambda I)|]. apply spec_orx; [apply spec_Num_g|]. apply spec_orx; [apply Quoted_String_g_ok|].
        apply spec_orx; [apply spec_Single_Quoted_String_g|]. apply spec_orx; [apply (Hcall NParen_Expression I)|].
        apply spec_orx; [apply (Hcall NInline_Container I)|]. apply sId. }
      gstep Hfirst. ifb; [|gdone; fin].
      apply post_bind. eapply post_mono.
      { match goal with |- post (_ ?sc) _ =>
          apply (spec_loop _ (fun _ sx => len sx = S a) sc tt); [|eapply gext_wf; eassumption|fin] end.
        intros [] sx Gx Jx. cbv beta in Jx. enter_iter sx Gx.
        gstep (sChar (S d) 40%N). ifb.
        { gstep (Hcall NArg_List I). cbn [Rnt] in *. gstep (sChar (S d) 41%N). gstep sUnless.
          eapply use_build_match; [pick_gext|fin| |].
          { match goal with |- ctor_check _ ?e = None => replace e with 2 by fin end. reflexivity. }
          intros sb Gb0 Gb1 Bp _ Bl. cbv beta. gstep (spec_method_call_fixup (S d)). iter_ret. }
        gstep (sChar (S d) 91%N). ifb.
        { gstep Hop0. apply post_bind. ifb.
          - gq (sChar (S d) 93%N). gstep sUnless. gbuild. iter_ret.
          - apply post_ret. exact I. }
        gstep (spec_Symbol_at A G (S d) (bos ".") false). ifb.
        { match goal with H : (true = true -> sym_at _ (pos ?p) (pos ?p')) /\ _ |- _ =>
            assert (Hprog : idx (pos p) < idx (pos p'))
              by (destruct H as [H _]; destruct (H eq_refl) as (p1 & _ & I1 & _ & E2 & _); simpl in E2; lia) end.
          gstep (sId (S d) true). gstep sUnless. gstep (spec_stack_size (S d)). gstep sUnless.
          match goal with H : _ /\ _ /\ Nat.eqb _ 2 = true |- _ => destruct H as (? & ? & E2) end. apply Nat.eqb_eq in E2.
          gbuildn 2. iter_ret. }
        gstep (spec_Eol_just A (S d)). ifb; [|iter_ret].
        match goal with H : (true = true -> just_inc _ _ _) /\ _ |- _ => destruct H as [Hj Hjs]; specialize (Hj eq_refl) end.
        match goal with H : just_inc (pos ?sk) (pos ?se) _ |- post (bind dec _ ?se) _ =>
          eapply (use_dec_just _ sx sk se); [pick_gext|assumption|exact H|] end.
        intros sd Gd0 Gd1 Ud Sd Hmd Od.
        match type of Ud with user sd = user ?se => assert (Lsd : stack sd = stack se) by (unfold stack; rewrite Ud; reflexivity) end.
        gstep (spec_get_pos (S d)). gstep (sEols (S d)). gstep (spec_Symbol_at A G (S d) (bos ".") false). ifb.
        - match goal with H : (true = true -> sym_at _ _ _) /\ _ |- _ => destruct H as [Hy Hys]; specialize (Hy eq_refl) end.
          match goal with H : sym_at _ (pos ?sk) (pos ?se), Gk : gext ?sk ?se |- _ =>
            assert (J6 : just_inc (pos sk) (pos se) (fun x => x = 46%N))
              by (apply (sym_at_just 46%N); [exact H|apply (gext_buf _ _ Gk)|apply (gext_wf _ _ Gk)]);
            eapply (use_dec_just _ sx sk se); [pick_gext|assumption|exact J6|] end.
          intros se Ge0 Ge1 Ue Se Hme Oe.
          apply post_ret. cbn [fst snd]. split; [assumption|]. split.
          + match type of Ue with user se = user ?s8 => unfold len, stack; rewrite Ue; fold (stack s8) end. fin.
          + intros _.
            (* the cursor now stands on the '.', which is not the line end / ';' the first decrement went back to *)
            assert (Hne : idx (pos sd) <> idx (pos se)).
            { intros Heq. rewrite (deref_nth _ Hmd) in Od. rewrite (deref_nth _ Hme) in Oe.
              assert (Hb : buf (pos se) = buf (pos sd)) by (rewrite (gext_buf _ _ Ge0), (gext_buf _ _ Gd0); reflexivity).
              rewrite Hb, <- Heq in Oe. rewrite Oe in Od. destruct Od as [Od|Od]; discriminate. }
            assert (idx (pos sd) <= idx (pos se)) by fin.
            assert (idx (pos sx) <= idx (pos sd)) by fin.
            lia.
        - (* m_position = start *)
          match goal with H : _ /\ _ /\ ?a0 = pos sd |- _ => destruct H as (Rp4 & Rs4 & Ra4); subst a0 end.
          apply post_bind. unfold set_pos. cbn [post]. apply post_ret. cbn [fst snd].
          match goal with |- gext sx ?sr /\ _ => assert (Gsr : gext sx sr) end.
          { unfold gext. cbn [pos depth user]. split; [apply (gext_buf _ _ Gd0)|]. split; [apply (gext_idx _ _ Gd0)|].
            split; [apply (gext_wf _ _ Gd0)|].
            split; [match goal with Gk : gext sx ?s8 |- depth ?s8 = _ => apply (gext_depth _ _ Gk) end
                   |match goal with Gk : gext sx ?s8 |- fname (user ?s8) = _ => apply (gext_fname _ _ Gk) end]. }
          split; [exact Gsr|]. split; [|discriminate]. unfold len. cbn [user].
          match goal with |- List.length (stk (user ?s8)) = _ => change (len s8 = S a) end. fin. }
      intros [] sl [Gl Jl]. cbv beta in Jl |- *.
      assert (Gsl : gext s sl) by (eapply gext_trans; eauto). gdone. fin.
    Qed.

    Definition Jstmts (L I0 : nat) (v : bool * bool) (sx : ST) : Prop :=
      L <= len sx /\ (fst v = false -> len sx = L) /\ (fst v = true -> I0 < idx (pos sx)).

    Lemma Class_Statements_ok cn : spec d (Class_Statements_b A K G call cn) Rgrow.
    Proof.
      unfold Class_Statements_b. apply spec_with_depth. start.
      apply post_bind. eapply post_mono.
      { apply (spec_loop _ (Jstmts (len s) (idx (pos s))) s (false, true)); [|apply Hs|split; [auto|split; [auto|discriminate]]].
        intros v sx Gx (Jx1 & Jx2 & Jx3). pose proof (gext_idx _ _ Gx) as Isx. enter_iter sx Gx.
        gstep (spec_get_pos (S d)). gstep (Hcall (NDef true cn) I). cbn [Rnt] in *.
        apply post_bind.
        assert (Hdv : forall b (sy : ST), gext sx sy -> len sx <= len sy <= len sx + 1 -> (b = true -> idx (pos sx) < idx (pos sy)) ->
                  (b = false -> len sy = len sx) ->
                  post ((if b then
                           (if snd v then ret tt else throw_pos "Two function definitions missing line separator" (line a) (col a)) ;;;
                           ret ((true, true), true)
                         else e <- Eol A ;; if e then ret ((true, true), true) else ret (v, false)) sy)
                       (fun r s' => gext sx s' /\ Jstmts (len s) (idx (pos s)) (fst r) s' /\ (snd r = true -> idx (pos sx) < idx (pos s')))).
        { intros b sy Gy Ly Py Ny. destruct b.
          - apply post_bind. destruct (snd v); [|exact I]. apply post_ret. apply post_ret. cbn [fst snd]. split; [assumption|].
            specialize (Py eq_refl).
            split; [split; cbn [fst]; [lia|split; [discriminate|intros _; lia]]|]. intros _. exact Py.
          - specialize (Ny eq_refl). gstep (spec_Eol A (S d)). ifb.
            + apply post_ret. cbn [fst snd]. split; [assumption|]. split; [split; cbn [fst]; [fin|split; [discriminate|intros _; fin]]|]. fin.
            + apply post_ret. cbn [fst snd]. split; [assumption|].
              split; [split; [fin|split; [intros Hv; specialize (Jx2 Hv); fin|intros Hv; specialize (Jx3 Hv); fin]]|discriminate]. }
        ifb.
        - apply post_ret. apply (Hdv true); [assumption|fin|fin|discriminate].
        - gq (spec_Var_Decl A K G id_sub_keyword Htables (S d) true cn).
          match goal with |- post ((if ?b then _ else _) _) _ => apply (Hdv b); [assumption|destruct b; fin|fin|fin] end. }
      intros v sl [Gl (Jl1 & Jl2 & Jl3)]. cbv beta. gdone. unfoldR. split; [exact Jl3|]. split; [exact Jl1|exact Jl2].
    Qed.

    Lemma grow_call nt : valid_nt nt -> Rnt nt = Rexpr -> spec (S d) (call nt) Rgrow.
    Proof. intros Hv He. apply Rlex_Rexpr_Rgrow. right. rewrite <- He. apply Hcall, Hv. Qed.

    Lemma Statements_ok ca : spec d (Statements_b A G call ca) Rgrow.
    Proof.
      unfold Statements_b. apply spec_with_depth. start.
      apply post_bind. eapply post_mono.
      { apply (spec_loop _ (Jstmts (len s) (idx (pos s))) s (false, true)); [|apply Hs|split; [auto|split; [auto|discriminate]]].
        intros v sx Gx (Jx1 & Jx2 & Jx3). pose proof (gext_idx _ _ Gx) as Isx. enter_iter sx Gx.
        gstep (spec_get_pos (S d)).
        assert (H1 : spec (S d) (any_of [call (NDef false ""); call NTry; call NIf; call NWhile; call (NClass ca); call NFor; call NSwitch]) Rgrow).
        { apply spec_any_of. repeat constructor; apply grow_call; try exact I; reflexivity. }
        assert (H2 : spec (S d) (any_of [call NReturn; Break A G; Continue A G; call NEquation]) Rgrow).
        { apply spec_any_of. repeat constructor; try (apply grow_call; [exact I|reflexivity]);
            apply Rlex_Rexpr_Rgrow; right; [apply spec_Break|apply spec_Continue]; exact Htables. }
        assert (H3 : spec (S d) (any_of [call NBlock; Eol A]) Rgrow).
        { apply spec_any_of. repeat constructor; [apply grow_call; [exact I|reflexivity]|apply Rlex_Rexpr_Rgrow; left; apply spec_Eol]. }
        assert (Fin : forall (x : bool) (sy : ST), gext sx sy -> len sx <= len sy -> idx (pos sx) < idx (pos sy) ->
                  post (ret ((true, x), true) sy)
                       (fun r s' => gext sx s' /\ Jstmts (len s) (idx (pos s)) (fst r) s' /\ (snd r = true -> idx (pos sx) < idx (pos s')))).
        { intros x sy Gy Ly Py. apply post_ret. cbn [fst snd]. split; [assumption|].
          split; [split; cbn [fst]; [lia|split; [discriminate|intros _; lia]]|]. intros _. exact Py. }
        gstep H1. ifb.
        { apply post_bind. destruct (snd v); [|exact I]. apply post_ret. apply Fin; [assumption|fin|fin]. }
        gstep H2. ifb.
        { apply post_bind. destruct (snd v); [|exact I]. apply post_ret. apply Fin; [assumption|fin|fin]. }
        gstep H3. ifb.
        { apply Fin; [assumption|fin|fin]. }
        apply post_ret. cbn [fst snd]. split; [assumption|].
        split; [split; [fin|split; [intros Hv; specialize (Jx2 Hv); fin|intros Hv; specialize (Jx3 Hv); fin]]|discriminate]. }
      intros v sl [Gl (Jl1 & Jl2 & Jl3)]. cbv beta. gdone. unfoldR. split; [exact Jl3|]. split; [exact Jl1|exact Jl2].
    Qed.

    Definition counted (nt : NT) : Prop := match nt with NInstr _ => False | _ => True end.
    Lemma body_ok nt : counted nt -> valid_nt nt -> spec d (body A T K G call nt) (Rnt nt).
    Proof.
      intros Hc Hv. destruct nt; cbn [body Rnt]; try contradiction.
      - apply Arg_List_ok.
      - apply Container_Arg_List_ok.
      - apply Lambda_ok.
      - apply Def_ok.
      - apply Try_ok.
      - apply If_ok.
      - apply Class_ok.
      - apply While_ok.
      - apply Range_Expression_ok.
      - apply For_Guards_ok.
      - apply For_ok.
      - apply Case_ok.
      - apply Switch_ok.
      - apply Class_Block_ok.
      - apply Block_ok.
      - apply Return_ok.
      - apply Dot_Fun_Array_ok.
      - apply Paren_Expression_ok.
      - apply Inline_Container_ok.
      - apply Prefix_ok.
      - apply Value_ok.
      - apply Operator_ok, Hv.
      - apply Map_Pair_ok.
      - apply Value_Range_ok.
      - apply Equation_ok.
      - apply Class_Statements_ok.
      - apply Statements_ok.
    Qed.
  End WithCall.

  (* parse_internal after m_position / m_filename have been set, and parse_instr_eval: `call` is used at the SAME nesting level *)
  Section Internal.
    Variable call : NT -> PM bool.
    Variable d : nat.
    Hypothesis Hstmts : forall ca, spec d (call (NStatements ca)) Rgrow.

    (* entered with an empty match stack (parse / parse_instr_eval), parse_internal ends with exactly the root on it: nothing else is left *)
    Definition Rroot : Rel pnode := fun n p st p' st' =>
      st = [] ->
      st' = [n] /\
      ((pn_kind n = Ast.KFile /\ has_more p' = false) \/ (n = noop_node /\ has_more p' = false)).

    Lemma parse_internal_ok : spec d (parse_internal_b A call) Rroot.
    Proof.
      unfold parse_internal_b. start. gstep (spec_get_pos d).
      set (m := match buf a with 35%N :: 33%N :: _ => _ | _ => _ end).
      assert (Hm : spec d m Rkeep).
      { assert (Hl : spec d (loop (fun _ : unit => p <- get_pos ;;
                                if has_more p then e <- Eol A ;; if e then ret (tt, false) else inc ;;; ret (tt, true) else ret (tt, false)) tt) Rkeep).
        { intros sy Hy. eapply post_mono.
          - apply (spec_loop _ (fun _ sx => stack sx = stack sy) sy tt); [|apply Hy|reflexivity].
            intros [] sx Gx Jx. cbv beta in Jx. enter_iter sx Gx.
            gstep (spec_get_pos d). destruct R0 as (Rp0 & Rs0 & Ra0). subst a0.
            destruct (has_more (pos sx)) eqn:Hmx; [|apply post_ret; cbn [fst snd]; split; [assumption|]; split; [congruence|discriminate]].
            gstep (spec_Eol A d). ifb; [apply post_ret; cbn [fst snd]; split; [assumption|]; split; [fin|discriminate]|].
            gstep (spec_inc d). apply post_ret. cbn [fst snd]. split; [assumption|]. split; [fin|]. intros _.
            match goal with H : pos ?s3 = pos_inc (pos ?s2) /\ _ |- _ => destruct H as [Hi _];
              pose proof (f_equal idx Hi) as Hi2; rewrite pos_inc_idx in Hi2; destruct (has_more (pos s2)) eqn:Hm2 end.
            + fin.
            + apply has_more_false in Hm2. apply has_more_lt in Hmx.
              match goal with G2 : gext sx ?s2, Hm2 : List.length (buf (pos ?s2)) <= _ |- _ => rewrite (gext_buf _ _ G2) in Hm2 end. fin.
          - intros [] s' [Gs Js]. split; [exact Gs|exact Js]. }
        subst m. repeat match goal with |- context [match ?x with _ => _ end] => destruct x end;
          solve [exact Hl | eapply spec_weaken; [apply spec_ret|]; intros; fin]. }
      gstep Hm. gstep (Hstmts true). apply post_bind. ifb.
      - gstep (spec_get_pos d). match goal with H : _ /\ _ /\ ?p = pos _ |- context [has_more ?p] => destruct H as (Rp3 & Rs3 & Ra3); subst p end.
        match goal with |- context [has_more ?p] => destruct (has_more p) eqn:Hmore end; [exact I|].
        eapply use_build_match_q; [pick_gext|fin|reflexivity|]. intros sb Gb0 Gb1 Bp Bs Bl. cbv beta.
        gstep (spec_get_stack d). match goal with H : _ /\ _ /\ ?l = stack _ |- _ => destruct H as (Rp4 & Rs4 & Ra4); subst l end.
        rewrite Bs. cbn [firstn app]. gdone.
        intros Hst. split; [rewrite Rs4, Bs; reflexivity|]. left. split; [reflexivity|]. rewrite Rp4, Bp, Rp3. exact Hmore.
      - gstep (sWS d true). gstep (spec_get_pos d).
        match goal with H : _ /\ _ /\ ?p = pos _ |- context [has_more ?p] => destruct H as (Rp3 & Rs3 & Ra3); subst p end.
        match goal with |- context [has_more ?p] => destruct (has_more p) eqn:Hmore end; [exact I|].
        gq (spec_push d noop_node). gstep (spec_get_stack d).
        match goal with H : _ /\ _ /\ ?l = stack _ |- _ => destruct H as (Rp5 & Rs5 & Ra5); subst l end.
        match goal with H : _ /\ stack ?sp = stack ?sq ++ [noop_node] |- _ => destruct H as (Rp6 & Rs6) end.
        rewrite Rs6.
        match goal with |- context [match ?l ++ [noop_node] with _ => _ end] => destruct l as [|n0 rest] eqn:El end.
        + cbn [app]. gdone. intros Hst. split; [rewrite Rs5, Rs6; reflexivity|]. right. split; [reflexivity|]. rewrite Rp5, Rp6, Rp3. exact Hmore.
        + cbn [app]. gdone. intros Hst. exfalso.
          assert (L0 : List.length (n0 :: rest) = 0); [|discriminate]. rewrite <- El.
          pose proof (f_equal (@List.length pnode) Hst) as Hst0. cbn [List.length] in Hst0. fin.
    Qed.

    Lemma Instr_ok text : spec d (Instr_b A call text) Rinstr.
    Proof.
      intros s Hs. unfold Instr_b.
      set (si := mkState (pos_begin text) (depth s) (mkPS [] instr_eval_name (ticks (user s)))).
      assert (Oi : okst d si) by (split; [apply wf_pos_begin|exact (proj2 Hs)]).
      pose proof (parse_internal_ok si Oi) as H.
      destruct (parse_internal_b A call si) as [[n s']| | |]; cbn [post] in *; auto.
      destruct H as [Gi _]. split.
      - unfold gext. cbn [pos depth user fname]. split; [reflexivity|]. split; [lia|]. split; [apply Hs|].
        split; [apply (gext_depth _ _ Gi)|reflexivity].
      - unfold Rinstr, stack. cbn [pos user stk]. split; [reflexivity|]. rewrite app_length. reflexivity.
    Qed.
  End Internal.

  (* ---------------------------------------------------------------- the knot: induction on the call-depth fuel *)
  Definition need (nt : NT) (d : nat) : nat :=
    match nt with NInstr _ => 2 * (max_parse_depth + 1 - d) + 1 | _ => 2 * (max_parse_depth + 1 - d) end.

  Lemma P_ok : forall f nt d, valid_nt nt -> need nt d <= f -> spec d (P A T K G f nt) (Rnt nt).
  Proof.
    induction f as [|f IH]; intros nt d Hv Hn.
    - apply spec_vacuous. unfold need in Hn. destruct nt; lia.
    - cbn [P]. apply spec_tick.
      destruct (Nat.le_gt_cases d max_parse_depth) as [Ld|Ld]; [|apply spec_vacuous, Ld].
      assert (Hc : counted nt \/ exists text, nt = NInstr text) by (destruct nt; simpl; eauto).
      destruct Hc as [Hc|[text ->]].
      + apply body_ok; [|exact Hc|exact Hv].
        intros nt' Hv'. apply IH; [exact Hv'|]. unfold need in *. destruct nt; try contradiction; destruct nt'; lia.
      + cbn [body Rnt]. apply Instr_ok. intros ca. apply (IH (NStatements ca) d I). unfold need in *. lia.
  Qed.

  (* ---------------------------------------------------------------- C20: the decrement sites, token coordinates, build_match *)
  Lemma fine_run {X} (m : PM X) R (s s' : ST) a : fine m R -> wf_pos (pos s) -> m s = Ok (a, s') -> ext s s' /\ R a s s'.
  Proof. intros F W E. specialize (F s W). rewrite E in F. exact F. Qed.

  Lemma dec_sites_ok :
    (forall (s s' : ST), wf_pos (pos s) -> Eol A s = Ok (true, s') -> idx (pos s') <> 0 /\ dec_side (pos s') /\ wf_pos (pos s'))
    /\ (forall (s s' : ST), wf_pos (pos s) -> Symbol A G (bos ".") false s = Ok (true, s') -> idx (pos s') <> 0 /\ dec_side (pos s') /\ wf_pos (pos s')).
  Proof.
    split; intros s s' W E.
    - destruct (fine_run _ _ _ _ _ (fine_Eol_just A) W E) as [Ex J]. specialize (J eq_refl).
      destruct (just_inc_dec_side _ _ _ J) as [H1 H2]. split; [exact H1|]. split; [exact H2|apply (ext_wf _ _ Ex)].
    - destruct (fine_run _ _ _ _ _ (fine_Symbol A G (bos ".") false) W E) as [Ex J]. specialize (J eq_refl).
      assert (J' : just_inc (pos s) (pos s') (fun x => x = 46%N)).
      { apply (sym_at_just 46%N); [exact J|apply (ext_buf _ _ Ex)|apply (ext_wf _ _ Ex)]. }
      destruct (just_inc_dec_side _ _ _ J') as [H1 H2]. split; [exact H1|]. split; [exact H2|apply (ext_wf _ _ Ex)].
  Qed.

  Lemma node_start_facts :
    (forall (validate : bool) (s s' : ST) text l1 c1,
       wf_pos (pos s) -> Id A K validate s = Ok (Some (TId text l1 c1), s') ->
       exists st, wf_pos st /\ buf st = buf (pos s) /\ idx (pos s) <= idx st /\ idx st <= idx (pos s') /\
                  l1 = (1 + count_nl (firstn (idx st) (buf st)))%Z /\ c1 = (1 + Z.of_nat (since_nl (firstn (idx st) (buf st))))%Z /\
                  ((deref st =? 96)%N = false -> text = pos_str st (pos s')))
    /\ (forall k start text (s : ST),
          start <= len s -> ctor_check k (len s - start) = None ->
          build_match k start text s =
          Ok (tt, mkState (pos s) (depth s) (mkPS (firstn start (stack s) ++ [bm_node k text s start]) (fname (user s)) (ticks (user s)))))
    /\ (forall k text (s : ST) start,
          pn_file (bm_node k text s start) = fname (user s) /\ pn_children (bm_node k text s start) = skipn start (stack s) /\
          (l_eline (pn_loc (bm_node k text s start)), l_ecol (pn_loc (bm_node k text s start))) = (line (pos s), col (pos s)) /\
          match skipn start (stack s) with
          | c :: _ => (l_line (pn_loc (bm_node k text s start)), l_col (pn_loc (bm_node k text s start))) = (l_line (pn_loc c), l_col (pn_loc c))
          | [] => (l_line (pn_loc (bm_node k text s start)), l_col (pn_loc (bm_node k text s start))) = (line (pos s), col (pos s))
          end)
    /\ (forall f nt d, valid_nt nt -> need nt d <= f -> spec d (P A T K G f nt) (Rnt nt)).
  Proof.
    split; [|split; [|split]].
    - intros validate s s' text l1 c1 W E.
      destruct (fine_run _ _ _ _ _ (fine_Id_token A K id_sub_keyword validate) W E) as [Ex J].
      destruct (J text l1 c1 eq_refl) as (st & Wst & Bst & I1 & I2 & L1 & C1 & Tx).
      exists st. split; [exact Wst|]. split; [exact Bst|]. split; [exact I1|]. split; [exact I2|].
      destruct Wst as (_ & Wl & Wc). unfold before in Wl, Wc. split; [congruence|]. split; [congruence|exact Tx].
    - intros k start text s L C. apply build_match_ok; assumption.
    - intros k text s start. unfold bm_node. cbn [pn_file pn_children pn_loc].
      split; [reflexivity|]. split; [reflexivity|]. destruct (skipn start (stack s)); cbn [l_eline l_ecol l_line l_col]; split; reflexivity.
    - exact P_ok.
  Qed.

  (* ---------------------------------------------------------------- the depth limit *)
  (* every grammar function that opens a Depth_Counter, entered at the limit, reports the error at the current position -- on any input *)
  Lemma body_depth_limit call nt (s : ST) :
    counted nt -> depth s = max_parse_depth ->
    body A T K G call nt s = Err "Maximum parse depth exceeded" (line (pos s)) (col (pos s)).
  Proof.
    intros Hc Hd.
    assert (W : forall X (m : PM X), with_depth m s = Err "Maximum parse depth exceeded" (line (pos s)) (col (pos s))).
    { intros X m. unfold with_depth. cbn [depth]. rewrite Hd.
      assert (E : Nat.ltb max_parse_depth (S max_parse_depth) = true) by (apply Nat.ltb_lt; lia). rewrite E. reflexivity. }
    destruct nt; try contradiction; cbn [body];
      unfold Arg_List_b, arg_list_of, Container_Arg_List_b, Lambda_b, Def_b, Try_b, If_b, Class_b, While_b, Range_Expression_b, For_Guards_b, For_b,
             Case_b, Switch_b, Class_Block_b, Block_b, block_of, Return_b, Dot_Fun_Array_b, Paren_Expression_b, Inline_Container_b, Prefix_b,
             Value_b, Operator_b, Map_Pair_b, Value_Range_b, pair_of, Equation_b, Class_Statements_b, Statements_b; apply W.
  Qed.
  Lemma P_depth_limit f nt (s : ST) :
    counted nt -> depth s = max_parse_depth ->
    P A T K G (S f) nt s = Err "Maximum parse depth exceeded" (line (pos s)) (col (pos s)).
  Proof. intros Hc Hd. cbn [P]. apply (body_depth_limit _ nt (tick s) Hc Hd). Qed.

  (* ---------------------------------------------------------------- parse *)
  Lemma parse_fuel_enough : need (NStatements true) 0 <= parse_fuel.
  Proof. unfold need, parse_fuel. lia. Qed.

  Definition root_ok (bytes : list N) (n : pnode) (s' : ST) : Prop :=
    buf (pos s') = bytes /\ wf_pos (pos s') /\ idx (pos s') = List.length bytes /\ depth s' = 0 /\
    (pn_kind n = Ast.KFile \/ n = noop_node).

  Lemma parse_full_ok bytes file : post (parse_full A T K G bytes file) (root_ok bytes).
  Proof.
    unfold parse_full.
    set (s0 := mkState (pos_begin bytes) 0 (mkPS [] file 0%N)).
    assert (O0 : okst 0 s0) by (split; [apply wf_pos_begin|split; cbn [depth s0]; lia]).
    assert (Hst : forall ca, spec 0 (P A T K G parse_fuel (NStatements ca)) Rgrow).
    { intros ca. apply (P_ok parse_fuel (NStatements ca) 0 I). apply parse_fuel_enough. }
    eapply post_mono; [apply (parse_internal_ok _ 0 Hst s0 O0)|].
    intros n s' [Gs Rr]. unfold root_ok.
    pose proof (gext_buf _ _ Gs) as Hb. cbn [pos s0 pos_begin buf] in Hb.
    assert (Hend : has_more (pos s') = false /\ (pn_kind n = Ast.KFile \/ n = noop_node)).
    { destruct (Rr eq_refl) as [_ [[Hk Hm]|[Hk Hm]]]; auto. }
    destruct Hend as [Hm Hk]. apply has_more_false in Hm. pose proof (gext_len_buf _ _ Gs) as Hl.
    split; [exact Hb|]. split; [apply (gext_wf _ _ Gs)|]. split; [rewrite <- Hb; lia|]. split; [apply (gext_depth _ _ Gs)|exact Hk].
  Qed.

  (* C01_safe / C01_terminates / the File half of C01_accounts, for the model over ANY tables that pass the decidable side conditions *)
  Theorem parse_no_crash bytes file k : parse A T K G bytes file <> Crash k.
  Proof.
    unfold parse. pose proof (parse_full_ok bytes file) as H. destruct (parse_full A T K G bytes file) as [[n s]| | |]; simpl in H; try discriminate; contradiction.
  Qed.
  Theorem parse_no_out_of_fuel bytes file : parse A T K G bytes file <> OutOfFuel.
  Proof.
    unfold parse. pose proof (parse_full_ok bytes file) as H. destruct (parse_full A T K G bytes file) as [[n s]| | |]; simpl in H; try discriminate; contradiction.
  Qed.
  Theorem parse_root bytes file n s' :
    parse_full A T K G bytes file = Ok (n, s') -> root_ok bytes n s'.
  Proof. intros E. pose proof (parse_full_ok bytes file) as H. rewrite E in H. exact H. Qed.

  (* no leaked nodes: a successful parse ends with exactly the root on the match stack -- every other node that was pushed has been folded
     into the tree by build_match or dropped by a roll-back (the C++ then moves the root out and clears the vector) *)
  Theorem parse_stack bytes file n s' :
    parse_full A T K G bytes file = Ok (n, s') -> stk (user s') = [n] /\ fname (user s') = file.
  Proof.
    intros E. unfold parse_full in E.
    set (s0 := mkState (pos_begin bytes) 0 (mkPS [] file 0%N)) in *.
    assert (O0 : okst 0 s0) by (split; [apply wf_pos_begin|split; cbn [depth s0]; lia]).
    assert (Hst : forall ca, spec 0 (P A T K G parse_fuel (NStatements ca)) Rgrow).
    { intros ca. apply (P_ok parse_fuel (NStatements ca) 0 I). apply parse_fuel_enough. }
    pose proof (parse_internal_ok _ 0 Hst s0 O0) as H. rewrite E in H. destruct H as [Gs Rr].
    split; [exact (proj1 (Rr eq_refl))|exact (gext_fname _ _ Gs)].
  Qed.
End Bodies.
