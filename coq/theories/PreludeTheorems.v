(* C17 — one specification theorem per regenerated prelude function (coq/gen/G_Prelude.v).
   Each theorem has the shape   p_f inputs callbacks = (callback trace, Ok (result, inputs))
   for ALL lists / callbacks (by induction): result = spec, the by-reference inputs come back
   unchanged, the trace lists the elements passed to the callback, in order, once each (with early
   exit where the algorithm has one).  OutOfFuel / RangeEmpty never occur (the outcome is Ok). *)
From Coq Require Import ZArith List Bool String Ascii Lia.
From ChaiV Require Import PreludeDefs PreludeProofs.
From ChaiV.Gen Require Import G_Prelude.
From ChaiV Require Import PreludeMech.
Import ListNotations.
Local Open Scope Z_scope.

Ltac name_loop :=
  match goal with
  | |- context [while_ _ _ ?c ?b] =>
      tryif is_var c then fail else (let cn := fresh "cond" in let bn := fresh "body" in set (cn := c); set (bn := b))
  | |- context [while_ret _ _ ?c ?b] =>
      tryif is_var c then fail else (let cn := fresh "cond" in let bn := fresh "body" in set (cn := c); set (bn := b))
  end.
Ltac enter := cbv zeta; unfold mk_range, new_like, vector_new, clone_val.
Ltac fuel0 fuel := destruct fuel; [cbn in *; lia|].
Ltac len := cbn [List.length r_len r_items] in *; try rewrite ?app_length in *; cbn [List.length] in *; lia.

(* ---------------------------------------------------------------- straight-line functions *)
Lemma eq_thm {E V} {O : Ops V} (l r : V) : p_eq l r = (([] : list E), Ok (spec_eq l r)).
Proof. unfold p_eq, spec_eq. destruct (op_eq_exists l r); reflexivity. Qed.

Lemma max_thm {E} a b : p_max a b = (([] : list E), Ok (Z.max a b)).
Proof. unfold p_max, c_gt. destruct (Z.gtb_spec a b); unfold ret; do 2 f_equal; lia. Qed.
Lemma min_thm {E} a b : p_min a b = (([] : list E), Ok (Z.min a b)).
Proof. unfold p_min, c_lt. destruct (Z.ltb_spec a b); unfold ret; do 2 f_equal; lia. Qed.

Lemma odd_thm {E} x : p_odd x = (([] : list E), Ok (Z.odd x)).
Proof. unfold p_odd, c_ne, c_rem. rewrite rem2_odd. destruct (Z.odd x); reflexivity. Qed.
Lemma even_thm {E} x : p_even x = (([] : list E), Ok (Z.even x)).
Proof. unfold p_even, c_eq, c_rem. rewrite rem2_even. destruct (Z.even x); reflexivity. Qed.

Lemma collate_thm {E A B} (x : A) (y : B) : p_collate x y = (([] : list E), Ok (x, y)).
Proof. reflexivity. Qed.

Lemma to_string_pair_thm {E A B} {OA : Ops A} {OB : Ops B} (p : A * B) :
  p_to_string_pair p = (([] : list E), Ok (spec_to_string_pair op_to_string op_to_string p)).
Proof.
  unfold p_to_string_pair, spec_to_string_pair, str_app, ret. do 2 f_equal.
  repeat rewrite string_app_assoc. reflexivity.
Qed.

(* ---------------------------------------------------------------- for_each / map / filter / foldl *)
Theorem for_each_thm {V W} (f : V -> W) (l : list V) : p_for_each l (logged f) = (l, Ok (tt, l)).
Proof.
  unfold p_for_each. name_loop.
  assert (H : forall s c fuel, (List.length s < fuel)%nat -> while_ fuel (c, Rng s) cond body = (s, Ok (c, Rng []))).
  { induction s; intros; fuel0 fuel; cbn; [reflexivity|]. rewrite IHs by len. reflexivity. }
  enter. rewrite H by len. cbn. rewrite app_nil_r. reflexivity.
Qed.

Theorem map_3_thm {V W} (f : V -> W) (l : list V) (ins : list W) :
  p_map_3 l (logged f) ins = (l, Ok (tt, (l, ins ++ map f l))).
Proof.
  unfold p_map_3. name_loop.
  assert (H : forall s c i fuel, (List.length s < fuel)%nat ->
             while_ fuel (c, i, Rng s) cond body = (s, Ok (c, i ++ map f s, Rng []))).
  { induction s; intros; fuel0 fuel; cbn; [rewrite app_nil_r; reflexivity|].
    rewrite IHs by len. unfold push_back. rewrite <- app_assoc. reflexivity. }
  enter. rewrite H by len. cbn. rewrite app_nil_r. reflexivity.
Qed.

Theorem map_thm {V} (f : V -> V) (l : list V) : p_map l (logged f) = (l, Ok (map f l, l)).
Proof. unfold p_map. enter. rewrite map_3_thm. cbn. rewrite app_nil_r. reflexivity. Qed.

Theorem filter_3_thm {V} (p : V -> bool) (l ins : list V) :
  p_filter_3 l (logged p) ins = (l, Ok (tt, (l, ins ++ filter p l))).
Proof.
  unfold p_filter_3. name_loop.
  assert (H : forall s c i fuel, (List.length s < fuel)%nat ->
             while_ fuel (c, i, Rng s) cond body = (s, Ok (c, i ++ filter p s, Rng []))).
  { induction s; intros; fuel0 fuel; cbn; [rewrite app_nil_r; reflexivity|].
    destruct (p a); cbn; rewrite IHs by len; unfold push_back; try rewrite <- app_assoc; reflexivity. }
  enter. rewrite H by len. cbn. rewrite app_nil_r. reflexivity.
Qed.

Theorem filter_thm {V} (p : V -> bool) (l : list V) : p_filter l (logged p) = (l, Ok (filter p l, l)).
Proof. unfold p_filter. enter. rewrite filter_3_thm. cbn. rewrite app_nil_r. reflexivity. Qed.

Theorem foldl_thm {V A} (f : V -> A -> A) (z : A) (l : list V) :
  p_foldl l (logged2 f) z = (spec_foldl_trace f z l, Ok (spec_foldl f z l, l)).
Proof.
  unfold p_foldl. name_loop.
  assert (H : forall s c a fuel, (List.length s < fuel)%nat ->
             while_ fuel (c, a, Rng s) cond body = (spec_foldl_trace f a s, Ok (c, spec_foldl f a s, Rng []))).
  { induction s; intros; fuel0 fuel; cbn; [reflexivity|]. rewrite IHs by len. reflexivity. }
  enter. rewrite H by len. cbn. rewrite app_nil_r. reflexivity.
Qed.

(* the same loop with a builtin operator as the callback: no trace *)
Lemma foldl_pure_thm {E V A} (f : V -> A -> A) (z : A) (l : list V) :
  p_foldl l (pure2 f) z = (([] : list E), Ok (spec_foldl f z l, l)).
Proof.
  unfold p_foldl. name_loop.
  assert (H : forall s c a fuel, (List.length s < fuel)%nat ->
             while_ fuel (c, a, Rng s) cond body = ([], Ok (c, spec_foldl f a s, Rng []))).
  { induction s; intros; fuel0 fuel; cbn; [reflexivity|]. rewrite IHs by len. reflexivity. }
  enter. rewrite H by len. reflexivity.
Qed.

Theorem sum_thm {E V} {O : Ops V} (l : list V) :
  p_sum l = (([] : list E), Ok (spec_foldl op_add (lit_d 0) l, l)).
Proof. unfold p_sum. rewrite foldl_pure_thm. reflexivity. Qed.
Theorem product_thm {E V} {O : Ops V} (l : list V) :
  p_product l = (([] : list E), Ok (spec_foldl op_mul (lit_d 1) l, l)).
Proof. unfold p_product. rewrite foldl_pure_thm. reflexivity. Qed.

(* ---------------------------------------------------------------- searches with early exit *)
Theorem any_of_thm {V} (p : V -> bool) (l : list V) :
  p_any_of l (logged p) = (upto_first p l, Ok (existsb p l, l)).
Proof.
  unfold p_any_of. name_loop.
  assert (H : forall s c fuel, (List.length s < fuel)%nat ->
             while_ret fuel (c, Rng s) cond body =
             (upto_first p s, Ok (if existsb p s then Return (true, c) else Continue (c, Rng [])))).
  { induction s; intros; fuel0 fuel; cbn; [reflexivity|].
    destruct (p a); cbn; [reflexivity|]. rewrite IHs by len. reflexivity. }
  enter. rewrite H by len. cbn. destruct (existsb p l); cbn; rewrite app_nil_r; reflexivity.
Qed.

Theorem all_of_thm {V} (p : V -> bool) (l : list V) :
  p_all_of l (logged p) = (upto_first (fun x => negb (p x)) l, Ok (forallb p l, l)).
Proof.
  unfold p_all_of. name_loop.
  assert (H : forall s c fuel, (List.length s < fuel)%nat ->
             while_ret fuel (c, Rng s) cond body =
             (upto_first (fun x => negb (p x)) s, Ok (if forallb p s then Continue (c, Rng []) else Return (false, c)))).
  { induction s; intros; fuel0 fuel; cbn; [reflexivity|].
    destruct (p a); cbn; [|reflexivity]. rewrite IHs by len. reflexivity. }
  enter. rewrite H by len. cbn. destruct (forallb p l); cbn; rewrite app_nil_r; reflexivity.
Qed.

Theorem contains_3_thm {V} (cmp : V -> V -> bool) (item : V) (l : list V) :
  p_contains_3 l item (logged2 cmp) =
  (map (fun x => (x, item)) (upto_first (fun x => cmp x item) l), Ok (existsb (fun x => cmp x item) l, l)).
Proof.
  unfold p_contains_3. name_loop.
  assert (H : forall s c fuel, (List.length s < fuel)%nat ->
             while_ret fuel (c, Rng s) cond body =
             (map (fun x => (x, item)) (upto_first (fun x => cmp x item) s),
              Ok (if existsb (fun x => cmp x item) s then Return (true, c) else Continue (c, Rng [])))).
  { induction s; intros; fuel0 fuel; cbn; [reflexivity|].
    destruct (cmp a item); cbn; [reflexivity|]. rewrite IHs by len. reflexivity. }
  enter. rewrite H by len. cbn. destruct (existsb _ l); cbn; rewrite app_nil_r; reflexivity.
Qed.

(* with a callback that leaves no trace (the prelude's own eq) *)
Lemma contains_3_pure {E V} (cmp : V -> V -> M E bool) (c0 : V -> V -> bool) (item : V) (l : list V) :
  (forall a b, cmp a b = ([], Ok (c0 a b))) ->
  p_contains_3 l item cmp = ([], Ok (existsb (fun x => c0 x item) l, l)).
Proof.
  intro Hc. unfold p_contains_3. name_loop.
  assert (H : forall s c fuel, (List.length s < fuel)%nat ->
             while_ret fuel (c, Rng s) cond body =
             ([], Ok (if existsb (fun x => c0 x item) s then Return (true, c) else Continue (c, Rng [])))).
  { induction s; intros; fuel0 fuel; cbn; [reflexivity|]. rewrite Hc. cbn.
    destruct (c0 a item); cbn; [reflexivity|]. rewrite IHs by len. reflexivity. }
  enter. rewrite H by len. cbn. destruct (existsb _ l); reflexivity.
Qed.

Theorem contains_thm {E V} {O : Ops V} (item : V) (l : list V) :
  p_contains l item = (([] : list E), Ok (existsb (fun x => spec_eq x item) l, l)).
Proof. unfold p_contains. rewrite (contains_3_pure _ spec_eq) by (intros; apply eq_thm). reflexivity. Qed.

Theorem find_3_thm {V} (cmp : V -> V -> bool) (v : V) (l : list V) :
  p_find_3 l v (logged2 cmp) =
  (map (fun x => (x, v)) (upto_first (fun x => cmp x v) l), Ok (Rng (find_suffix (fun x => cmp x v) l), l)).
Proof.
  unfold p_find_3. name_loop.
  assert (H : forall s c fuel, (List.length s < fuel)%nat ->
             while_ret fuel (c, Rng s) cond body =
             (map (fun x => (x, v)) (upto_first (fun x => cmp x v) s),
              Ok (if existsb (fun x => cmp x v) s then Return (Rng (find_suffix (fun x => cmp x v) s), c)
                  else Continue (c, Rng (find_suffix (fun x => cmp x v) s))))).
  { induction s; intros; fuel0 fuel; cbn; [reflexivity|].
    destruct (cmp a v); cbn; [reflexivity|]. rewrite IHs by len. reflexivity. }
  enter. rewrite H by len. cbn. destruct (existsb _ l); cbn; rewrite app_nil_r; reflexivity.
Qed.

Lemma find_3_pure {E V} (cmp : V -> V -> M E bool) (c0 : V -> V -> bool) (v : V) (l : list V) :
  (forall a b, cmp a b = ([], Ok (c0 a b))) ->
  p_find_3 l v cmp = ([], Ok (Rng (find_suffix (fun x => c0 x v) l), l)).
Proof.
  intro Hc. unfold p_find_3. name_loop.
  assert (H : forall s c fuel, (List.length s < fuel)%nat ->
             while_ret fuel (c, Rng s) cond body =
             ([], Ok (if existsb (fun x => c0 x v) s then Return (Rng (find_suffix (fun x => c0 x v) s), c)
                      else Continue (c, Rng (find_suffix (fun x => c0 x v) s))))).
  { induction s; intros; fuel0 fuel; cbn; [reflexivity|]. rewrite Hc. cbn.
    destruct (c0 a v); cbn; [reflexivity|]. rewrite IHs by len. reflexivity. }
  enter. rewrite H by len. cbn. destruct (existsb _ l); reflexivity.
Qed.

Theorem find_thm {E V} {O : Ops V} (v : V) (l : list V) :
  p_find l v = (([] : list E), Ok (Rng (find_suffix (fun x => spec_eq x v) l), l)).
Proof. unfold p_find. rewrite (find_3_pure _ spec_eq) by (intros; apply eq_thm). reflexivity. Qed.

(* ---------------------------------------------------------------- take / drop *)
Theorem take_3_thm {E V} (n : Z) (l ins : list V) :
  p_take_3 l n ins = (([] : list E), Ok (tt, (l, ins ++ spec_take n l))).
Proof.
  unfold p_take_3. name_loop.
  assert (H : forall s c i k fuel, (List.length s < fuel)%nat ->
             exists r' k', while_ fuel (c, i, Rng s, k) cond body = ([], Ok (c, i ++ spec_take k s, r', k'))).
  { induction s; intros; fuel0 fuel; cbn; unfold c_gt.
    - destruct (k >? 0); cbn; do 2 eexists; unfold spec_take; rewrite firstn_nil, app_nil_r; reflexivity.
    - destruct (Z.gtb_spec k 0); cbn.
      + destruct (IHs c (push_back i a) (c_sub k 1) fuel ltac:(len)) as (r' & k' & ->). cbn.
        do 2 eexists. rewrite firstn_Z_cons by lia. unfold push_back, c_sub. rewrite <- app_assoc. reflexivity.
      + do 2 eexists. rewrite firstn_Z_le0, app_nil_r by lia. reflexivity. }
  enter. destruct (H l l ins n (S (r_len (Rng l))) ltac:(len)) as (r' & k' & ->). reflexivity.
Qed.

Theorem take_thm {E V} (n : Z) (l : list V) : p_take l n = (([] : list E), Ok (spec_take n l, l)).
Proof. unfold p_take. enter. rewrite take_3_thm. reflexivity. Qed.

Theorem drop_3_thm {E V} (n : Z) (l ins : list V) :
  p_drop_3 l n ins = (([] : list E), Ok (tt, (l, ins ++ spec_drop n l))).
Proof.
  unfold p_drop_3. name_loop.
  assert (H : forall s c i k fuel, (List.length s < fuel)%nat ->
             exists k', while_ fuel (c, i, Rng s, k) cond body = ([], Ok (c, i, Rng (spec_drop k s), k'))).
  { induction s; intros; fuel0 fuel; cbn; unfold c_gt.
    - destruct (k >? 0); cbn; eexists; unfold spec_drop; rewrite skipn_nil; reflexivity.
    - destruct (Z.gtb_spec k 0); cbn.
      + destruct (IHs c i (c_sub k 1) fuel ltac:(len)) as (k' & ->). cbn.
        eexists. rewrite skipn_Z_cons by lia. reflexivity.
      + eexists. rewrite skipn_Z_le0 by lia. reflexivity. }
  enter. destruct (H l l ins n (S (r_len (Rng l))) ltac:(len)) as (k' & ->).
  cbn -[while_]. name_loop.
  assert (H2 : forall s c i k fuel, (List.length s < fuel)%nat ->
             while_ fuel (c, i, Rng s, k) cond0 body0 = ([], Ok (c, i ++ s, Rng [], k))).
  { induction s; intros; fuel0 fuel; cbn; [rewrite app_nil_r; reflexivity|].
    rewrite IHs by len. unfold push_back. rewrite <- app_assoc. reflexivity. }
  rewrite H2 by len. reflexivity.
Qed.

Theorem drop_thm {E V} (n : Z) (l : list V) : p_drop l n = (([] : list E), Ok (spec_drop n l, l)).
Proof. unfold p_drop. enter. rewrite drop_3_thm. reflexivity. Qed.

(* ---------------------------------------------------------------- take_while / drop_while *)
Theorem take_while_3_thm {V} (p : V -> bool) (l ins : list V) :
  p_take_while_3 l (logged p) ins =
  (upto_first (fun x => negb (p x)) l, Ok (tt, (l, ins ++ take_while_l p l))).
Proof.
  unfold p_take_while_3. name_loop.
  assert (H : forall s c i fuel, (List.length s < fuel)%nat ->
             exists r', while_ fuel (c, i, Rng s) cond body =
                        (upto_first (fun x => negb (p x)) s, Ok (c, i ++ take_while_l p s, r'))).
  { induction s; intros; fuel0 fuel; cbn; [eexists; rewrite app_nil_r; reflexivity|].
    destruct (p a); cbn; [|eexists; rewrite app_nil_r; reflexivity].
    destruct (IHs c (push_back i a) fuel ltac:(len)) as (r' & ->). cbn.
    eexists. unfold push_back. rewrite <- app_assoc. reflexivity. }
  enter. destruct (H l l ins (S (r_len (Rng l))) ltac:(len)) as (r' & ->). cbn. rewrite app_nil_r. reflexivity.
Qed.

Theorem take_while_thm {V} (p : V -> bool) (l : list V) :
  p_take_while l (logged p) = (upto_first (fun x => negb (p x)) l, Ok (take_while_l p l, l)).
Proof. unfold p_take_while. enter. rewrite take_while_3_thm. cbn. rewrite app_nil_r. reflexivity. Qed.

Theorem drop_while_3_thm {V} (p : V -> bool) (l ins : list V) :
  p_drop_while_3 l (logged p) ins =
  (upto_first (fun x => negb (p x)) l, Ok (tt, (l, ins ++ drop_while_l p l))).
Proof.
  unfold p_drop_while_3. name_loop.
  assert (H : forall s c i fuel, (List.length s < fuel)%nat ->
             while_ fuel (c, i, Rng s) cond body =
             (upto_first (fun x => negb (p x)) s, Ok (c, i, Rng (drop_while_l p s)))).
  { induction s; intros; fuel0 fuel; cbn; [reflexivity|].
    destruct (p a); cbn; [|reflexivity]. rewrite IHs by len. reflexivity. }
  enter. rewrite H by len. cbn -[while_]. name_loop.
  assert (H2 : forall s c i fuel, (List.length s < fuel)%nat ->
             while_ fuel (c, i, Rng s) cond0 body0 = ([], Ok (c, i ++ s, Rng []))).
  { induction s; intros; fuel0 fuel; cbn; [rewrite app_nil_r; reflexivity|].
    rewrite IHs by len. unfold push_back. rewrite <- app_assoc. reflexivity. }
  rewrite H2 by (pose proof (drop_while_len p l); len). cbn. rewrite app_nil_r. reflexivity.
Qed.

Theorem drop_while_thm {V} (p : V -> bool) (l : list V) :
  p_drop_while l (logged p) = (upto_first (fun x => negb (p x)) l, Ok (drop_while_l p l, l)).
Proof. unfold p_drop_while. enter. rewrite drop_while_3_thm. cbn. rewrite app_nil_r. reflexivity. Qed.

(* the same with a callback that leaves no trace (string::ltrim's lambda) *)
Lemma drop_while_pure {E V} (f : V -> M E bool) (p : V -> bool) (l : list V) :
  (forall x, f x = ([], Ok (p x))) ->
  p_drop_while l f = ([], Ok (drop_while_l p l, l)).
Proof.
  intro Hf. unfold p_drop_while, p_drop_while_3. name_loop.
  assert (H : forall s c i fuel, (List.length s < fuel)%nat ->
             while_ fuel (c, i, Rng s) cond body = ([], Ok (c, i, Rng (drop_while_l p s)))).
  { induction s; intros; fuel0 fuel; cbn; [reflexivity|]. rewrite Hf. cbn.
    destruct (p a); cbn; [|reflexivity]. rewrite IHs by len. reflexivity. }
  enter. rewrite H by len. cbn -[while_]. name_loop.
  assert (H2 : forall s c i fuel, (List.length s < fuel)%nat ->
             while_ fuel (c, i, Rng s) cond0 body0 = ([], Ok (c, i ++ s, Rng []))).
  { induction s; intros; fuel0 fuel; cbn; [rewrite app_nil_r; reflexivity|].
    rewrite IHs by len. unfold push_back. rewrite <- app_assoc. reflexivity. }
  rewrite H2 by (pose proof (drop_while_len p l); len). reflexivity.
Qed.

(* ---------------------------------------------------------------- zip_with / zip / concat *)
Theorem zip_with_4_thm {A B C} (f : A -> B -> C) (x : list A) (y : list B) (ins : list C) :
  p_zip_with_4 (logged2 f) x y ins = (combine x y, Ok (tt, (x, y, ins ++ spec_zip_with f x y))).
Proof.
  unfold p_zip_with_4. name_loop.
  assert (H : forall s t cx cy i fuel, (List.length s + List.length t < fuel)%nat ->
             exists rx ry, while_ fuel (cx, cy, i, Rng s, Rng t) cond body =
                           (combine s t, Ok (cx, cy, i ++ spec_zip_with f s t, rx, ry))).
  { induction s; intros; fuel0 fuel.
    - cbn. do 2 eexists. rewrite app_nil_r. reflexivity.
    - destruct t as [|b t]; cbn; [do 2 eexists; rewrite app_nil_r; reflexivity|].
      destruct (IHs t cx cy (push_back i (f a b)) fuel ltac:(len)) as (rx & ry & ->). cbn.
      do 2 eexists. unfold push_back. rewrite <- app_assoc. reflexivity. }
  enter. destruct (H x y x y ins (S (r_len (Rng x) + r_len (Rng y))) ltac:(len)) as (rx & ry & ->).
  cbn. rewrite app_nil_r. reflexivity.
Qed.

Lemma zip_with_4_pure {E A B C} (g : A -> B -> M E C) (f : A -> B -> C) (x : list A) (y : list B) (ins : list C) :
  (forall a b, g a b = ([], Ok (f a b))) ->
  p_zip_with_4 g x y ins = ([], Ok (tt, (x, y, ins ++ spec_zip_with f x y))).
Proof.
  intro Hg. unfold p_zip_with_4. name_loop.
  assert (H : forall s t cx cy i fuel, (List.length s + List.length t < fuel)%nat ->
             exists rx ry, while_ fuel (cx, cy, i, Rng s, Rng t) cond body =
                           ([], Ok (cx, cy, i ++ spec_zip_with f s t, rx, ry))).
  { induction s; intros; fuel0 fuel.
    - cbn. do 2 eexists. rewrite app_nil_r. reflexivity.
    - destruct t as [|b t]; cbn; [do 2 eexists; rewrite app_nil_r; reflexivity|].
      rewrite Hg. cbn.
      destruct (IHs t cx cy (push_back i (f a b)) fuel ltac:(len)) as (rx & ry & ->). cbn.
      do 2 eexists. unfold push_back. rewrite <- app_assoc. reflexivity. }
  enter. destruct (H x y x y ins (S (r_len (Rng x) + r_len (Rng y))) ltac:(len)) as (rx & ry & ->).
  reflexivity.
Qed.

Theorem zip_with_thm {A B C} (f : A -> B -> C) (x : list A) (y : list B) :
  p_zip_with (logged2 f) x y = (combine x y, Ok (spec_zip_with f x y, (x, y))).
Proof. unfold p_zip_with. enter. rewrite zip_with_4_thm. cbn. rewrite app_nil_r. reflexivity. Qed.

Theorem zip_thm {E A B} (x : list A) (y : list B) : p_zip x y = (([] : list E), Ok (combine x y, (x, y))).
Proof.
  unfold p_zip, p_zip_with. enter. rewrite (zip_with_4_pure _ pair) by (intros; apply collate_thm). cbn.
  unfold spec_zip_with. rewrite <- (map_id (combine x y)) at 2. do 3 f_equal. apply map_ext. intros []; reflexivity.
Qed.

Theorem concat_thm {E V} (x y : list V) : p_concat x y = (([] : list E), Ok (x ++ y, (x, y))).
Proof.
  unfold p_concat. name_loop.
  assert (H : forall s cx cy acc fuel, (List.length s < fuel)%nat ->
             while_ fuel (cx, cy, acc, Rng s) cond body = ([], Ok (cx, cy, acc ++ s, Rng []))).
  { induction s; intros; fuel0 fuel; cbn; [rewrite app_nil_r; reflexivity|].
    rewrite IHs by len. unfold push_back. rewrite <- app_assoc. reflexivity. }
  enter. rewrite H by len. reflexivity.
Qed.

(* ---------------------------------------------------------------- join / to_string *)
Theorem join_thm {E V} {O : Ops V} (delim : string) (l : list V) :
  p_join l delim = (([] : list E), Ok (spec_join op_to_string delim l, l)).
Proof.
  unfold p_join. destruct l as [|a l]; [reflexivity|]. enter. cbn -[while_ spec_join]. name_loop.
  assert (H : forall s c acc x fuel, (List.length s < fuel)%nat ->
             while_ fuel (c, (acc ++ op_to_string x)%string, Rng s) cond body =
             ([], Ok (c, (acc ++ spec_join op_to_string delim (x :: s))%string, Rng []))).
  { induction s; intros; fuel0 fuel; [reflexivity|]. cbn -[spec_join].
    unfold str_app. rewrite IHs by len. cbn -[spec_join].
    rewrite spec_join_cons. rewrite !string_app_assoc. reflexivity. }
  unfold str_app. rewrite (H l (a :: l) ""%string a) by len. reflexivity.
Qed.

Theorem to_string_container_thm {E V} {O : Ops V} (l : list V) :
  p_to_string_container l = (([] : list E), Ok (spec_to_string_container op_to_string l, l)).
Proof. unfold p_to_string_container. rewrite join_thm. reflexivity. Qed.

(* ---------------------------------------------------------------- reverse *)
Theorem reverse_thm {E V} (l : list V) : p_reverse l = (([] : list E), Ok (rev l, l)).
Proof.
  unfold p_reverse. name_loop.
  assert (H : forall n s c acc fuel, List.length s = n -> (n < fuel)%nat ->
             while_ fuel (c, acc, Rng s) cond body = ([], Ok (c, acc ++ rev s, Rng []))).
  { induction n; intros s c acc fuel Hn Hf; fuel0 fuel.
    - destruct s; [|discriminate]. cbn. rewrite app_nil_r. reflexivity.
    - destruct (exists_last (l := s)) as (s' & a & ->); [intro; subst; discriminate|].
      rewrite app_length in Hn; cbn in Hn.
      cbn [while_]. unfold cond at 1, body at 1. unfold r_empty, r_back, r_pop_back. cbn [r_items].
      rewrite rev_last_cons, removelast_last.
      destruct (s' ++ [a]) eqn:Hs; [destruct s'; discriminate|].
      cbn. rewrite IHn by lia. unfold push_back. rewrite <- app_assoc. reflexivity. }
  enter. rewrite (H (List.length l)) by len. reflexivity.
Qed.

(* ---------------------------------------------------------------- reduce *)
Theorem reduce_thm {V} (f : V -> V -> V) (x y : V) (t : list V) :
  p_reduce (x :: y :: t) (logged2 f) =
  (spec_reduce_trace f x (y :: t), Ok (fold_left f (y :: t) x, x :: y :: t)).
Proof.
  unfold p_reduce.
  assert (G : c_ge (c_size (x :: y :: t)) 2 = true) by (unfold c_ge, c_size; apply Z.geb_le; cbn [List.length]; lia).
  rewrite G. name_loop.
  assert (H : forall s c acc fuel, (List.length s < fuel)%nat ->
             while_ fuel (c, Rng s, acc) cond body = (spec_reduce_trace f acc s, Ok (c, Rng [], fold_left f s acc))).
  { induction s; intros; fuel0 fuel; cbn; [reflexivity|]. rewrite IHs by len. reflexivity. }
  enter. cbn -[while_]. rewrite H by len. cbn. rewrite app_nil_r. reflexivity.
Qed.

Theorem reduce_guard_thm {E V} (f : V -> V -> M E V) (l : list V) :
  (List.length l < 2)%nat -> p_reduce l f = ([], Err GuardFailed).
Proof. intro H. destruct l as [|a [|b l]]; [reflexivity|reflexivity|cbn in H; lia]. Qed.

(* ---------------------------------------------------------------- generate_range *)
Theorem generate_range_3_thm {E} (x y : Z) (ins : list Z) :
  p_generate_range_3 x y ins = (([] : list E), Ok (tt, ins ++ spec_generate_range x y)).
Proof.
  unfold p_generate_range_3. name_loop.
  assert (H : forall n i acc fuel, Z.to_nat (y + 1 - i) = n -> (n < fuel)%nat ->
             exists i', while_ fuel (acc, i) cond body = ([], Ok (acc ++ spec_generate_range i y, i'))).
  { induction n; intros i acc fuel Hn Hf; fuel0 fuel; cbn; unfold c_le.
    - destruct (Z.leb_spec i y); [lia|]. cbn. eexists. rewrite spec_generate_range_empty, app_nil_r by lia. reflexivity.
    - destruct (Z.leb_spec i y); [|lia]. cbn.
      destruct (IHn (c_add i 1) (push_back acc i) fuel ltac:(unfold c_add; lia) ltac:(lia)) as (i' & ->). cbn.
      eexists. rewrite (spec_generate_range_step i y) by lia. unfold push_back, c_add. rewrite <- app_assoc. reflexivity. }
  enter. unfold c_sub, c_add.
  destruct (H (Z.to_nat (y + 1 - x)) x ins (S (Z.to_nat (y + 1 - x))) eq_refl ltac:(lia)) as (i' & ->). reflexivity.
Qed.

Theorem generate_range_thm {E} (x y : Z) : p_generate_range x y = (([] : list E), Ok (spec_generate_range x y)).
Proof. unfold p_generate_range. enter. rewrite generate_range_3_thm. reflexivity. Qed.

(* ---------------------------------------------------------------- string trim family *)
Lemma ws_lambda (x : ascii) :
  orb (orb (orb (ch_eq x (ch 32)) (ch_eq x (ch 9))) (ch_eq x (ch 13))) (ch_eq x (ch 10)) = is_ws x.
Proof. reflexivity. Qed.

Theorem ltrim_thm {E} (s : list ascii) : p_string_ltrim s = (([] : list E), Ok (spec_ltrim s, s)).
Proof. unfold p_string_ltrim. rewrite (drop_while_pure _ is_ws) by (intro; unfold ret; rewrite ws_lambda; reflexivity). reflexivity. Qed.

Theorem rtrim_thm {E} (s : list ascii) : p_string_rtrim s = (([] : list E), Ok (spec_rtrim s, s)).
Proof.
  unfold p_string_rtrim. rewrite reverse_thm. cbn -[p_drop_while p_reverse].
  rewrite (drop_while_pure _ is_ws) by (intro; unfold ret; rewrite ws_lambda; reflexivity).
  cbn -[p_reverse]. rewrite reverse_thm. reflexivity.
Qed.

Theorem trim_thm {E} (s : list ascii) : p_string_trim s = (([] : list E), Ok (spec_trim s, s)).
Proof. unfold p_string_trim. rewrite rtrim_thm. cbn -[p_string_ltrim]. rewrite ltrim_thm. reflexivity. Qed.

(* ---------------------------------------------------------------- retro: a reversed view *)
Lemma retro_ctor_thm {E V} (old r : range V) : p_retro_ctor old r = (([] : list E), Ok (tt, r)).
Proof. reflexivity. Qed.

Theorem retro_thm {E V} (l : list V) : retro_drain (S (List.length l)) (Rng l) = (([] : list E), Ok (rev l)).
Proof.
  assert (H : forall n (s : list V) fuel, List.length s = n -> (n < fuel)%nat -> retro_drain fuel (Rng s) = (([] : list E), Ok (rev s))).
  { induction n; intros s fuel Hn Hf; fuel0 fuel.
    - destruct s; [reflexivity|discriminate].
    - destruct (exists_last (l := s)) as (s' & a & ->); [intro; subst; discriminate|].
      rewrite app_length in Hn; cbn in Hn.
      cbn [retro_drain]. unfold p_retro_empty, p_retro_front, p_retro_pop_front.
      rewrite bind_ret_l, r_empty_snoc, r_back_snoc, bind_ret_l, bind_ret_l, r_pop_back_snoc, bind_ret_l, bind_ret_l.
      rewrite IHn by lia. rewrite rev_last_cons. reflexivity. }
  apply (H (List.length l)); lia.
Qed.

Theorem retro_back_thm {E V} (l : list V) : retro_drain_back (S (List.length l)) (Rng l) = (([] : list E), Ok l).
Proof.
  assert (H : forall (s : list V) fuel, (List.length s < fuel)%nat -> retro_drain_back fuel (Rng s) = (([] : list E), Ok s)).
  { induction s; intros; fuel0 fuel; cbn; [reflexivity|]. rewrite IHs by len. reflexivity. }
  apply H; lia.
Qed.
