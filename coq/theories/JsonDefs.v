(* C18 — model of chaiscript::json (utility/json.hpp) and json_wrap (utility/json_wrap.hpp).
   Total computable Gallina only; proofs are in JsonProofs.v.

   Conventions of the port
   - a text is a list of bytes (ascii = exactly the 256 byte values), the cursor is `offset : nat`;
   - every `str.at(i)` is `at_ s i`, every `str.substr(i, n)` is `substr s i n`; both yield the explicit
     outcome `Err OutOfRange` when std::string would throw std::out_of_range.  There is no other way
     of reading the text in this file;
   - `--offset` on a size_t that is 0 is the explicit outcome `Err Crash` (it would wrap to 2^64-1);
   - Depth_Guard (max_depth = 512) is the structural argument `d` of parse_next: d = 512 - depth();
     running out of it is the outcome `Err DepthExceeded` (the runtime_error the guard throws);
   - loops are recursions on a fuel argument; running out of it is `Err OutOfFuel`.  C18_total shows
     that neither OutOfFuel nor Crash is reachable;
   - std::int64_t arithmetic that can overflow is written with `wrap64` where the code relies on it;
   - doubles are carried as the pieces the C++ computes them from (fnum); their values and their
     "%f" text are not modelled (partial, see Properties_C18.v). *)
From Coq Require Import ZArith NArith Ascii String List Bool Arith.
Import ListNotations.

Definition bytes := list ascii.
Definition B (s : string) : bytes := list_ascii_of_string s.

(* ------------------------------------------------------------------ outcomes *)
Inductive err := OutOfRange | ParseError | DepthExceeded | OutOfFuel | Crash.
Inductive res (A : Type) := Ok (a : A) | Err (e : err).
Arguments Ok {A} a.
Arguments Err {A} e.
Definition bind {A C} (r : res A) (f : A -> res C) : res C :=
  match r with Ok a => f a | Err e => Err e end.
Notation "x <- e ;; k" := (bind e (fun x => k)) (at level 61, e at next level, right associativity).
Notation "' p <- e ;; k" := (bind e (fun x => match x with p => k end))
  (at level 61, p pattern, e at next level, right associativity).

(* ------------------------------------------------------------------ characters *)
Definition ch_quote : ascii := "034"%char.
Definition ch_bslash : ascii := "092"%char.
Definition ch_bs : ascii := "008"%char.
Definition ch_ff : ascii := "012"%char.
Definition ch_nl : ascii := "010"%char.
Definition ch_cr : ascii := "013"%char.
Definition ch_tab : ascii := "009"%char.
Definition ch_nul : ascii := "000"%char.

Definition ceq (a b : ascii) : bool := Ascii.eqb a b.

(* ::isspace in the "C" locale: space, \t \n \v \f \r *)
Definition isspace (c : ascii) : bool :=
  let n := N_of_ascii c in N.eqb n 32 || (N.leb 9 n && N.leb n 13).
Definition is_digit (c : ascii) : bool :=
  let n := N_of_ascii c in N.leb 48 n && N.leb n 57.
Definition is_hex (c : ascii) : bool :=
  let n := N_of_ascii c in
  (N.leb 48 n && N.leb n 57) || (N.leb 97 n && N.leb n 102) || (N.leb 65 n && N.leb n 70).
(* !isspace(c) && c != ',' && c != ']' && c != '}' is the "unexpected character" test of parse_number *)
Definition is_term (c : ascii) : bool :=
  isspace c || ceq c ","%char || ceq c "]"%char || ceq c "}"%char.

(* ------------------------------------------------------------------ int64 *)
Local Open Scope Z_scope.
Definition two63 : Z := 9223372036854775808.
Definition two64 : Z := 18446744073709551616.
Definition wrap64 (z : Z) : Z := (z + two63) mod two64 - two63.
Definition in_int64 (z : Z) : bool := (- two63 <=? z) && (z <? two63).

Definition digit_val (c : ascii) : Z := Z.of_N (N_of_ascii c) - 48.
Definition digit_char (d : Z) : ascii := ascii_of_N (Z.to_N (48 + d)).

(* chaiscript::parse_num<std::int64_t>: t *= 10; t += c - '0'; stops at the first non-digit *)
Fixpoint parse_num_int_from (t : Z) (l : bytes) : Z :=
  match l with
  | [] => t
  | c :: r => if is_digit c then parse_num_int_from (wrap64 (wrap64 (t * 10) + digit_val c)) r else t
  end.
Definition parse_num_int (l : bytes) : Z := parse_num_int_from 0 l.

(* std::to_string(std::int64_t) *)
Fixpoint digits_rev (fuel : nat) (n : Z) : bytes :=
  match fuel with
  | O => []
  | S f => digit_char (n mod 10) :: (if n / 10 =? 0 then [] else digits_rev f (n / 10))
  end.
Definition print_nat (n : Z) : bytes := rev (digits_rev 20 n).      (* 0 <= n < 10^20 *)
Definition print_int (z : Z) : bytes :=
  if z <? 0 then "-"%char :: print_nat (- z) else print_nat z.
Local Close Scope Z_scope.

(* ------------------------------------------------------------------ the JSON value (class JSON) *)
(* how the C++ obtains a double; the value itself is not modelled *)
Inductive fnum :=
| FDouble (neg : bool) (val : bytes) (exp : Z)   (* (neg ? -1 : 1) * parse_num<double>(val) * std::pow(10, exp) *)
| FIntExp (neg : bool) (m : Z) (exp : Z)         (* (neg ? -1 : 1) * double(m) * std::pow(10, exp) *)
| FBits (bits : N).                              (* a double that came from the script side *)

Inductive json :=
| JNull
| JObject (l : list (bytes * json))   (* QuickFlatMap: insertion order, keys unique *)
| JArray (l : list json)
| JString (s : bytes)
| JFloat (f : fnum)
| JInt (z : Z)
| JBool (b : bool).

(* QuickFlatMap::operator[](key) = value : overwrite in place, else append *)
Fixpoint qfm_set (m : list (bytes * json)) (k : bytes) (v : json) : list (bytes * json) :=
  match m with
  | [] => [(k, v)]
  | (k', v') :: r => if list_eq_dec ascii_dec k' k then (k', v) :: r else (k', v') :: qfm_set r k v
  end.

(* JSON::to_string(): the string, or "" for every other class *)
Definition to_string (j : json) : bytes := match j with JString s => s | _ => [] end.

(* ------------------------------------------------------------------ json_escape / dump *)
Definition escape_char (c : ascii) : bytes :=
  if ceq c ch_quote then [ch_bslash; ch_quote]
  else if ceq c ch_bslash then [ch_bslash; ch_bslash]
  else if ceq c ch_bs then [ch_bslash; "b"%char]
  else if ceq c ch_ff then [ch_bslash; "f"%char]
  else if ceq c ch_nl then [ch_bslash; "n"%char]
  else if ceq c ch_cr then [ch_bslash; "r"%char]
  else if ceq c ch_tab then [ch_bslash; "t"%char]
  else [c].
Fixpoint json_escape (s : bytes) : bytes :=
  match s with [] => [] | c :: r => escape_char c ++ json_escape r end.

Fixpoint pad_of (depth : nat) : bytes :=
  match depth with O => [] | S d => pad_of d ++ [" "%char; " "%char] end.

(* std::to_string(double) is "%f"; not modelled: a placeholder that no theorem speaks about *)
Definition dump_float (f : fnum) : bytes := B "<double>".

Definition quoted (s : bytes) : bytes := ch_quote :: json_escape s ++ [ch_quote].

(* JSON::dump(depth, tab = "  ") *)
Fixpoint dump (depth : nat) (j : json) : bytes :=
  match j with
  | JNull => B "null"
  | JObject l =>
      let pad := pad_of depth in
      B "{" ++ [ch_nl]
      ++ (fix members (l : list (bytes * json)) (skip : bool) : bytes :=
            match l with
            | [] => []
            | (k, v) :: r =>
                (if skip then [] else ","%char :: [ch_nl])
                ++ pad ++ quoted k ++ B " : " ++ dump (S depth) v ++ members r false
            end) l true
      ++ [ch_nl] ++ skipn 2 pad ++ B "}"
  | JArray l =>
      B "["
      ++ (fix elems (l : list json) (skip : bool) : bytes :=
            match l with
            | [] => []
            | v :: r => (if skip then [] else B ", ") ++ dump (S depth) v ++ elems r false
            end) l true
      ++ B "]"
  | JString s => quoted s
  | JFloat f => dump_float f
  | JInt z => print_int z
  | JBool b => if b then B "true" else B "false"
  end.

(* the two local loops of dump, named so that lemmas can speak about them *)
Fixpoint dump_members (depth : nat) (l : list (bytes * json)) (skip : bool) : bytes :=
  match l with
  | [] => []
  | (k, v) :: r =>
      (if skip then [] else ","%char :: [ch_nl])
      ++ pad_of depth ++ quoted k ++ B " : " ++ dump (S depth) v ++ dump_members depth r false
  end.
Fixpoint dump_elems (depth : nat) (l : list json) (skip : bool) : bytes :=
  match l with
  | [] => []
  | v :: r => (if skip then [] else B ", ") ++ dump (S depth) v ++ dump_elems depth r false
  end.

(* ------------------------------------------------------------------ reading the text *)
Definition at_ (s : bytes) (i : nat) : res ascii :=
  match nth_error s i with Some c => Ok c | None => Err OutOfRange end.
Definition substr (s : bytes) (sz : nat) (pos n : nat) : res bytes :=
  if pos <=? sz then Ok (firstn n (skipn pos s)) else Err OutOfRange.
Definition bytes_eqb (a b : bytes) : bool := if list_eq_dec ascii_dec a b then true else false.

(* size_t --offset *)
Definition dec_offset (off : nat) : res nat := match off with O => Err Crash | S o => Ok o end.

(* ------------------------------------------------------------------ JSONParser *)
(* every function takes the text `s` together with `sz`, always instantiated with `length s` (str.size()) *)
(* while (isspace(str.at(offset)) && offset <= str.size()) ++offset; *)
Fixpoint consume_ws_loop (k : nat) (s : bytes) (sz : nat) (off : nat) : res nat :=
  match k with
  | O => Err OutOfFuel
  | S k' =>
      c <- at_ s off ;;
      if isspace c && (off <=? sz) then consume_ws_loop k' s sz (S off) else Ok off
  end.
Definition consume_ws (s : bytes) (sz : nat) (off : nat) : res nat := consume_ws_loop (S sz) s sz off.

(* the four hex digits of \uXXXX: c = str.at(offset + i), i = 1..4 *)
Fixpoint read_hex4 (n : nat) (s : bytes) (pos : nat) : res bytes :=
  match n with
  | O => Ok []
  | S n' =>
      c <- at_ s pos ;;
      if is_hex c then (r <- read_hex4 n' s (S pos) ;; Ok (c :: r)) else Err ParseError
  end.

(* for (char c = str.at(++offset); c != QUOTE; c = str.at(++offset)) { ... }  ++offset;
   `off` is the value of offset before the ++offset of the loop header *)
Fixpoint parse_string_loop (k : nat) (s : bytes) (off : nat) (val : bytes) : res (json * nat) :=
  match k with
  | O => Err OutOfFuel
  | S k' =>
      let off := S off in
      c <- at_ s off ;;
      if ceq c ch_quote then Ok (JString val, S off)
      else if ceq c ch_bslash then
        let off := S off in
        e <- at_ s off ;;
        if ceq e ch_quote then parse_string_loop k' s off (val ++ [ch_quote])
        else if ceq e ch_bslash then parse_string_loop k' s off (val ++ [ch_bslash])
        else if ceq e "/"%char then parse_string_loop k' s off (val ++ ["/"%char])
        else if ceq e "b"%char then parse_string_loop k' s off (val ++ [ch_bs])
        else if ceq e "f"%char then parse_string_loop k' s off (val ++ [ch_ff])
        else if ceq e "n"%char then parse_string_loop k' s off (val ++ [ch_nl])
        else if ceq e "r"%char then parse_string_loop k' s off (val ++ [ch_cr])
        else if ceq e "t"%char then parse_string_loop k' s off (val ++ [ch_tab])
        else if ceq e "u"%char then
          h <- read_hex4 4 s (off + 1) ;;
          parse_string_loop k' s (off + 4) (val ++ [ch_bslash; "u"%char] ++ h)   (* kept verbatim *)
        else parse_string_loop k' s off (val ++ [ch_bslash])                       (* unknown escape *)
      else parse_string_loop k' s off (val ++ [c])
  end.
Definition parse_string (s : bytes) (sz : nat) (off : nat) : res (json * nat) :=
  parse_string_loop (S sz) s off [].

(* for (; offset < str.size();) { c = str.at(offset++); digit | first '.' | break } *)
Fixpoint num_loop1 (k : nat) (s : bytes) (sz : nat) (off : nat) (c : ascii) (val : bytes) (isd : bool)
  : res (nat * ascii * bytes * bool) :=
  match k with
  | O => Err OutOfFuel
  | S k' =>
      if off <? sz then
        c' <- at_ s off ;;
        let off' := S off in
        if is_digit c' then num_loop1 k' s sz off' c' (val ++ [c']) isd
        else if ceq c' "."%char && negb isd then num_loop1 k' s sz off' c' (val ++ [c']) true
        else Ok (off', c', val, isd)
      else Ok (off, c, val, isd)
  end.

(* for (; offset < str.size();) { c = str.at(offset++); digit | throw | break } *)
Fixpoint num_loop2 (k : nat) (s : bytes) (sz : nat) (off : nat) (exp_str : bytes) : res (nat * bytes) :=
  match k with
  | O => Err OutOfFuel
  | S k' =>
      if off <? sz then
        c <- at_ s off ;;
        let off' := S off in
        if is_digit c then num_loop2 k' s sz off' (exp_str ++ [c])
        else if negb (is_term c) then Err ParseError
        else Ok (off', exp_str)
      else Ok (off, exp_str)
  end.

Definition sign_of (neg : bool) : Z := if neg then (-1)%Z else 1%Z.

Definition parse_number (s : bytes) (sz : nat) (off : nat) : res (json * nat) :=
  '(neg, off) <- (if off <? sz
                  then (c <- at_ s off ;; if ceq c "-"%char then Ok (true, S off) else Ok (false, off))
                  else Ok (false, off)) ;;
  '(off, c, val, isd) <- num_loop1 (S sz) s sz off ch_nul [] false ;;
  '(off, exp_str, exp) <-
     (if (off <? sz) && (ceq c "E"%char || ceq c "e"%char) then
        c2 <- at_ s off ;;
        let off := S off in
        '(eneg, off) <- (if ceq c2 "-"%char then Ok (true, off)
                         else if ceq c2 "+"%char then Ok (false, off)
                         else (o <- dec_offset off ;; Ok (false, o))) ;;
        '(off, exp_str) <- num_loop2 (S sz) s sz off [] ;;
        Ok (off, exp_str, wrap64 (parse_num_int exp_str * sign_of eneg))
      else if (off <? sz) && negb (is_term c) then Err ParseError
      else Ok (off, [], 0%Z)) ;;
  off <- dec_offset off ;;
  if isd then Ok (JFloat (FDouble neg val exp), off)
  else match exp_str with
       | _ :: _ => Ok (JFloat (FIntExp neg (parse_num_int val) exp), off)
       | [] => Ok (JInt (wrap64 (sign_of neg * parse_num_int val)), off)
       end.

Definition parse_bool (s : bytes) (sz : nat) (off : nat) : res (json * nat) :=
  t <- substr s sz off 4 ;;
  if bytes_eqb t (B "true") then Ok (JBool true, off + 4)
  else (f <- substr s sz off 5 ;;
        if bytes_eqb f (B "false") then Ok (JBool false, off + 5) else Err ParseError).

Definition parse_null (s : bytes) (sz : nat) (off : nat) : res (json * nat) :=
  t <- substr s sz off 4 ;;
  if negb (bytes_eqb t (B "null")) then Err ParseError else Ok (JNull, off + 4).

(* the for-loop of parse_array; rec = parse_next one level deeper; Array[index++] = value appends *)
Fixpoint array_loop (rec : nat -> res (json * nat)) (k : nat) (s : bytes) (sz : nat) (off : nat) (acc : list json)
  : res (json * nat) :=
  match k with
  | O => Err OutOfFuel
  | S k' =>
      if off <? sz then
        '(v, off) <- rec off ;;
        off <- consume_ws s sz off ;;
        c <- at_ s off ;;
        if ceq c ","%char then array_loop rec k' s sz (S off) (acc ++ [v])
        else if ceq c "]"%char then Ok (JArray (acc ++ [v]), S off)
        else Err ParseError
      else Ok (JArray acc, off)
  end.
Definition parse_array (rec : nat -> res (json * nat)) (s : bytes) (sz : nat) (off : nat) : res (json * nat) :=
  let off := S off in
  off <- consume_ws s sz off ;;
  c <- at_ s off ;;
  if ceq c "]"%char then Ok (JArray [], S off)
  else array_loop rec (S sz) s sz off [].

Fixpoint object_loop (rec : nat -> res (json * nat)) (k : nat) (s : bytes) (sz : nat) (off : nat) (acc : list (bytes * json))
  : res (json * nat) :=
  match k with
  | O => Err OutOfFuel
  | S k' =>
      if off <? sz then
        '(key, off) <- rec off ;;
        off <- consume_ws s sz off ;;
        c <- at_ s off ;;
        if negb (ceq c ":"%char) then Err ParseError else
        off <- consume_ws s sz (S off) ;;
        '(v, off) <- rec off ;;
        let acc := qfm_set acc (to_string key) v in
        off <- consume_ws s sz off ;;
        c <- at_ s off ;;
        if ceq c ","%char then object_loop rec k' s sz (S off) acc
        else if ceq c "}"%char then Ok (JObject acc, S off)
        else Err ParseError
      else Ok (JObject acc, off)
  end.
Definition parse_object (rec : nat -> res (json * nat)) (s : bytes) (sz : nat) (off : nat) : res (json * nat) :=
  let off := S off in
  off <- consume_ws s sz off ;;
  c <- at_ s off ;;
  if ceq c "}"%char then Ok (JObject [], S off)
  else object_loop rec (S sz) s sz off [].

Definition max_depth : nat := 512.

(* parse_next; d = max_depth - Depth_Guard::depth() on entry *)
Fixpoint parse_next (d : nat) (s : bytes) (sz : nat) (off : nat) {struct d} : res (json * nat) :=
  match d with
  | O => Err DepthExceeded
  | S d' =>
      off <- consume_ws s sz off ;;
      v <- at_ s off ;;
      if ceq v "["%char then parse_array (parse_next d' s sz) s sz off
      else if ceq v "{"%char then parse_object (parse_next d' s sz) s sz off
      else if ceq v ch_quote then parse_string s sz off
      else if ceq v "t"%char || ceq v "f"%char then parse_bool s sz off
      else if ceq v "n"%char then parse_null s sz off
      else if is_digit v || ceq v "-"%char then parse_number s sz off
      else Err ParseError
  end.

(* JSON::Load *)
Definition load_at (d : nat) (s : bytes) : res json := '(j, _) <- parse_next d s (length s) 0 ;; Ok j.
Definition load (s : bytes) : res json := load_at max_depth s.

(* ------------------------------------------------------------------ json_wrap: script values *)
(* VInt z: an integral Boxed_Value whose numeric value is z (from_json always produces std::int64_t);
   VMap: std::map<std::string, Boxed_Value>, i.e. the association list in ascending key order;
   VNull: the undefined/null Boxed_Value() *)
Inductive sval :=
| VNull
| VMap (l : list (bytes * sval))
| VVec (l : list sval)
| VStr (s : bytes)
| VFloat (f : fnum)
| VInt (z : Z)
| VBool (b : bool).

(* std::string operator< : lexicographic on unsigned bytes *)
Fixpoint bytes_ltb (a b : bytes) : bool :=
  match a, b with
  | _, [] => false
  | [], _ :: _ => true
  | x :: a', y :: b' =>
      if N.ltb (N_of_ascii x) (N_of_ascii y) then true
      else if N.ltb (N_of_ascii y) (N_of_ascii x) then false
      else bytes_ltb a' b'
  end.

(* std::map::insert(pair): keeps an existing entry *)
Fixpoint map_insert (m : list (bytes * sval)) (k : bytes) (v : sval) : list (bytes * sval) :=
  match m with
  | [] => [(k, v)]
  | (k', v') :: r =>
      if bytes_ltb k k' then (k, v) :: m
      else if bytes_ltb k' k then (k', v') :: map_insert r k v
      else m
  end.

Fixpoint from_json_obj (j : json) : sval :=
  match j with
  | JNull => VNull
  | JObject l =>
      VMap ((fix go (l : list (bytes * json)) (m : list (bytes * sval)) : list (bytes * sval) :=
               match l with [] => m | (k, v) :: r => go r (map_insert m k (from_json_obj v)) end) l [])
  | JArray l => VVec (map from_json_obj l)
  | JString s => VStr s
  | JFloat f => VFloat f
  | JInt z => VInt z
  | JBool b => VBool b
  end.

Fixpoint to_json_object (v : sval) : json :=
  match v with
  | VNull => JNull
  | VMap l =>
      JObject ((fix go (l : list (bytes * sval)) (m : list (bytes * json)) : list (bytes * json) :=
                  match l with [] => m | (k, x) :: r => go r (qfm_set m k (to_json_object x)) end) l [])
  | VVec l => JArray (map to_json_object l)          (* obj[i] = ..., i = 0, 1, ... *)
  | VStr s => JString s
  | VFloat f => JFloat f
  | VInt z => JInt (wrap64 z)                        (* Boxed_Number::get_as<std::int64_t>() *)
  | VBool b => JBool b
  end.

Definition to_json (v : sval) : bytes := dump 1 (to_json_object v).

(* what the script sees from from_json(text) *)
Inductive exc := ExUnparsed     (* std::out_of_range -> runtime_error("Unparsed JSON input") *)
               | ExParse        (* runtime_error("JSON ERROR: ...") *)
               | ExDepth.       (* runtime_error("... maximum nesting depth exceeded") *)
Inductive fj := FValue (v : sval) | FExc (e : exc) | FStuck (e : err).
Definition from_json (s : bytes) : fj :=
  match load s with
  | Ok j => FValue (from_json_obj j)
  | Err OutOfRange => FExc ExUnparsed
  | Err ParseError => FExc ExParse
  | Err DepthExceeded => FExc ExDepth
  | Err e => FStuck e
  end.

(* ------------------------------------------------------------------ specification vocabulary *)
(* what parse_string reads back from an escaped text *)
Definition unescape (t : bytes) : res bytes :=
  let s := ch_quote :: t ++ [ch_quote] in
  '(j, _) <- parse_string s (length s) 0 ;; Ok (to_string j).

Fixpoint list_max (l : list nat) : nat := match l with [] => 0 | x :: r => Nat.max x (list_max r) end.

(* number of nested parse_next activations needed: keys are parsed by parse_next too *)
Fixpoint jheight (j : json) : nat :=
  match j with
  | JObject l => S ((fix go (l : list (bytes * json)) : nat :=
                       match l with [] => 0 | (_, v) :: r => Nat.max (Nat.max 1 (jheight v)) (go r) end) l)
  | JArray l => S ((fix go (l : list json) : nat :=
                      match l with [] => 0 | v :: r => Nat.max (jheight v) (go r) end) l)
  | _ => 1
  end.
Fixpoint vheight (v : sval) : nat :=
  match v with
  | VMap l => S ((fix go (l : list (bytes * sval)) : nat :=
                    match l with [] => 0 | (_, x) :: r => Nat.max (Nat.max 1 (vheight x)) (go r) end) l)
  | VVec l => S ((fix go (l : list sval) : nat :=
                    match l with [] => 0 | x :: r => Nat.max (vheight x) (go r) end) l)
  | _ => 1
  end.

Fixpoint keys_sorted {A} (l : list (bytes * A)) : bool :=
  match l with
  | [] => true
  | (k, _) :: r => match r with [] => true | (k', _) :: _ => bytes_ltb k k' && keys_sorted r end
  end.

(* a script value in the scope of the round-trip law: no doubles, every integer an int64,
   maps as std::map holds them (strictly ascending keys) *)
Fixpoint wf_sval (v : sval) : bool :=
  match v with
  | VMap l => keys_sorted l
              && (fix go (l : list (bytes * sval)) : bool :=
                    match l with [] => true | (_, x) :: r => wf_sval x && go r end) l
  | VVec l => (fix go (l : list sval) : bool :=
                 match l with [] => true | x :: r => wf_sval x && go r end) l
  | VFloat _ => false
  | VInt z => in_int64 z
  | _ => true
  end.

Fixpoint float_free (j : json) : bool :=
  match j with
  | JObject l => (fix go (l : list (bytes * json)) : bool :=
                    match l with [] => true | (_, v) :: r => float_free v && go r end) l
  | JArray l => (fix go (l : list json) : bool :=
                   match l with [] => true | v :: r => float_free v && go r end) l
  | JFloat _ => false
  | _ => true
  end.
