(* C15 — facts about the description regenerated from the source (gen/G_EngineState.v): they are
   re-checked by computation every time the source changes. *)
From Coq Require Import List Bool String Arith.
From ChaiV Require Import EngineDefs EngineProofs EngineSpecRun EngineRun.
From ChaiV.Gen Require Import G_EngineState.
Import ListNotations.

(* every field of Dispatch_Engine::State and ChaiScript_Basic::State is known to the model, copied by
   get_state and restored by set_state; every other data member is a documented exclusion *)
Lemma gen_fields_complete :
  fields_complete engine_state_fields engine_members engine_get_copies engine_set_copies
                  chai_state_fields chai_members chai_get_copies chai_set_copies = true.
Proof. vm_compute. reflexivity. Qed.

(* the "name already known" branch of add_function builds a new vector and publishes it by assignment *)
Lemma gen_cow : d_exists_branch gen_desc = canonical_exists_branch /\
                hasE EBoxed (d_tail gen_desc) = true /\ hasE EFunctionObjects (d_tail gen_desc) = true.
Proof. vm_compute. repeat split; reflexivity. Qed.

Lemma gen_desc_ok : desc_ok gen_desc = true.
Proof. vm_compute. reflexivity. Qed.

Lemma gen_hint_flags : hint_bounds_checked = true /\ hint_key_compared = true /\ hint_falls_back_to_find = true.
Proof. vm_compute. repeat split; reflexivity. Qed.

Lemma gen_hints_safe (w : world) (h : list op) (n : string) (hint : nat) :
  let t := es_tabs (sn_engine (m_live (mrun gen_desc w m_init h))) in
  find_hint hint_bounds_checked hint_key_compared hint_falls_back_to_find n hint (t_functions t) = Some (lookup n (t_functions t)) /\
  find_hint hint_bounds_checked hint_key_compared hint_falls_back_to_find n hint (t_boxed t) = Some (lookup n (t_boxed t)).
Proof.
  cbn zeta. destruct gen_hint_flags as (-> & -> & ->).
  destruct (tables_in_step_thm gen_desc gen_desc_ok w h) as [T _].
  destruct (tables_nodup _ _ T) as (N1 & _ & N3).
  split; apply find_hint_safe; assumption.
Qed.
