(* C05 — lemmas about the arithmetic model (kept apart from NumDefs so that the
   executable model still builds when a proof breaks). *)
From Coq Require Import ZArith List Bool String Lia Floats.SpecFloat.
From ChaiV Require Import NumDefs.
Import ListNotations.
Local Open Scope Z_scope.

Definition operand_ty (t : nty) : bool := match t with TI w _ => wf_width w | TF _ => true | TBool => false end.

Lemma wf_width_cases w : wf_width w = true -> w = 8 \/ w = 16 \/ w = 32 \/ w = 64.
Proof. unfold wf_width; intros H; repeat (apply orb_prop in H; destruct H as [H|H]); apply Z.eqb_eq in H; auto. Qed.

Lemma action_eqb_eq a b : action_eqb a b = true -> a = b.
Proof.
  destruct a as [x|[x|]], b as [y|[y|]]; simpl; try discriminate; try reflexivity;
    destruct (cbin_eq_dec x y); try discriminate; intros _; subst; reflexivity.
Qed.

(* converting an in-range value of a narrower-or-equal integer type never turns non-zero into zero *)
Lemma wrap_zero w s w2 s2 z :
  wf_width w = true -> wf_width w2 = true -> w2 <= w -> in_range w2 s2 z = true ->
  (wrap w s z =? 0) = (z =? 0).
Proof.
  intros Hw Hw2 Hle Hr.
  apply wf_width_cases in Hw; apply wf_width_cases in Hw2.
  unfold in_range, min_of, max_of in Hr. apply andb_prop in Hr; destruct Hr as [H1 H2].
  apply Z.leb_le in H1; apply Z.leb_le in H2.
  assert (Hz : wrap w s z = 0 <-> z = 0).
  { unfold wrap.
    destruct Hw as [ -> | [ -> | [ -> | -> ] ] ]; destruct Hw2 as [ -> | [ -> | [ -> | -> ] ] ]; try lia;
      destruct s, s2; cbn [andb] in *;
      change (2 ^ 8) with 256 in *; change (2 ^ 16) with 65536 in *; change (2 ^ 32) with 4294967296 in *;
      change (2 ^ 64) with 18446744073709551616 in *;
      change (2 ^ (8 - 1)) with 128 in *; change (2 ^ (16 - 1)) with 32768 in *; change (2 ^ (32 - 1)) with 2147483648 in *;
      change (2 ^ (64 - 1)) with 9223372036854775808 in *;
      match goal with |- context [?a mod ?b] => pose proof (Z.mod_pos_bound a b ltac:(lia)); pose proof (Z.div_mod a b ltac:(lia));
                                                 set (q := a / b) in *; set (m := a mod b) in *; clearbody q m end;
      try match goal with |- context [?x <=? ?y] => destruct (Z.leb_spec x y) end; lia. }
  destruct (Z.eqb_spec (wrap w s z) 0) as [E|E], (Z.eqb_spec z 0) as [F|F]; try reflexivity; exfalso; tauto.
Qed.

Lemma promote_ti w s : wf_width w = true -> exists w' s', promote (TI w s) = TI w' s' /\ wf_width w' = true /\ w <= w' /\ 32 <= w'.
Proof.
  intros H; apply wf_width_cases in H; destruct H as [ -> | [ -> | [ -> | -> ] ] ]; cbn;
    eexists; eexists; (split; [reflexivity|]); cbn; lia.
Qed.

Lemma common_int w1 s1 w2 s2 :
  wf_width w1 = true -> wf_width w2 = true ->
  exists w s, common (TI w1 s1) (TI w2 s2) = TI w s /\ wf_width w = true /\ w1 <= w /\ w2 <= w.
Proof.
  intros H1 H2; apply wf_width_cases in H1; apply wf_width_cases in H2.
  destruct H1 as [ -> | [ -> | [ -> | -> ] ] ]; destruct H2 as [ -> | [ -> | [ -> | -> ] ] ]; destruct s1, s2; cbn;
    eexists; eexists; (split; [reflexivity|]); cbn; lia.
Qed.

(* ---------------------------------------------------------------- when does the raw C++ operation trap? *)
Definition traps (c : cbin) t1 v1 t2 v2 : bool :=
  match c with
  | CDiv | CRem =>
      match common t1 t2 with
      | TI w s => match convert t1 v1 (TI w s), convert t2 v2 (TI w s) with
                  | Some (VI a), Some (VI b) => (b =? 0) || (s && (b =? -1) && (a =? min_of w s))
                  | _, _ => false end
      | _ => false
      end
  | _ => false
  end.

Lemma int_bin_trap c w s a b :
  int_bin c w s a b = Trap <->
  (match c with CDiv | CRem => true | _ => false end) && ((b =? 0) || (s && (b =? -1) && (a =? min_of w s))) = true.
Proof.
  destruct c; cbn [int_bin andb]; unfold vbool;
    try (split; [discriminate|discriminate]);
    try (destruct s; [destruct (in_range _ _ _)|]; split; discriminate);
    destruct (b =? 0); cbn [orb]; try tauto;
    destruct (s && (b =? -1) && (a =? min_of w s)); split; try discriminate; try reflexivity.
Qed.

Lemma shift_bin_no_trap l w s a b : shift_bin l w s a b <> Trap.
Proof.
  unfold shift_bin. destruct ((b <? 0) || (w <=? b)); [discriminate|].
  destruct l; [destruct s; [destruct (a <? 0); [discriminate|destruct (in_range _ _ _); discriminate]|discriminate]|discriminate].
Qed.

Lemma float_bin_no_trap c k a b : float_bin c k a b <> Trap.
Proof. destruct c; cbn; unfold vbool; discriminate. Qed.

Lemma cbin_eval_trap_iff c t1 v1 t2 v2 : cbin_eval c t1 v1 t2 v2 = Trap <-> traps c t1 v1 t2 v2 = true.
Proof.
  unfold cbin_eval, traps.
  destruct (is_shift c) eqn:Hs.
  - assert (Hc : match c with CDiv | CRem => false | _ => true end = true) by (destruct c; try discriminate; reflexivity).
    split.
    + intros H. exfalso.
      destruct (promote t1) as [w s| |]; try discriminate; destruct (promote t2) as [w2 s2| |]; try discriminate.
      destruct (convert t1 v1 (TI w s)) as [[a|]|]; try discriminate.
      destruct (convert t2 v2 (TI w2 s2)) as [[b|]|]; try discriminate.
      eapply shift_bin_no_trap; eauto.
    + destruct c; discriminate.
  - destruct (common t1 t2) as [w s|k|] eqn:Hct.
    + destruct (convert t1 v1 (TI w s)) as [[a|fa]|]; destruct (convert t2 v2 (TI w s)) as [[b|fb]|];
        try (split; [discriminate| destruct c; discriminate]).
      rewrite int_bin_trap. destruct c; cbn [andb]; try tauto; split; discriminate.
    + destruct (convert t1 v1 (TF k)) as [[a|fa]|]; destruct (convert t2 v2 (TF k)) as [[b|fb]|];
        try (split; [discriminate| destruct c; discriminate]).
      split; [intros H; exfalso; eapply float_bin_no_trap; eauto | destruct c; discriminate].
    + destruct (convert t1 v1 TBool) as [[a|fa]|]; destruct (convert t2 v2 TBool) as [[b|fb]|];
        split; try discriminate; destruct c; discriminate.
Qed.

(* for integer operands the two source-level guards fire exactly when the operation would trap *)
Lemma traps_guards c t1 v1 t2 v2 :
  (match c with CDiv | CRem => true | _ => false end) = true ->
  operand_ty t1 = true -> operand_ty t2 = true -> wf_val t1 v1 = true -> wf_val t2 v2 = true ->
  is_float t1 || is_float t2 = false ->
  traps c t1 v1 t2 v2 = guard_zero t2 v2 || guard_ovf t1 v1 t2 v2.
Proof.
  intros Hc O1 O2 W1 W2 Hf.
  destruct t1 as [w1 s1| |]; try discriminate; destruct t2 as [w2 s2| |]; try discriminate.
  destruct v1 as [a|]; try discriminate; destruct v2 as [b|]; try discriminate.
  cbn in O1, O2, W1, W2. apply andb_prop in W1; apply andb_prop in W2. destruct W1 as [_ R1], W2 as [_ R2].
  destruct (common_int w1 s1 w2 s2 O1 O2) as (w & s & Hct & Hw & L1 & L2).
  unfold traps, guard_ovf, guard_zero. cbn [is_float orb]. rewrite Hct. cbn [convert].
  rewrite (wrap_zero w s w2 s2 b Hw O2 L2 R2).
  destruct c; try discriminate; destruct s; cbn [andb]; try reflexivity; rewrite orb_false_r; reflexivity.
Qed.

Lemma traps_float c t1 v1 t2 v2 : is_float t1 || is_float t2 = true -> traps c t1 v1 t2 v2 = false.
Proof.
  intros H. unfold traps. destruct c; try reflexivity;
    destruct t1 as [w1 s1|k1|], t2 as [w2 s2|k2|]; cbn in H; try discriminate; cbn [common]; reflexivity.
Qed.

Lemma guard_ovf_float t1 v1 t2 v2 : is_float t1 || is_float t2 = true -> guard_ovf t1 v1 t2 v2 = false.
Proof. intros H; unfold guard_ovf; rewrite H; reflexivity. Qed.

Lemma trap_to_err_id o : o <> Trap -> trap_to_err o = o.
Proof. destruct o; try reflexivity; intros H; exfalso; apply H; reflexivity. Qed.

(* ---------------------------------------------------------------- the row theorem *)
Definition flags_of (a : action) (r : row) : Prop :=
  r_act r = a /\ r_gzero r = act_divlike a /\ r_govf r = act_divlike a /\ r_intonly r = act_intonly a /\ r_inplace r = act_inplace a.

Lemma adequate_flags r : adequate r = true -> exists a, expected_action (r_op r) = Some a /\ flags_of a r.
Proof.
  unfold adequate. destruct (expected_action (r_op r)) as [a|]; [|discriminate].
  intros H. repeat (apply andb_prop in H; destruct H as [H ?]).
  exists a; split; [reflexivity|]. unfold flags_of.
  repeat split; try (apply eqb_prop; assumption). apply action_eqb_eq; assumption.
Qed.

Definition act_cbin (a : action) : option cbin := match a with ABin c | AAsg (Some c) => Some c | AAsg None => None end.

Lemma casg_none_no_trap t1 v1 t2 v2 : fst (casg_eval None t1 v1 t2 v2) <> Trap.
Proof. cbn. destruct (convert t2 v2 t1); cbn; discriminate. Qed.

Lemma casg_some_trap c t1 v1 t2 v2 :
  fst (casg_eval (Some c) t1 v1 t2 v2) = Trap <-> cbin_eval c t1 v1 t2 v2 = Trap.
Proof.
  cbn. destruct (cbin_eval c t1 v1 t2 v2) eqn:E; cbn; try tauto; try (split; discriminate).
  destruct (convert t v t1); cbn; split; discriminate.
Qed.

Lemma casg_trap_state c t1 v1 t2 v2 : cbin_eval c t1 v1 t2 v2 = Trap -> casg_eval (Some c) t1 v1 t2 v2 = (Trap, v1).
Proof. intros E; cbn; rewrite E; reflexivity. Qed.

Theorem interp_row_spec r a m t1 v1 t2 v2 :
  flags_of a r ->
  operand_ty t1 = true -> operand_ty t2 = true -> wf_val t1 v1 = true -> wf_val t2 v2 = true ->
  fst (spec_row a m t1 v1 t2 v2) <> UB ->
  interp_row r m t1 v1 t2 v2 = spec_row a m t1 v1 t2 v2.
Proof.
  intros (Ha & Hz & Ho & Hi & Hp) O1 O2 W1 W2 Hub.
  unfold interp_row, spec_row in *. rewrite Ha, Hz, Ho, Hi, Hp.
  destruct (act_intonly a && (is_float t1 || is_float t2)) eqn:E1; [reflexivity|].
  destruct (act_inplace a && negb m) eqn:E2; [reflexivity|].
  destruct (act_divlike a) eqn:Ed; cbn [andb] in *.
  - (* division-like: the guards decide *)
    assert (Hc : exists c, act_cbin a = Some c /\ (match c with CDiv | CRem => true | _ => false end) = true).
    { destruct a as [c|[c|]]; try discriminate; destruct c; try discriminate; eexists; split; reflexivity. }
    destruct Hc as (c & Hac & Hcd).
    destruct (is_float t1 || is_float t2) eqn:Ef; cbn [andb] in *.
    + (* a floating operand: no trap is possible; an integer zero divisor is outside the statement *)
      destruct (guard_zero t2 v2) eqn:Eg; [exfalso; apply Hub; reflexivity|].
      rewrite (guard_ovf_float _ _ _ _ Ef).
      pose proof (traps_float c t1 v1 t2 v2 Ef) as Ht.
      assert (Hn : cbin_eval c t1 v1 t2 v2 <> Trap) by (intros X; apply cbin_eval_trap_iff in X; congruence).
      destruct a as [c'|[c'|]]; cbn in Hac; inversion Hac; subst c'.
      * rewrite trap_to_err_id by assumption. reflexivity.
      * destruct (casg_eval (Some c) t1 v1 t2 v2) as [o v] eqn:Ec.
        rewrite trap_to_err_id; [reflexivity|].
        intros X; subst o. apply Hn. apply casg_some_trap. rewrite Ec. reflexivity.
    + pose proof (traps_guards c t1 v1 t2 v2 Hcd O1 O2 W1 W2 Ef) as Ht.
      destruct (guard_zero t2 v2) eqn:Eg; [|destruct (guard_ovf t1 v1 t2 v2) eqn:Eo]; cbn [orb] in Ht.
      * assert (X : cbin_eval c t1 v1 t2 v2 = Trap) by (apply cbin_eval_trap_iff; assumption).
        destruct a as [c'|[c'|]]; cbn in Hac; inversion Hac; subst c'.
        -- rewrite X; reflexivity.
        -- rewrite (casg_trap_state _ _ _ _ _ X); reflexivity.
      * assert (X : cbin_eval c t1 v1 t2 v2 = Trap) by (apply cbin_eval_trap_iff; assumption).
        destruct a as [c'|[c'|]]; cbn in Hac; inversion Hac; subst c'.
        -- rewrite X; reflexivity.
        -- rewrite (casg_trap_state _ _ _ _ _ X); reflexivity.
      * assert (Hn : cbin_eval c t1 v1 t2 v2 <> Trap) by (intros X; apply cbin_eval_trap_iff in X; congruence).
        destruct a as [c'|[c'|]]; cbn in Hac; inversion Hac; subst c'.
        -- rewrite trap_to_err_id by assumption. reflexivity.
        -- destruct (casg_eval (Some c) t1 v1 t2 v2) as [o v] eqn:Ec.
           rewrite trap_to_err_id; [reflexivity|].
           intros X; subst o. apply Hn. apply casg_some_trap. rewrite Ec. reflexivity.
  - (* every other operator: no guard, and the raw operation cannot trap *)
    destruct a as [c|[c|]].
    + rewrite trap_to_err_id; [reflexivity|].
      intros X. apply cbin_eval_trap_iff in X. destruct c; cbn in X, Ed; discriminate.
    + destruct (casg_eval (Some c) t1 v1 t2 v2) as [o v] eqn:Ec.
      rewrite trap_to_err_id; [reflexivity|].
      intros X; subst o.
      assert (Y : cbin_eval c t1 v1 t2 v2 = Trap) by (apply casg_some_trap; rewrite Ec; reflexivity).
      apply cbin_eval_trap_iff in Y. destruct c; cbn in Y, Ed; discriminate.
    + destruct (casg_eval None t1 v1 t2 v2) as [o v] eqn:Ec.
      rewrite trap_to_err_id; [reflexivity|].
      intros X; subst o. apply (casg_none_no_trap t1 v1 t2 v2). rewrite Ec; reflexivity.
Qed.

(* the specification itself never demands a trap *)
Lemma spec_row_no_trap a m t1 v1 t2 v2 : fst (spec_row a m t1 v1 t2 v2) <> Trap.
Proof.
  unfold spec_row.
  destruct (act_intonly a && _); [discriminate|]. destruct (act_inplace a && _); [discriminate|].
  destruct (act_divlike a && _ && _); [discriminate|].
  destruct a as [c|oc]; cbn [fst].
  - destruct (cbin_eval c t1 v1 t2 v2); discriminate.
  - destruct (casg_eval oc t1 v1 t2 v2) as [o v]; cbn; destruct o; discriminate.
Qed.

Theorem interp_row_no_trap r a m t1 v1 t2 v2 :
  flags_of a r ->
  operand_ty t1 = true -> operand_ty t2 = true -> wf_val t1 v1 = true -> wf_val t2 v2 = true ->
  fst (interp_row r m t1 v1 t2 v2) <> Trap.
Proof.
  intros F O1 O2 W1 W2.
  destruct (fst (spec_row a m t1 v1 t2 v2)) eqn:E;
    try (rewrite (interp_row_spec r a m t1 v1 t2 v2 F O1 O2 W1 W2) by (rewrite E; discriminate); rewrite E; discriminate).
  - (* spec = UB: float / integer zero; the implementation raises arithmetic_error or computes, never traps *)
    destruct F as (Ha & Hz & Ho & Hi & Hp).
    unfold spec_row in E. unfold interp_row. rewrite Ha, Hz, Ho, Hi, Hp.
    destruct (act_intonly a && (is_float t1 || is_float t2)); [discriminate|].
    destruct (act_inplace a && negb m); [discriminate|].
    destruct (act_divlike a) eqn:Ed; cbn [andb] in *.
    + destruct (is_float t1 || is_float t2) eqn:Ef; cbn [andb] in *.
      * destruct (guard_zero t2 v2); [discriminate|].
        rewrite (guard_ovf_float _ _ _ _ Ef).
        destruct a as [c|[c|]]; cbn [fst] in *.
        -- intros X. apply cbin_eval_trap_iff in X. rewrite traps_float in X by assumption. discriminate.
        -- intros X. apply casg_some_trap in X. apply cbin_eval_trap_iff in X. rewrite traps_float in X by assumption. discriminate.
        -- apply casg_none_no_trap.
      * destruct (guard_zero t2 v2); [discriminate|]. destruct (guard_ovf t1 v1 t2 v2); [discriminate|].
        destruct a as [c|oc]; cbn [fst] in *.
        -- destruct (cbin_eval c t1 v1 t2 v2); cbn in E; discriminate.
        -- destruct (casg_eval oc t1 v1 t2 v2) as [o v]; cbn in *; destruct o; discriminate.
    + destruct a as [c|oc]; cbn [fst] in *.
      * destruct (cbin_eval c t1 v1 t2 v2); cbn in E; discriminate.
      * destruct (casg_eval oc t1 v1 t2 v2) as [o v]; cbn in *; destruct o; discriminate.
  - exfalso. eapply spec_row_no_trap; eauto.
Qed.
