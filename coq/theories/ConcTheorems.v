(* C13 — facts about the table regenerated from /repo on every run (gen/G_Locks.v); decided by vm_compute. *)
From Coq Require Import List String Bool Arith PeanoNat Lia Permutation.
From ChaiV Require Import ConcDefs ConcProofs.
From ChaiV.Gen Require Import G_Locks.
Import ListNotations.
Local Open Scope string_scope.
Local Open Scope nat_scope.
Local Open Scope list_scope.

Definition kinds_table : nat -> mkind :=
  fun m => match find (fun mx => mx_id mx =? m) mutexes with Some mx => mx_kind mx | None => MPlain end.
Definition entries : list (list ev) := entry_events methods.
Definition pol_table : nat -> policy := table_policy mutexes fields entries.

(* every public member function and every stored callback of Dispatch_Engine, Type_Conversions and
   ChaiScript_Basic keeps the discipline and releases what it locked *)
Lemma table_ok : lockset_table_ok mutexes fields methods = true.
Proof. vm_compute. reflexivity. Qed.

Lemma entries_ok : forall c, In c entries -> method_ok pol_table c = true.
Proof.
  pose proof table_ok as H. unfold lockset_table_ok in H. rewrite forallb_forall in H. exact H.
Qed.

(* the fields the lockset theorem says nothing about, by declaration *)
Definition expected_exempt : list (string * string * fkind) :=
  [("Dispatch_Engine", "m_conversions", FDelegated); ("Dispatch_Engine", "m_stack_holder", FPerThread);
   ("Dispatch_Engine", "m_method_missing_loc", FAtomic); ("Type_Conversions", "m_num_types", FAtomic);
   ("Type_Conversions", "m_thread_cache", FPerThread); ("Type_Conversions", "m_conversion_saves", FPerThread);
   ("ChaiScript_Basic", "m_engine", FDelegated)].
Lemma exempt_ok : exempt_fields fields = expected_exempt.
Proof. vm_compute. reflexivity. Qed.

(* which mutex guards which shared field ("read-only": never written after construction) *)
Definition expected_guards : list (string * string * string) :=
  [("Dispatch_Engine", "m_parser", "read-only");
   ("Dispatch_Engine", "m_state.m_functions", "m_mutex"); ("Dispatch_Engine", "m_state.m_function_objects", "m_mutex");
   ("Dispatch_Engine", "m_state.m_boxed_functions", "m_mutex"); ("Dispatch_Engine", "m_state.m_global_objects", "m_mutex");
   ("Dispatch_Engine", "m_state.m_types", "m_mutex");
   ("Type_Conversions", "m_conversions", "m_mutex"); ("Type_Conversions", "m_convertableTypes", "m_mutex");
   ("ChaiScript_Basic", "m_used_files", "m_use_mutex"); ("ChaiScript_Basic", "m_loaded_modules", "m_use_mutex");
   ("ChaiScript_Basic", "m_active_loaded_modules", "m_use_mutex"); ("ChaiScript_Basic", "m_module_paths", "read-only");
   ("ChaiScript_Basic", "m_use_paths", "read-only"); ("ChaiScript_Basic", "m_parser", "read-only");
   ("ChaiScript_Basic", "m_namespace_generators", "m_use_mutex")].
Lemma guards_ok : guard_assignment mutexes fields methods = expected_guards.
Proof. vm_compute. reflexivity. Qed.

Theorem lockset_instance_thm :
  lockset_table_ok mutexes fields methods = true /\
  exempt_fields fields = expected_exempt /\
  guard_assignment mutexes fields methods = expected_guards /\
  forall (calls : nat -> list (list ev)) tr s,
    (forall t, Forall (fun c => In c entries) (calls t)) ->
    exec kinds_table (fun t => List.concat (calls t), no_locks) tr s ->
    forall tr1 t1 a tr2 t2 b tr3 f,
      tr = tr1 ++ (t1, a) :: tr2 ++ (t2, b) :: tr3 -> t1 <> t2 ->
      accesses a f = true -> accesses b f = true -> (is_write a = true \/ is_write b = true) ->
      pol_table f <> PExempt ->
      exists m, pol_table f = PGuard m /\ exists p q r md, tr2 = p ++ (t1, Rel m) :: q ++ (t2, Acq m md) :: r.
Proof.
  split; [exact table_ok|]. split; [exact exempt_ok|]. split; [exact guards_ok|].
  intros calls tr s Hc Hex. eapply lockset_thm; eauto.
  intro t. simpl. rewrite (concat_ok pol_table (calls t)); [discriminate|].
  specialize (Hc t). rewrite Forall_forall in *. intros c Hin. apply entries_ok. auto.
Qed.

(* registration member functions do all their table accesses inside ONE exclusive section: between the first and
   the last access of the fields of the group there is no release of the mutex, and it is held exclusively *)
Definition touches (fs : list nat) (e : ev) : bool := match e with Rd f | Wr f => memn f fs | _ => false end.
Fixpoint one_section (m : nat) (fs : list nat) (st : nat) (h : held) (p : list ev) : bool :=
  (* st: 0 before the first access, 1 inside, 2 after a release that followed an access *)
  match p with
  | [] => true
  | Acq m' md :: r => one_section m fs st ((m', md) :: h) r
  | Rel m' :: r => match remove_first m' h with
                   | Some h' => one_section m fs (if (m' =? m) && (st =? 1) then 2 else st) h' r
                   | None => false
                   end
  | e :: r => if touches fs e then (negb (st =? 2) && holds_ex h m && one_section m fs 1 h r) else one_section m fs st h r
  end.
Definition body_of (cls name : string) (n : nat) : list ev :=
  flat_map (method_events methods) (candidates methods cls name n false).

Definition engine_fields : list nat := [f_functions; f_function_objects; f_boxed_functions; f_global_objects; f_types].
Lemma registration_sections_ok :
  one_section engine_mutex_id engine_fields 0 [] (body_of "Dispatch_Engine" "add_function" 2) = true /\
  one_section engine_mutex_id engine_fields 0 [] (body_of "Dispatch_Engine" "add_global" 2) = true /\
  one_section engine_mutex_id engine_fields 0 [] (body_of "Dispatch_Engine" "add_global_const" 2) = true /\
  one_section engine_mutex_id engine_fields 0 [] (body_of "Dispatch_Engine" "set_global" 2) = true /\
  one_section engine_mutex_id engine_fields 0 [] (body_of "Dispatch_Engine" "set_state" 1) = true /\
  one_section conv_mutex_id [f_conversions; f_convertable_types] 0 [] (body_of "Type_Conversions" "add_conversion" 1) = true /\
  body_of "Dispatch_Engine" "add_function" 2 <> [] /\ body_of "Dispatch_Engine" "add_global" 2 <> [] /\
  body_of "Dispatch_Engine" "add_global_const" 2 <> [] /\ body_of "Type_Conversions" "add_conversion" 1 <> [].
Proof. vm_compute. repeat split; try reflexivity; discriminate. Qed.

(* use(): the table's body keeps the use mutex from the check of m_used_files over eval_file to the insertion *)
Definition use_ids_table : use_ids := MkUseIds use_mutex_id used_files_id "eval_file".
Definition use_body : list ev := body_of "ChaiScript_Basic" "use" 1.

Lemma use_ok_arg : forall ids f p, use_ok ids (Arg f :: p) = use_ok ids p.
Proof. reflexivity. Qed.

Lemma use_body_ok : forall f ok, use_ok use_ids_table (use_prog use_ids_table use_body f ok) = true.
Proof.
  intros f [|]; unfold use_prog; rewrite use_ok_arg; vm_compute; reflexivity.
Qed.

Lemma use_mutex_recursive : kinds_table use_mutex_id = MRecursive.
Proof. vm_compute. reflexivity. Qed.

Theorem use_once_instance_thm :
  forall (calls : nat -> list (nat * bool)) tr s,
    exec kinds_table (fun t => List.concat (map (fun c => use_prog use_ids_table use_body (fst c) (snd c)) (calls t)), no_locks) tr s ->
    let d := urun use_ids_table tr u0 in
    forall f,
      u_finished d f <= 1 /\
      u_started d f <= 1 + u_thrown d f /\
      (forall t, In (t, f) (u_returned d) -> In f (u_used d) /\ u_finished d f = 1 /\ (u_thrown d f = 0 -> u_started d f = 1)).
Proof.
  intros calls tr s Hex. eapply use_once_thm; eauto.
  intro t. simpl. rewrite use_concat_ok; [discriminate|].
  apply Forall_forall. intros c Hin. apply in_map_iff in Hin. destruct Hin as [[f ok] [<- _]]. apply use_body_ok.
Qed.
