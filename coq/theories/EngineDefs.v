(* C15 — get_state / set_state restore the global environment exactly.
   Model of the engine's global tables and of the operations that change them; total computable
   Gallina, no proofs.  Two levels:

   * the SPECIFICATION: the environment is a dictionary  name -> overload list  plus globals, types,
     used files and active modules; a snapshot is a value (record `env`);
   * the MECHANISM: what dispatchkit.hpp / chaiscript_engine.hpp do: three function tables
     (m_functions : name -> shared_ptr<vector>, m_function_objects, m_boxed_functions) kept in step by
     add_function, overload vectors living in a heap of shared cells, get_state/set_state copying the
     fields named by a description `engine_desc` that the translator regenerates from the source
     (tools/translate/t_EngineState.py -> gen/G_EngineState.v).

   `abs` maps a mechanism state to the dictionary it represents. *)
From Coq Require Import List Bool String Arith.
Import ListNotations.
Local Open Scope list_scope.

(* ---------------------------------------------------------------- association lists *)
(* QuickFlatMap (insertion ordered vector of pairs, linear find by name) and std::map seen through
   find / insert / insert_or_assign *)
Fixpoint lookup {V : Type} (k : string) (l : list (string * V)) : option V :=
  match l with
  | [] => None
  | (k', v) :: r => if String.eqb k' k then Some v else lookup k r
  end.

(* insert_or_assign: an existing key keeps its position *)
Fixpoint assign {V : Type} (k : string) (v : V) (l : list (string * V)) : list (string * V) :=
  match l with
  | [] => [(k, v)]
  | (k', v') :: r => if String.eqb k' k then (k', v) :: r else (k', v') :: assign k v r
  end.

(* insert: does not overwrite *)
Definition insert_new {V : Type} (k : string) (v : V) (l : list (string * V)) : list (string * V) :=
  match lookup k l with Some _ => l | None => l ++ [(k, v)] end.

Fixpoint mem (k : string) (l : list string) : bool :=
  match l with [] => false | x :: r => String.eqb x k || mem k r end.

Definition add_set (k : string) (l : list string) : list string := if mem k l then l else l ++ [k].

Fixpoint set_nth {A : Type} (n : nat) (x : A) (l : list A) : list A :=
  match l, n with
  | [], _ => []
  | _ :: r, O => x :: r
  | y :: r, S n' => y :: set_nth n' x r
  end.

(* QuickFlatMap::find(s, hint): the position hint cached in AST nodes; `bounds`/`keycmp`/`fallback`
   say which parts of the guard the source has (regenerated) *)
Fixpoint find_index {V : Type} (k : string) (l : list (string * V)) (i : nat) : option nat :=
  match l with
  | [] => None
  | (k', _) :: r => if String.eqb k' k then Some i else find_index k r (S i)
  end.
Definition find_hint {V : Type} (bounds keycmp fallback : bool) (k : string) (hint : nat) (l : list (string * V)) : option (option V) :=
  (* None = undefined behaviour (read past the end) *)
  if bounds && negb (Nat.ltb hint (List.length l)) then (if fallback then Some (lookup k l) else Some None)
  else match nth_error l hint with
       | None => None
       | Some (k', v) => if negb keycmp || String.eqb k' k then Some (Some v)
                         else if fallback then Some (lookup k l) else Some None
       end.

(* ---------------------------------------------------------------- functions *)
(* KDyn    script `def`                      (Dynamic_Proxy_Function)
   KCpp k  C++ callable of kind k, (k mod 10) int parameters (Proxy_Function_Callable_Impl<Func, Callable_k>)
   KAttr / KMethod / KCtor c   class members of script class c (Dynamic_Object_Function / _Constructor) *)
Inductive fkind := KDyn | KCpp (k : nat) | KAttr (c : string) | KMethod (c : string) | KCtor (c : string).
(* identity of a function object: the definition site and the evaluation that created it (a file that is
   evaluated again creates new function objects from the same text; a module re-applies the same objects) *)
Record fdesc := mkF { f_site : nat; f_gen : nat; f_kind : fkind; f_arity : nat; f_guard : option nat }.
Definition same_object (f g : fdesc) : bool := Nat.eqb (f_site f) (f_site g) && Nat.eqb (f_gen f) (f_gen g).

Definition no_guard (f : fdesc) : bool := match f_guard f with None => true | Some _ => false end.
Definition dyn_equal (f g : fdesc) : bool := Nat.eqb (f_arity f) (f_arity g) && no_guard f && no_guard g.

(* Proxy_Function_Base::operator== as add_function uses it: identity, or the per-class rule *)
Definition conflict (f g : fdesc) : bool :=
  same_object f g ||
  match f_kind f, f_kind g with
  | KDyn, KDyn => dyn_equal f g
  | KCpp a, KCpp b => Nat.eqb a b
  | KAttr c, KAttr d => String.eqb c d
  | KMethod c, KMethod d => String.eqb c d && dyn_equal f g
  | KCtor c, KCtor d => String.eqb c d && dyn_equal f g
  | _, _ => false
  end.

(* a C++ callable of kind k takes (k mod 10) int parameters *)
Definition has_arith (f : fdesc) : bool := match f_kind f with KCpp k => Nat.ltb 0 (Nat.modulo k 10) | _ => false end.

(* function_less_than restricted to the kinds above.  Attribute accessors (first parameter Dynamic_Object&)
   sort before functions whose first parameter is a Boxed_Value ("boxed values are sorted last": methods,
   constructors), every non-dynamic function before the dynamic ones, guarded dynamic before unguarded.
   C++ functions and class members registered under ONE name are ordered by typeid in the code; the
   correspondence keeps those two kinds under different names and the model ranks them arbitrarily. *)
Definition rank (f : fdesc) : nat :=
  match f_kind f with
  | KAttr _ => 0
  | KCpp _ => 1
  | KMethod _ | KCtor _ => 2
  | KDyn => if no_guard f then 4 else 3
  end.
Fixpoint ins_front (x : fdesc) (l : list fdesc) : list fdesc :=
  match l with
  | [] => [x]
  | y :: r => if Nat.leb (rank x) (rank y) then x :: y :: r else y :: ins_front x r
  end.
Definition sortv (l : list fdesc) : list fdesc := fold_right ins_front [] l.   (* std::stable_sort *)

(* the function object stored for a name: the function itself, or a Dispatch_Function over a vector *)
Inductive fobj := FSingle (f : fdesc) | FDispatch (l : list fdesc).
Definition fobj_funs (o : fobj) : list fdesc := match o with FSingle f => [f] | FDispatch l => l end.
Definition wrap (vec : list fdesc) : fobj :=
  match vec with
  | [f] => if has_arith f then FDispatch [f] else FSingle f
  | _ => FDispatch vec
  end.

(* ---------------------------------------------------------------- operations *)
Inductive sop :=
| SDef (n : string) (f : fdesc)          (* add_function: def, C++ function, class member *)
| SGlobalDecl (n : string) (v : nat)     (* script `global n = v`: declare, or assign to the existing object *)
| SAddGlobal (n : string) (v : nat)      (* add_global: name_conflict_error when bound *)
| SSetGlobal (n : string) (v : nat)      (* set_global: (re)bind the name to a new object *)
| SAssign (n : string) (v : nat)         (* script `n = v` on a global: changes the object, not the binding *)
| SAddType (n : string) (ty : nat).      (* add(Type_Info, n): global n_type, then m_types.insert *)

Inductive op :=
| OScript (l : list sop)      (* one eval(): statements in order, stops at the first error *)
| OUse (file : string)
| OModule (m : string)
| OLocal (n : string) (v : nat)
| OGet
| OSet (k : nat).

Inductive outcome := Ok | Skipped | Conflict | NotFound | ConstError | FileNotFound | BadSnapshot | Dangling.
Definition is_ok (o : outcome) : bool := match o with Ok | Skipped => true | _ => false end.

Record modc := mkMod { mc_types : list (string * nat); mc_funs : list (string * fdesc) }.
Definition mod_ops (m : modc) : list sop :=
  map (fun e => SAddType (fst e) (snd e)) (mc_types m) ++ map (fun e => SDef (fst e) (snd e)) (mc_funs m).

Record world := mkWorld { w_files : list (string * list sop); w_mods : list (string * modc) }.

(* the part of Dispatch_Engine::State that is not a function table *)
Record rest := mkRest { r_globals : list (string * nat); r_types : list (string * nat) }.
(* what is NOT part of any State: the objects globals are bound to (Boxed_Value data is shared between
   a snapshot and the live map), the calling thread's locals, and the effects files had outside the engine *)
Record ambient := mkAmb { a_objs : list (bool * nat); a_locals : list (string * nat); a_evals : list string }.

Definition type_global (n : string) : string := (n ++ "_type")%string.

Definition set_obj (oid v : nat) (a : ambient) : ambient :=
  mkAmb (set_nth oid (false, v) (a_objs a)) (a_locals a) (a_evals a).
Definition alloc_obj (c : bool) (v : nat) (a : ambient) : ambient :=
  mkAmb (a_objs a ++ [(c, v)]) (a_locals a) (a_evals a).
Definition bind_global (n : string) (oid : nat) (r : rest) : rest := mkRest (r_globals r ++ [(n, oid)]) (r_types r).

Definition assign_obj (oid v : nat) (r : rest) (a : ambient) : rest * ambient * outcome :=
  match nth_error (a_objs a) oid with
  | None => (r, a, Dangling)
  | Some (true, _) => (r, a, ConstError)
  | Some (false, _) => (r, set_obj oid v a, Ok)
  end.

(* statements that do not touch the function tables *)
Definition gstep (r : rest) (a : ambient) (s : sop) : rest * ambient * outcome :=
  match s with
  | SDef _ _ => (r, a, Ok)
  | SGlobalDecl n v =>
      match lookup n (r_globals r) with
      | Some oid => assign_obj oid v r a
      | None => (bind_global n (List.length (a_objs a)) r, alloc_obj false v a, Ok)
      end
  | SAddGlobal n v =>
      match lookup n (r_globals r) with
      | Some _ => (r, a, Conflict)
      | None => (bind_global n (List.length (a_objs a)) r, alloc_obj false v a, Ok)
      end
  | SSetGlobal n v => (mkRest (assign n (List.length (a_objs a)) (r_globals r)) (r_types r), alloc_obj false v a, Ok)
  | SAssign n v =>
      match lookup n (r_globals r) with
      | Some oid => assign_obj oid v r a
      | None => (r, a, NotFound)
      end
  | SAddType n ty =>
      match lookup (type_global n) (r_globals r) with
      | Some _ => (r, a, Conflict)
      | None => (mkRest (r_globals r ++ [(type_global n, List.length (a_objs a))]) (insert_new n ty (r_types r)), alloc_obj true ty a, Ok)
      end
  end.

(* generic over the representation F of the function tables *)
Section Generic.
  Context {F : Type}.
  Variable fadd : F -> string -> fdesc -> F * outcome.

  Definition sop_step (c : F * rest * ambient) (s : sop) : (F * rest * ambient) * outcome :=
    let '(f, r, a) := c in
    match s with
    | SDef n d => let (f', o) := fadd f n d in ((f', r, a), o)
    | _ => let '(r', a', o) := gstep r a s in ((f, r', a'), o)
    end.

  Fixpoint run_script (c : F * rest * ambient) (l : list sop) : (F * rest * ambient) * outcome :=
    match l with
    | [] => (c, Ok)
    | s :: t => let (c', o) := sop_step c s in if is_ok o then run_script c' t else (c', o)
    end.

  (* Module::apply: every item is added, name conflicts are swallowed *)
  Fixpoint run_module (c : F * rest * ambient) (l : list sop) : F * rest * ambient :=
    match l with
    | [] => c
    | s :: t => run_module (fst (sop_step c s)) t
    end.
End Generic.

(* the function objects created by the g-th evaluation of a file *)
Definition regen (g : nat) (s : sop) : sop :=
  match s with
  | SDef n f => SDef n (mkF (f_site f) g (f_kind f) (f_arity f) (f_guard f))
  | _ => s
  end.
Definition next_gen (a : ambient) : nat := S (List.length (a_evals a)).

Definition log_eval (f : string) (a : ambient) : ambient := mkAmb (a_objs a) (a_locals a) (a_evals a ++ [f]).
Definition set_local (n : string) (v : nat) (a : ambient) : ambient := mkAmb (a_objs a) (assign n v (a_locals a)) (a_evals a).

(* ================================================================ SPECIFICATION *)
Definition dict := list (string * list fdesc).

Definition dict_add (d : dict) (n : string) (f : fdesc) : dict * outcome :=
  match lookup n d with
  | Some vec => if existsb (conflict f) vec then (d, Conflict) else (assign n (sortv (vec ++ [f])) d, Ok)
  | None => (d ++ [(n, [f])], Ok)
  end.

Record env := mkEnv { e_funs : dict; e_rest : rest; e_used : list string; e_mods : list string }.
Record sstate := mkS { s_env : env; s_amb : ambient; s_snaps : list env }.

Definition s_core (st : sstate) : dict * rest * ambient := (e_funs (s_env st), e_rest (s_env st), s_amb st).
Definition s_with (st : sstate) (c : dict * rest * ambient) (used mods : list string) : sstate :=
  let '(d, r, a) := c in mkS (mkEnv d r used mods) a (s_snaps st).

Definition sstep (w : world) (st : sstate) (o : op) : sstate * outcome :=
  let e := s_env st in
  match o with
  | OScript l => let (c, oc) := run_script dict_add (s_core st) l in (s_with st c (e_used e) (e_mods e), oc)
  | OUse f =>
      match lookup f (w_files w) with
      | None => (st, FileNotFound)
      | Some l =>
          if mem f (e_used e) then (st, Skipped)
          else
            let '(d, r, a) := s_core st in
            let (c, oc) := run_script dict_add (d, r, log_eval f a) (map (regen (next_gen a)) l) in
            if is_ok oc then (s_with st c (add_set f (e_used e)) (e_mods e), Ok)
            else (s_with st c (e_used e) (e_mods e), oc)
      end
  | OModule m =>
      match lookup m (w_mods w) with
      | None => (st, FileNotFound)
      | Some mc =>
          if mem m (e_mods e) then (st, Skipped)
          else (s_with st (run_module dict_add (s_core st) (mod_ops mc)) (e_used e) (add_set m (e_mods e)), Ok)
      end
  | OLocal n v => (mkS e (set_local n v (s_amb st)) (s_snaps st), Ok)
  | OGet => (mkS e (s_amb st) (s_snaps st ++ [e]), Ok)
  | OSet k =>
      match nth_error (s_snaps st) k with
      | None => (st, BadSnapshot)
      | Some e' => (mkS e' (s_amb st) (s_snaps st), Ok)
      end
  end.

Definition empty_rest := mkRest [] [].
Definition empty_amb := mkAmb [] [] [].
Definition s_init : sstate := mkS (mkEnv [] empty_rest [] []) empty_amb [].

Fixpoint srun (w : world) (st : sstate) (h : list op) : sstate :=
  match h with [] => st | o :: t => srun w (fst (sstep w st o)) t end.

(* the outcome an operation would have: used to say "can be added again" *)
Definition soutcome (w : world) (st : sstate) (o : op) : outcome := snd (sstep w st o).

(* ================================================================ MECHANISM *)
Inductive efield := EFunctions | EFunctionObjects | EBoxed | EGlobals | ETypes.
Inductive cfield := CUsed | CEngine | CMods.

(* the statements of add_function's "name already known" branch *)
Inductive astmt :=
| ACopyVec            (* auto vec = *itr->second;          a private copy of the shared vector *)
| ARefVec             (* auto &vec = *itr->second;         an alias of the shared vector *)
| AConflictCheck      (* for (func : vec) if t_f equals func then throw name_conflict_error *)
| AReserve            (* vec.reserve(...) *)
| APush               (* vec.push_back(t_f) *)
| ASort               (* std::stable_sort(vec.begin(), vec.end(), &function_less_than) *)
| AAssignNewShared    (* itr->second = std::make_shared<std::vector<Proxy_Function>>(vec) *)
| APushShared         (* itr->second->push_back(t_f)       mutation through the shared pointer *)
| ASortShared         (* std::stable_sort(itr->second->begin(), ...) *)
| AReturnDispatch     (* return std::make_shared<Dispatch_Function>(std::move(vec)) *)
| AReturnDispatchShared. (* return std::make_shared<Dispatch_Function>( *itr->second)   a copy of the shared vector *)

Record engine_desc := mkDesc {
  d_exists_branch : list astmt;
  d_tail : list efield;                 (* tables that receive the new function object by insert_or_assign *)
  d_get_e : list efield; d_set_e : list efield;      (* Dispatch_Engine::get_state / set_state *)
  d_get_c : list cfield; d_set_c : list cfield }.    (* ChaiScript_Basic::get_state / set_state *)

Definition canonical_exists_branch : list astmt :=
  [ACopyVec; AConflictCheck; AReserve; APush; ASort; AAssignNewShared; AReturnDispatch].

Definition efield_eqb (a b : efield) : bool :=
  match a, b with
  | EFunctions, EFunctions | EFunctionObjects, EFunctionObjects | EBoxed, EBoxed | EGlobals, EGlobals | ETypes, ETypes => true
  | _, _ => false
  end.
Definition cfield_eqb (a b : cfield) : bool :=
  match a, b with CUsed, CUsed | CEngine, CEngine | CMods, CMods => true | _, _ => false end.
Definition astmt_eqb (a b : astmt) : bool :=
  match a, b with
  | ACopyVec, ACopyVec | ARefVec, ARefVec | AConflictCheck, AConflictCheck | AReserve, AReserve | APush, APush | ASort, ASort
  | AAssignNewShared, AAssignNewShared | APushShared, APushShared | ASortShared, ASortShared | AReturnDispatch, AReturnDispatch
  | AReturnDispatchShared, AReturnDispatchShared => true
  | _, _ => false
  end.
Definition hasE (f : efield) (l : list efield) : bool := existsb (efield_eqb f) l.
Definition hasC (f : cfield) (l : list cfield) : bool := existsb (cfield_eqb f) l.
Fixpoint astmts_eqb (a b : list astmt) : bool :=
  match a, b with
  | [], [] => true
  | x :: r, y :: s => astmt_eqb x y && astmts_eqb r s
  | _, _ => false
  end.

Definition all_efields := [EFunctions; EFunctionObjects; EBoxed; EGlobals; ETypes].
Definition all_cfields := [CUsed; CEngine; CMods].

(* the description under which the theorems hold *)
Definition desc_ok (d : engine_desc) : bool :=
  astmts_eqb (d_exists_branch d) canonical_exists_branch
  && hasE EBoxed (d_tail d) && hasE EFunctionObjects (d_tail d)
  && forallb (fun f => hasE f (d_get_e d) && hasE f (d_set_e d)) all_efields
  && forallb (fun f => hasC f (d_get_c d) && hasC f (d_set_c d)) all_cfields.

Record tabs := mkTabs {
  t_functions : list (string * nat);     (* name -> address of the shared overload vector *)
  t_fobjs : list (string * fobj);        (* m_function_objects *)
  t_boxed : list (string * fobj) }.      (* m_boxed_functions *)
Record esnap := mkE { es_tabs : tabs; es_rest : rest }.                                   (* Dispatch_Engine::State *)
Record msnap := mkSn { sn_used : list string; sn_engine : esnap; sn_mods : list string }. (* ChaiScript_Basic::State *)
Definition heap := list (list fdesc).
Record mstate := mkM { m_heap : heap; m_live : msnap; m_amb : ambient; m_snaps : list msnap }.

Definition cell (h : heap) (a : nat) : list fdesc := nth a h [].

(* --- interpretation of the exists-branch *)
Record aframe := mkFr { fr_heap : heap; fr_ptr : nat; fr_local : list fdesc; fr_ref : bool; fr_ret : option fobj }.
Definition fr_vec (fr : aframe) : list fdesc := if fr_ref fr then cell (fr_heap fr) (fr_ptr fr) else fr_local fr.
Definition fr_set_vec (fr : aframe) (v : list fdesc) : aframe :=
  if fr_ref fr then mkFr (set_nth (fr_ptr fr) v (fr_heap fr)) (fr_ptr fr) (fr_local fr) true (fr_ret fr)
  else mkFr (fr_heap fr) (fr_ptr fr) v false (fr_ret fr).

(* None = name_conflict_error thrown (the frame's heap so far is kept) *)
Definition astep (f : fdesc) (fr : aframe) (s : astmt) : aframe * bool :=
  match s with
  | ACopyVec => (mkFr (fr_heap fr) (fr_ptr fr) (cell (fr_heap fr) (fr_ptr fr)) false (fr_ret fr), true)
  | ARefVec => (mkFr (fr_heap fr) (fr_ptr fr) [] true (fr_ret fr), true)
  | AConflictCheck => (fr, negb (existsb (conflict f) (fr_vec fr)))
  | AReserve => (fr, true)
  | APush => (fr_set_vec fr (fr_vec fr ++ [f]), true)
  | ASort => (fr_set_vec fr (sortv (fr_vec fr)), true)
  | AAssignNewShared => (mkFr (fr_heap fr ++ [fr_vec fr]) (List.length (fr_heap fr)) (fr_local fr) (fr_ref fr) (fr_ret fr), true)
  | APushShared =>
      (mkFr (set_nth (fr_ptr fr) (cell (fr_heap fr) (fr_ptr fr) ++ [f]) (fr_heap fr)) (fr_ptr fr) (fr_local fr) (fr_ref fr) (fr_ret fr), true)
  | ASortShared =>
      (mkFr (set_nth (fr_ptr fr) (sortv (cell (fr_heap fr) (fr_ptr fr))) (fr_heap fr)) (fr_ptr fr) (fr_local fr) (fr_ref fr) (fr_ret fr), true)
  | AReturnDispatch =>
      (* std::move(vec): a reference to the shared vector is emptied by the move *)
      let v := fr_vec fr in
      let fr' := if fr_ref fr then fr_set_vec fr [] else fr in
      (mkFr (fr_heap fr') (fr_ptr fr') (fr_local fr') (fr_ref fr') (Some (FDispatch v)), true)
  | AReturnDispatchShared =>
      (mkFr (fr_heap fr) (fr_ptr fr) (fr_local fr) (fr_ref fr) (Some (FDispatch (cell (fr_heap fr) (fr_ptr fr)))), true)
  end.
Fixpoint arun (f : fdesc) (fr : aframe) (l : list astmt) : aframe * bool :=
  match l with
  | [] => (fr, true)
  | s :: t => let (fr', ok) := astep f fr s in if ok then arun f fr' t else (fr', false)
  end.

Definition tail_update (d : engine_desc) (n : string) (o : fobj) (t : tabs) (fns : list (string * nat)) : tabs :=
  mkTabs fns
         (if hasE EFunctionObjects (d_tail d) then assign n o (t_fobjs t) else t_fobjs t)
         (if hasE EBoxed (d_tail d) then assign n o (t_boxed t) else t_boxed t).

(* Dispatch_Engine::add_function *)
Definition madd (d : engine_desc) (ht : heap * tabs) (n : string) (f : fdesc) : (heap * tabs) * outcome :=
  let (h, t) := ht in
  match lookup n (t_functions t) with
  | Some a =>
      let (fr, ok) := arun f (mkFr h a [] false None) (d_exists_branch d) in
      if ok then
        match fr_ret fr with
        | Some o => ((fr_heap fr, tail_update d n o t (assign n (fr_ptr fr) (t_functions t))), Ok)
        | None => ((fr_heap fr, mkTabs (assign n (fr_ptr fr) (t_functions t)) (t_fobjs t) (t_boxed t)), Ok)
        end
      else ((fr_heap fr, t), Conflict)
  | None =>
      ((h ++ [[f]], tail_update d n (wrap [f]) t (t_functions t ++ [(n, List.length h)])), Ok)
  end.

Definition empty_tabs := mkTabs [] [] [].
Definition empty_esnap := mkE empty_tabs empty_rest.
Definition pick {A : Type} (b : bool) (x y : A) : A := if b then x else y.

(* Dispatch_Engine::get_state: a State object whose copied fields are those of d_get_e *)
Definition eget (d : engine_desc) (e : esnap) : esnap :=
  let g := d_get_e d in
  mkE (mkTabs (pick (hasE EFunctions g) (t_functions (es_tabs e)) [])
              (pick (hasE EFunctionObjects g) (t_fobjs (es_tabs e)) [])
              (pick (hasE EBoxed g) (t_boxed (es_tabs e)) []))
      (mkRest (pick (hasE EGlobals g) (r_globals (es_rest e)) []) (pick (hasE ETypes g) (r_types (es_rest e)) [])).
Definition eset (d : engine_desc) (live s : esnap) : esnap :=
  let g := d_set_e d in
  mkE (mkTabs (pick (hasE EFunctions g) (t_functions (es_tabs s)) (t_functions (es_tabs live)))
              (pick (hasE EFunctionObjects g) (t_fobjs (es_tabs s)) (t_fobjs (es_tabs live)))
              (pick (hasE EBoxed g) (t_boxed (es_tabs s)) (t_boxed (es_tabs live))))
      (mkRest (pick (hasE EGlobals g) (r_globals (es_rest s)) (r_globals (es_rest live)))
              (pick (hasE ETypes g) (r_types (es_rest s)) (r_types (es_rest live)))).
(* ChaiScript_Basic::get_state / set_state *)
Definition cget (d : engine_desc) (l : msnap) : msnap :=
  mkSn (pick (hasC CUsed (d_get_c d)) (sn_used l) [])
       (pick (hasC CEngine (d_get_c d)) (eget d (sn_engine l)) empty_esnap)
       (pick (hasC CMods (d_get_c d)) (sn_mods l) []).
Definition cset (d : engine_desc) (l s : msnap) : msnap :=
  mkSn (pick (hasC CUsed (d_set_c d)) (sn_used s) (sn_used l))
       (pick (hasC CEngine (d_set_c d)) (eset d (sn_engine l) (sn_engine s)) (sn_engine l))
       (pick (hasC CMods (d_set_c d)) (sn_mods s) (sn_mods l)).

Definition m_core (st : mstate) : (heap * tabs) * rest * ambient :=
  ((m_heap st, es_tabs (sn_engine (m_live st))), es_rest (sn_engine (m_live st)), m_amb st).
Definition m_with (st : mstate) (c : (heap * tabs) * rest * ambient) (used mods : list string) : mstate :=
  let '((h, t), r, a) := c in mkM h (mkSn used (mkE t r) mods) a (m_snaps st).

Definition mstep (d : engine_desc) (w : world) (st : mstate) (o : op) : mstate * outcome :=
  let l := m_live st in
  match o with
  | OScript s => let (c, oc) := run_script (madd d) (m_core st) s in (m_with st c (sn_used l) (sn_mods l), oc)
  | OUse f =>
      match lookup f (w_files w) with
      | None => (st, FileNotFound)
      | Some s =>
          if mem f (sn_used l) then (st, Skipped)
          else
            let '(ht, r, a) := m_core st in
            let (c, oc) := run_script (madd d) (ht, r, log_eval f a) (map (regen (next_gen a)) s) in
            if is_ok oc then (m_with st c (add_set f (sn_used l)) (sn_mods l), Ok)
            else (m_with st c (sn_used l) (sn_mods l), oc)
      end
  | OModule m =>
      match lookup m (w_mods w) with
      | None => (st, FileNotFound)
      | Some mc =>
          if mem m (sn_mods l) then (st, Skipped)
          else (m_with st (run_module (madd d) (m_core st) (mod_ops mc)) (sn_used l) (add_set m (sn_mods l)), Ok)
      end
  | OLocal n v => (mkM (m_heap st) l (set_local n v (m_amb st)) (m_snaps st), Ok)
  | OGet => (mkM (m_heap st) l (m_amb st) (m_snaps st ++ [cget d l]), Ok)
  | OSet k =>
      match nth_error (m_snaps st) k with
      | None => (st, BadSnapshot)
      | Some s => (mkM (m_heap st) (cset d l s) (m_amb st) (m_snaps st), Ok)
      end
  end.

Definition m_init : mstate := mkM [] (mkSn [] empty_esnap []) empty_amb [].
Fixpoint mrun (d : engine_desc) (w : world) (st : mstate) (h : list op) : mstate :=
  match h with [] => st | o :: t => mrun d w (fst (mstep d w st o)) t end.

(* ---------------------------------------------------------------- abstraction *)
Definition deref (h : heap) (fns : list (string * nat)) : dict := map (fun e => (fst e, cell h (snd e))) fns.
Definition abs_snap (h : heap) (s : msnap) : env :=
  mkEnv (deref h (t_functions (es_tabs (sn_engine s)))) (es_rest (sn_engine s)) (sn_used s) (sn_mods s).
Definition abs (st : mstate) : sstate :=
  mkS (abs_snap (m_heap st) (m_live st)) (m_amb st) (map (abs_snap (m_heap st)) (m_snaps st)).

(* the three function tables of one State object are in step (relative to a heap) *)
Definition wrapped (h : heap) (fns : list (string * nat)) : list (string * fobj) := map (fun e => (fst e, wrap (cell h (snd e)))) fns.
Definition tabs_in_step (h : heap) (t : tabs) : Prop :=
  t_fobjs t = wrapped h (t_functions t) /\ t_boxed t = wrapped h (t_functions t) /\
  Forall (fun e => snd e < List.length h /\ cell h (snd e) <> []) (t_functions t) /\
  NoDup (map fst (t_functions t)).

(* add_function with the copy-on-write branch, in closed form *)
Definition madd_cow (ht : heap * tabs) (n : string) (f : fdesc) : (heap * tabs) * outcome :=
  let (h, t) := ht in
  match lookup n (t_functions t) with
  | Some a =>
      if existsb (conflict f) (cell h a) then ((h, t), Conflict)
      else let v := sortv (cell h a ++ [f]) in
           ((h ++ [v], mkTabs (assign n (List.length h) (t_functions t)) (assign n (FDispatch v) (t_fobjs t)) (assign n (FDispatch v) (t_boxed t))), Ok)
  | None =>
      ((h ++ [[f]], mkTabs (t_functions t ++ [(n, List.length h)]) (assign n (wrap [f]) (t_fobjs t)) (assign n (wrap [f]) (t_boxed t))), Ok)
  end.

(* invariant of the mechanism: the live tables and every snapshot are in step over the current heap *)
Definition inv (st : mstate) : Prop :=
  tabs_in_step (m_heap st) (es_tabs (sn_engine (m_live st))) /\
  Forall (fun s => tabs_in_step (m_heap st) (es_tabs (sn_engine s))) (m_snaps st).

(* what the theorems talk about: the dictionary a mechanism state denotes, and the one a saved state denotes now *)
Definition menv (st : mstate) : env := abs_snap (m_heap st) (m_live st).
Definition msnap_env (st : mstate) (k : nat) : option env := option_map (abs_snap (m_heap st)) (nth_error (m_snaps st) k).
Definition moutcome (d : engine_desc) (w : world) (st : mstate) (o : op) : outcome := snd (mstep d w st o).
(* statements that add a name to the environment *)
Definition is_add (s : sop) : bool :=
  match s with SDef _ _ | SAddGlobal _ _ | SAddType _ _ => true | _ => false end.

(* ---------------------------------------------------------------- calling a function *)
Inductive cres := RId (n : nat) | RObj | RErr.
Definition is_cpp (f : fdesc) : bool := match f_kind f with KCpp _ => true | _ => false end.
Definition call_one (f : fdesc) (args : list nat) : option cres :=
  if negb (Nat.eqb (f_arity f) (List.length args)) then None
  else match f_kind f with
       | KDyn => match f_guard f with
                 | None => Some (RId (f_site f))
                 | Some g => match args with a :: _ => if Nat.eqb a g then Some (RId (f_site f)) else None | [] => None end
                 end
       | KCpp _ => Some (RId (f_site f))
       | KCtor _ => Some RObj
       | KAttr _ | KMethod _ => None      (* an int is not an object of the class *)
       end.
Fixpoint first_some (l : list fdesc) (args : list nat) : cres :=
  match l with
  | [] => RErr
  | f :: r => match call_one f args with Some x => x | None => first_some r args end
  end.
(* dispatch::dispatch with int arguments: exact-typed C++ overloads first, then vector order *)
Definition dispatch (vec : list fdesc) (args : list nat) : cres :=
  match args with
  | [] => first_some vec args
  | _ => first_some (filter is_cpp vec ++ filter (fun f => negb (is_cpp f)) vec) args
  end.

(* ---------------------------------------------------------------- reading the regenerated description *)
Definition efield_of_string (s : string) : option efield :=
  if String.eqb s "m_functions" then Some EFunctions
  else if String.eqb s "m_function_objects" then Some EFunctionObjects
  else if String.eqb s "m_boxed_functions" then Some EBoxed
  else if String.eqb s "m_global_objects" then Some EGlobals
  else if String.eqb s "m_types" then Some ETypes
  else None.
(* get_state:  s.<field> = <source>  *)
Definition cfield_of_get (p : string * string) : option cfield :=
  let (f, src) := p in
  if String.eqb f "used_files" && String.eqb src "m_used_files" then Some CUsed
  else if String.eqb f "engine_state" && String.eqb src "m_engine.get_state()" then Some CEngine
  else if String.eqb f "active_loaded_modules" && String.eqb src "m_active_loaded_modules" then Some CMods
  else None.
(* set_state:  <member> = t_state.<field>   /   m_engine.set_state(t_state.<field>) *)
Definition cfield_of_set (p : string * string) : option cfield :=
  let (m, f) := p in
  if String.eqb m "m_used_files" && String.eqb f "used_files" then Some CUsed
  else if String.eqb m "m_engine" && String.eqb f "engine_state" then Some CEngine
  else if String.eqb m "m_active_loaded_modules" && String.eqb f "active_loaded_modules" then Some CMods
  else None.
Fixpoint filter_map {A B : Type} (f : A -> option B) (l : list A) : list B :=
  match l with
  | [] => []
  | x :: r => match f x with Some y => y :: filter_map f r | None => filter_map f r end
  end.
Definition mk_desc (branch : list astmt) (tail eg es : list string) (cg cs : list (string * string)) : engine_desc :=
  mkDesc branch (filter_map efield_of_string tail) (filter_map efield_of_string eg) (filter_map efield_of_string es)
         (filter_map cfield_of_get cg) (filter_map cfield_of_set cs).

(* members of the two classes that are deliberately not part of a State (documented at ChaiScript_Basic::State:
   conversions are left out; locals are per thread; the rest is configuration, locks, caches) *)
Definition engine_members_outside_state : list string :=
  ["m_mutex"; "m_conversions"; "m_stack_holder"; "m_parser"; "m_method_missing_loc"]%string.
Definition chai_members_outside_state : list string :=
  ["m_mutex"; "m_use_mutex"; "m_loaded_modules"; "m_module_paths"; "m_use_paths"; "m_parser"; "m_namespace_generators"]%string.
Definition chai_members_saved : list string := ["m_used_files"; "m_active_loaded_modules"; "m_engine"]%string.
Definition chai_state_fields_known : list string := ["used_files"; "engine_state"; "active_loaded_modules"]%string.

Definition is_some {A : Type} (o : option A) : bool := match o with Some _ => true | None => false end.

(* every table of the live engine is a field of State that the model knows, is copied out by get_state and
   back by set_state; every other data member is one of the documented exclusions *)
Definition fields_complete (efields emembers eg es cfields cmembers : list string) (cg cs : list (string * string)) : bool :=
  forallb (fun s => is_some (efield_of_string s)) efields
  && forallb (fun f => hasE f (filter_map efield_of_string efields)) all_efields
  && forallb (fun s => mem s eg && mem s es) efields
  && mem "m_state"%string emembers
  && forallb (fun m => String.eqb m "m_state" || mem m engine_members_outside_state) emembers
  && forallb (fun s => mem s chai_state_fields_known) cfields
  && forallb (fun s => mem s cfields) chai_state_fields_known
  && forallb (fun f => hasC f (filter_map cfield_of_get cg) && hasC f (filter_map cfield_of_set cs)) all_cfields
  && forallb (fun m => mem m chai_members_saved || mem m chai_members_outside_state) cmembers
  && forallb (fun m => mem m cmembers) chai_members_saved.
