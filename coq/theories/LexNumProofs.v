(* C16_int at the level of Num(): running the scanners of LexDefs on a buffer that is exactly an integer literal. *)
From Coq Require Import ZArith NArith List Bool String Lia Arith.
From ChaiV Require Import NumDefs LexDefs CxxLiteral LexProofs LexLitProofs LexTheorems.
From ChaiV.Gen Require Import G_IntLadder G_Keywords.
Import ListNotations.
Local Open Scope Z_scope.

(* ------------------------------------------------------------------ the regenerated alphabets, as predicates on all of N *)
Definition bytes256 : list N := map N.of_nat (seq 0 256).
Lemma in_bytes256 c : (c < 256)%N -> In c bytes256.
Proof.
  intros H. unfold bytes256. apply in_map_iff. exists (N.to_nat c). split; [apply N2Nat.id|].
  apply in_seq. lia.
Qed.
Lemma in_alpha_In l c : in_alpha l c = true <-> In c l.
Proof.
  unfold in_alpha. rewrite existsb_exists. split.
  - intros (x & Hx & E). apply N.eqb_eq in E. subst. exact Hx.
  - intros H. exists c. split; [exact H|apply N.eqb_refl].
Qed.
Lemma in_alpha_char (l : list N) (f : N -> bool) :
  forallb (fun c => Bool.eqb (in_alpha l c) (f c)) bytes256 = true ->
  forallb (fun c => (c <? 256)%N) l = true ->
  (forall c, (256 <= c)%N -> f c = false) ->
  forall c, in_alpha l c = f c.
Proof.
  intros H1 H2 H3 c. destruct (N.ltb_spec c 256) as [L|L].
  - rewrite forallb_forall in H1. specialize (H1 c (in_bytes256 c L)). apply Bool.eqb_prop in H1. exact H1.
  - rewrite (H3 c L). destruct (in_alpha l c) eqn:E; [|reflexivity]. apply in_alpha_In in E.
    rewrite forallb_forall in H2. specialize (H2 c E). apply N.ltb_lt in H2. lia.
Qed.

Definition is_decd (c : N) : bool := (48 <=? c)%N && (c <=? 57)%N.
Definition one_of (l : list N) (c : N) : bool := existsb (N.eqb c) l.
Ltac alpha_tac := apply in_alpha_char; [vm_compute; reflexivity|vm_compute; reflexivity|].
Lemma big_not c (l : list N) : (256 <= c)%N -> forallb (fun x => (x <? 256)%N) l = true -> one_of l c = false.
Proof.
  intros H Hl. unfold one_of. destruct (existsb (N.eqb c) l) eqn:E; [|reflexivity].
  apply existsb_exists in E. destruct E as (x & Hx & E). apply N.eqb_eq in E. subst x.
  rewrite forallb_forall in Hl. specialize (Hl c Hx). apply N.ltb_lt in Hl. lia.
Qed.

Lemma alpha_int c : in_alpha (a_int A) c = is_decd c.
Proof. revert c. alpha_tac. intros c H. unfold is_decd. destruct (N.leb_spec c 57); [lia|]. apply andb_false_r. Qed.
Lemma alpha_hex c : in_alpha (a_hex A) c = is_hexd c.
Proof.
  revert c. alpha_tac. intros c H. unfold is_hexd, cxx_digit.
  destruct (N.leb_spec c 57); [lia|]. rewrite andb_false_r. destruct (N.leb_spec c 102); [lia|]. rewrite andb_false_r.
  destruct (N.leb_spec c 70); [lia|]. rewrite andb_false_r. reflexivity.
Qed.
Lemma alpha_bin c : in_alpha (a_bin A) c = one_of [48; 49]%N c.
Proof. revert c. alpha_tac. intros c H. apply big_not; [exact H|reflexivity]. Qed.
Lemma alpha_x c : in_alpha (a_x A) c = one_of [120; 88]%N c.
Proof. revert c. alpha_tac. intros c H. apply big_not; [exact H|reflexivity]. Qed.
Lemma alpha_b c : in_alpha (a_b A) c = one_of [98; 66]%N c.
Proof. revert c. alpha_tac. intros c H. apply big_not; [exact H|reflexivity]. Qed.
Lemma alpha_int_suffix c : in_alpha (a_int_suffix A) c = one_of [108; 76; 117; 85]%N c.
Proof. revert c. alpha_tac. intros c H. apply big_not; [exact H|reflexivity]. Qed.
Lemma alpha_white c : in_alpha (a_white A) c = one_of [32; 9]%N c.
Proof. revert c. alpha_tac. intros c H. apply big_not; [exact H|reflexivity]. Qed.
Lemma alpha_float c : in_alpha (a_float A) c = (is_decd c || (c =? 46)%N).
Proof.
  revert c. alpha_tac. intros c H. unfold is_decd. destruct (N.leb_spec c 57); [lia|]. rewrite andb_false_r.
  destruct (N.eqb_spec c 46); [lia|reflexivity].
Qed.

Lemma bind_ok {U X Y} (m : M U X) (k : X -> M U Y) s a s' : m s = Ok (a, s') -> bind m k s = k a s'.
Proof. intros H. unfold bind. rewrite H. reflexivity. Qed.

Section Scan.
  Context {U : Type}.
  Variables (b : list N) (d : nat) (u : U).
  Hypothesis Hnl : Forall (fun c => c <> NL) b.

  Definition P (i : nat) : Position := mkPos b i 1 (1 + Z.of_nat i) 1.
  Definition St (i : nat) : state U := mkState (P i) d u.

  Lemma nth_not_nl i : (i < List.length b)%nat -> nth i b 0%N <> NL.
  Proof. intros H. rewrite Forall_forall in Hnl. apply Hnl. apply nth_In. exact H. Qed.
  Lemma has_more_P i : has_more (P i) = Nat.ltb i (List.length b).
  Proof. reflexivity. Qed.
  Lemma deref_P i : (i < List.length b)%nat -> deref (P i) = nth i b 0%N.
  Proof. intros H. unfold deref. rewrite has_more_P. apply Nat.ltb_lt in H. rewrite H. reflexivity. Qed.
  Lemma deref_P_end i : (List.length b <= i)%nat -> deref (P i) = 0%N.
  Proof. intros H. unfold deref. rewrite has_more_P. apply Nat.ltb_ge in H. rewrite H. reflexivity. Qed.
  Lemma inc_P i : (i < List.length b)%nat -> pos_inc (P i) = P (S i).
  Proof.
    intros H. unfold pos_inc. rewrite has_more_P. pose proof H as H'. apply Nat.ltb_lt in H'. rewrite H'. cbn [idx buf P].
    pose proof (nth_not_nl i H) as Hn. apply N.eqb_neq in Hn. rewrite Hn. unfold P. cbn [line col last_col buf idx]. f_equal. lia.
  Qed.
  Lemma dec_P i : (i < List.length b)%nat -> pos_dec (P (S i)) = Some (P i).
  Proof.
    intros H. unfold pos_dec. cbn [idx buf P]. pose proof (nth_not_nl i H) as Hn. apply N.eqb_neq in Hn. rewrite Hn.
    unfold P. cbn [line col last_col buf idx]. f_equal. f_equal. lia.
  Qed.

  Lemma run_inc i : (i < List.length b)%nat -> inc (St i) = Ok (tt, St (S i)).
  Proof. intros H. unfold inc, St. cbn [pos depth user]. rewrite inc_P by exact H. reflexivity. Qed.
  Lemma run_dec i : (i < List.length b)%nat -> dec (St (S i)) = Ok (tt, St i).
  Proof. intros H. unfold dec, St. cbn [pos depth user]. rewrite dec_P by exact H. reflexivity. Qed.
  Lemma run_at_alpha a i : @at_alpha U a (St i) = Ok (has_more (P i) && in_alpha a (deref (P i)), St i).
  Proof. reflexivity. Qed.
  Lemma run_at_char f i : @at_char U f (St i) = Ok (has_more (P i) && f (deref (P i)), St i).
  Proof. reflexivity. Qed.
  Lemma run_get_pos i : @get_pos U (St i) = Ok (P i, St i).
  Proof. reflexivity. Qed.

  (* skip_while over a run of n matching bytes *)
  Lemma body_go a i : (i < List.length b)%nat -> in_alpha a (nth i b 0%N) = true ->
    skip_while_body a tt (St i) = Ok ((tt, true), St (S i)).
  Proof.
    intros Hi Ha. unfold skip_while_body. rewrite (bind_ok _ _ _ _ _ (run_get_pos i)).
    rewrite has_more_P. pose proof Hi as Hi'. apply Nat.ltb_lt in Hi'. rewrite Hi', deref_P, Ha by exact Hi. cbn [andb].
    rewrite (bind_ok _ _ _ _ _ (run_inc i Hi)). reflexivity.
  Qed.
  Lemma body_stop a i : ((List.length b <= i)%nat \/ in_alpha a (nth i b 0%N) = false) ->
    skip_while_body a tt (St i) = Ok ((tt, false), St i).
  Proof.
    intros H. unfold skip_while_body. rewrite (bind_ok _ _ _ _ _ (run_get_pos i)).
    destruct (has_more (P i)) eqn:Hm; [|reflexivity]. rewrite has_more_P in Hm. apply Nat.ltb_lt in Hm.
    destruct H as [H|H]; [lia|]. rewrite deref_P, H by exact Hm. reflexivity.
  Qed.
  Lemma while_skip a : forall n i fuel,
    (n < fuel)%nat -> (i + n <= List.length b)%nat ->
    (forall k, (k < n)%nat -> in_alpha a (nth (i + k) b 0%N) = true) ->
    ((i + n = List.length b)%nat \/ in_alpha a (nth (i + n) b 0%N) = false) ->
    while_ fuel (skip_while_body a) tt (St i) = Ok (tt, St (i + n)).
  Proof.
    induction n as [|n IH]; intros i fuel Hf Hlen Hrun Hstop; (destruct fuel as [|f]; [lia|]); cbn [while_].
    - rewrite Nat.add_0_r in *. rewrite (bind_ok _ _ _ _ _ (body_stop a i ltac:(destruct Hstop; [left; lia|right; assumption]))). reflexivity.
    - assert (Hi : (i < List.length b)%nat) by lia.
      pose proof (Hrun 0%nat ltac:(lia)) as H0. rewrite Nat.add_0_r in H0.
      rewrite (bind_ok _ _ _ _ _ (body_go a i Hi H0)). cbn [snd fst].
      replace (i + S n)%nat with (S i + n)%nat by lia. apply IH; try lia.
      + intros k Hk. replace (S i + k)%nat with (i + S k)%nat by lia. apply Hrun. lia.
      + replace (S i + n)%nat with (i + S n)%nat by lia. exact Hstop.
  Qed.
  Lemma run_skip_while a n i :
    (i + n <= List.length b)%nat ->
    (forall k, (k < n)%nat -> in_alpha a (nth (i + k) b 0%N) = true) ->
    ((i + n = List.length b)%nat \/ in_alpha a (nth (i + n) b 0%N) = false) ->
    skip_while a (St i) = Ok (tt, St (i + n)).
  Proof.
    intros Hlen Hrun Hstop. unfold skip_while, loop. apply while_skip; auto.
    unfold remaining. cbn [pos St P buf idx]. lia.
  Qed.

  Lemma Symbol_mismatch s0 sym i :
    (i < List.length b)%nat -> nth i b 0%N <> s0 -> @Symbol_ U (s0 :: sym) (St i) = Ok (false, St i).
  Proof.
    intros Hi Hne. unfold Symbol_. rewrite (bind_ok _ _ _ _ _ (run_get_pos i)).
    destruct (Nat.leb _ _); [|reflexivity]. cbn [sym_match]. unfold raw_at. cbn [P buf idx]. rewrite Nat.add_0_r.
    rewrite (nth_error_nth' b 0%N Hi). assert (E : N.eqb s0 (nth i b 0%N) = false) by (apply N.eqb_neq; congruence). rewrite E. reflexivity.
  Qed.
  Lemma SkipComment_none i :
    (i < List.length b)%nat -> nth i b 0%N <> 47%N -> nth i b 0%N <> 35%N -> @SkipComment U (St i) = Ok (false, St i).
  Proof.
    intros Hi H47 H35. unfold SkipComment.
    rewrite (bind_ok _ _ _ _ _ (Symbol_mismatch 47%N [42%N] i Hi H47)).
    rewrite (bind_ok _ _ _ _ _ (Symbol_mismatch 47%N [47%N] i Hi H47)).
    rewrite (bind_ok _ _ _ _ _ (Symbol_mismatch 35%N [] i Hi H35)). reflexivity.
  Qed.
  Lemma SkipWS_none i :
    (i < List.length b)%nat -> is_decd (nth i b 0%N) = true -> @SkipWS U A false (St i) = Ok (false, St i).
  Proof.
    intros Hi Hd. unfold is_decd in Hd. apply andb_prop in Hd. destruct Hd as [H1 H2]. apply N.leb_le in H1, H2.
    assert (Hb : skipws_body A false false (St i) = Ok ((false, false), St i)).
    { unfold skipws_body. rewrite (bind_ok _ _ _ _ _ (run_get_pos i)).
      rewrite has_more_P. pose proof Hi as Hi'. apply Nat.ltb_lt in Hi'. rewrite Hi'. rewrite deref_P by exact Hi.
      destruct (N.ltb_spec 126 (nth i b 0%N)); [lia|]. rewrite alpha_white.
      assert (Ew : one_of [32; 9]%N (nth i b 0%N) = false).
      { unfold one_of. cbn [existsb]. destruct (N.eqb_spec (nth i b 0%N) 32); [lia|]. destruct (N.eqb_spec (nth i b 0%N) 9); [lia|]. reflexivity. }
      rewrite Ew. cbn [andb orb].
      rewrite (bind_ok _ _ _ _ _ (SkipComment_none i Hi ltac:(lia) ltac:(lia))). reflexivity. }
    unfold SkipWS, loop. cbn [while_]. rewrite (bind_ok _ _ _ _ _ Hb). reflexivity.
  Qed.
End Scan.

(* ------------------------------------------------------------------ character facts *)
Definition sfx_char (c : N) : bool := one_of [108; 76; 117; 85]%N c.
Lemma sfx_char_cases c : sfx_char c = true -> c = 108%N \/ c = 76%N \/ c = 117%N \/ c = 85%N.
Proof.
  unfold sfx_char, one_of. cbn [existsb]. intros H.
  destruct (N.eqb_spec c 108); [auto|]. destruct (N.eqb_spec c 76); [auto|].
  destruct (N.eqb_spec c 117); [auto|]. destruct (N.eqb_spec c 85); [auto|]. discriminate.
Qed.
Lemma cxx_digit_ge48 base c : cxx_digit base c <> None -> base <= 16 -> (48 <= c)%N /\ c <> NL.
Proof.
  intros H Hb. unfold cxx_digit in H.
  destruct (N.leb_spec 48 c); [split; [assumption|intros ->; unfold NL in *; lia]|]. exfalso. apply H.
  cbn [andb]. destruct (N.leb_spec 97 c); [lia|]. destruct (N.leb_spec 65 c); [lia|]. cbn [andb].
  destruct (Z.ltb_spec 99 base); [lia|reflexivity].
Qed.
Lemma cxx_digit_dec base c : cxx_digit base c <> None -> base <= 10 -> is_decd c = true.
Proof.
  intros H Hb. unfold cxx_digit, is_decd in *. destruct ((48 <=? c)%N && (c <=? 57)%N); [reflexivity|]. exfalso. apply H.
  destruct ((97 <=? c)%N && (c <=? 102)%N) eqn:E1.
  - apply andb_prop in E1. destruct E1 as [E1 E2]. apply N.leb_le in E1, E2. destruct (Z.ltb_spec (Z.of_N c - 87) base); [lia|reflexivity].
  - destruct ((65 <=? c)%N && (c <=? 70)%N) eqn:E2.
    + apply andb_prop in E2. destruct E2 as [E2 E3]. apply N.leb_le in E2, E3. destruct (Z.ltb_spec (Z.of_N c - 55) base); [lia|reflexivity].
    + destruct (Z.ltb_spec 99 base); [lia|reflexivity].
Qed.
Lemma cxx_digit_bin c : cxx_digit 2 c <> None -> one_of [48; 49]%N c = true.
Proof.
  intros H. pose proof (cxx_digit_dec 2 c H ltac:(lia)) as Hd. unfold is_decd in Hd. apply andb_prop in Hd. destruct Hd as [H1 H2]. apply N.leb_le in H1, H2.
  unfold cxx_digit in H. rewrite (proj2 (N.leb_le 48 c) H1), (proj2 (N.leb_le c 57) H2) in H. cbn [andb] in H.
  destruct (Z.ltb_spec (Z.of_N c - 48) 2); [|congruence].
  unfold one_of. cbn [existsb]. destruct (N.eqb_spec c 48); [reflexivity|]. destruct (N.eqb_spec c 49); [reflexivity|]. lia.
Qed.

Lemma suffix_chars sfx u l : cxx_suffix sfx = Some (u, l) -> Forall (fun c => sfx_char c = true) sfx.
Proof.
  intros H. apply cxx_suffix_enum in H. revert H.
  assert (G : Forall (fun e => Forall (fun c => sfx_char c = true) (fst e)) suffix_table) by (vm_compute; repeat constructor).
  rewrite Forall_forall in G. intros H. apply (G _ H).
Qed.

Section ScanNum.
  Context {U : Type}.
  Variables (b : list N) (d : nat) (u : U).
  Hypothesis Hnl : Forall (fun c => c <> NL) b.
  Local Notation St := (@St U b d u).
  Local Notation P := (P b).

  Lemma at_alpha_true a i : (i < List.length b)%nat -> in_alpha a (nth i b 0%N) = true -> @at_alpha U a (St i) = Ok (true, St i).
  Proof. intros Hi Ha. rewrite run_at_alpha, has_more_P, deref_P by exact Hi. apply Nat.ltb_lt in Hi. rewrite Hi, Ha. reflexivity. Qed.
  Lemma at_alpha_false a i : ((List.length b <= i)%nat \/ in_alpha a (nth i b 0%N) = false) -> @at_alpha U a (St i) = Ok (false, St i).
  Proof.
    intros H. rewrite run_at_alpha, has_more_P. destruct (Nat.ltb i (List.length b)) eqn:E; [|reflexivity].
    apply Nat.ltb_lt in E. destruct H as [H|H]; [lia|]. rewrite deref_P, H by exact E. reflexivity.
  Qed.
  Lemma at_char_true f i : (i < List.length b)%nat -> f (nth i b 0%N) = true -> @at_char U f (St i) = Ok (true, St i).
  Proof. intros Hi Ha. rewrite run_at_char, has_more_P, deref_P by exact Hi. apply Nat.ltb_lt in Hi. rewrite Hi, Ha. reflexivity. Qed.
  Lemma at_char_false f i : ((List.length b <= i)%nat \/ f (nth i b 0%N) = false) -> @at_char U f (St i) = Ok (false, St i).
  Proof.
    intros H. rewrite run_at_char, has_more_P. destruct (Nat.ltb i (List.length b)) eqn:E; [|reflexivity].
    apply Nat.ltb_lt in E. destruct H as [H|H]; [lia|]. rewrite deref_P, H by exact E. reflexivity.
  Qed.

  Lemma prefixed_no_zero letter digits i :
    ((List.length b <= i)%nat \/ (nth i b 0%N =? 48)%N = false) -> @prefixed_ U A letter digits (St i) = Ok (false, St i).
  Proof. intros H. unfold prefixed_. rewrite (bind_ok _ _ _ _ _ (at_char_false (fun c => (c =? 48)%N) i H)). reflexivity. Qed.
  Lemma prefixed_no_letter letter digits i :
    (i < List.length b)%nat -> nth i b 0%N = 48%N ->
    ((List.length b <= S i)%nat \/ in_alpha letter (nth (S i) b 0%N) = false) ->
    @prefixed_ U A letter digits (St i) = Ok (false, St i).
  Proof.
    intros Hi H0 H1. unfold prefixed_.
    rewrite (bind_ok _ _ _ _ _ (at_char_true (fun c => (c =? 48)%N) i Hi ltac:(rewrite H0; reflexivity))).
    rewrite (bind_ok _ _ _ _ _ (run_inc b d u Hnl i Hi)).
    rewrite (bind_ok _ _ _ _ _ (at_alpha_false letter (S i) H1)).
    rewrite (bind_ok _ _ _ _ _ (run_dec b d u Hnl i Hi)). reflexivity.
  Qed.
  Lemma prefixed_yes letter digits i nd ns :
    (i + 2 + nd + ns <= List.length b)%nat -> (1 <= nd)%nat -> nth i b 0%N = 48%N -> in_alpha letter (nth (S i) b 0%N) = true ->
    (forall k, (k < nd)%nat -> in_alpha digits (nth (i + 2 + k) b 0%N) = true) ->
    ((i + 2 + nd = List.length b)%nat \/ in_alpha digits (nth (i + 2 + nd) b 0%N) = false) ->
    (forall k, (k < ns)%nat -> in_alpha (a_int_suffix A) (nth (i + 2 + nd + k) b 0%N) = true) ->
    ((i + 2 + nd + ns = List.length b)%nat \/ in_alpha (a_int_suffix A) (nth (i + 2 + nd + ns) b 0%N) = false) ->
    @prefixed_ U A letter digits (St i) = Ok (true, St (i + 2 + nd + ns)).
  Proof.
    intros Hlen Hnd H0 H1 Hd Hds Hs Hss. unfold prefixed_.
    assert (Hi : (i < List.length b)%nat) by lia. assert (Hi1 : (S i < List.length b)%nat) by lia.
    rewrite (bind_ok _ _ _ _ _ (at_char_true (fun c => (c =? 48)%N) i Hi ltac:(rewrite H0; reflexivity))).
    rewrite (bind_ok _ _ _ _ _ (run_inc b d u Hnl i Hi)).
    rewrite (bind_ok _ _ _ _ _ (at_alpha_true letter (S i) Hi1 H1)).
    rewrite (bind_ok _ _ _ _ _ (run_inc b d u Hnl (S i) Hi1)).
    replace (S (S i)) with (i + 2)%nat by lia.
    rewrite (bind_ok _ _ _ _ _ (at_alpha_true digits (i + 2) ltac:(lia) ltac:(specialize (Hd 0%nat ltac:(lia)); rewrite Nat.add_0_r in Hd; exact Hd))).
    rewrite (bind_ok _ _ _ _ _ (run_skip_while b d u Hnl digits nd (i + 2) ltac:(lia) Hd Hds)).
    rewrite (bind_ok _ _ _ _ _ (run_skip_while b d u Hnl (a_int_suffix A) ns (i + 2 + nd) ltac:(lia) Hs Hss)).
    reflexivity.
  Qed.
End ScanNum.

Lemma nth_mid (pre ds sfx : list N) k : (k < List.length ds)%nat -> nth (List.length pre + k) (pre ++ ds ++ sfx) 0%N = nth k ds 0%N.
Proof. intros H. rewrite app_nth2_plus, app_nth1 by exact H. reflexivity. Qed.
Lemma nth_end (pre ds sfx : list N) k : nth (List.length pre + List.length ds + k) (pre ++ ds ++ sfx) 0%N = nth k sfx 0%N.
Proof. rewrite <- Nat.add_assoc, app_nth2_plus, app_nth2_plus. reflexivity. Qed.
Lemma Forall_nth_ok {X} (Q : X -> Prop) l k dflt : Forall Q l -> (k < List.length l)%nat -> Q (nth k l dflt).
Proof. intros H Hk. rewrite Forall_forall in H. apply H, nth_In, Hk. Qed.

Lemma pos_str_whole (bf : list N) : pos_str (P bf 0) (P bf (List.length bf)) = bf.
Proof. unfold pos_str, P. cbn [idx buf]. rewrite Nat.sub_0_r. cbn [skipn]. apply firstn_all. Qed.

Lemma int_token_whole {U} (bf : list N) (dd : nat) (uu : U) base prefixed t v :
  buildInt T base bf prefixed = BI t v ->
  int_token T (P bf 0) base prefixed (St bf dd uu (List.length bf)) =
  Ok (Some (TConstant bf 1 1 (KInt t v)), St bf dd uu (List.length bf)).
Proof.
  intros H. unfold int_token. rewrite (bind_ok _ _ _ _ _ (run_get_pos bf dd uu (List.length bf))).
  rewrite pos_str_whole, H. reflexivity.
Qed.

Lemma sfx_not c : sfx_char c = true ->
  is_hexd c = false /\ is_decd c = false /\ one_of [48; 49]%N c = false /\ one_of [120; 88]%N c = false /\ one_of [98; 66]%N c = false
  /\ (tolower c =? 101)%N = false /\ (c =? 46)%N = false /\ c <> NL.
Proof. intros H. apply sfx_char_cases in H. destruct H as [->|[->|[->| ->]]]; repeat split; try reflexivity; discriminate. Qed.

Section NumThm.
  Context {U : Type}.
  Variables (dd : nat) (uu : U).

  (* 0x / 0X / 0b / 0B literals *)
  Lemma Num_prefixed base x ds sfx t v :
    (base = 16 /\ (x = 120%N \/ x = 88%N)) \/ (base = 2 /\ (x = 98%N \/ x = 66%N)) ->
    int_literal base ds sfx = IntLit t v ->
    let text := [48%N; x] ++ ds ++ sfx in
    @Num U A T (mkState (pos_begin text) dd uu) = Ok (Some (TConstant text 1 1 (KInt t v)), St text dd uu (List.length text)).
  Proof.
    intros Hbx Hl text.
    assert (Hb16 : base <= 16) by (destruct Hbx as [[-> _]|[-> _]]; lia).
    pose proof (buildInt_thm base [48%N; x] ds sfx t v ltac:(left; split; [destruct Hbx as [[-> _]|[-> _]]; auto|reflexivity]) Hl) as HB.
    cbn [List.length Nat.eqb negb] in HB.
    unfold int_literal in Hl. destruct ds as [|c0 r0]; [discriminate|]. cbv iota in Hl. remember (c0 :: r0) as ds eqn:Eds.
    destruct (digits_value base ds 0) as [v0|] eqn:Ev; [|discriminate].
    destruct (cxx_suffix sfx) as [[su sl]|] eqn:Es; [|discriminate]. clear Hl.
    pose proof (digits_value_all _ _ _ _ Ev) as Hall. pose proof (suffix_chars _ _ _ Es) as Hsfx.
    assert (Hnd : (1 <= List.length ds)%nat) by (rewrite Eds; simpl; lia).
    assert (Hlen : List.length text = (0 + 2 + List.length ds + List.length sfx)%nat) by (unfold text; rewrite !app_length; simpl; lia).
    assert (Hnl : Forall (fun c => c <> NL) text).
    { unfold text. apply Forall_app. split; [|apply Forall_app; split].
      - destruct Hbx as [[_ [-> | ->]]|[_ [-> | ->]]]; repeat constructor; discriminate.
      - eapply Forall_impl; [|exact Hall]. intros a Ha. apply (cxx_digit_ge48 base a Ha Hb16).
      - eapply Forall_impl; [|exact Hsfx]. intros a Ha. apply (sfx_not a Ha). }
    assert (Hmid : forall k, (k < List.length ds)%nat -> nth (0 + 2 + k) text 0%N = nth k ds 0%N) by (intros k Hk; apply (nth_mid [48%N; x] ds sfx k Hk)).
    assert (Hend : forall k, nth (0 + 2 + List.length ds + k) text 0%N = nth k sfx 0%N) by (intros k; apply (nth_end [48%N; x] ds sfx k)).
    change (mkState (pos_begin text) dd uu) with (St text dd uu 0).
    assert (Hpos : (0 < List.length text)%nat) by (rewrite Hlen; lia).
    assert (Hfit : (0 + 2 + List.length ds + List.length sfx <= List.length text)%nat) by (rewrite Hlen; lia).
    unfold Num.
    rewrite (bind_ok _ _ _ _ _ (SkipWS_none text dd uu 0 Hpos eq_refl)).
    rewrite (bind_ok _ _ _ _ _ (run_get_pos text dd uu 0)).
    rewrite (bind_ok _ _ _ _ _ (at_alpha_true text dd uu (a_float A) 0 Hpos eq_refl)).
    (* the suffix run, shared *)
    assert (Hs : forall k, (k < List.length sfx)%nat -> in_alpha (a_int_suffix A) (nth (0 + 2 + List.length ds + k) text 0%N) = true).
    { intros k Hk. rewrite Hend, alpha_int_suffix. apply (Forall_nth_ok _ _ _ _ Hsfx Hk). }
    assert (Hss : (0 + 2 + List.length ds + List.length sfx = List.length text)%nat \/ in_alpha (a_int_suffix A) (nth (0 + 2 + List.length ds + List.length sfx) text 0%N) = false)
      by (left; lia).
    assert (Hstop : forall digits, (forall c, sfx_char c = true -> in_alpha digits c = false) ->
              (0 + 2 + List.length ds = List.length text)%nat \/ in_alpha digits (nth (0 + 2 + List.length ds) text 0%N) = false).
    { intros digits Hdg. destruct sfx as [|s0 sr]; [left; cbn [List.length] in Hlen; lia|right].
      pose proof (Hend 0%nat) as He. rewrite Nat.add_0_r in He. rewrite He. cbn [nth]. apply Hdg. inversion Hsfx; assumption. }
    destruct Hbx as [[-> Hx]|[-> Hx]].
    - (* hexadecimal *)
      assert (Hd : forall k, (k < List.length ds)%nat -> in_alpha (a_hex A) (nth (0 + 2 + k) text 0%N) = true).
      { intros k Hk. rewrite Hmid, alpha_hex by exact Hk. unfold is_hexd. pose proof (Forall_nth_ok _ _ k 0%N Hall Hk) as Hq. cbv beta in Hq.
        destruct (cxx_digit 16 (nth k ds 0%N)); [reflexivity|congruence]. }
      unfold Hex_.
      rewrite (bind_ok _ _ _ _ _ (prefixed_yes text dd uu Hnl (a_x A) (a_hex A) 0 (List.length ds) (List.length sfx) Hfit Hnd eq_refl
                 ltac:(cbn [nth text app]; rewrite alpha_x; destruct Hx as [-> | ->]; reflexivity) Hd
                 (Hstop (a_hex A) ltac:(intros c Hc; rewrite alpha_hex; apply (sfx_not c Hc))) Hs Hss)).
      rewrite <- Hlen. apply int_token_whole. exact HB.
    - (* binary *)
      assert (Hd : forall k, (k < List.length ds)%nat -> in_alpha (a_bin A) (nth (0 + 2 + k) text 0%N) = true).
      { intros k Hk. rewrite Hmid, alpha_bin by exact Hk. apply cxx_digit_bin. apply (Forall_nth_ok _ _ k 0%N Hall Hk). }
      unfold Hex_.
      rewrite (bind_ok _ _ _ _ _ (prefixed_no_letter text dd uu Hnl (a_x A) (a_hex A) 0 Hpos eq_refl
                 ltac:(right; cbn [nth text app]; rewrite alpha_x; destruct Hx as [-> | ->]; reflexivity))).
      unfold Binary_.
      rewrite (bind_ok _ _ _ _ _ (prefixed_yes text dd uu Hnl (a_b A) (a_bin A) 0 (List.length ds) (List.length sfx) Hfit Hnd eq_refl
                 ltac:(cbn [nth text app]; rewrite alpha_b; destruct Hx as [-> | ->]; reflexivity) Hd
                 (Hstop (a_bin A) ltac:(intros c Hc; rewrite alpha_bin; apply (sfx_not c Hc))) Hs Hss)).
      rewrite <- Hlen. apply int_token_whole. exact HB.
  Qed.
End NumThm.

Lemma decd_not c : is_decd c = true ->
  one_of [120; 88]%N c = false /\ one_of [98; 66]%N c = false /\ sfx_char c = false /\ (tolower c =? 101)%N = false /\ (c =? 46)%N = false.
Proof.
  unfold is_decd. intros H. apply andb_prop in H. destruct H as [H1 H2]. apply N.leb_le in H1, H2.
  unfold one_of, sfx_char, one_of, tolower. cbn [existsb].
  destruct (N.leb_spec 65 c); [lia|]. cbn [andb].
  repeat match goal with |- context [(c =? ?k)%N] => destruct (N.eqb_spec c k); [lia|] end. repeat split; reflexivity.
Qed.

Section NumThm2.
  Context {U : Type}.
  Variables (dd : nat) (uu : U).

  (* octal (leading 0) and decimal literals *)
  Lemma Num_plain base ds sfx t v :
    (base = 8 /\ hd 0%N ds = 48%N) \/ (base = 10 /\ hd 0%N ds <> 48%N) ->
    int_literal base ds sfx = IntLit t v ->
    let text := ds ++ sfx in
    @Num U A T (mkState (pos_begin text) dd uu) = Ok (Some (TConstant text 1 1 (KInt t v)), St text dd uu (List.length text)).
  Proof.
    intros Hbx Hl text.
    assert (Hb10 : base <= 10) by (destruct Hbx as [[-> _]|[-> _]]; lia).
    pose proof (buildInt_thm base [] ds sfx t v ltac:(right; split; [destruct Hbx as [[-> _]|[-> _]]; auto|reflexivity]) Hl) as HB.
    cbn [List.length Nat.eqb negb app] in HB.
    unfold int_literal in Hl. destruct ds as [|c0 r0]; [discriminate|]. cbv iota in Hl. remember (c0 :: r0) as ds eqn:Eds.
    destruct (digits_value base ds 0) as [v0|] eqn:Ev; [|discriminate].
    destruct (cxx_suffix sfx) as [[su sl]|] eqn:Es; [|discriminate]. clear Hl.
    pose proof (digits_value_all _ _ _ _ Ev) as Hall. pose proof (suffix_chars _ _ _ Es) as Hsfx.
    assert (Hdec : Forall (fun c => is_decd c = true) ds) by (eapply Forall_impl; [|exact Hall]; intros a Ha; apply (cxx_digit_dec base a Ha Hb10)).
    assert (Hnd : (1 <= List.length ds)%nat) by (rewrite Eds; simpl; lia).
    assert (Hlen : List.length text = (List.length ds + List.length sfx)%nat) by (unfold text; rewrite app_length; reflexivity).
    assert (Hnl : Forall (fun c => c <> NL) text).
    { unfold text. apply Forall_app. split.
      - eapply Forall_impl; [|exact Hall]. intros a Ha. apply (cxx_digit_ge48 base a Ha ltac:(lia)).
      - eapply Forall_impl; [|exact Hsfx]. intros a Ha. apply (sfx_not a Ha). }
    assert (Hmid : forall k, (k < List.length ds)%nat -> nth k text 0%N = nth k ds 0%N) by (intros k Hk; apply (nth_mid [] ds sfx k Hk)).
    assert (Hend : forall k, nth (List.length ds + k) text 0%N = nth k sfx 0%N) by (intros k; apply (nth_end [] ds sfx k)).
    (* every byte after the first is a decimal digit or a suffix letter *)
    assert (Hany : forall j, (j < List.length text)%nat -> is_decd (nth j text 0%N) = true \/ sfx_char (nth j text 0%N) = true).
    { intros j Hj. destruct (Nat.lt_ge_cases j (List.length ds)) as [L|L].
      - left. rewrite Hmid by exact L. apply (Forall_nth_ok _ _ _ _ Hdec L).
      - right. replace j with (List.length ds + (j - List.length ds))%nat by lia. rewrite Hend. apply (Forall_nth_ok _ _ _ _ Hsfx). lia. }
    assert (Hno : forall (f : N -> bool) j, (forall c, is_decd c = true -> f c = false) -> (forall c, sfx_char c = true -> f c = false) ->
               (List.length text <= j)%nat \/ f (nth j text 0%N) = false).
    { intros f j H1 H2. destruct (Nat.lt_ge_cases j (List.length text)) as [L|L]; [right|left; exact L].
      destruct (Hany j L) as [H|H]; [apply H1, H|apply H2, H]. }
    assert (Hpos : (0 < List.length text)%nat) by (rewrite Hlen; lia).
    assert (H0d : is_decd (nth 0 text 0%N) = true) by (rewrite Hmid by lia; apply (Forall_nth_ok _ _ _ _ Hdec); lia).
    assert (H0 : nth 0 text 0%N = c0) by (rewrite Hmid by lia; rewrite Eds; reflexivity).
    change (mkState (pos_begin text) dd uu) with (St text dd uu 0).
    unfold Num.
    rewrite (bind_ok _ _ _ _ _ (SkipWS_none text dd uu 0 Hpos H0d)).
    rewrite (bind_ok _ _ _ _ _ (run_get_pos text dd uu 0)).
    rewrite (bind_ok _ _ _ _ _ (at_alpha_true text dd uu (a_float A) 0 Hpos ltac:(rewrite alpha_float, H0d; reflexivity))).
    (* Hex_ and Binary_ give up and restore the position *)
    assert (Hpf : forall letter digits, (forall c, in_alpha letter c = one_of [120; 88]%N c) \/ (forall c, in_alpha letter c = one_of [98; 66]%N c) ->
              @prefixed_ U A letter digits (St text dd uu 0) = Ok (false, St text dd uu 0)).
    { intros letter digits Hlt. destruct (N.eqb_spec c0 48) as [E|E].
      - apply (prefixed_no_letter text dd uu Hnl letter digits 0 Hpos ltac:(rewrite H0; exact E)).
        apply (Hno (in_alpha letter) 1%nat).
        + intros c Hc. destruct Hlt as [-> | ->]; apply (decd_not c Hc).
        + intros c Hc. destruct Hlt as [-> | ->]; apply (sfx_not c Hc).
      - apply prefixed_no_zero. right. rewrite H0. apply N.eqb_neq, E. }
    unfold Hex_. rewrite (bind_ok _ _ _ _ _ (Hpf (a_x A) (a_hex A) (or_introl alpha_x))).
    unfold Binary_. rewrite (bind_ok _ _ _ _ _ (Hpf (a_b A) (a_bin A) (or_intror alpha_b))).
    (* Float_ reads the digits and finds neither exponent nor '.' *)
    assert (Hstop : forall f : N -> bool, (forall c, sfx_char c = true -> f c = false) ->
              (List.length text <= List.length ds)%nat \/ f (nth (List.length ds) text 0%N) = false).
    { intros f Hf. destruct (Nat.lt_ge_cases (List.length ds) (List.length text)) as [L|L]; [right|left; exact L].
      pose proof (Hend 0%nat) as He. rewrite Nat.add_0_r in He. rewrite He. apply Hf. apply (Forall_nth_ok _ _ _ _ Hsfx). lia. }
    assert (Hrun : forall k, (k < List.length ds)%nat -> in_alpha (a_int A) (nth (0 + k) text 0%N) = true)
      by (intros k Hk; rewrite alpha_int; cbn [Nat.add]; rewrite Hmid by exact Hk; apply (Forall_nth_ok _ _ _ _ Hdec Hk)).
    assert (Hst : (0 + List.length ds = List.length text)%nat \/ in_alpha (a_int A) (nth (0 + List.length ds) text 0%N) = false).
    { cbn [Nat.add]. destruct (Hstop (in_alpha (a_int A)) ltac:(intros c Hc; rewrite alpha_int; apply (sfx_not c Hc))) as [L|L]; [left; lia|right; exact L]. }
    assert (Hfl : @Float_ U A (St text dd uu 0) = Ok (false, St text dd uu (List.length ds))).
    { unfold Float_.
      rewrite (bind_ok _ _ _ _ _ (at_alpha_true text dd uu (a_float A) 0 Hpos ltac:(rewrite alpha_float, H0d; reflexivity))).
      rewrite (bind_ok _ _ _ _ _ (run_skip_while text dd uu Hnl (a_int A) (List.length ds) 0 ltac:(rewrite Hlen; lia) Hrun Hst)).
      cbn [Nat.add].
      rewrite (bind_ok _ _ _ _ _ (at_char_false text dd uu (fun c => (tolower c =? 101)%N) (List.length ds)
                 (Hstop (fun c => (tolower c =? 101)%N) ltac:(intros c Hc; apply (sfx_not c Hc))))).
      rewrite (bind_ok _ _ _ _ _ (at_char_false text dd uu (fun c => (c =? 46)%N) (List.length ds)
                 (Hstop (fun c => (c =? 46)%N) ltac:(intros c Hc; apply (sfx_not c Hc))))).
      reflexivity. }
    rewrite (bind_ok _ _ _ _ _ Hfl).
    (* fix 3bd5fe4: the integer is read again from the start of the token *)
    assert (Hsp : @set_pos U (P text 0) (St text dd uu (List.length ds)) = Ok (tt, St text dd uu 0)) by reflexivity.
    rewrite (bind_ok _ _ _ _ _ Hsp).
    rewrite (bind_ok _ _ _ _ _ (run_skip_while text dd uu Hnl (a_int A) (List.length ds) 0 ltac:(rewrite Hlen; lia) Hrun Hst)).
    cbn [Nat.add].
    unfold IntSuffix_.
    rewrite (bind_ok _ _ _ _ _ (run_skip_while text dd uu Hnl (a_int_suffix A) (List.length sfx) (List.length ds) ltac:(rewrite Hlen; lia)
               ltac:(intros k Hk; rewrite Hend, alpha_int_suffix; apply (Forall_nth_ok _ _ _ _ Hsfx Hk)) ltac:(left; rewrite Hlen; reflexivity))).
    rewrite <- Hlen. rewrite (bind_ok _ _ _ _ _ (run_get_pos text dd uu (List.length text))).
    rewrite pos_str_whole.
    assert (Hh : (base = 8 /\ c0 = 48%N) \/ (base = 10 /\ c0 <> 48%N)) by (rewrite Eds in Hbx; exact Hbx).
    clear Hbx Hfl Hpf Hstop Hno Hany Hmid Hend Hnl H0 H0d Hpos Hlen Hdec Hall Hnd Ev Hrun Hst Hsp.
    subst ds. unfold text in *. clear text. cbn [app] in *.
    destruct Hh as [[-> ->]|[-> Hh]].
    - cbn [N.eqb Pos.eqb]. apply (int_token_whole (48%N :: r0 ++ sfx)). exact HB.
    - apply N.eqb_neq in Hh. rewrite Hh. apply (int_token_whole (c0 :: r0 ++ sfx)). exact HB.
  Qed.
End NumThm2.

(* C16_int: Num() on a buffer that is exactly a well-formed integer literal *)
Theorem num_int_thm : forall (U : Type) (d : nat) (u : U) base pre ds sfx t v,
  int_prefix_ok base pre ds -> int_literal base ds sfx = IntLit t v ->
  let text := pre ++ ds ++ sfx in
  @Num U A T (mkState (pos_begin text) d u) =
  Ok (Some (TConstant text 1 1 (KInt t v)),
      mkState (mkPos text (List.length text) 1 (1 + Z.of_nat (List.length text)) 1) d u).
Proof.
  intros U d u base pre ds sfx t v Hp Hl.
  destruct Hp as [[-> [-> | ->]]|[[-> [-> | ->]]|[(-> & -> & Hh)|(-> & -> & Hh)]]].
  - apply (Num_prefixed d u 16 120%N ds sfx t v); auto.
  - apply (Num_prefixed d u 16 88%N ds sfx t v); auto.
  - apply (Num_prefixed d u 2 98%N ds sfx t v); auto.
  - apply (Num_prefixed d u 2 66%N ds sfx t v); auto.
  - apply (Num_plain d u 8 ds sfx t v); auto.
  - apply (Num_plain d u 10 ds sfx t v); auto.
Qed.
