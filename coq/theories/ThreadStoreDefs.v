(* C14 — Engine instances are isolated.
   Model of chaiscript::detail::threading::Thread_Storage<T>: every thread owns a map  key -> T;  an engine's
   per-thread state (its Stack_Holder: the locals) lives in the map of the thread that touches it, under the
   key of the engine's Thread_Storage member; the destructor erases the entry of the destroying thread only.
   The key is chosen by a policy:
     ByAddress  the address of the member (`this`): an allocator may hand out a just-freed address again;
     ByFreshId  a process-wide counter incremented for every Thread_Storage constructed (never reused);
     ByEngine   the specification: per-thread state belongs to the engine, full stop.
   Total computable Gallina, no proofs. *)
From Coq Require Import List Bool String Arith.
Import ListNotations.
Local Open Scope list_scope.

Inductive policy := ByAddress | ByFreshId | ByEngine.

(* finite maps with nat keys / string keys, as association lists *)
Fixpoint nlookup {V : Type} (k : nat) (l : list (nat * V)) : option V :=
  match l with [] => None | (k', v) :: r => if Nat.eqb k' k then Some v else nlookup k r end.
Fixpoint nremove {V : Type} (k : nat) (l : list (nat * V)) : list (nat * V) :=
  match l with [] => [] | (k', v) :: r => if Nat.eqb k' k then nremove k r else (k', v) :: nremove k r end.
Definition nset {V : Type} (k : nat) (v : V) (l : list (nat * V)) : list (nat * V) := (k, v) :: nremove k l.
Fixpoint slookup {V : Type} (k : string) (l : list (string * V)) : option V :=
  match l with [] => None | (k', v) :: r => if String.eqb k' k then Some v else slookup k r end.
Fixpoint sremove {V : Type} (k : string) (l : list (string * V)) : list (string * V) :=
  match l with [] => [] | (k', v) :: r => if String.eqb k' k then sremove k r else (k', v) :: sremove k r end.
Definition sset {V : Type} (k : string) (v : V) (l : list (string * V)) : list (string * V) := (k, v) :: sremove k l.

Definition locals := list (string * nat).                 (* the bottom scope of a thread's Stack_Holder *)
Definition tmap := list (nat * locals).                   (* one thread's  key -> T *)

Record engine := mkEng { e_alive : bool; e_key : nat; e_globals : list (string * nat) }.
Record world := mkW {
  w_next : nat;                          (* the id counter (ByFreshId) *)
  w_engines : list (nat * engine);       (* engine name -> engine; names are never reused *)
  w_threads : list (nat * tmap) }.       (* thread -> its thread_local map *)

Inductive cmd :=
| SetLocal (n : string) (v : nat)        (* chai.add(var(v), n) *)
| Read (n : string)                      (* evaluate the name: local of this thread first, then global *)
| Locals                                 (* get_locals(): the names *)
| AddGlobal (n : string) (v : nat).      (* add_global: shared by all threads of the engine *)

Inductive op :=
| Create (e : nat) (addr : nat) (t : nat)       (* engine e constructed at address addr by thread t *)
| Eval (e : nat) (t : nat) (c : cmd)
| Destroy (e : nat) (t : nat).                  (* destructor runs on thread t *)

Inductive result :=
| ROk | RValue (v : option nat) | RNames (l : list string) | RConflict
| RInvalid.        (* use of an engine that does not exist / is destroyed, address occupied, name reused: outside the property *)

Definition op_engine (o : op) : nat := match o with Create e _ _ | Eval e _ _ | Destroy e _ => e end.

Definition thread_map (w : world) (t : nat) : tmap := match nlookup t (w_threads w) with Some m => m | None => [] end.
Definition locals_of (w : world) (t key : nat) : locals := match nlookup key (thread_map w t) with Some l => l | None => [] end.
Definition set_locals (w : world) (t key : nat) (l : locals) : world :=
  mkW (w_next w) (w_engines w) (nset t (nset key l (thread_map w t)) (w_threads w)).
Definition erase_key (w : world) (t key : nat) : world :=
  mkW (w_next w) (w_engines w) (nset t (nremove key (thread_map w t)) (w_threads w)).

Definition addr_in_use (w : world) (a : nat) : bool :=
  existsb (fun e => e_alive (snd e) && Nat.eqb (e_key (snd e)) a) (w_engines w).

(* sorted insertion, so that a set of names has one representation *)
Fixpoint insert_sorted (n : string) (l : list string) : list string :=
  match l with
  | [] => [n]
  | x :: r => match String.compare n x with Lt => n :: x :: r | Eq => x :: r | Gt => x :: insert_sorted n r end
  end.
Definition names_of (l : locals) : list string := fold_right (fun e acc => insert_sorted (fst e) acc) [] l.

Definition policy_eqb (a b : policy) : bool :=
  match a, b with ByAddress, ByAddress | ByFreshId, ByFreshId | ByEngine, ByEngine => true | _, _ => false end.

(* the key a new Thread_Storage gets, and the counter afterwards *)
Definition ckey (p : policy) (w : world) (e addr : nat) : nat :=
  match p with ByAddress => addr | ByFreshId => S (w_next w) | ByEngine => e end.
Definition cnext (p : policy) (w : world) : nat :=
  match p with ByFreshId => S (w_next w) | _ => w_next w end.

Definition step (p : policy) (w : world) (o : op) : world * result :=
  match o with
  | Create e addr t =>
      match nlookup e (w_engines w) with
      | Some _ => (w, RInvalid)
      | None =>
          if policy_eqb p ByAddress && addr_in_use w addr then (w, RInvalid)
          else (mkW (cnext p w) (nset e (mkEng true (ckey p w e addr) []) (w_engines w)) (w_threads w), ROk)
      end
  | Eval e t c =>
      match nlookup e (w_engines w) with
      | Some en =>
          if e_alive en then
            let k := e_key en in
            match c with
            | SetLocal n v => (set_locals w t k (sset n v (locals_of w t k)), ROk)
            | Read n => (w, RValue (match slookup n (locals_of w t k) with Some v => Some v | None => slookup n (e_globals en) end))
            | Locals => (w, RNames (names_of (locals_of w t k)))
            | AddGlobal n v =>
                match slookup n (e_globals en) with
                | Some _ => (w, RConflict)
                | None => (mkW (w_next w) (nset e (mkEng true k (sset n v (e_globals en))) (w_engines w)) (w_threads w), ROk)
                end
            end
          else (w, RInvalid)
      | None => (w, RInvalid)
      end
  | Destroy e t =>
      match nlookup e (w_engines w) with
      | Some en =>
          if e_alive en then
            (erase_key (mkW (w_next w) (nset e (mkEng false (e_key en) (e_globals en)) (w_engines w)) (w_threads w)) t (e_key en), ROk)
          else (w, RInvalid)
      | None => (w, RInvalid)
      end
  end.

Definition w_init : world := mkW 0 [] [].

(* the observations of engine b in a history: the results of the operations applied to b, in order *)
Fixpoint observe (p : policy) (b : nat) (w : world) (h : list op) : list result :=
  match h with
  | [] => []
  | o :: r =>
      let (w', res) := step p w o in
      if Nat.eqb (op_engine o) b then res :: observe p b w' r else observe p b w' r
  end.
Fixpoint run (p : policy) (w : world) (h : list op) : world :=
  match h with [] => w | o :: r => run p (fst (step p w o)) r end.

(* the operations applied to b alone *)
Definition proj (b : nat) (h : list op) : list op := filter (fun o => Nat.eqb (op_engine o) b) h.

