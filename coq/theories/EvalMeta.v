(* Meta-theorems of the evaluator, proved once by induction on programs:
   M1  every evaluation leaves the stack *shape* (scopes per frame, call-parameter lists, call depth)
       as it found it, whatever the outcome (C09);
   M2  a result obtained with some fuel is obtained with any larger fuel (fuel monotonicity). *)
From Coq Require Import ZArith NArith List Bool String Lia.
From ChaiV Require Import StrUtil NumDefs NumSpecRun Ast EvalDefs Eval.
Import ListNotations.

(* ---------------------------------------------------------------- M1: shape *)
Definition shape (s : state) : list nat * nat * nat :=
  (map (@List.length scope) (s_stacks s), List.length (s_call_params s), s_call_depth s).

Definition preserves {A} (m : M A) : Prop := forall s r s', m s = (r, s') -> shape s' = shape s.

Lemma shape_set_objs s v : shape (set_objs s v) = shape s. Proof. reflexivity. Qed.
Lemma shape_set_data s v : shape (set_data s v) = shape s. Proof. reflexivity. Qed.
Lemma shape_set_funcs s v : shape (set_funcs s v) = shape s. Proof. reflexivity. Qed.
Lemma shape_set_out s v : shape (set_out s v) = shape s. Proof. reflexivity. Qed.
Lemma shape_set_hints s v : shape (set_hints s v) = shape s. Proof. reflexivity. Qed.
Lemma shape_set_globals s v : shape (set_globals s v) = shape s. Proof. reflexivity. Qed.

(* break a hypothesis `match … = (r, s')` down to its leaves *)
Ltac split_matches H :=
  repeat match type of H with
         | context [match ?x with _ => _ end] => let E := fresh "E" in destruct x eqn:E
         | context [if ?x then _ else _] => let E := fresh "E" in destruct x eqn:E
         | context [let '(_, _) := ?x in _] => let E := fresh "E" in destruct x eqn:E
         end.

Lemma run_prim_preserves A (p : prim A) : preserves (run_prim p).
Proof.
  unfold preserves. destruct p; cbn [run_prim]; intros s r s' H;
    try (split_matches H; inversion H; subst; reflexivity).
  all: try (destruct (s_stacks s) as [|[|sc f] r0] eqn:E; try (inversion H; reflexivity);
            destruct (scope_find sc name 0); inversion H; subst; try reflexivity;
            unfold shape; cbn; rewrite E; reflexivity).
  all: try (inversion H; subst; destruct (s_call_params s) eqn:E; [reflexivity|];
            unfold shape; cbn; rewrite E; reflexivity).
Qed.

Definition push_shape (sh : list nat * nat * nat) : list nat * nat * nat :=
  let '(ls, cp, cd) := sh in (match ls with [] => [] | n :: r => S n :: r end, cp, cd).
Definition pop_shape (sh : list nat * nat * nat) : list nat * nat * nat :=
  let '(ls, cp, cd) := sh in (match ls with S n :: r => n :: r | other => other end, cp, cd).

Lemma shape_push_scope s : shape (push_scope s) = push_shape (shape s).
Proof. unfold shape, push_scope, push_shape. destruct (s_stacks s) as [|f r] eqn:E; cbn; rewrite ?E; reflexivity. Qed.
Lemma shape_pop_scope s : shape (pop_scope s) = pop_shape (shape s).
Proof. unfold shape, pop_scope, pop_shape. destruct (s_stacks s) as [|[|x f] r] eqn:E; cbn; rewrite ?E; reflexivity. Qed.
Lemma pop_push_shape sh : pop_shape (push_shape sh) = sh.
Proof. destruct sh as [[[|n r] cp] cd]; reflexivity. Qed.

Lemma scoped_preserves A (m : M A) : preserves m -> preserves (bracket push_scope pop_scope m).
Proof.
  unfold preserves, bracket. intros Hm s r s' H.
  destruct (m (push_scope s)) as [r1 s1] eqn:E. inversion H; subst. clear H.
  apply Hm in E. rewrite shape_pop_scope, E, shape_push_scope. apply pop_push_shape.
Qed.

Lemma framed_preserves A (m : M A) : preserves m -> preserves (bracket push_frame pop_frame m).
Proof.
  unfold preserves, bracket. intros Hm s r s' H.
  destruct (m (push_frame s)) as [r1 s1] eqn:E. inversion H; subst. clear H.
  apply Hm in E. unfold shape in *. unfold push_frame, pop_frame in *. cbn in E.
  inversion E as [[H1 H2 H3]].
  destruct (s_stacks s1) as [|f1 r1'] eqn:E1; [discriminate|].
  cbn in H1. inversion H1. cbn. rewrite H2, H3. congruence.
Qed.

Lemma shape_enter_call s : shape (enter_call s) = (fst (fst (shape s)), snd (fst (shape s)), S (snd (shape s))).
Proof. reflexivity. Qed.
Lemma shape_leave_call s : shape (leave_call s) = (fst (fst (shape s)), snd (fst (shape s)), pred (snd (shape s))).
Proof.
  unfold shape, leave_call. cbn. destruct (Nat.eqb (pred (s_call_depth s)) 0); [|reflexivity].
  cbn. destruct (s_call_params s) eqn:E; cbn; rewrite ?E; reflexivity.
Qed.

Lemma incall_preserves A (m : M A) : preserves m -> preserves (bracket enter_call leave_call m).
Proof.
  unfold preserves, bracket. intros Hm s r s' H.
  destruct (m (enter_call s)) as [r1 s1] eqn:E. inversion H; subst. clear H.
  apply Hm in E. rewrite shape_leave_call, E, shape_enter_call. cbn. reflexivity.
Qed.

Lemma loop_preserves k (body : M bool) : preserves body -> preserves (loop_run k body).
Proof.
  intros Hb. induction k as [|k IH]; unfold preserves in *; cbn [loop_run]; intros s r s' H.
  - inversion H; reflexivity.
  - destruct (body s) as [[[|]|f|] s1] eqn:E.
    + apply IH in H. apply Hb in E. congruence.
    + inversion H; subst. eapply Hb; eauto.
    + inversion H; subst. eapply Hb; eauto.
    + inversion H; subst. eapply Hb; eauto.
Qed.

Theorem run_preserves (ev : ast -> M dloc) k :
  (forall n, preserves (ev n)) -> forall A (p : prog A), preserves (run ev k p).
Proof.
  intros Hev A p. induction p; cbn [run].
  - intros s r s' H; inversion H; reflexivity.
  - intros s r s' H; inversion H; reflexivity.
  - apply run_prim_preserves.
  - intros s r s' H0.
    destruct (run ev k p s) as [[a|f|] s1] eqn:E.
    + apply IHp in E. apply H in H0. congruence.
    + apply IHp in E. apply H in H0. congruence.
    + inversion H0; subst. eapply IHp; eauto.
  - apply scoped_preserves; assumption.
  - apply framed_preserves; assumption.
  - apply incall_preserves; assumption.
  - apply Hev.
  - apply loop_preserves; assumption.
Qed.

Theorem eval_preserves c ops fuel : forall n, preserves (eval c ops fuel n).
Proof.
  induction fuel as [|f IH]; intros n; cbn [eval].
  - intros s r s' H; inversion H; reflexivity.
  - apply run_preserves. exact IH.
Qed.

Theorem run_program_preserves c ops fuel n s r s' :
  run_program c ops fuel n s = (r, s') -> shape s' = shape s.
Proof.
  unfold run_program. destruct (eval c ops fuel n s) as [r0 s0] eqn:E. intros H.
  assert (s0 = s') by (destruct r0 as [|[]|]; inversion H; reflexivity). subst.
  eapply eval_preserves; eauto.
Qed.

(* names: evaluation never removes, renames or reorders the bindings of the scopes that exist when it
   starts — declarations only append to the innermost scope of the current frame *)
Definition scope_names (sc : scope) : list string := map fst sc.

(* ---------------------------------------------------------------- M2: fuel monotonicity *)
Definition refines {A} (m m' : M A) : Prop :=
  forall s r s', m s = (r, s') -> r <> RFuel -> m' s = (r, s').

Lemma refines_refl A (m : M A) : refines m m.
Proof. intros s r s' H _; exact H. Qed.

Lemma bracket_refines A (e l : state -> state) (m m' : M A) : refines m m' -> refines (bracket e l m) (bracket e l m').
Proof.
  unfold refines, bracket. intros H s r s' H0 Hr.
  destruct (m (e s)) as [r1 s1] eqn:E. inversion H0; subst.
  rewrite (H _ _ _ E Hr). reflexivity.
Qed.

Lemma loop_refines k k' (b b' : M bool) : refines b b' -> k <= k' -> refines (loop_run k b) (loop_run k' b').
Proof.
  intros Hb. revert k'. induction k as [|k IH]; intros k' Hle; unfold refines; cbn [loop_run]; intros s r s' H Hr.
  - inversion H; subst. exfalso; apply Hr; reflexivity.
  - destruct k' as [|k']; [lia|]. cbn [loop_run].
    destruct (b s) as [[[|]|f|] s1] eqn:E.
    + rewrite (Hb _ _ _ E ltac:(discriminate)). apply IH; [lia|assumption|assumption].
    + rewrite (Hb _ _ _ E ltac:(discriminate)). exact H.
    + rewrite (Hb _ _ _ E ltac:(discriminate)). exact H.
    + inversion H; subst. exfalso; apply Hr; reflexivity.
Qed.

Theorem run_refines (ev ev' : ast -> M dloc) k k' :
  (forall n, refines (ev n) (ev' n)) -> k <= k' ->
  forall A (p : prog A), refines (run ev k p) (run ev' k' p).
Proof.
  intros Hev Hk A p. induction p; cbn [run].
  - apply refines_refl.
  - apply refines_refl.
  - apply refines_refl.
  - intros s r s' H0 Hr.
    destruct (run ev k p s) as [[a|f|] s1] eqn:E.
    + rewrite (IHp _ _ _ E ltac:(discriminate)). eapply H; eauto.
    + rewrite (IHp _ _ _ E ltac:(discriminate)). eapply H; eauto.
    + inversion H0; subst. exfalso; apply Hr; reflexivity.
  - apply bracket_refines; assumption.
  - apply bracket_refines; assumption.
  - apply bracket_refines; assumption.
  - apply Hev.
  - apply loop_refines; assumption.
Qed.

Theorem eval_fuel_mono c ops : forall f f' n, f <= f' -> refines (eval c ops f n) (eval c ops f' n).
Proof.
  induction f as [|f IH]; intros f' n Hle; cbn [eval].
  - intros s r s' H Hr. inversion H; subst. exfalso; apply Hr; reflexivity.
  - destruct f' as [|f']; [lia|]. cbn [eval].
    apply run_refines; [|lia]. intros m. apply IH. lia.
Qed.

(* ---------------------------------------------------------------- M1b: only the innermost scope grows *)
(* Between the start and the end of any evaluation the scope stack is unchanged except that the
   innermost scope of the current frame may have gained bindings *at its end*. Hence: nothing
   declared inside a block, loop, case, catch clause or function body survives it; bindings that
   existed are neither removed, reordered nor rebound; a failing evaluation keeps what the
   completed top-level declarations added. *)
Definition grows (s s' : state) : Prop :=
  s_stacks s' = s_stacks s \/
  exists sc f r extra, s_stacks s = (sc :: f) :: r /\ s_stacks s' = ((sc ++ extra)%list :: f) :: r.

Lemma grows_refl s : grows s s. Proof. left; reflexivity. Qed.
Lemma grows_trans s1 s2 s3 : grows s1 s2 -> grows s2 s3 -> grows s1 s3.
Proof.
  intros [H1|(sc & f & r & ex & Ha & Hb)] [H2|(sc' & f' & r' & ex' & Ha' & Hb')].
  - left; congruence.
  - right. exists sc', f', r', ex'. split; congruence.
  - right. exists sc, f, r, ex. split; congruence.
  - right. rewrite Hb in Ha'. inversion Ha'; subst. exists sc, f', r', (ex ++ ex')%list. split; [assumption|].
    rewrite Hb'. rewrite <- app_assoc. reflexivity.
Qed.

Definition growing {A} (m : M A) : Prop := forall s r s', m s = (r, s') -> grows s s'.

Lemma run_prim_growing A (p : prim A) : growing (run_prim p).
Proof.
  unfold growing. destruct p; cbn [run_prim]; intros s r s' H;
    try (split_matches H; inversion H; subst; left; reflexivity).
  all: try (destruct (s_stacks s) as [|[|sc f] r0] eqn:E; try (inversion H; subst; left; reflexivity);
            destruct (scope_find sc name 0); inversion H; subst; [left; reflexivity|];
            right; exists sc, f, r0, [(name, d)]; split; [assumption|reflexivity]).
  all: try (inversion H; subst; destruct (s_call_params s); left; reflexivity).
Qed.

Lemma scoped_exact A (m : M A) : growing m -> forall s r s', bracket push_scope pop_scope m s = (r, s') -> s_stacks s' = s_stacks s.
Proof.
  unfold growing, bracket. intros Hm s r s' H.
  destruct (m (push_scope s)) as [r1 s1] eqn:E. inversion H; subst. clear H.
  apply Hm in E. unfold push_scope, pop_scope in *.
  destruct (s_stacks s) as [|f r0] eqn:Es.
  - destruct E as [E|(sc & f & r1' & ex & Ha & Hb)]; [|rewrite Es in Ha; discriminate].
    rewrite Es in E. rewrite E. cbn. exact E.
  - cbn in E. destruct E as [E|(sc & f' & r1' & ex & Ha & Hb)].
    + rewrite E. reflexivity.
    + inversion Ha; subst. rewrite Hb. reflexivity.
Qed.

Lemma framed_exact A (m : M A) : growing m -> forall s r s', bracket push_frame pop_frame m s = (r, s') -> s_stacks s' = s_stacks s.
Proof.
  unfold growing, bracket. intros Hm s r s' H.
  destruct (m (push_frame s)) as [r1 s1] eqn:E. inversion H; subst. clear H.
  apply Hm in E. unfold push_frame, pop_frame in *. cbn in E.
  destruct E as [E|(sc & f' & r1' & ex & Ha & Hb)].
  - rewrite E. reflexivity.
  - inversion Ha; subst. rewrite Hb. reflexivity.
Qed.

Lemma incall_growing A (m : M A) : growing m -> growing (bracket enter_call leave_call m).
Proof.
  unfold growing, bracket. intros Hm s r s' H.
  destruct (m (enter_call s)) as [r1 s1] eqn:E. inversion H; subst. clear H.
  apply Hm in E.
  assert (Hl : s_stacks (leave_call s1) = s_stacks s1).
  { unfold leave_call. cbn. destruct (Nat.eqb _ 0); [|reflexivity]. cbn. destruct (s_call_params s1); reflexivity. }
  unfold grows in *. rewrite Hl. exact E.
Qed.

Lemma loop_growing k (body : M bool) : growing body -> growing (loop_run k body).
Proof.
  intros Hb. induction k as [|k IH]; unfold growing in *; cbn [loop_run]; intros s r s' H.
  - inversion H; apply grows_refl.
  - destruct (body s) as [[[|]|f|] s1] eqn:E.
    + eapply grows_trans; [eapply Hb; eauto | eapply IH; eauto].
    + inversion H; subst. eapply Hb; eauto.
    + inversion H; subst. eapply Hb; eauto.
    + inversion H; subst. eapply Hb; eauto.
Qed.

Theorem run_growing (ev : ast -> M dloc) k :
  (forall n, growing (ev n)) -> forall A (p : prog A), growing (run ev k p).
Proof.
  intros Hev A p. induction p; cbn [run].
  - intros s r s' H; inversion H; apply grows_refl.
  - intros s r s' H; inversion H; apply grows_refl.
  - apply run_prim_growing.
  - intros s r s' H0.
    destruct (run ev k p s) as [[a|f|] s1] eqn:E.
    + eapply grows_trans; [eapply IHp; eauto | eapply H; eauto].
    + eapply grows_trans; [eapply IHp; eauto | eapply H; eauto].
    + inversion H0; subst. eapply IHp; eauto.
  - intros s r s' H. left. eapply scoped_exact; eauto.
  - intros s r s' H. left. eapply framed_exact; eauto.
  - apply incall_growing; assumption.
  - apply Hev.
  - apply loop_growing; assumption.
Qed.

Theorem eval_growing c ops fuel : forall n, growing (eval c ops fuel n).
Proof.
  induction fuel as [|f IH]; intros n; cbn [eval].
  - intros s r s' H; inversion H; apply grows_refl.
  - apply run_growing. exact IH.
Qed.

(* a scoped construct (block, loop, case, catch clause, switch, try) leaves every scope exactly as it was *)
Corollary scoped_leaves_no_names c ops f k A (p : prog A) s r s' :
  run (eval c ops f) k (Scoped p) s = (r, s') -> s_stacks s' = s_stacks s.
Proof. cbn [run]. apply scoped_exact. apply run_growing. apply eval_growing. Qed.

(* a function call evaluates its body in a frame of its own: the caller's scopes are untouched *)
Corollary framed_leaves_no_names c ops f k A (p : prog A) s r s' :
  run (eval c ops f) k (Framed p) s = (r, s') -> s_stacks s' = s_stacks s.
Proof. cbn [run]. apply framed_exact. apply run_growing. apply eval_growing. Qed.
