(* C16_float_value_partial — exactness of parse_num<T> on integer-valued spellings, by Flocq's theorems about the
   SpecFloat operations.  This file (and only this file of the development) depends on the axioms of Coq's real numbers. *)
From Coq Require Import ZArith NArith List Bool Reals Lia Floats.SpecFloat Psatz.
From Flocq Require Import Core.Core IEEE754.BinarySingleNaN.
From ChaiV Require Import NumDefs LexDefs.
Import ListNotations.
Local Open Scope Z_scope.

Section Bridge.
  Variables prec emax : Z.
  Context (Hprec : FLX.Prec_gt_0 prec) (Hmax : Prec_lt_emax prec emax).
  Local Notation bf := (binary_float prec emax).

  Lemma round_nearest_even_equiv s m l : round_nearest_even m l = choice_mode mode_NE s m l.
  Proof. case l; [reflexivity|intro c]. case c; [ | reflexivity..]. now simpl; unfold Round.cond_incr; case Z.even. Qed.
  Lemma binary_round_aux_equiv sx mx ex lx :
    SpecFloat.binary_round_aux prec emax sx mx ex lx = BinarySingleNaN.binary_round_aux prec emax mode_NE sx mx ex lx.
  Proof.
    unfold SpecFloat.binary_round_aux, BinarySingleNaN.binary_round_aux.
    set (mrse' := shr_fexp _ _ _ _ _). case mrse'; intros mrs' e'; simpl.
    now rewrite (round_nearest_even_equiv sx).
  Qed.
  Lemma binary_round_equiv s m e :
    SpecFloat.binary_round prec emax s m e = BinarySingleNaN.binary_round prec emax mode_NE s m e.
  Proof.
    unfold SpecFloat.binary_round, BinarySingleNaN.binary_round, shl_align_fexp.
    set (mez := shl_align _ _ _); case mez as [mz ez]. apply binary_round_aux_equiv.
  Qed.
  Lemma binary_normalize_equiv m e szero :
    SpecFloat.binary_normalize prec emax m e szero = B2SF (BinarySingleNaN.binary_normalize prec emax Hprec Hmax mode_NE m e szero).
  Proof.
    case m as [ | p | p].
    - now simpl.
    - simpl; rewrite B2SF_SF2B; apply binary_round_equiv.
    - simpl; rewrite B2SF_SF2B; apply binary_round_equiv.
  Qed.
  Lemma SFmul_equiv (x y : bf) : SFmul prec emax (B2SF x) (B2SF y) = B2SF (Bmult mode_NE x y).
  Proof.
    destruct x as [sx|sx| |sx mx ex Bx]; destruct y as [sy|sy| |sy my ey By]; try reflexivity.
    simpl. rewrite B2SF_SF2B. apply binary_round_aux_equiv.
  Qed.
  Lemma SFadd_equiv (x y : bf) : SFadd prec emax (B2SF x) (B2SF y) = B2SF (Bplus mode_NE x y).
  Proof.
    destruct x as [sx|sx| |sx mx ex Bx]; destruct y as [sy|sy| |sy my ey By]; try reflexivity;
      try (simpl; case Bool.eqb; reflexivity).
    apply binary_normalize_equiv.
  Qed.
End Bridge.

Section BofZ.
  Variables prec emax : Z.
  Context (Hprec : FLX.Prec_gt_0 prec) (Hmax : Prec_lt_emax prec emax).
  Local Notation bf := (binary_float prec emax).
  Local Notation emin := (3 - emax - prec).
  Local Notation fexp := (SpecFloat.fexp prec emax).
  Definition BofZ (z : Z) : bf := BinarySingleNaN.binary_normalize prec emax Hprec Hmax mode_NE z 0 false.

  Lemma F2R_int z : F2R (Float radix2 z 0) = IZR z.
  Proof. unfold F2R. simpl. ring. Qed.
  Lemma int_generic z : Z.abs z < 2 ^ prec -> generic_format radix2 fexp (IZR z).
  Proof.
    intros H. change (SpecFloat.fexp prec emax) with (FLT_exp emin prec). apply generic_format_FLT. apply (FLT_spec radix2 emin prec (IZR z) (Float radix2 z 0)).
    - symmetry. apply F2R_int.
    - exact H.
    - cbn [Fexp]. pose proof Hprec as H1. pose proof Hmax as H2. unfold FLX.Prec_gt_0 in H1. unfold Prec_lt_emax in H2. lia.
  Qed.
  Lemma int_small z : Z.abs z < 2 ^ prec -> (Rabs (IZR z) < bpow radix2 emax)%R.
  Proof.
    intros H. rewrite <- abs_IZR. apply Rlt_le_trans with (IZR (2 ^ prec)).
    - apply IZR_lt. exact H.
    - unfold FLX.Prec_gt_0, Prec_lt_emax in *. rewrite (IZR_Zpower radix2) by lia. apply bpow_le. lia.
  Qed.
  Lemma BofZ_correct z : Z.abs z < 2 ^ prec ->
    B2R (BofZ z) = IZR z /\ is_finite (BofZ z) = true /\ Bsign (BofZ z) = (z <? 0).
  Proof.
    intros H. pose proof (binary_normalize_correct prec emax Hprec Hmax mode_NE z 0 false) as C. cbv zeta in C.
    rewrite F2R_int in C. rewrite (round_generic radix2 fexp (round_mode mode_NE) (IZR z) (int_generic z H)) in C.
    rewrite (Rlt_bool_true _ _ (int_small z H)) in C. destruct C as (C1 & C2 & C3). fold (BofZ z) in *.
    split; [exact C1|split; [exact C2|]]. rewrite C3.
    destruct (Z.ltb_spec z 0) as [L|L].
    - rewrite Rcompare_Lt; [reflexivity|]. apply IZR_lt. exact L.
    - destruct (Z.eq_dec z 0) as [->|N].
      + rewrite Rcompare_Eq; reflexivity.
      + rewrite Rcompare_Gt; [reflexivity|]. apply IZR_lt. lia.
  Qed.

  Lemma finite_not_nan (x : bf) : is_finite x = true -> is_nan x = false.
  Proof. destruct x; simpl; congruence. Qed.

  Lemma BofZ_mult a b : 0 <= a < 2 ^ prec -> 0 <= b < 2 ^ prec -> a * b < 2 ^ prec ->
    Bmult mode_NE (BofZ a) (BofZ b) = BofZ (a * b).
  Proof.
    intros Ha Hb Hab.
    destruct (BofZ_correct a ltac:(lia)) as (Ra & Fa & Sa). destruct (BofZ_correct b ltac:(lia)) as (Rb & Fb & Sb).
    destruct (BofZ_correct (a * b) ltac:(nia)) as (Rc & Fc & Sc).
    pose proof (Bmult_correct prec emax Hprec Hmax mode_NE (BofZ a) (BofZ b)) as C.
    rewrite Ra, Rb, <- mult_IZR in C.
    rewrite (round_generic radix2 fexp (round_mode mode_NE) (IZR (a * b)) (int_generic (a * b) ltac:(nia))) in C.
    rewrite (Rlt_bool_true _ _ (int_small (a * b) ltac:(nia))) in C. destruct C as (C1 & C2 & C3).
    rewrite Fa, Fb in C2. cbn [andb] in C2.
    apply B2R_Bsign_inj; try assumption.
    - rewrite C1, Rc. reflexivity.
    - rewrite (C3 (finite_not_nan _ C2)), Sa, Sb, Sc.
      destruct (Z.ltb_spec a 0), (Z.ltb_spec b 0), (Z.ltb_spec (a * b) 0); try reflexivity; nia.
  Qed.

  Lemma BofZ_plus a b : 0 <= a < 2 ^ prec -> 0 <= b < 2 ^ prec -> a + b < 2 ^ prec ->
    Bplus mode_NE (BofZ a) (BofZ b) = BofZ (a + b).
  Proof.
    intros Ha Hb Hab.
    destruct (BofZ_correct a ltac:(lia)) as (Ra & Fa & Sa). destruct (BofZ_correct b ltac:(lia)) as (Rb & Fb & Sb).
    destruct (BofZ_correct (a + b) ltac:(lia)) as (Rc & Fc & Sc).
    pose proof (Bplus_correct prec emax Hprec Hmax mode_NE (BofZ a) (BofZ b) Fa Fb) as C.
    rewrite Ra, Rb, <- plus_IZR in C.
    rewrite (round_generic radix2 fexp (round_mode mode_NE) (IZR (a + b)) (int_generic (a + b) ltac:(lia))) in C.
    rewrite (Rlt_bool_true _ _ (int_small (a + b) ltac:(lia))) in C. destruct C as (C1 & C2 & C3).
    apply B2R_Bsign_inj; try assumption.
    - rewrite C1, Rc. reflexivity.
    - rewrite C3, Sa, Sb, Sc.
      destruct (Z.ltb_spec a 0), (Z.ltb_spec b 0), (Z.ltb_spec (a + b) 0); try lia.
      destruct (Z.eq_dec (a + b) 0) as [E|N].
      + rewrite E, Rcompare_Eq; reflexivity.
      + rewrite Rcompare_Gt; [reflexivity|]. apply IZR_lt. lia.
  Qed.

  (* the same statements on the SpecFloat side, as the model uses them *)
  Definition fz (z : Z) : spec_float := SpecFloat.binary_normalize prec emax z 0 false.
  Lemma fz_BofZ z : fz z = B2SF (BofZ z).
  Proof. apply (binary_normalize_equiv prec emax Hprec Hmax). Qed.
  Lemma digit_step a dg : 4 <= prec -> 0 <= a -> 0 <= dg < 10 -> 10 * a + dg < 2 ^ prec ->
    SFadd prec emax (SFmul prec emax (fz a) (fz 10)) (fz dg) = fz (10 * a + dg).
  Proof.
    intros Hp Ha Hd Hs. assert (H16 : 16 <= 2 ^ prec) by (change 16 with (2 ^ 4); apply Z.pow_le_mono_r; lia).
    rewrite !fz_BofZ, (SFmul_equiv prec emax Hprec Hmax), BofZ_mult by lia. rewrite (SFadd_equiv prec emax Hprec Hmax), BofZ_plus by lia.
    f_equal. f_equal. lia.
  Qed.

  Hypothesis Hp4 : 4 <= prec.
  Lemma pow16 : 16 <= 2 ^ prec.
  Proof. change 16 with (2 ^ 4). apply Z.pow_le_mono_r; lia. Qed.

  (* shape of a positive integer constant *)
  Lemma BofZ_pos_shape z : 0 < z < 2 ^ prec -> exists m e H, BofZ z = B754_finite false m e H.
  Proof.
    intros Hz. destruct (BofZ_correct z ltac:(lia)) as (R & F & S).
    assert (S' : Bsign (BofZ z) = false) by (rewrite S; apply Z.ltb_ge; lia).
    destruct (BofZ z) as [s|s| |s m e H]; simpl in *; try discriminate.
    - exfalso. assert (IZR z = 0)%R by (symmetry; exact R). apply eq_IZR in H. lia.
    - clear S. subst s. eauto.
  Qed.
  Lemma fz_pos_shape z : 0 < z < 2 ^ prec -> exists m e, fz z = S754_finite false m e.
  Proof. intros Hz. destruct (BofZ_pos_shape z Hz) as (m & e & H & E). rewrite fz_BofZ, E. simpl. eauto. Qed.
  Lemma fz_nonneg_shape z : 0 <= z < 2 ^ prec -> fz z = S754_zero false \/ exists m e, fz z = S754_finite false m e.
  Proof. intros Hz. destruct (Z.eq_dec z 0) as [->|N]; [left; reflexivity|right; apply fz_pos_shape; lia]. Qed.

  Definition big (y : spec_float) : Prop :=
    y = S754_infinity false \/ exists x : bf, y = B2SF x /\ is_finite x = true /\ Bsign x = false /\ (10 <= B2R x)%R.
  Lemma big_ten : big (fz 10).
  Proof.
    pose proof pow16. right. exists (BofZ 10). destruct (BofZ_correct 10 ltac:(simpl; lia)) as (R & F & S).
    split; [apply fz_BofZ|split; [exact F|split; [exact S|rewrite R; apply Rle_refl]]].
  Qed.
  Lemma big_shape y : big y -> y = S754_infinity false \/ exists m e, y = S754_finite false m e.
  Proof.
    intros [->|(x & -> & F & S & R)]; [left; reflexivity|right].
    destruct x as [s|s| |s m e H]; simpl in *; try discriminate.
    - exfalso. lra.
    - subst s. eauto.
  Qed.
  Lemma big_step y : big y -> big (SFmul prec emax y (fz 10)).
  Proof.
    pose proof pow16 as P16. intros Hy. destruct (fz_pos_shape 10 ltac:(lia)) as (m10 & e10 & E10).
    destruct Hy as [->|(x & -> & F & S & R)].
    - left. rewrite E10. reflexivity.
    - rewrite fz_BofZ, (SFmul_equiv prec emax Hprec Hmax).
      destruct (BofZ_correct 10 ltac:(simpl; lia)) as (R10 & F10 & S10).
      pose proof (Bmult_correct prec emax Hprec Hmax mode_NE x (BofZ 10)) as C. rewrite R10 in C.
      destruct (Rlt_bool _ _) in C.
      + destruct C as (C1 & C2 & C3). right. exists (Bmult mode_NE x (BofZ 10)). split; [reflexivity|].
        rewrite F, F10 in C2. cbn [andb] in C2. split; [exact C2|]. split.
        * rewrite (C3 (finite_not_nan _ C2)), S, S10. reflexivity.
        * rewrite C1. apply round_ge_generic; [apply fexp_correct; assumption|apply valid_rnd_round_mode|apply (int_generic 10); simpl; lia|]. lra.
      + left. rewrite C, S, S10. reflexivity.
  Qed.
  Lemma big_cmp y : big y -> SFcompare y (fz 10) = Some Eq \/ SFcompare y (fz 10) = Some Gt.
  Proof.
    pose proof pow16 as P16. intros Hy. destruct (fz_pos_shape 10 ltac:(lia)) as (m10 & e10 & E10).
    destruct Hy as [->|(x & -> & F & S & R)].
    - right. rewrite E10. reflexivity.
    - rewrite fz_BofZ. destruct (BofZ_correct 10 ltac:(simpl; lia)) as (R10 & F10 & S10).
      change (SFcompare (B2SF x) (B2SF (BofZ 10))) with (Bcompare x (BofZ 10)).
      rewrite (Bcompare_correct prec emax x (BofZ 10) F F10), R10.
      destruct (Rle_lt_or_eq_dec _ _ R) as [L|E].
      + right. rewrite Rcompare_Gt; [reflexivity|exact L].
      + left. rewrite Rcompare_Eq; [reflexivity|symmetry; exact E].
  Qed.
  Lemma big_div y : big y -> SFdiv prec emax (S754_zero false) y = S754_zero false.
  Proof. intros Hy. destruct (big_shape y Hy) as [->|(m & e & ->)]; reflexivity. Qed.
  Lemma add_zero z : 0 <= z < 2 ^ prec -> SFadd prec emax (fz z) (S754_zero false) = fz z.
  Proof. intros Hz. destruct (fz_nonneg_shape z Hz) as [->|(m & e & ->)]; reflexivity. Qed.
End BofZ.

(* ------------------------------------------------------------------ parse_num<T> on  <digits> . 0...0 *)
Lemma fk_prec_gt0 k : FLX.Prec_gt_0 (fprec k).
Proof. destruct k; reflexivity. Qed.
Lemma fk_prec_lt k : Prec_lt_emax (fprec k) (femax k).
Proof. destruct k; reflexivity. Qed.
Lemma fk_prec_ge4 k : 4 <= fprec k.
Proof. destruct k; discriminate. Qed.

Definition dval (l : list N) (acc : Z) : Z := fold_left (fun a c => 10 * a + (Z.of_N c - 48)) l acc.
Definition all_dec (l : list N) : Prop := Forall (fun c => (48 <= c <= 57)%N) l.
Definition zf : spec_float := S754_zero false.

Lemma dval_ge l : forall v, all_dec l -> 0 <= v -> v <= dval l v.
Proof.
  induction l as [|c r IH]; intros v H Hv; [unfold dval; simpl; lia|]. inversion H; subst.
  unfold dval. cbn [fold_left]. fold (dval r (10 * v + (Z.of_N c - 48))).
  specialize (IH (10 * v + (Z.of_N c - 48)) H3 ltac:(lia)). lia.
Qed.

Section PerFormat.
  Variable k : fk.
  Local Notation prec := (fprec k).
  Local Notation emax := (femax k).
  Local Notation HP := (fk_prec_gt0 k).
  Local Notation HM := (fk_prec_lt k).
  Local Notation H4 := (fk_prec_ge4 k).

  Lemma f_of_Z_fz v : f_of_Z k v = fz prec emax v.
  Proof. reflexivity. Qed.

  Lemma step_digit_int c v :
    (48 <= c <= 57)%N -> 0 <= v -> 10 * v + (Z.of_N c - 48) < 2 ^ prec ->
    pn_step k (mkPn (f_of_Z k v) zf zf 0) c = mkPn (f_of_Z k (10 * v + (Z.of_N c - 48))) zf zf 0.
  Proof.
    intros Hc Hv Hb. unfold pn_step. cbn [pn_t pn_base pn_dp pn_exp].
    repeat match goal with |- context [(c =? ?n)%N] => destruct (N.eqb_spec c n); [lia|] end. cbn [orb].
    destruct (N.leb_spec 48 c); [|lia]. destruct (N.leb_spec c 57); [|lia]. cbn [andb].
    pose proof (pow16 prec H4) as P16.
    destruct (fz_pos_shape prec emax HP HM H4 10 ltac:(lia)) as (m10 & e10 & E10).
    rewrite !f_of_Z_fz. rewrite E10 at 1. cbn [zf SFcompare]. rewrite <- ?E10.
    rewrite (digit_step prec emax HP HM v (Z.of_N c - 48) H4 Hv ltac:(lia) Hb). reflexivity.
  Qed.

  Lemma phase1 : forall ip v, all_dec ip -> 0 <= v -> dval ip v < 2 ^ prec ->
    fold_left (pn_step k) ip (mkPn (f_of_Z k v) zf zf 0) = mkPn (f_of_Z k (dval ip v)) zf zf 0.
  Proof.
    induction ip as [|c r IH]; intros v H Hv Hb; [reflexivity|]. inversion H; subst.
    unfold dval in *. cbn [fold_left] in *. fold (dval r (10 * v + (Z.of_N c - 48))) in *.
    pose proof (dval_ge r (10 * v + (Z.of_N c - 48)) H3 ltac:(lia)) as Hge.
    rewrite step_digit_int by (try assumption; lia). apply IH; try assumption; lia.
  Qed.

  Lemma step_zero v dp : 0 <= v < 2 ^ prec -> big prec emax dp ->
    pn_step k (mkPn (f_of_Z k v) zf dp 0) 48%N = mkPn (f_of_Z k v) zf (SFmul prec emax dp (f_of_Z k 10)) 0.
  Proof.
    intros Hv Hdp. unfold pn_step. cbn [pn_t pn_base pn_dp pn_exp N.eqb Pos.eqb orb N.leb N.compare Pos.compare Pos.compare_cont andb].
    change (Z.of_N 48 - 48) with 0. change (f_of_Z k 0) with zf.
    rewrite !f_of_Z_fz.
    unfold zf.
    destruct (big_cmp prec emax HP HM H4 dp Hdp) as [E|E]; rewrite E;
      rewrite (big_div prec emax dp Hdp); rewrite (add_zero prec emax HP HM H4 v Hv); reflexivity.
  Qed.
  Lemma phase3 : forall zeros v dp, Forall (fun c => c = 48%N) zeros -> 0 <= v < 2 ^ prec -> big prec emax dp ->
    exists dp', fold_left (pn_step k) zeros (mkPn (f_of_Z k v) zf dp 0) = mkPn (f_of_Z k v) zf dp' 0.
  Proof.
    induction zeros as [|c r IH]; intros v dp H Hv Hdp; [eexists; reflexivity|]. inversion H; subst.
    cbn [fold_left]. rewrite step_zero by assumption. apply IH; try assumption.
    rewrite f_of_Z_fz. apply (big_step prec emax HP HM H4); assumption.
  Qed.

  (* digits '.' zeros: the value is the integer, exactly (no rounding happens anywhere) *)
  Theorem float_int_exact ip zeros :
    all_dec ip -> dval ip 0 < 2 ^ prec -> Forall (fun c => c = 48%N) zeros ->
    parse_num_float k (ip ++ [46%N] ++ zeros) = f_of_Z k (dval ip 0).
  Proof.
    intros Hip Hb Hz. unfold parse_num_float. rewrite !fold_left_app.
    change (S754_zero false) with zf. change (mkPn zf zf zf 0) with (mkPn (f_of_Z k 0) zf zf 0).
    rewrite (phase1 ip 0 Hip ltac:(lia) Hb).
    assert (Hdot : pn_step k (mkPn (f_of_Z k (dval ip 0)) zf zf 0) 46%N = mkPn (f_of_Z k (dval ip 0)) zf (f_of_Z k 10) 0) by reflexivity.
    cbn [fold_left]. rewrite Hdot.
    pose proof (dval_ge ip 0 Hip ltac:(lia)) as Hge.
    destruct (phase3 zeros (dval ip 0) (f_of_Z k 10) Hz ltac:(lia) (big_ten prec emax HP HM H4)) as (dp' & E).
    rewrite E. reflexivity.
  Qed.
End PerFormat.

