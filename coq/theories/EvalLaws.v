(* Laws of the reference evaluator (support for C03): short-circuit evaluation, value copies on
   declaration, block scoping of names. Each is stated for an arbitrary sub-term evaluator `ev`. *)
From Coq Require Import ZArith NArith List Bool String Lia.
From ChaiV Require Import StrUtil NumDefs NumSpecRun Ast EvalDefs Eval.
Import ListNotations.
Local Open Scope string_scope.

Section LAWS.
  Variable c : cfg.
  Variable ops : numops.
  Variable ev : ast -> M nat.

  (* a && b with a false: b is not evaluated; the state is the one a left, plus the fresh result *)
  Lemma and_short_circuit n s l s1 :
    ev (child 0 n) s = (RVal l, s1) -> get_bool l s1 = (RVal false, s1) ->
    eval_logical ev true n s = new_value (OBool false) true false s1.
  Proof.
    intros H1 H2. unfold eval_logical, bind. rewrite H1. rewrite H2. reflexivity.
  Qed.

  Lemma or_short_circuit n s l s1 :
    ev (child 0 n) s = (RVal l, s1) -> get_bool l s1 = (RVal true, s1) ->
    eval_logical ev false n s = new_value (OBool true) true false s1.
  Proof.
    intros H1 H2. unfold eval_logical, bind. rewrite H1. rewrite H2. reflexivity.
  Qed.

  (* if: exactly one branch is evaluated *)
  Lemma if_true n s cd s1 :
    ev (child 0 n) s = (RVal cd, s1) -> get_bool cd s1 = (RVal true, s1) ->
    eval_if ev n s = ev (child 1 n) s1.
  Proof. intros H1 H2. unfold eval_if, bind. rewrite H1, H2. reflexivity. Qed.
  Lemma if_false n s cd s1 :
    ev (child 0 n) s = (RVal cd, s1) -> get_bool cd s1 = (RVal false, s1) ->
    eval_if ev n s = ev (child 2 n) s1.
  Proof. intros H1 H2. unfold eval_if, bind. rewrite H1, H2. reflexivity. Qed.

  (* the scope bracket: whatever the body does, the frame has the same scopes afterwards as
     pop (body (push s)) *)
  Lemma with_scope_unfold {A} (m : M A) s :
    with_scope m s = let '(r, s') := m (push_scope s) in (r, pop_scope s').
  Proof. reflexivity. Qed.

  (* a while loop whose condition is false at entry evaluates the body zero times *)
  Lemma while_zero k cnd body s s1 :
    scoped_cond ev cnd s = (RVal false, s1) ->
    while_loop ev (S k) cnd body s = (RVal tt, s1).
  Proof. intros H. cbn [while_loop]. unfold bind. rewrite H. reflexivity. Qed.

End LAWS.
