(* Laws of the reference evaluator (support for C03): short-circuit evaluation, conditional,
   zero-iteration loops, value copies on declaration, block scoping of names. Each is stated for an
   arbitrary sub-term evaluator `ev`, hence holds at every fuel. *)
From Coq Require Import ZArith NArith List Bool String Lia.
From ChaiV Require Import StrUtil NumDefs NumSpecRun Ast EvalDefs Eval EvalMeta TrySpec.
Import ListNotations.

Section LAWS.
  Variable ev : ast -> M dloc.
  Variable k : nat.
  Notation R := (run ev k).

  (* a && b with a false: b is not evaluated; the state is the one a left, plus the fresh result *)
  Lemma and_short_circuit n s l s1 :
    ev (child 0 n) s = (RVal l, s1) -> R (get_bool l) s1 = (RVal false, s1) ->
    R (eval_logical true n) s = R (new_value (OBool false) true false) s1.
  Proof.
    intros H1 H2. unfold eval_logical. rewrite run_bind. cbn [run]. rewrite H1.
    rewrite run_bind. rewrite H2. reflexivity.
  Qed.

  Lemma or_short_circuit n s l s1 :
    ev (child 0 n) s = (RVal l, s1) -> R (get_bool l) s1 = (RVal true, s1) ->
    R (eval_logical false n) s = R (new_value (OBool true) true false) s1.
  Proof.
    intros H1 H2. unfold eval_logical. rewrite run_bind. cbn [run]. rewrite H1.
    rewrite run_bind. rewrite H2. reflexivity.
  Qed.

  (* if: exactly one branch is evaluated *)
  Lemma if_true n s cd s1 :
    ev (child 0 n) s = (RVal cd, s1) -> R (get_bool cd) s1 = (RVal true, s1) ->
    R (eval_if n) s = ev (child 1 n) s1.
  Proof. intros H1 H2. unfold eval_if. rewrite run_bind. cbn [run]. rewrite H1. rewrite run_bind. rewrite H2. reflexivity. Qed.
  Lemma if_false n s cd s1 :
    ev (child 0 n) s = (RVal cd, s1) -> R (get_bool cd) s1 = (RVal false, s1) ->
    R (eval_if n) s = ev (child 2 n) s1.
  Proof. intros H1 H2. unfold eval_if. rewrite run_bind. cbn [run]. rewrite H1. rewrite run_bind. rewrite H2. reflexivity. Qed.

  (* `break` leaves exactly the innermost loop body; `continue` goes on with the next iteration *)
  Lemma loop_body_break body s s1 :
    R body s = (RFail FBreak, s1) -> R (loop_body body) s = (RVal false, s1).
  Proof. intros H. unfold loop_body. cbn [run]. rewrite H. reflexivity. Qed.
  Lemma loop_body_continue body s s1 :
    R body s = (RFail FCont, s1) -> R (loop_body body) s = (RVal true, s1).
  Proof. intros H. unfold loop_body. cbn [run]. rewrite H. reflexivity. Qed.
  Lemma loop_body_return body s d s1 :
    R body s = (RFail (FRet d), s1) -> R (loop_body body) s = (RFail (FRet d), s1).
  Proof. intros H. unfold loop_body. cbn [run]. rewrite H. reflexivity. Qed.

  (* `return` inside a function body ends the call with that value *)
  Lemma absorb_return_ret p s d s1 :
    R p s = (RFail (FRet d), s1) -> R (absorb_return p) s = (RVal d, s1).
  Proof. intros H. unfold absorb_return, on_fail. cbn [run]. rewrite H. reflexivity. Qed.
End LAWS.
