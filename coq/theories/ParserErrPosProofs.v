(* C01_error_position: the position an eval_error of the parser carries.
   `Err reason line col` of the model is chaiscript::exception::eval_error; line = col = 0 is the one-argument constructor (no position:
   the Char_Parser's escape-sequence errors).  Every other error of ParserDefs.parse carries the line of a cursor position INSIDE the
   caller's buffer:  line = 1 + (number of line ends among the first i bytes) for some i <= length, hence 1 <= line <= line ends + 1.
   The proof is one more traversal of the lexical and grammar layers with a line-only cursor invariant `lpos` (buffer, index within the
   buffer, line field right).  Unlike wf_pos it says nothing about the column, and so `--m_position` / `m_position -= n` preserve it
   unconditionally (C20's side conditions are about the column only); this is what keeps the traversal structural.
   The nested parse of an in-string `${...}` runs over another buffer: its errors are caught and rethrown by Quoted_String at the
   start of the string literal (catch_instr), a position of the outer buffer. *)
From Coq Require Import ZArith NArith List Bool String Lia Arith.
From ChaiV Require Import NumDefs Ast LexDefs LexProofs ParserDefs.
Import ListNotations.
Local Open Scope nat_scope.

Lemma count_nl_app l1 l2 : count_nl (l1 ++ l2) = (count_nl l1 + count_nl l2)%Z.
Proof.
  induction l2 as [|x l2 IH] using rev_ind; [rewrite app_nil_r; unfold count_nl at 3; simpl; lia|].
  rewrite app_assoc, !count_nl_snoc, IH. destruct (N.eqb x NL); lia.
Qed.
Lemma count_nl_nonneg l : (0 <= count_nl l)%Z.
Proof. induction l as [|x l IH] using rev_ind; [reflexivity|]. rewrite count_nl_snoc. destruct (N.eqb x NL); lia. Qed.
Lemma count_nl_firstn_le i l : (0 <= count_nl (firstn i l) <= count_nl l)%Z.
Proof.
  split; [apply count_nl_nonneg|]. rewrite <- (firstn_skipn i l) at 2. rewrite count_nl_app. pose proof (count_nl_nonneg (skipn i l)). lia.
Qed.

Section ErrPos.
  Variable B : list N.

  (* a cursor into B whose line field is right *)
  Definition lpos (p : Position) : Prop := buf p = B /\ idx p <= List.length B /\ line p = (1 + count_nl (firstn (idx p) B))%Z.
  (* the line of some cursor position inside B *)
  Definition line_in (l : Z) : Prop := exists i, i <= List.length B /\ l = (1 + count_nl (firstn i B))%Z.
  (* what an eval_error may carry: no position at all (one-argument constructor), or a line of B *)
  Definition errpos_ok (l c : Z) : Prop := (l = 0 /\ c = 0)%Z \/ line_in l.

  Lemma line_in_bounds l : line_in l -> (1 <= l <= count_nl B + 1)%Z.
  Proof. intros (i & _ & ->). pose proof (count_nl_firstn_le i B). lia. Qed.
  Lemma lpos_line p : lpos p -> line_in (line p).
  Proof. intros (_ & Hi & Hl). exists (idx p). auto. Qed.
  Lemma lpos_err p c : lpos p -> errpos_ok (line p) c.
  Proof. intros H. right. apply lpos_line, H. Qed.
  Lemma lpos_begin : lpos (pos_begin B).
  Proof. unfold lpos, pos_begin. cbn. split; [reflexivity|]. split; [lia|reflexivity]. Qed.

  Lemma lpos_inc p : lpos p -> lpos (pos_inc p).
  Proof.
    destruct p as [b i l c lc]. unfold lpos, pos_inc, has_more. cbn [buf idx line]. intros (-> & Hi & Hl).
    destruct (Nat.ltb i (List.length B)) eqn:Hm; [|cbn [buf idx line]; auto]. apply Nat.ltb_lt in Hm.
    destruct (N.eqb (nth i B 0%N) NL) eqn:E; cbn [buf idx line]; (split; [reflexivity|]; split; [lia|]);
      rewrite (firstn_S_nth _ _ 0%N Hm), count_nl_snoc, E; lia.
  Qed.
  Lemma lpos_dec p q : lpos p -> pos_dec p = Some q -> lpos q.
  Proof.
    destruct p as [b i l c lc]. unfold lpos, pos_dec. cbn [buf idx line last_col col]. intros (-> & Hi & Hl) H.
    destruct i as [|i]; [discriminate|]. assert (Hm : i < List.length B) by lia.
    rewrite (firstn_S_nth _ _ 0%N Hm), count_nl_snoc in Hl.
    destruct (N.eqb (nth i B 0%N) NL) eqn:E; inversion H; subst q; cbn [buf idx line]; (split; [reflexivity|]; split; [lia|]); lia.
  Qed.
  Lemma lpos_add n : forall p, lpos p -> lpos (pos_add p n).
  Proof. induction n as [|n IH]; intros p H; cbn [pos_add]; [exact H|]. apply IH, lpos_inc, H. Qed.
  Lemma lpos_sub n : forall p q, lpos p -> pos_sub p n = Some q -> lpos q.
  Proof.
    induction n as [|n IH]; intros p q H E; cbn [pos_sub] in E; [inversion E; subst; exact H|].
    destruct (pos_dec p) as [p1|] eqn:D; [|discriminate]. apply (IH p1 q); [apply (lpos_dec p p1 H D)|exact E].
  Qed.
  Lemma lpos_set_col p c : lpos p -> lpos (mkPos (buf p) (idx p) (line p) c (last_col p)).
  Proof. intros H. exact H. Qed.

  (* ---------------------------------------------------------------- the rule: from a cursor of B, a normal result is a cursor of B (and the
     value satisfies Q), an eval_error carries no position or a line of B *)
  Section Rules.
    Context {U : Type}.
    Local Notation STu := (state U).
    Definition top {X} : X -> Prop := fun _ => True.
    Definition EOK {X} (m : M U X) (Q : X -> Prop) : Prop :=
      forall s : STu, lpos (pos s) ->
        match m s with Ok (a, s') => lpos (pos s') /\ Q a | Err _ l c => errpos_ok l c | _ => True end.

    Lemma EOK_weaken {X} (m : M U X) (Q Q' : X -> Prop) : EOK m Q -> (forall a, Q a -> Q' a) -> EOK m Q'.
    Proof. intros H HQ s Hs. specialize (H s Hs). destruct (m s) as [[a s']| | |]; auto. destruct H; auto. Qed.
    Lemma EOK_top {X} (m : M U X) (Q : X -> Prop) : EOK m Q -> EOK m top.
    Proof. intros H. apply (EOK_weaken _ _ _ H). intros; exact I. Qed.
    Lemma EOK_bind {X Y} (m : M U X) (k : X -> M U Y) (Q : X -> Prop) (Q' : Y -> Prop) :
      EOK m Q -> (forall a, Q a -> EOK (k a) Q') -> EOK (bind m k) Q'.
    Proof.
      intros Hm Hk s Hs. unfold bind. specialize (Hm s Hs). destruct (m s) as [[a s']| | |]; auto.
      destruct Hm as [Hs' Ha]. apply (Hk a Ha s' Hs').
    Qed.
    Lemma EOK_ret {X} (a : X) (Q : X -> Prop) : Q a -> EOK (ret a) Q.
    Proof. intros H s Hs. simpl. auto. Qed.
    Lemma EOK_get_pos : EOK (@get_pos U) lpos.
    Proof. intros s Hs. simpl. auto. Qed.
    Lemma EOK_set_pos p : lpos p -> EOK (@set_pos U p) top.
    Proof. intros H s Hs. simpl. split; [exact H|exact I]. Qed.
    Lemma EOK_throw_at {X} r (Q : X -> Prop) : EOK (@throw_at U X r) Q.
    Proof. intros s Hs. simpl. apply lpos_err, Hs. Qed.
    Lemma EOK_throw_pos {X} r l c (Q : X -> Prop) : errpos_ok l c -> EOK (@throw_pos U X r l c) Q.
    Proof. intros H s Hs. exact H. Qed.
    Lemma EOK_crash {X} k (Q : X -> Prop) : EOK (@crash_with U X k) Q.
    Proof. intros s Hs. exact I. Qed.
    Lemma EOK_fuel {X} (Q : X -> Prop) : EOK (fun _ : STu => @OutOfFuel (X * STu)) Q.
    Proof. intros s Hs. exact I. Qed.
    Lemma EOK_inc : EOK (@inc U) top.
    Proof. intros s Hs. simpl. split; [apply lpos_inc, Hs|exact I]. Qed.
    Lemma EOK_dec : EOK (@dec U) top.
    Proof. intros s Hs. unfold dec. destruct (pos_dec (pos s)) as [q|] eqn:D; [|exact I]. split; [apply (lpos_dec _ _ Hs D)|exact I]. Qed.
    Lemma EOK_add_n n : EOK (@add_n U n) top.
    Proof. intros s Hs. simpl. split; [apply lpos_add, Hs|exact I]. Qed.
    Lemma EOK_sub_n n : EOK (@sub_n U n) top.
    Proof. intros s Hs. unfold sub_n. destruct (pos_sub (pos s) n) as [q|] eqn:D; [|exact I]. split; [apply (lpos_sub _ _ _ Hs D)|exact I]. Qed.
    Lemma EOK_set_col c : EOK (@set_col U c) top.
    Proof. intros s Hs. simpl. split; [exact Hs|exact I]. Qed.
    Lemma EOK_with_depth {X} (m : M U X) (Q : X -> Prop) : EOK m Q -> EOK (with_depth m) Q.
    Proof.
      intros H s Hs. unfold with_depth. destruct (Nat.ltb max_parse_depth _); [apply lpos_err, Hs|].
      specialize (H (mkState (pos s) (S (depth s)) (user s)) Hs). destruct (m _) as [[a s']| | |]; auto.
    Qed.
    Lemma EOK_while {X} (body : X -> M U (X * bool)) : (forall x, EOK (body x) top) -> forall fuel x, EOK (while_ fuel body x) top.
    Proof.
      intros Hb. induction fuel as [|f IH]; intros x; [apply EOK_fuel|].
      cbn [while_]. eapply EOK_bind; [apply Hb|]. intros [x' b] _. cbn [fst snd]. destruct b; [apply IH|apply EOK_ret; exact I].
    Qed.
    Lemma EOK_loop {X} (body : X -> M U (X * bool)) x : (forall x, EOK (body x) top) -> EOK (loop body x) top.
    Proof. intros Hb s Hs. unfold loop. apply (EOK_while body Hb), Hs. Qed.
  End Rules.

  (* one structural step.  `leaf` closes a call of a function whose lemma is in the hint database *)
  Ltac leaf := solve [ eassumption | eauto 2 with eok ].
  Ltac estep :=
    match goal with
    | |- forall _, _ => intro
    | |- EOK (let _ := _ in _) _ => cbv zeta
    | |- EOK ((fun _ => _) _) _ => cbv beta
    | |- EOK (bind get_pos _) _ => eapply (EOK_bind _ _ lpos); [apply EOK_get_pos|intros ? ?]
    | |- EOK (ret _) _ => apply EOK_ret; solve [exact I | assumption | auto]
    | |- EOK (throw_at _) _ => apply EOK_throw_at
    | |- EOK (throw_pos _ (line _) _) _ => apply EOK_throw_pos; apply lpos_err; assumption
    | |- EOK (throw_pos _ 0%Z 0%Z) _ => apply EOK_throw_pos; left; split; reflexivity
    | |- EOK (crash_with _) _ => apply EOK_crash
    | |- EOK (fun _ => OutOfFuel) _ => apply EOK_fuel
    | |- EOK (with_depth _) _ => apply EOK_with_depth
    | |- EOK (loop _ _) _ => apply EOK_loop; intro
    | |- EOK (set_pos _) _ => apply EOK_set_pos; assumption
    | |- EOK (if ?c then _ else _) _ => destruct c
    | |- EOK (match ?c with _ => _ end) _ => destruct c
    | |- EOK _ top => leaf
    | |- EOK (bind _ _) _ => eapply (EOK_bind _ _ top); [|intros ? _]
    end.
  Ltac eok := repeat estep.

  Hint Resolve EOK_inc EOK_dec EOK_add_n EOK_sub_n EOK_set_col : eok.

  (* ---------------------------------------------------------------- the lexical layer *)
  Section Lex.
    Context {U : Type}.
    Variable A : alphabets.
    Variable T : int_tables.
    Variable K : kw_tables.
    Local Notation STu := (state U).

    Lemma EOK_Symbol_ sym : EOK (@Symbol_ U sym) top.
    Proof. unfold Symbol_. eok. Qed.
    Lemma EOK_Char_ c : EOK (@Char_ U c) top.
    Proof. unfold Char_. eok. Qed.
    Hint Resolve EOK_Symbol_ EOK_Char_ : eok.
    Lemma kw_match_lpos t : forall p q, lpos p -> kw_match t p = Some q -> lpos q.
    Proof.
      induction t as [|c r IH]; intros p q H E; cbn [kw_match] in E; [inversion E; subst; exact H|].
      destruct (has_more p); [|inversion E; subst; exact H]. destruct (N.eqb (deref p) c); [|discriminate].
      apply (IH _ _ (lpos_inc _ H) E).
    Qed.
    Lemma EOK_Keyword_ t : EOK (@Keyword_ U t) top.
    Proof.
      unfold Keyword_. eapply (EOK_bind _ _ lpos); [apply EOK_get_pos|]. intros p Hp. destruct (Nat.leb _ _); [|eok].
      destruct (kw_match t p) as [q|] eqn:E; [|eok]. pose proof (kw_match_lpos _ _ _ Hp E). eok.
    Qed.
    Lemma EOK_Eol_ t : EOK (@Eol_ U t) top.
    Proof. unfold Eol_. eok. Qed.
    Hint Resolve EOK_Keyword_ EOK_Eol_ : eok.
    Lemma EOK_SkipComment : EOK (@SkipComment U) top.
    Proof. unfold SkipComment, ml_comment_body, line_comment_body. eok. Qed.
    Hint Resolve EOK_SkipComment : eok.
    Lemma EOK_SkipWS sc : EOK (@SkipWS U A sc) top.
    Proof. unfold SkipWS, skipws_body. eok. Qed.
    Hint Resolve EOK_SkipWS : eok.
    Lemma EOK_skip_while a : EOK (@skip_while U a) top.
    Proof. unfold skip_while, skip_while_body. eok. Qed.
    Lemma EOK_at_alpha a : EOK (@at_alpha U a) top.
    Proof. unfold at_alpha. eok. Qed.
    Lemma EOK_at_char f : EOK (@at_char U f) top.
    Proof. unfold at_char. eok. Qed.
    Hint Resolve EOK_skip_while EOK_at_alpha EOK_at_char : eok.
    Lemma EOK_read_exponent_and_suffix : EOK (@read_exponent_and_suffix U A) top.
    Proof. unfold read_exponent_and_suffix. eok. Qed.
    Hint Resolve EOK_read_exponent_and_suffix : eok.
    Lemma EOK_Float_ : EOK (@Float_ U A) top.
    Proof. unfold Float_. eok. Qed.
    Lemma EOK_prefixed_ l d : EOK (@prefixed_ U A l d) top.
    Proof. unfold prefixed_. eok. Qed.
    Hint Resolve EOK_Float_ EOK_prefixed_ : eok.
    Lemma EOK_int_token start base pre : lpos start -> EOK (@int_token U T start base pre) top.
    Proof. intros Hst. unfold int_token. eok. Qed.
    Hint Resolve EOK_int_token : eok.
    Lemma EOK_Num : EOK (@Num U A T) top.
    Proof. unfold Num, Hex_, Binary_, IntSuffix_. eok. Qed.
    Lemma EOK_Eol : EOK (@Eol U A) top.
    Proof. unfold Eol. eok. Qed.
    Lemma EOK_Eos : EOK (@Eos U A) top.
    Proof. unfold Eos. eok. Qed.
    Lemma EOK_Char c : EOK (@Char U A c) top.
    Proof. unfold Char. eok. Qed.
    Lemma EOK_Keyword t : EOK (@Keyword U A t) top.
    Proof. unfold Keyword. eok. Qed.
    Hint Resolve EOK_Num EOK_Eol EOK_Eos EOK_Char EOK_Keyword : eok.
    Lemma EOK_Id_ : EOK (@Id_ U A) top.
    Proof. unfold Id_, backtick_body. eok. Qed.
    Hint Resolve EOK_Id_ : eok.
    Lemma EOK_Id v : EOK (@Id U A K v) top.
    Proof. unfold Id. eok. Qed.
    Lemma EOK_Quoted_String_ : EOK (@Quoted_String_ U) top.
    Proof. unfold Quoted_String_, qs_body. eok. Qed.
    Lemma EOK_Single_Quoted_String_ : EOK (@Single_Quoted_String_ U) top.
    Proof. unfold Single_Quoted_String_, sqs_body. eok. Qed.
    Lemma EOK_between start : EOK (@between U start) top.
    Proof. unfold between. eok. Qed.
    Hint Resolve EOK_Id EOK_Quoted_String_ EOK_Single_Quoted_String_ EOK_between : eok.
    Lemma EOK_Single_Quoted_String : EOK (@Single_Quoted_String U A) top.
    Proof. unfold Single_Quoted_String. eok. Qed.

    (* what Quoted_String hands to the grammar layer: the start of the literal, and an error that is positioned there or not at all *)
    Definition qs_post (o : option qstring) : Prop :=
      match o with
      | Some q => line_in (qs_l q) /\ match qs_final q with QErr _ el ec => errpos_ok el ec | QFin _ => True end
      | None => True
      end.
    Lemma qs_scan_post fuel : forall l c cp0 segs s q,
      line_in l -> qs_scan fuel l c cp0 segs s = QS q -> qs_post (Some q).
    Proof.
      induction fuel as [|f IH]; intros l c cp0 segs s q Hl E; cbn [qs_scan] in E; [discriminate|].
      assert (Fail : forall r (p : bool), QS (mkQs l c segs (if p then QErr r l c else QErr r 0%Z 0%Z)) = QS q -> qs_post (Some q)).
      { intros r p H. inversion H; subst q. cbn [qs_post qs_l qs_final]. split; [exact Hl|].
        destruct p; [right; exact Hl|left; split; reflexivity]. }
      destruct s as [|t r].
      - destruct (cp_finish cp0) as [c1|rr pp|k]; [|apply (Fail rr true E)|discriminate].
        inversion E; subst q. cbn [qs_post qs_l qs_final]. auto.
      - destruct (cp_marker cp0).
        + destruct (N.eqb t 123).
          * destruct (split_brace r) as [ev rest]. destruct rest as [|x rest']; [apply (Fail _ true E)|]. apply (IH _ _ _ _ _ _ Hl E).
          * apply (IH _ _ _ _ _ _ Hl E).
        + destruct (cp_parse true cp0 t) as [c1|rr pp|k]; [apply (IH _ _ _ _ _ _ Hl E)|apply (Fail rr pp E)|discriminate].
    Qed.
    Lemma EOK_Quoted_String : EOK (@Quoted_String U A) qs_post.
    Proof.
      unfold Quoted_String. apply EOK_with_depth. eapply (EOK_bind _ _ top); [leaf|intros _ _].
      eapply (EOK_bind _ _ lpos); [apply EOK_get_pos|intros start Hst].
      eapply (EOK_bind _ _ top); [leaf|intros b _]. destruct b; [|apply EOK_ret; exact I].
      eapply (EOK_bind _ _ top); [leaf|intros content _].
      destruct (qs_scan _ _ _ _ _ _) as [q| |] eqn:E; [|apply EOK_crash|apply EOK_fuel].
      apply EOK_ret. apply (qs_scan_post _ _ _ _ _ _ _ (lpos_line _ Hst) E).
    Qed.
  End Lex.
  (* ---------------------------------------------------------------- the grammar layer *)
  Hint Resolve EOK_Symbol_ EOK_Char_ EOK_Keyword_ EOK_Eol_ EOK_SkipComment EOK_SkipWS EOK_skip_while EOK_at_alpha EOK_at_char
               EOK_Num EOK_Eol EOK_Eos EOK_Char EOK_Keyword EOK_Id EOK_Single_Quoted_String : eok.

  Section Gram.
    Variable A : alphabets.
    Variable T : int_tables.
    Variable K : kw_tables.
    Variable G : gtables.
    Local Notation ST := (state pstate).

    Lemma EOK_get_stack : EOK get_stack top.
    Proof. intros s Hs. simpl. split; [exact Hs|exact I]. Qed.
    Lemma EOK_set_stack l : EOK (set_stack l) top.
    Proof. intros s Hs. simpl. split; [exact Hs|exact I]. Qed.
    Lemma EOK_get_fname : EOK get_fname top.
    Proof. intros s Hs. simpl. split; [exact Hs|exact I]. Qed.
    Lemma EOK_tick {X} (m : PM X) Q : EOK m Q -> EOK (fun s => m (tick s)) Q.
    Proof. intros H s Hs. apply (H (tick s)). exact Hs. Qed.
    Hint Resolve EOK_get_stack EOK_set_stack EOK_get_fname : eok.
    Lemma EOK_stack_size : EOK stack_size top.
    Proof. unfold stack_size. eok. Qed.
    Lemma EOK_push n : EOK (push n) top.
    Proof. unfold push. eok. Qed.
    Lemma EOK_build_match k start text : EOK (build_match k start text) top.
    Proof. unfold build_match. eok. Qed.
    Lemma EOK_make_node k text l1 c1 c : EOK (make_node k text l1 c1 c) top.
    Proof. unfold make_node. eok. Qed.
    Hint Resolve EOK_stack_size EOK_push EOK_build_match EOK_make_node : eok.
    Lemma EOK_const_of v : EOK (const_of v) top.
    Proof. destruct v; cbn [const_of]; eok. Qed.
    Hint Resolve EOK_const_of : eok.
    Lemma EOK_push_token t : EOK (push_token t) top.
    Proof. destruct t; cbn [push_token]; eok. Qed.
    Hint Resolve EOK_push_token : eok.
    Lemma EOK_push_opt o : EOK (push_opt o) top.
    Proof. destruct o; cbn [push_opt]; eok. Qed.
    Lemma EOK_unless b r : EOK (unless b r) top.
    Proof. unfold unless. eok. Qed.
    Hint Resolve EOK_push_opt EOK_unless : eok.
    Lemma EOK_Id_g v : EOK (Id_g A K v) top.
    Proof. unfold Id_g. eok. Qed.
    Lemma EOK_Num_g : EOK (Num_g A T) top.
    Proof. unfold Num_g. eok. Qed.
    Lemma EOK_SQS_g : EOK (Single_Quoted_String_g A) top.
    Proof. unfold Single_Quoted_String_g. eok. Qed.
    Lemma EOK_eat_eols : EOK (eat_eols A) top.
    Proof. unfold eat_eols. eok. Qed.
    Lemma EOK_eat_eoss : EOK (eat_eoss A) top.
    Proof. unfold eat_eoss. eok. Qed.
    Lemma EOK_Symbol sym dp : EOK (Symbol A G sym dp) top.
    Proof. unfold Symbol. eok. Qed.
    Hint Resolve EOK_Id_g EOK_Num_g EOK_SQS_g EOK_eat_eols EOK_eat_eoss EOK_Symbol : eok.
    Lemma EOK_Arg ta : EOK (Arg A K ta) top.
    Proof. unfold Arg. eok. Qed.
    Hint Resolve EOK_Arg : eok.
    Lemma EOK_comma_items item reason : EOK item top -> EOK (comma_items A item reason) top.
    Proof. intros Hi. unfold comma_items. eok. Qed.
    Lemma EOK_arg_list_of item : EOK item top -> EOK (arg_list_of A item) top.
    Proof. intros Hi. pose proof (EOK_comma_items item "Unexpected value in parameter list" Hi). unfold arg_list_of. eok. Qed.
    Lemma EOK_Id_Arg_List : EOK (Id_Arg_List A K) top.
    Proof. apply EOK_arg_list_of, EOK_Arg. Qed.
    Lemma EOK_Decl_Arg_List : EOK (Decl_Arg_List A K) top.
    Proof. apply EOK_arg_list_of, EOK_Arg. Qed.
    Lemma EOK_Reference : EOK (Reference A K G) top.
    Proof. unfold Reference. eok. Qed.
    Lemma EOK_keyword_node fn k : EOK (keyword_node A G fn k) top.
    Proof. unfold keyword_node. eok. Qed.
    Lemma EOK_class_id_node cn : EOK (class_id_node cn) top.
    Proof. unfold class_id_node. eok. Qed.
    Hint Resolve EOK_Id_Arg_List EOK_Decl_Arg_List EOK_Reference EOK_keyword_node EOK_class_id_node : eok.
    Lemma EOK_Var_Decl cc cn : EOK (Var_Decl A K G cc cn) top.
    Proof. unfold Var_Decl. eok. Qed.
    Lemma EOK_first_symbol syms : EOK (first_symbol A G syms) top.
    Proof. induction syms as [|e r IH]; cbn [first_symbol]; eok. Qed.
    Hint Resolve EOK_Var_Decl EOK_first_symbol : eok.
    Lemma EOK_Operator_Helper prec : EOK (Operator_Helper A G prec) top.
    Proof. unfold Operator_Helper. eok. Qed.
    Lemma EOK_method_call_fixup : EOK method_call_fixup top.
    Proof. unfold method_call_fixup. eok. Qed.
    Hint Resolve EOK_Operator_Helper EOK_method_call_fixup : eok.

    Definition not_instr (nt : NT) : Prop := match nt with NInstr _ => False | _ => True end.

    Section WithCall.
      Variable call : NT -> PM bool.
      Hypothesis Hcall : forall nt, not_instr nt -> EOK (call nt) top.
      Hypothesis Hinstr : forall ev l c, errpos_ok l c -> EOK (catch_instr (call (NInstr ev)) l c) top.
      Hint Extern 1 (EOK (call _) _) => apply Hcall; exact I : eok.

      Lemma EOK_qs_segments prev l c : line_in l -> forall segs first, EOK (qs_segments call prev l c segs first) top.
      Proof.
        intros Hl. assert (He : forall ev, EOK (catch_instr (call (NInstr ev)) l c) top) by (intros ev; apply Hinstr; right; exact Hl).
        induction segs as [|[lit ev] r IH]; intros first; cbn [qs_segments]; eok.
      Qed.
      Lemma EOK_qs_replay q : qs_post (Some q) -> EOK (qs_replay call q) top.
      Proof.
        intros [Hl Hf]. unfold qs_replay.
        eapply (EOK_bind _ _ top); [leaf|intros prev _]. eapply (EOK_bind _ _ top); [apply EOK_qs_segments, Hl|intros _ _].
        destruct (qs_final q) as [tail|r el ec]; [eok|]. apply EOK_throw_pos, Hf.
      Qed.
      Lemma EOK_Quoted_String_g : EOK (Quoted_String_g A call) top.
      Proof.
        unfold Quoted_String_g. eapply (EOK_bind _ _ qs_post); [apply EOK_Quoted_String|]. intros [q|] Hq; [|eok].
        apply EOK_with_depth, EOK_qs_replay, Hq.
      Qed.
      Hint Resolve EOK_Quoted_String_g : eok.

      Lemma EOK_Arg_List_b : EOK (Arg_List_b A call) top.
      Proof. unfold Arg_List_b. apply EOK_arg_list_of. leaf. Qed.
      Lemma EOK_Container_Arg_List_b : EOK (Container_Arg_List_b A call) top.
      Proof.
        pose proof (EOK_comma_items (call NMap_Pair) "Unexpected value in container" (Hcall NMap_Pair I)).
        pose proof (EOK_comma_items (call (NOperator 0)) "Unexpected value in container" (Hcall (NOperator 0) I)).
        unfold Container_Arg_List_b. eok.
      Qed.
      Lemma EOK_Lambda_b : EOK (Lambda_b A K G call) top.
      Proof. unfold Lambda_b. eok. Qed.
      Lemma EOK_Def_b cc cn : EOK (Def_b A K G call cc cn) top.
      Proof. unfold Def_b. eok. Qed.
      Lemma EOK_Try_b : EOK (Try_b A K G call) top.
      Proof. unfold Try_b. eok. Qed.
      Lemma EOK_If_b : EOK (If_b A G call) top.
      Proof. unfold If_b. eok. Qed.
      Lemma EOK_Class_b ca : EOK (Class_b A K G call ca) top.
      Proof. unfold Class_b. eok. Qed.
      Lemma EOK_cond_block what : EOK (cond_block A call what) top.
      Proof. unfold cond_block. eok. Qed.
      Hint Resolve EOK_cond_block : eok.
      Lemma EOK_While_b : EOK (While_b A G call) top.
      Proof. unfold While_b. eok. Qed.
      Lemma EOK_Range_Expression_b : EOK (Range_Expression_b A call) top.
      Proof. unfold Range_Expression_b. eok. Qed.
      Lemma EOK_for_guard dflt : EOK (for_guard A call dflt) top.
      Proof. unfold for_guard. eok. Qed.
      Hint Resolve EOK_for_guard : eok.
      Lemma EOK_For_Guards_b : EOK (For_Guards_b A call) top.
      Proof. unfold For_Guards_b. eok. Qed.
      Lemma EOK_For_b : EOK (For_b A G call) top.
      Proof. unfold For_b. eok. Qed.
      Lemma EOK_Case_b : EOK (Case_b A G call) top.
      Proof. unfold Case_b. eok. Qed.
      Lemma EOK_Switch_b : EOK (Switch_b A G call) top.
      Proof. unfold Switch_b. eok. Qed.
      Lemma EOK_block_of inner reason : EOK inner top -> EOK (block_of A inner reason) top.
      Proof. intros Hi. unfold block_of. eok. Qed.
      Lemma EOK_Return_b : EOK (Return_b A G call) top.
      Proof. unfold Return_b. eok. Qed.
      Lemma EOK_Dot_Fun_Array_b : EOK (Dot_Fun_Array_b A T K G call) top.
      Proof. unfold Dot_Fun_Array_b. eok. Qed.
      Lemma EOK_Paren_Expression_b : EOK (Paren_Expression_b A call) top.
      Proof. unfold Paren_Expression_b. eok. Qed.
      Lemma EOK_Inline_Container_b : EOK (Inline_Container_b A call) top.
      Proof. unfold Inline_Container_b. eok. Qed.
      Lemma EOK_prefix_try opers prev : EOK (prefix_try A G call opers prev) top.
      Proof. induction opers as [|o r IH]; cbn [prefix_try]; eok. Qed.
      Hint Resolve EOK_prefix_try : eok.
      Lemma EOK_Prefix_b : EOK (Prefix_b A G call) top.
      Proof. unfold Prefix_b. eok. Qed.
      Lemma EOK_Value_b : EOK (Value_b A K G call) top.
      Proof. unfold Value_b. eok. Qed.
      Lemma EOK_Operator_b prec : EOK (Operator_b A G call prec) top.
      Proof. unfold Operator_b. eok. Qed.
      Lemma EOK_pair_of sep k reason : EOK (pair_of A G call sep k reason) top.
      Proof. unfold pair_of. eok. Qed.
      Lemma EOK_equation_try syms prev : EOK (equation_try A G call syms prev) top.
      Proof. induction syms as [|o r IH]; cbn [equation_try]; eok. Qed.
      Hint Resolve EOK_equation_try : eok.
      Lemma EOK_Equation_b : EOK (Equation_b A G call) top.
      Proof. unfold Equation_b. eok. Qed.
      Lemma EOK_Class_Statements_b cn : EOK (Class_Statements_b A K G call cn) top.
      Proof. unfold Class_Statements_b. eok. Qed.
      Lemma EOK_Statements_b ca : EOK (Statements_b A G call ca) top.
      Proof. unfold Statements_b, any_of, Break, Continue. cbn [fold_right]. eok. Qed.

      Lemma EOK_body nt : not_instr nt -> EOK (body A T K G call nt) top.
      Proof.
        intros Hn. destruct nt; try contradiction; cbn [body].
        - apply EOK_Arg_List_b.
        - apply EOK_Container_Arg_List_b.
        - apply EOK_Lambda_b.
        - apply EOK_Def_b.
        - apply EOK_Try_b.
        - apply EOK_If_b.
        - apply EOK_Class_b.
        - apply EOK_While_b.
        - apply EOK_Range_Expression_b.
        - apply EOK_For_Guards_b.
        - apply EOK_For_b.
        - apply EOK_Case_b.
        - apply EOK_Switch_b.
        - apply EOK_block_of. leaf.
        - apply EOK_block_of. leaf.
        - apply EOK_Return_b.
        - apply EOK_Dot_Fun_Array_b.
        - apply EOK_Paren_Expression_b.
        - apply EOK_Inline_Container_b.
        - apply EOK_Prefix_b.
        - apply EOK_Value_b.
        - apply EOK_Operator_b.
        - apply EOK_pair_of.
        - apply EOK_pair_of.
        - apply EOK_Equation_b.
        - apply EOK_Class_Statements_b.
        - apply EOK_Statements_b.
      Qed.

      (* parse_internal; the root node is of no interest here *)
      Lemma EOK_parse_internal_b : EOK (parse_internal_b A call) top.
      Proof. unfold parse_internal_b. eok. Qed.
    End WithCall.

    (* parse_instr_eval runs over another buffer; whatever it throws is rethrown at (l, c) *)
    Lemma EOK_catch_Instr call ev l c : errpos_ok l c -> EOK (catch_instr (fun s => Instr_b A call ev (tick s)) l c) top.
    Proof.
      intros H s Hs. unfold catch_instr, Instr_b. destruct (parse_internal_b A call _) as [[n s']| | |]; cbn [pos]; auto.
      split; [exact Hs|exact I].
    Qed.

    Lemma P_EOK : forall f,
      (forall nt, not_instr nt -> EOK (P A T K G f nt) top) /\
      (forall ev l c, errpos_ok l c -> EOK (catch_instr (P A T K G f (NInstr ev)) l c) top).
    Proof.
      induction f as [|f [IH1 IH2]]; split.
      - intros nt _. cbn [P]. apply EOK_fuel.
      - intros ev l c _ s Hs. exact I.
      - intros nt Hn. cbn [P]. apply EOK_tick. apply EOK_body; assumption.
      - intros ev l c H. cbn [P body]. apply EOK_catch_Instr, H.
    Qed.
  End Gram.
End ErrPos.

(* ------------------------------------------------------------------ parse *)
Section Parse.
  Variable A : alphabets.
  Variable T : int_tables.
  Variable K : kw_tables.
  Variable G : gtables.

  Theorem parse_full_error_position bytes file r l c :
    parse_full A T K G bytes file = Err r l c ->
    (l = 0 /\ c = 0)%Z \/ (exists i, i <= List.length bytes /\ l = (1 + count_nl (firstn i bytes))%Z) .
  Proof.
    intros E. unfold parse_full in E.
    destruct (P_EOK bytes A T K G parse_fuel) as [H1 H2].
    pose proof (EOK_parse_internal_b bytes A (P A T K G parse_fuel) H1 (mkState (pos_begin bytes) 0 (mkPS [] file 0%N)) (lpos_begin bytes)) as H.
    rewrite E in H. exact H.
  Qed.
  Theorem parse_error_position bytes file r l c :
    parse A T K G bytes file = Err r l c ->
    (l = 0 /\ c = 0)%Z \/ ((exists i, i <= List.length bytes /\ l = (1 + count_nl (firstn i bytes))%Z) /\ (1 <= l <= count_nl bytes + 1)%Z).
  Proof.
    intros E. unfold parse in E. destruct (parse_full A T K G bytes file) as [[n s]|r' l' c'| |] eqn:Ef; try discriminate.
    inversion E; subst. destruct (parse_full_error_position _ _ _ _ _ Ef) as [H|H]; [left; exact H|right].
    split; [exact H|]. apply (line_in_bounds bytes l H).
  Qed.
End Parse.
