(* C19 — eval_file evaluates the file's bytes; use() evaluates once.
   Model and specification, total computable Gallina, no proofs.

   Part A (bytes):  load_file / skip_bom as a small std::ifstream state machine that interprets the ordered
     list of stream operations the translator recognises in the source (tools/translate/t_LoadFile.py ->
     gen/G_LoadFile.v).  Specification: the content minus at most one leading EF BB BF.
   Part B (histories):  use() / eval_file() over search paths and the used-files set; the statements of
     use()'s try block are interpreted from the regenerated list.  Files are abstract programs (a list of
     nested use / eval_file / throw); evaluation is fuelled, running out of fuel is an explicit outcome. *)
From Coq Require Import List Bool String Arith NArith.
Import ListNotations.
Local Open Scope list_scope.

Definition byte := N.
Definition bytes := list byte.

Fixpoint lookup {V : Type} (k : string) (l : list (string * V)) : option V :=
  match l with
  | [] => None
  | (k', v) :: r => if String.eqb k' k then Some v else lookup k r
  end.
Fixpoint mem (k : string) (l : list string) : bool :=
  match l with [] => false | x :: r => String.eqb x k || mem k r end.

(* ================================================================ Part A: the stream *)
(* std::ifstream over a file's content: get position and the state bits that matter *)
Record stream := mkStream { s_data : bytes; s_pos : nat; s_fail : bool; s_eof : bool }.
Definition s_good (s : stream) : bool := negb (s_fail s || s_eof s).

(* istream::read(buf, n): the sentry fails on a stream that is not good() (sets failbit, extracts nothing);
   otherwise sgetn; fewer than n characters sets eofbit|failbit.  Returns the characters stored. *)
Definition st_read (n : nat) (s : stream) : stream * bytes :=
  if s_good s then
    let got := firstn n (skipn (s_pos s) (s_data s)) in
    if Nat.ltb (List.length got) n
    then (mkStream (s_data s) (s_pos s + List.length got) true true, got)
    else (mkStream (s_data s) (s_pos s + n) false false, got)
  else (mkStream (s_data s) (s_pos s) true (s_eof s), []).

(* istream::seekg(pos): clears eofbit first (C++11), then does nothing when fail() *)
Definition st_seek (k : nat) (s : stream) : stream :=
  if s_fail s then mkStream (s_data s) (s_pos s) true false
  else if Nat.leb k (List.length (s_data s)) then mkStream (s_data s) k false false
  else mkStream (s_data s) (s_pos s) true false.
Definition st_clear (s : stream) : stream := mkStream (s_data s) (s_pos s) false false.
(* tellg: -1 when fail() *)
Definition st_tell (s : stream) : option nat := if s_fail s then None else Some (s_pos s).

(* overwrite the first characters of a buffer *)
Fixpoint store (got buf : bytes) : bytes :=
  match got, buf with
  | [], _ => buf
  | g :: gr, [] => []                    (* cannot happen: reads never exceed the buffer *)
  | g :: gr, _ :: br => g :: store gr br
  end.
Fixpoint bytes_eqb (a b : bytes) : bool :=
  match a, b with
  | [], [] => true
  | x :: r, y :: s => N.eqb x y && bytes_eqb r s
  | _, _ => false
  end.

(* --- skip_bom, statement by statement *)
Inductive bsimple := BMemset (n : nat) | BRead (n : nat) | BClear | BSeek (k : nat) | BReturn (b : bool).
Inductive bop := BS (s : bsimple) | BIfBufferIs (sig : bytes) (th : list bsimple).

Record bframe := mkBF { bf_s : stream; bf_buf : bytes; bf_ret : option bool }.
Definition bstep_simple (fr : bframe) (o : bsimple) : bframe :=
  match bf_ret fr with
  | Some _ => fr
  | None =>
      match o with
      | BMemset n => mkBF (bf_s fr) (repeat 0%N n) None
      | BRead n => let (s', got) := st_read n (bf_s fr) in mkBF s' (store got (bf_buf fr)) None
      | BClear => mkBF (st_clear (bf_s fr)) (bf_buf fr) None
      | BSeek k => mkBF (st_seek k (bf_s fr)) (bf_buf fr) None
      | BReturn b => mkBF (bf_s fr) (bf_buf fr) (Some b)
      end
  end.
Definition bstep (fr : bframe) (o : bop) : bframe :=
  match o with
  | BS s => bstep_simple fr s
  | BIfBufferIs sig th =>
      match bf_ret fr with
      | Some _ => fr
      | None => if bytes_eqb (bf_buf fr) sig then fold_left bstep_simple th fr else fr
      end
  end.
Definition run_skip_bom (ops : list bop) (s : stream) : bframe := fold_left bstep ops (mkBF s [] None).

(* --- load_file, statement by statement *)
Inductive lop :=
| LOpen (ate : bool)            (* std::ifstream infile(name, in | [ate] | binary) *)
| LThrowIfNotOpen               (* if (!infile.is_open()) throw file_not_found_error(name) *)
| LTell                         (* auto size = infile.tellg() *)
| LSeekBeg (k : nat)            (* infile.seekg(k, std::ios::beg) *)
| LSkipBom (adj : nat)          (* if (skip_bom(infile)) size -= adj *)
| LFinish.                      (* size == 0 ? "" : read size characters into a zero-filled vector *)

Inductive loaded := Content (b : bytes) | FileNotFound | Undefined.
Record lframe := mkLF { lf_s : stream; lf_open : bool; lf_size : option nat; lf_neg : bool; lf_out : option loaded }.

Definition closed_stream : stream := mkStream [] 0 true false.      (* a failed open sets failbit *)

Definition lstep (bops : list bop) (file : option bytes) (fr : lframe) (o : lop) : lframe :=
  match lf_out fr with
  | Some _ => fr
  | None =>
      match o with
      | LOpen ate =>
          match file with
          | Some c => mkLF (mkStream c (if ate then List.length c else 0) false false) true None false None
          | None => mkLF closed_stream false None false None
          end
      | LThrowIfNotOpen => if lf_open fr then fr else mkLF (lf_s fr) false (lf_size fr) (lf_neg fr) (Some FileNotFound)
      | LTell => mkLF (lf_s fr) (lf_open fr) (st_tell (lf_s fr)) (lf_neg fr) None
      | LSeekBeg k => mkLF (st_seek k (lf_s fr)) (lf_open fr) (lf_size fr) (lf_neg fr) None
      | LSkipBom adj =>
          let b := run_skip_bom bops (lf_s fr) in
          match bf_ret b with
          | None => mkLF (bf_s b) (lf_open fr) (lf_size fr) (lf_neg fr) (Some Undefined)    (* falls off the end of a bool function *)
          | Some false => mkLF (bf_s b) (lf_open fr) (lf_size fr) (lf_neg fr) None
          | Some true =>
              match lf_size fr with
              | Some n => if Nat.ltb n adj then mkLF (bf_s b) (lf_open fr) (Some 0) true None
                          else mkLF (bf_s b) (lf_open fr) (Some (n - adj)) (lf_neg fr) None
              | None => mkLF (bf_s b) (lf_open fr) None true None
              end
          end
      | LFinish =>
          match lf_size fr, lf_neg fr with
          | Some 0, false => mkLF (lf_s fr) (lf_open fr) (lf_size fr) false (Some (Content []))
          | Some n, false =>
              let (s', got) := st_read n (lf_s fr) in
              mkLF s' (lf_open fr) (lf_size fr) false (Some (Content (store got (repeat 0%N n))))
          | _, _ => mkLF (lf_s fr) (lf_open fr) (lf_size fr) (lf_neg fr) (Some Undefined)   (* vector of size_t(-1) *)
          end
      end
  end.

Definition run_load_file (bops : list bop) (lops : list lop) (file : option bytes) : loaded :=
  match lf_out (fold_left (lstep bops file) lops (mkLF closed_stream false None false None)) with
  | Some r => r
  | None => Undefined
  end.

Definition bom : bytes := [239; 187; 191]%N.
Definition canonical_skip_bom : list bop :=
  [BS (BMemset 3); BS (BRead 3); BIfBufferIs bom [BSeek 3; BReturn true]; BS BClear; BS (BSeek 0); BS (BReturn false)].
Definition canonical_load_file : list lop := [LOpen true; LThrowIfNotOpen; LTell; LSeekBeg 0; LSkipBom 3; LFinish].

(* --- the specification *)
Definition strip_bom (c : bytes) : bytes :=
  match c with
  | a :: b :: d :: r => if N.eqb a 239 && N.eqb b 187 && N.eqb d 191 then r else c
  | _ => c
  end.
Definition load_spec (file : option bytes) : loaded :=
  match file with Some c => Content (strip_bom c) | None => FileNotFound end.

Definition bsimple_eqb (a b : bsimple) : bool :=
  match a, b with
  | BMemset x, BMemset y | BRead x, BRead y | BSeek x, BSeek y => Nat.eqb x y
  | BClear, BClear => true
  | BReturn x, BReturn y => Bool.eqb x y
  | _, _ => false
  end.
Fixpoint list_eqb {A : Type} (e : A -> A -> bool) (a b : list A) : bool :=
  match a, b with
  | [], [] => true
  | x :: r, y :: s => e x y && list_eqb e r s
  | _, _ => false
  end.
Definition bop_eqb (a b : bop) : bool :=
  match a, b with
  | BS x, BS y => bsimple_eqb x y
  | BIfBufferIs s1 t1, BIfBufferIs s2 t2 => bytes_eqb s1 s2 && list_eqb bsimple_eqb t1 t2
  | _, _ => false
  end.
Definition lop_eqb (a b : lop) : bool :=
  match a, b with
  | LOpen x, LOpen y => Bool.eqb x y
  | LThrowIfNotOpen, LThrowIfNotOpen | LTell, LTell | LFinish, LFinish => true
  | LSeekBeg x, LSeekBeg y | LSkipBom x, LSkipBom y => Nat.eqb x y
  | _, _ => false
  end.

(* ================================================================ Part B: use / eval_file histories *)
(* what evaluating a file does, as far as this property is concerned *)
Inductive fact := FUse (name : string) | FEvalFile (name : string) | FThrow.

Inductive event :=
| EvEval (by_use : bool) (path : string)     (* the file at `path` starts being evaluated *)
| EvUsed (path : string).                    (* `path` enters m_used_files *)

Record config := mkCfg { c_paths : list string; c_files : list (string * list fact) }.
Record ustate := mkU { u_used : list string; u_log : list event }.

Inductive uout := UOk | UMissing (filename : string) | UError | UFuel.

(* the statements of use()'s try block *)
Inductive usimple := SUnlock | SLock | SEval | SInsert.
Inductive uop := UCheckNotUsed (body : list usimple) | UTop (s : usimple) | UReturn.
Definition canonical_use_body : list uop := [UCheckNotUsed [SUnlock; SEval; SLock; SInsert]; UReturn].

Definition log_ev (e : event) (st : ustate) : ustate := mkU (u_used st) (u_log st ++ [e]).
Definition insert_used (p : string) (st : ustate) : ustate :=
  if mem p (u_used st) then st else mkU (u_used st ++ [p]) (u_log st ++ [EvUsed p]).

Section UseBody.
  Variable ev : ustate -> ustate * uout.     (* eval_file(appendedpath) *)
  Variable p : string.

  Definition ustep_simple (c : ustate * option uout) (s : usimple) : ustate * option uout :=
    match snd c with
    | Some _ => c
    | None =>
        match s with
        | SUnlock | SLock => c
        | SEval => let (st', o) := ev (fst c) in match o with UOk => (st', None) | _ => (st', Some o) end
        | SInsert => (insert_used p (fst c), None)
        end
    end.
  Definition ustep (c : ustate * option uout) (o : uop) : ustate * option uout :=
    match snd c with
    | Some _ => c
    | None =>
        match o with
        | UCheckNotUsed body => if mem p (u_used (fst c)) then c else fold_left ustep_simple body c
        | UTop s => ustep_simple c s
        | UReturn => (fst c, Some UOk)
        end
    end.
  (* falling off the end returns too (the function returns retval after the block) *)
  Definition use_try (body : list uop) (st : ustate) : ustate * uout :=
    let c := fold_left ustep body (st, None) in
    (fst c, match snd c with Some o => o | None => UOk end).
End UseBody.

Inductive cmd :=
| CUse (name : string) (paths : list string)          (* use(name), remaining search paths *)
| CIef (name : string) (paths : list string)          (* script eval_file(name): internal_eval_file *)
| CEvalPath (by_use : bool) (path : string)           (* eval_file(path) *)
| CFacts (l : list fact).

Section Exec.
  Variable body : list uop.            (* use()'s try block *)
  Variable rethrow_nested : bool.      (* use(): a file_not_found_error for another name is rethrown *)
  Variable cfg : config.

  Fixpoint exec (fuel : nat) (c : cmd) (st : ustate) : ustate * uout :=
    match fuel with
    | O => (st, UFuel)
    | S f =>
        match c with
        | CUse name [] => (st, UMissing name)
        | CUse name (pa :: ps) =>
            let p := (pa ++ name)%string in
            let (st1, o) := use_try (exec f (CEvalPath true p)) p body st in
            match o with
            | UMissing fn => if negb rethrow_nested || String.eqb fn p then exec f (CUse name ps) st1 else (st1, o)
            | _ => (st1, o)
            end
        | CIef name [] => (st, UMissing name)
        | CIef name (pa :: ps) =>
            let (st1, o) := exec f (CEvalPath false (pa ++ name)%string) st in
            match o with
            | UMissing _ => exec f (CIef name ps) st1
            | _ => (st1, o)
            end
        | CEvalPath by_use p =>
            match lookup p (c_files cfg) with
            | None => (st, UMissing p)
            | Some facts => exec f (CFacts facts) (log_ev (EvEval by_use p) st)
            end
        | CFacts [] => (st, UOk)
        | CFacts (x :: r) =>
            let (st1, o) :=
              match x with
              | FUse n => exec f (CUse n (c_paths cfg)) st
              | FEvalFile n => exec f (CIef n (c_paths cfg)) st
              | FThrow => (st, UError)
              end in
            match o with UOk => exec f (CFacts r) st1 | _ => (st1, o) end
        end
    end.
End Exec.

(* the operations of a history, as the host program or a script issues them *)
Inductive hop := HUse (name : string) | HEvalFile (path : string) | HScriptEvalFile (name : string).
Definition cmd_of (cfg : config) (h : hop) : cmd :=
  match h with
  | HUse n => CUse n (c_paths cfg)
  | HEvalFile p => CEvalPath false p
  | HScriptEvalFile n => CIef n (c_paths cfg)
  end.
Fixpoint hrun (body : list uop) (rethrow : bool) (cfg : config) (fuel : nat) (st : ustate) (h : list hop) : ustate :=
  match h with
  | [] => st
  | o :: t => hrun body rethrow cfg fuel (fst (exec body rethrow cfg fuel (cmd_of cfg o) st)) t
  end.

Definition u_init : ustate := mkU [] [].

(* the property of a log: once a path has entered m_used_files, use() never evaluates it again *)
Definition used_once (l : list event) : Prop :=
  forall l1 l2 p, l = l1 ++ EvUsed p :: l2 -> ~ In (EvEval true p) l2.

(* where use(name) looks: the first search path whose candidate is already used or exists *)
Fixpoint resolve (cfg : config) (used : list string) (name : string) (paths : list string) : option (string * bool) :=
  match paths with
  | [] => None
  | pa :: ps =>
      let p := (pa ++ name)%string in
      if mem p used then Some (p, true)
      else match lookup p (c_files cfg) with Some _ => Some (p, false) | None => resolve cfg used name ps end
  end.

Definition usimple_eqb (a b : usimple) : bool :=
  match a, b with SUnlock, SUnlock | SLock, SLock | SEval, SEval | SInsert, SInsert => true | _, _ => false end.
Definition uop_eqb (a b : uop) : bool :=
  match a, b with
  | UCheckNotUsed x, UCheckNotUsed y => list_eqb usimple_eqb x y
  | UTop x, UTop y => usimple_eqb x y
  | UReturn, UReturn => true
  | _, _ => false
  end.
