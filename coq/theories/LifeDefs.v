(* C11 — object lifetimes: definitions only (no proofs).

   1. The reference-counting machine.  Objects have an identity (a natural number, allocated in
      order), a flag "alive", and a count field [rc] (the mechanism: the use count of the
      shared_ptr that owns the C++ object).  A *referrer* is a place that holds a handle:

        RVar d n     script variable n of scope d (the scope stack of the evaluator; function
                     parameters, captured variables bound at a call, loop variables)
        RTemp k      a temporary of the statement being evaluated (C++ locals of the evaluator,
                     pending return value, by-value parameter objects of a C++ function)
        RParam d k   Stack_Holder::call_params of scope d (arguments saved for the time of a call)
        RConv k      Type_Conversions::Conversion_Saves::saves (converted temporaries)
        RCxx k       a shared_ptr held by the C++ side of the application
        LSlot o k    slot k *inside object o*: container element, map pair, object attribute,
                     lambda capture, bound argument

      A handle is owning (shared_ptr storage) or non-owning (reference_wrapper / pointer).
      [step] executes one primitive operation and reports events; destruction cascades through
      the slots of a destroyed object.  Nothing is assumed about the order or sanity of the
      operations: a place that cannot be resolved is the explicit outcome [BadOp], the use of a
      destroyed object is the explicit outcome [UseAfterFree], a counter that would go below
      zero is the explicit outcome [RcUnderflow].

   2. The ownership routes: which C++ type shapes make the engine store an owning handle
      (Object_Data::get overloads, Handle_Return specialisations).  The tables themselves are
      regenerated from the source (Gen/G_Ownership.v); here are their types, the function that
      resolves a shape to its flags, and the *specification* of the flags (spec_ret, spec_box), which does
      not depend on the regenerated text.

   3. Harness-level operations (hop): primitive operations plus the two operations whose
      meaning depends on an ownership route (a C++ function returned a value of some shape;
      a declaration/insert that copies unless its right-hand side is a return value), and
      their lowering to primitive operations. *)
From Coq Require Import List Bool Arith PeanoNat.
Import ListNotations.

(* ------------------------------------------------------------------------------------------ *)
(* 1. machine                                                                                 *)
(* ------------------------------------------------------------------------------------------ *)
Inductive root :=
| RVar (d n : nat)
| RTemp (k : nat)
| RParam (d k : nat)
| RConv (k : nat)
| RCxx (k : nat).

Inductive loc := LRoot (r : root) | LSlot (o k : nat).
Inductive path := PRoot (r : root) | PSlot (p : path) (k : nat).

Record href := mkH { h_own : bool; h_tgt : nat }.

Record state := mkS {
  alive : nat -> bool;
  rc : nat -> nat;
  tracked : nat -> bool;      (* instrumented C++ object (counted by the observation) or engine object *)
  next : nat;                 (* ids below [next] have been created *)
  refs : list (loc * href);
  depth : nat;                (* index of the innermost scope *)
  calls : nat;                (* Stack_Holder::call_depth *)
  val : nat -> nat            (* the value last written to an object (used for counters: what a reader must see) *)
}.

Definition init : state := mkS (fun _ => false) (fun _ => 0) (fun _ => false) 0 [] 0 0 (fun _ => 0).

Inductive event :=
| Destroyed (id : nat)
| Touched (id : nat)
| UseAfterFree (id : nat)
| Live (n : nat)
| Value (n : nat)
| BadOp (code : nat)
| RcUnderflow (id : nat)
| OutOfFuel.

Definition root_eqb (a b : root) : bool :=
  match a, b with
  | RVar d n, RVar d' n' => (d =? d') && (n =? n')
  | RTemp k, RTemp k' => k =? k'
  | RParam d k, RParam d' k' => (d =? d') && (k =? k')
  | RConv k, RConv k' => k =? k'
  | RCxx k, RCxx k' => k =? k'
  | _, _ => false
  end.

Definition loc_eqb (a b : loc) : bool :=
  match a, b with
  | LRoot r, LRoot r' => root_eqb r r'
  | LSlot o k, LSlot o' k' => (o =? o') && (k =? k')
  | _, _ => false
  end.

Definition upd {A} (f : nat -> A) (i : nat) (v : A) : nat -> A := fun j => if j =? i then v else f j.

Definition set_refs (s : state) (r : list (loc * href)) : state :=
  mkS (alive s) (rc s) (tracked s) (next s) r (depth s) (calls s) (val s).
Definition set_rc (s : state) (i v : nat) : state :=
  mkS (alive s) (upd (rc s) i v) (tracked s) (next s) (refs s) (depth s) (calls s) (val s).
Definition kill (s : state) (i : nat) : state :=
  mkS (upd (alive s) i false) (upd (rc s) i 0) (tracked s) (next s) (refs s) (depth s) (calls s) (val s).
Definition set_depth (s : state) (d : nat) : state :=
  mkS (alive s) (rc s) (tracked s) (next s) (refs s) d (calls s) (val s).
Definition set_val (s : state) (i v : nat) : state :=
  mkS (alive s) (rc s) (tracked s) (next s) (refs s) (depth s) (calls s) (upd (val s) i v).
Definition set_calls (s : state) (c : nat) : state :=
  mkS (alive s) (rc s) (tracked s) (next s) (refs s) (depth s) c (val s).

(* the specification-side count: owning handles to [id] among a list of references *)
Definition owns (id : nat) (h : href) : bool := h_own h && (h_tgt h =? id).
Definition own_count (id : nat) (l : list (loc * href)) : nat := length (filter (fun r => owns id (snd r)) l).
Definition own_countH (id : nat) (l : list href) : nat := length (filter (owns id) l).

Definition is_slot_of (o : nat) (l : loc) : bool :=
  match l with LSlot o' _ => o' =? o | _ => false end.

(* Destroy handles.  [work] is the list of handles being destroyed; when the count of an object
   reaches zero the object is destroyed, and the handles stored in its slots join the work list. *)
Fixpoint release (fuel : nat) (work : list href) (s : state) : state * list event :=
  match fuel with
  | 0 => (s, match work with [] => [] | _ => [OutOfFuel] end)
  | S f =>
      match work with
      | [] => (s, [])
      | h :: w =>
          if h_own h then
            match rc s (h_tgt h) with
            | 0 => let (s', ev) := release f w s in (s', RcUnderflow (h_tgt h) :: ev)
            | 1 =>
                let t := h_tgt h in
                let mine := filter (fun r => is_slot_of t (fst r)) (refs s) in
                let rest := filter (fun r => negb (is_slot_of t (fst r))) (refs s) in
                let (s', ev) := release f (w ++ map snd mine) (set_refs (kill s t) rest) in
                (s', Destroyed t :: ev)
            | S n => release f w (set_rc s (h_tgt h) n)
            end
          else release f w s
      end
  end.

(* remove every reference whose place satisfies P, destroying the handles *)
Definition drop_where (P : loc -> bool) (s : state) : state * list event :=
  let gone := filter (fun r => P (fst r)) (refs s) in
  let kept := filter (fun r => negb (P (fst r))) (refs s) in
  release (S (length (refs s))) (map snd gone) (set_refs s kept).

Definition find_ref (l : loc) (s : state) : option href :=
  match filter (fun r => loc_eqb (fst r) l) (refs s) with
  | r :: _ => Some (snd r)
  | [] => None
  end.

Inductive resolved := RLoc (l : loc) | RDead (id : nat) | RNone.

(* the place a path denotes: slot k of the object the parent place refers to; going through a handle
   to a destroyed object is a use of that object *)
Fixpoint resolve (s : state) (p : path) : resolved :=
  match p with
  | PRoot r => RLoc (LRoot r)
  | PSlot q k =>
      match resolve s q with
      | RLoc l =>
          match find_ref l s with
          | Some h => if alive s (h_tgt h) then RLoc (LSlot (h_tgt h) k) else RDead (h_tgt h)
          | None => RNone
          end
      | r => r
      end
  end.

Definition handle_at (s : state) (p : path) : resolved * option href :=
  match resolve s p with
  | RLoc l => (RLoc l, find_ref l s)
  | r => (r, None)
  end.

Definition add_ref (s : state) (l : loc) (h : href) : state :=
  let s1 := set_refs s ((l, h) :: refs s) in
  if h_own h then set_rc s1 (h_tgt h) (S (rc s (h_tgt h))) else s1.

Definition create (s : state) (l : loc) (tr : bool) : state :=
  let id := next s in
  mkS (upd (alive s) id true) (upd (rc s) id 1) (upd (tracked s) id tr) (S id) ((l, mkH true id) :: refs s) (depth s) (calls s) (val s).

Definition relocate (from : loc -> bool) (f : loc -> loc) (s : state) : state :=
  set_refs s (map (fun r => if from (fst r) then (f (fst r), snd r) else r) (refs s)).

Fixpoint live_count (s : state) (n : nat) : nat :=
  match n with
  | 0 => 0
  | S m => (if alive s m && tracked s m then 1 else 0) + live_count s m
  end.

Inductive prim :=
| PCreate (dst : path) (tr : bool)    (* a new object; its first owning handle is stored at dst *)
| PShare (src dst : path)             (* the handle at src is copied (same kind) *)
| PBorrow (src dst : path)            (* a non-owning handle to the target of the handle at src *)
| PClone (src dst : path)             (* copy construction: uses the target of src, new instrumented object at dst *)
| PMove (src dst : path)              (* the handle changes place *)
| PDrop (p : path)                    (* the handle at this place is destroyed *)
| PTouch (p : path)                   (* a member of the target is used *)
| PPush | PPop                        (* scope entry / exit: exit destroys the variables and saved call parameters of the scope *)
| PCallBegin (lvl : nat) | PCallEnd (lvl : nat)
                                      (* Function_Push_Pop; lvl = the scope that owns the current call_params list
                                         (new_stack pushes no list, so inside a function frame it is an outer scope):
                                         conversion saves move to that list at entry; when the outermost call ends
                                         the list and the saves are cleared *)
| PStmtEnd (from : nat)                (* the evaluator's temporaries numbered from.. die (those of the statement that ends) *)
| PCheckpoint
| PEngineEnd                          (* every place except the C++ side's is destroyed *)
| PCxxRelease
| PWrite (p : path) (n : nat)          (* the object the handle refers to is assigned the value n *)
| PRead (p : path).                   (* the value of the object is read through the handle *)

Definition is_temp_from (n : nat) (l : loc) : bool := match l with LRoot (RTemp k) => n <=? k | _ => false end.
Definition is_conv (l : loc) : bool := match l with LRoot (RConv _) => true | _ => false end.
Definition is_cxx (l : loc) : bool := match l with LRoot (RCxx _) => true | _ => false end.
Definition is_root (l : loc) : bool := match l with LRoot _ => true | _ => false end.
Definition in_scope (d : nat) (l : loc) : bool :=
  match l with LRoot (RVar d' _) => d' =? d | LRoot (RParam d' _) => d' =? d | _ => false end.
Definition is_param_of (d : nat) (l : loc) : bool :=
  match l with LRoot (RParam d' _) => d' =? d | _ => false end.
Definition conv_to_param (d : nat) (l : loc) : loc :=
  match l with LRoot (RConv k) => LRoot (RParam d k) | _ => l end.

(* codes of BadOp: 1 destination cannot be resolved, 2 source has no handle, 3 scope underflow, 4 call underflow *)
Definition with_dst (s : state) (dst : path) (k : loc -> state * list event) : state * list event :=
  match resolve s dst with
  | RLoc l => k l
  | RDead id => (s, [UseAfterFree id])
  | RNone => (s, [BadOp 1])
  end.

Definition with_src (s : state) (src : path) (k : href -> state * list event) : state * list event :=
  match handle_at s src with
  | (RLoc _, Some h) => k h
  | (RDead id, _) => (s, [UseAfterFree id])
  | _ => (s, [BadOp 2])
  end.

Definition step (s : state) (o : prim) : state * list event :=
  match o with
  | PCreate dst tr => with_dst s dst (fun l => (create s l tr, []))
  | PShare src dst =>
      with_src s src (fun h => with_dst s dst (fun l =>
        if h_own h && negb (alive s (h_tgt h)) then (s, [UseAfterFree (h_tgt h)]) else (add_ref s l h, [])))
  | PBorrow src dst =>
      with_src s src (fun h => with_dst s dst (fun l => (add_ref s l (mkH false (h_tgt h)), [])))
  | PClone src dst =>
      with_src s src (fun h => with_dst s dst (fun l =>
        if alive s (h_tgt h) then (create s l true, [Touched (h_tgt h)]) else (create s l true, [UseAfterFree (h_tgt h)])))
  | PMove src dst =>
      match resolve s src with
      | RLoc ls =>
          match find_ref ls s with
          | Some _ => with_dst s dst (fun ld => (relocate (loc_eqb ls) (fun _ => ld) s, []))
          | None => (s, [BadOp 2])
          end
      | RDead id => (s, [UseAfterFree id])
      | RNone => (s, [BadOp 2])
      end
  | PDrop p =>
      match resolve s p with
      | RLoc l => drop_where (loc_eqb l) s
      | RDead id => (s, [UseAfterFree id])
      | RNone => (s, [BadOp 2])
      end
  | PTouch p =>
      with_src s p (fun h => (s, [if alive s (h_tgt h) then Touched (h_tgt h) else UseAfterFree (h_tgt h)]))
  | PPush => (set_depth s (S (depth s)), [])
  | PPop =>
      match depth s with
      | 0 => (s, [BadOp 3])
      | S d => let (s', ev) := drop_where (in_scope (S d)) s in (set_depth s' d, ev)
      end
  | PCallBegin lvl =>
      (set_calls (relocate is_conv (conv_to_param lvl) s) (S (calls s)), [])
  | PCallEnd lvl =>
      match calls s with
      | 0 => (s, [BadOp 4])
      | 1 => let (s', ev) := drop_where (fun l => is_param_of lvl l || is_conv l) s in (set_calls s' 0, ev)
      | S c => (set_calls s c, [])
      end
  | PStmtEnd from => drop_where (is_temp_from from) s
  | PCheckpoint => (s, [Live (live_count s (next s))])
  | PEngineEnd => drop_where (fun l => is_root l && negb (is_cxx l)) s
  | PCxxRelease => drop_where is_cxx s
  | PWrite p n =>
      with_src s p (fun h => if alive s (h_tgt h) then (set_val s (h_tgt h) n, []) else (s, [UseAfterFree (h_tgt h)]))
  | PRead p =>
      with_src s p (fun h => (s, [if alive s (h_tgt h) then Value (val s (h_tgt h)) else UseAfterFree (h_tgt h)]))
  end.

Fixpoint run (ops : list prim) (s : state) : state * list event :=
  match ops with
  | [] => (s, [])
  | o :: r => let (s1, e1) := step s o in let (s2, e2) := run r s1 in (s2, e1 ++ e2)
  end.

(* predicates used by the statements *)
Definition destroyed_ids (evs : list event) : list nat :=
  flat_map (fun e => match e with Destroyed i => [i] | _ => [] end) evs.
Definition is_uaf (e : event) : bool := match e with UseAfterFree _ => true | _ => false end.
Definition is_fault (e : event) : bool :=
  match e with UseAfterFree _ | RcUnderflow _ | OutOfFuel => true | _ => false end.

(* every non-owning handle is covered by an owning referrer of the same object *)
Definition covered (s : state) : Prop :=
  forall l h, In (l, h) (refs s) -> h_own h = false -> 0 < own_count (h_tgt h) (refs s).

(* the states visited by a run *)
Fixpoint trace (ops : list prim) (s : state) : list state :=
  match ops with
  | [] => [s]
  | o :: r => s :: trace r (fst (step s o))
  end.

(* no reference cycle through slots: a rank that decreases along every owning slot reference *)
Definition acyclic (s : state) : Prop :=
  exists rank : nat -> nat, forall o k h, In (LSlot o k, h) (refs s) -> h_own h = true -> rank (h_tgt h) < rank o.

(* A syntactic discipline that implies [covered] ("the lifetime of a non-owning handle is nested in its owner's"):
   non-owning handles live only in script variables, some variable of the same or an enclosing scope owns their
   target, and no variable belongs to a scope that no longer exists. *)
Definition var_depth (l : loc) : option nat := match l with LRoot (RVar d _) => Some d | _ => None end.
Definition nested (s : state) : Prop :=
  (forall d n h, In (LRoot (RVar d n), h) (refs s) -> d <= depth s) /\
  (forall l h, In (l, h) (refs s) -> h_own h = false ->
     exists db, var_depth l = Some db /\ exists d n, d <= db /\ In (LRoot (RVar d n), mkH true (h_tgt h)) (refs s)).

Definition owning_at (s : state) (p : path) : bool :=
  match handle_at s p with (RLoc _, Some h) => h_own h | _ => false end.
Definition dst_ok (s : state) (p : path) : bool := match p with PRoot (RVar d _) => d <=? depth s | _ => true end.
(* operations that keep the discipline: owning handles may go anywhere; a non-owning handle is made only from a variable
   that owns the object, into a variable of the same or an inner scope; handles are never moved, and a variable loses its
   handle only when its scope ends *)
Definition disciplined (s : state) (o : prim) : bool :=
  match o with
  | PCreate dst _ => dst_ok s dst
  | PShare src dst => owning_at s src && dst_ok s dst
  | PClone _ dst => dst_ok s dst
  | PBorrow (PRoot (RVar d n)) (PRoot (RVar d' _)) => (d <=? d') && (d' <=? depth s) && owning_at s (PRoot (RVar d n))
  | PBorrow _ _ => false
  | PMove _ _ => false
  | PDrop (PRoot (RVar _ _)) => false
  | _ => true
  end.
Fixpoint disciplined_run (ops : list prim) (s : state) : bool :=
  match ops with
  | [] => true
  | o :: r => disciplined s o && disciplined_run r (fst (step s o))
  end.

(* ------------------------------------------------------------------------------------------ *)
(* 2. ownership routes                                                                        *)
(* ------------------------------------------------------------------------------------------ *)
(* argument shapes of Boxed_Value's constructor (the overloads of Object_Data::get) *)
Inductive bshape :=
| BVoid            (* Boxed_Value::Void_Type *)
| BSharedPtrPtr    (* const std::shared_ptr<T> *  *)
| BSharedCRef      (* const std::shared_ptr<T> &  *)
| BSharedRv        (* std::shared_ptr<T> &&       *)
| BPtr             (* T *                         *)
| BCPtr            (* const T *                   *)
| BRefWrap         (* std::reference_wrapper<T>   *)
| BCRefWrap        (* std::reference_wrapper<const T> (the result of std::cref) *)
| BUnique          (* std::unique_ptr<T> &&       *)
| BValue.          (* T (by value)                *)

(* what ends up inside Data::m_obj *)
Inductive bstore :=
| StNone              (* empty Any *)
| StSharedCopy        (* a copy of the caller's shared_ptr<T> *)
| StSharedMoved       (* the caller's shared_ptr<T>, moved in *)
| StSharedFresh       (* make_shared<T>(std::move(t)): a new object owned by the Boxed_Value *)
| StUniqueInShared    (* make_shared<unique_ptr<T>>(std::move(obj)) *)
| StRefWrap.          (* the reference_wrapper itself: no ownership *)

Inductive broute :=
| BDelegate (to : bshape)               (* return get(<converted argument>, t_return_value) *)
| BStore (st : bstore) (is_ref : bool). (* make_shared<Data>(type, Any(st), is_ref, ptr, t_return_value) *)

(* return shapes (the template argument of Handle_Return) *)
Inductive rshape :=
| RValue | RValueTrivial   (* Ret, non-trivial / trivial (primary template, two overloads of handle) *)
| RCValue                  (* const Ret *)
| RRef | RCRef             (* Ret &, const Ret & *)
| RPtr | RCPtr | RPtrRef | RCPtrRef   (* Ret *, const Ret *, Ret *&, const Ret *& *)
| RShared | RSharedRef | RSharedCRef  (* std::shared_ptr<Ret>, ... &, const ... & *)
| RUnique                  (* std::unique_ptr<Ret> *)
| RBoxed | RCBoxed | RBoxedRef | RBoxedCRef   (* Boxed_Value in its four spellings *)
| RBoxedNumber | RCBoxedNumber
| RVoid
| RFunction (n : nat).     (* the seven std::function spellings: boxed as an owning Proxy_Function *)

Inductive rroute :=
| RBox (arg : bshape) (made : bool) (rv : bool)
    (* return Boxed_Value(<arg of this shape>, rv); made: the argument is std::make_shared<T>(<the returned value>) *)
| RInherit (r : rshape)             (* struct Handle_Return<..> : Handle_Return<r> {} *)
| RPass                             (* the Boxed_Value is returned as it is (a handle copy) *)
| RVoidVar
| RProxy.                           (* a new Proxy_Function object in a shared_ptr *)

Record flags := mkF {
  f_owning : bool;    (* the Boxed_Value keeps the object alive *)
  f_fresh : bool;     (* ... and the object is a new one made from the C++ value (copy/move construction) *)
  f_is_ref : bool;    (* Data::m_is_ref *)
  f_const : bool;     (* the Type_Info is const *)
  f_rv : bool         (* Data::m_return_value *)
}.

Definition bshape_eqb (a b : bshape) : bool :=
  match a, b with
  | BVoid, BVoid | BSharedPtrPtr, BSharedPtrPtr | BSharedCRef, BSharedCRef | BSharedRv, BSharedRv | BPtr, BPtr | BCPtr, BCPtr
  | BRefWrap, BRefWrap | BCRefWrap, BCRefWrap | BUnique, BUnique | BValue, BValue => true
  | _, _ => false
  end.

Definition rshape_eqb (a b : rshape) : bool :=
  match a, b with
  | RValue, RValue | RValueTrivial, RValueTrivial | RCValue, RCValue | RRef, RRef | RCRef, RCRef | RPtr, RPtr | RCPtr, RCPtr
  | RPtrRef, RPtrRef | RCPtrRef, RCPtrRef | RShared, RShared | RSharedRef, RSharedRef | RSharedCRef, RSharedCRef | RUnique, RUnique
  | RBoxed, RBoxed | RCBoxed, RCBoxed | RBoxedRef, RBoxedRef | RBoxedCRef, RBoxedCRef | RBoxedNumber, RBoxedNumber
  | RCBoxedNumber, RCBoxedNumber | RVoid, RVoid => true
  | RFunction n, RFunction m => n =? m
  | _, _ => false
  end.

Fixpoint lookup {K V} (eqb : K -> K -> bool) (k : K) (l : list (K * V)) : option V :=
  match l with
  | [] => None
  | (k', v) :: r => if eqb k k' then Some v else lookup eqb k r
  end.

Definition store_owning (st : bstore) : bool :=
  match st with StSharedCopy | StSharedMoved | StSharedFresh | StUniqueInShared => true | _ => false end.
Definition store_fresh (st : bstore) : bool :=
  match st with StSharedFresh => true | _ => false end.
Definition shape_const (b : bshape) : bool := match b with BCPtr | BCRefWrap => true | _ => false end.

(* follow the delegations of Object_Data::get; constness is that of the deduced T *)
Fixpoint box_flags (fuel : nat) (tbl : list (bshape * broute)) (b : bshape) (cst rv : bool) : option flags :=
  match fuel with
  | 0 => None
  | S f =>
      match lookup bshape_eqb b tbl with
      | Some (BDelegate to) => box_flags f tbl to (cst || shape_const b || shape_const to) rv
      | Some (BStore st r) => Some (mkF (store_owning st) (store_fresh st) r (cst || shape_const b) rv)
      | None => None
      end
  end.

Fixpoint ret_flags (fuel : nat) (rtbl : list (rshape * rroute)) (btbl : list (bshape * broute)) (r : rshape) : option flags :=
  match fuel with
  | 0 => None
  | S f =>
      match lookup rshape_eqb r rtbl with
      | Some (RBox arg made rv) =>
          match box_flags 4 btbl arg false rv with
          | Some fl => Some (mkF (f_owning fl) (f_fresh fl || (made && f_owning fl)) (f_is_ref fl) (f_const fl) (f_rv fl))
          | None => None
          end
      | Some (RInherit r') => ret_flags f rtbl btbl r'
      | Some RPass => Some (mkF true false false false false)   (* the flags of the Boxed_Value passed through; owning here means: a handle copy *)
      | Some RVoidVar => None
      | Some RProxy => Some (mkF true true false false false)
      | None => None
      end
  end.

(* The specification of the routes a script value of an instrumented class T can take. *)
Definition spec_ret (r : rshape) : option flags :=
  match r with
  | RValue => Some (mkF true true false false true)         (* a copy owned by the script, a temporary *)
  | RValueTrivial => Some (mkF true true false false true)
  | RCValue => Some (mkF true true false false false)
  | RRef => Some (mkF false false true false false)         (* refers to the C++ object, no ownership *)
  | RCRef => Some (mkF false false true true true)
  | RPtr | RPtrRef => Some (mkF false false true false true)
  | RCPtr | RCPtrRef => Some (mkF false false true true true)
  | RShared | RSharedRef | RSharedCRef => Some (mkF true false false false true)   (* shares ownership with C++ *)
  | RUnique => Some (mkF true false true false true)         (* takes the ownership over *)
  | RBoxed | RCBoxed | RBoxedRef | RBoxedCRef => Some (mkF true false false false false)
  | RBoxedNumber | RCBoxedNumber => Some (mkF true false false false false)
  | RVoid => None
  | RFunction _ => Some (mkF true true false false false)
  end.

Definition spec_box (b : bshape) : option (bool * bool) :=   (* owning, fresh *)
  match b with
  | BVoid => Some (false, false)
  | BSharedPtrPtr | BSharedCRef | BSharedRv => Some (true, false)
  | BPtr | BCPtr | BRefWrap | BCRefWrap => Some (false, false)
  | BUnique => Some (true, false)
  | BValue => Some (true, true)
  end.

(* the ways a script brings an object into existence *)
Inductive creation :=
| CrConstructor        (* Tracked(...) for a copy-constructible class *)
| CrConstructorShared  (* ... for a class that is not copy-constructible *)
| CrClone              (* clone(x): prelude -> copy constructor *)
| CrVarDecl            (* var x = y  (clone_if_necessary on a non-temporary) *)
| CrValueReturn        (* a C++ function returning T *)
| CrConversion         (* type_conversion<From, To>(f): Boxed_Value(f(from)) *)
| CrConversionDefault. (* type_conversion<From, To>(): Boxed_Value(To(from)) *)

Inductive via := ViaRet (r : rshape) | ViaBox (b : bshape) | ViaCreation (c : creation).

Definition all_bshapes := [BVoid; BSharedPtrPtr; BSharedCRef; BSharedRv; BPtr; BCPtr; BRefWrap; BCRefWrap; BUnique; BValue].
Definition all_rshapes := [RValue; RValueTrivial; RCValue; RRef; RCRef; RPtr; RCPtr; RPtrRef; RCPtrRef; RShared; RSharedRef; RSharedCRef; RUnique;
  RBoxed; RCBoxed; RBoxedRef; RBoxedCRef; RBoxedNumber; RCBoxedNumber; RVoid;
  RFunction 0; RFunction 1; RFunction 2; RFunction 3; RFunction 4; RFunction 5].
Definition all_creations := [CrConstructor; CrConstructorShared; CrClone; CrVarDecl; CrValueReturn; CrConversion; CrConversionDefault].

Definition creation_eqb (a b : creation) : bool :=
  match a, b with
  | CrConstructor, CrConstructor | CrConstructorShared, CrConstructorShared | CrClone, CrClone | CrVarDecl, CrVarDecl
  | CrValueReturn, CrValueReturn | CrConversion, CrConversion | CrConversionDefault, CrConversionDefault => true
  | _, _ => false
  end.

Fixpoint via_flags (fuel : nat) (ctbl : list (creation * via)) (rtbl : list (rshape * rroute)) (btbl : list (bshape * broute)) (v : via) : option flags :=
  match fuel with
  | 0 => None
  | S f =>
      match v with
      | ViaRet r => ret_flags 8 rtbl btbl r
      | ViaBox b => box_flags 4 btbl b false false
      | ViaCreation c => match lookup creation_eqb c ctbl with Some v' => via_flags f ctbl rtbl btbl v' | None => None end
      end
  end.

(* ------------------------------------------------------------------------------------------ *)
(* 3. harness-level operations                                                                *)
(* ------------------------------------------------------------------------------------------ *)
Inductive rvsrc := RvYes | RvNo | RvShape (r : rshape).

Inductive hop :=
| HPrim (p : prim)
| HRet (r : rshape) (src : option path) (dst : path)
    (* a registered C++ function returned a value of shape r that denotes the target of src (an existing object)
       or a new C++ object (None); the resulting Boxed_Value is stored at dst *)
| HBind (v : rvsrc) (tmp dst : path) (save_src save_res : option path)
    (* var x = e / container insert / first assignment of an attribute (clone_if_necessary): the value at tmp is
       cloned unless it is a return value, in which case its handle is taken over.  A clone is a call of the script
       function clone(x): evaluating its guard leaves a copy of the source handle in the current call_params list
       (save_src), and its body, when the optimizer made it scopeless, a copy of the result handle (save_res). *)
| HReseat (p : path).
    (* a registered C++ function took the std::shared_ptr<T> held by the Boxed_Value at p by non-const reference and
       assigned a new object to it: the place now owns a new object, and the old object loses this owning referrer
       (the new object exists before the old pointer is released) *)

Definition scratch : path := PRoot (RTemp 9999).

Definition lower (fl : rshape -> option flags) (h : hop) : list prim :=
  match h with
  | HPrim p => [p]
  | HRet r src dst =>
      match fl r with
      | None => []
      | Some f =>
          match src with
          | None =>
              if f_owning f then [PCreate dst true]
              else [PCreate scratch true; PBorrow scratch dst; PDrop scratch]   (* a reference to a C++ temporary that is gone *)
          | Some p =>
              if f_owning f then (if f_fresh f then [PClone p dst] else [PShare p dst]) else [PBorrow p dst]
          end
      end
  | HBind v tmp dst ss sr =>
      let rv := match v with RvYes => true | RvNo => false
                | RvShape r => match fl r with Some f => f_rv f | None => false end end in
      if rv then [PMove tmp dst]
      else [PClone tmp dst] ++ match ss with Some p => [PShare tmp p] | None => [] end
                            ++ match sr with Some p => [PShare dst p] | None => [] end
  | HReseat p => [PCreate scratch true; PDrop p; PMove scratch p]
  end.

Definition run_h (fl : rshape -> option flags) (hs : list hop) (s : state) : state * list event :=
  run (flat_map (lower fl) hs) s.
