(* C01 / C20 over the tables regenerated from the source: the decidable side conditions of ParserProofs hold of Gen/G_OperatorTable.v,
   Gen/G_Keywords.v by computation, so the generic theorems of ParserBodies apply to the parser as it is written today. *)
From Coq Require Import ZArith NArith List Bool String Lia.
From ChaiV Require Import NumDefs Ast LexDefs LexProofs LexLitProofs ParserLexProofs ParserDefs ParserProofs ParserBodies ParserTriviaProofs ParserErrPosProofs ParserFnameProofs.
From ChaiV.Gen Require Import G_IntLadder G_Keywords G_OperatorTable.
Import ListNotations.
Local Open Scope string_scope.

Definition A := alphabets_gen.
Definition T := int_tables_gen.
Definition K := kw_tables_gen.
Definition G := gtables_gen.

(* the depth limit the model's with_depth uses is the one the source instantiates *)
Lemma max_depth_gen_ok : g_max_depth G = max_parse_depth.
Proof. reflexivity. Qed.

(* the functions that open a Depth_Counter first thing are exactly the ones the model wraps in with_depth *)
Definition counted_model : list string :=
  ["Id_Arg_List"; "Decl_Arg_List"; "Arg_List"; "Container_Arg_List"; "Lambda"; "Def"; "Try"; "If"; "Class"; "While"; "Range_Expression";
   "For_Guards"; "For"; "Case"; "Switch"; "Class_Block"; "Block"; "Return"; "Break"; "Continue"; "Dot_Fun_Array"; "Var_Decl";
   "Paren_Expression"; "Inline_Container"; "Reference"; "Prefix"; "Value"; "Operator"; "Map_Pair"; "Value_Range"; "Equation";
   "Class_Statements"; "Statements"].
Lemma counted_gen_ok : counted_gen = counted_model.
Proof. reflexivity. Qed.
Lemma lex_counted_gen_ok : lex_counted_gen = ["Quoted_String"; "Single_Quoted_String"; "Char"; "Keyword"; "Symbol"; "Eos"; "Eol"].
Proof. reflexivity. Qed.

(* keywords exist and are non-empty, no operator symbol is empty, the ladder ends in Prefix, every level has an action *)
Lemma tables_gen_ok : tables_ok G = true.
Proof. vm_compute. reflexivity. Qed.

(* every identifier-start character is an identifier character (Id_ consumes what it starts on) *)
Lemma id_sub_keyword_gen : forall c, in_alpha (a_id A) c = true -> in_alpha (a_keyword A) c = true.
Proof.
  assert (H : forallb (fun x => in_alpha (a_keyword A) x) (a_id A) = true) by (vm_compute; reflexivity).
  rewrite forallb_forall in H. intros c Hc. unfold in_alpha in Hc. apply existsb_exists in Hc. destruct Hc as (x & Hx & E).
  apply N.eqb_eq in E. subst x. apply H, Hx.
Qed.

Theorem parse_gen_no_crash : forall bytes file k, parse A T K G bytes file <> Crash k.
Proof. exact (parse_no_crash A T K G id_sub_keyword_gen tables_gen_ok). Qed.
Theorem parse_gen_no_out_of_fuel : forall bytes file, parse A T K G bytes file <> OutOfFuel.
Proof. exact (parse_no_out_of_fuel A T K G id_sub_keyword_gen tables_gen_ok). Qed.
Theorem parse_gen_root : forall bytes file n s', parse_full A T K G bytes file = Ok (n, s') -> root_ok bytes n s'.
Proof. exact (parse_root A T K G id_sub_keyword_gen tables_gen_ok). Qed.

(* the white-space alphabet is {tab, space} *)
Lemma white_gen_ok : forall c, in_alpha (a_white A) c = true -> c = 32%N \/ c = 9%N.
Proof.
  intros c H. unfold in_alpha in H. change (a_white A) with [9%N; 32%N] in H. cbn [existsb] in H.
  destruct (N.eqb_spec c 9); [right; assumption|]. destruct (N.eqb_spec c 32); [left; assumption|]. discriminate.
Qed.

(* C01_accounts, for EVERY input (with or without a `#!` line): a normal result is a File node with the cursor at the end of the input, or
   the Noop node and then the whole buffer is trivia for the independent automaton ParserDefs.trivia_only *)
Theorem parse_gen_accounts : forall bytes file n s',
  parse_full A T K G bytes file = Ok (n, s') ->
  (pn_kind n = Ast.KFile /\ idx (pos s') = List.length bytes) \/ (n = noop_node /\ trivia_only bytes = true).
Proof.
  intros bytes file n s' E. destruct (parse_gen_root bytes file n s' E) as (Hb & Hw & Hi & Hd & [Hk|Hk]).
  - left. auto.
  - right. split; [exact Hk|].
    unfold parse_full in E.
    change bytes with (buf (pos (mkState (pos_begin bytes) 0 (mkPS [] file 0%N)))).
    apply (parse_internal_noop_all A T K G white_gen_ok id_sub_keyword_gen parse_fuel _ s' n); [apply wf_pos_begin|reflexivity|exact E|rewrite Hk; reflexivity].
Qed.
(* the old, restricted statement is a corollary *)
Corollary parse_gen_accounts_no_shebang : forall bytes file n s',
  no_shebang bytes -> parse_full A T K G bytes file = Ok (n, s') ->
  (pn_kind n = Ast.KFile /\ idx (pos s') = List.length bytes) \/ (n = noop_node /\ trivia_only bytes = true).
Proof. intros bytes file n s' _. apply parse_gen_accounts. Qed.

(* C01_error_position: an eval_error of the parser carries no position at all (line = col = 0: the one-argument constructor, used by the
   Char_Parser's escape-sequence errors) or the line of a cursor position inside the caller's buffer *)
Theorem parse_gen_error_position : forall bytes file r l c,
  parse A T K G bytes file = Err r l c ->
  (l = 0 /\ c = 0)%Z \/
  ((exists i, (i <= List.length bytes)%nat /\ l = (1 + count_nl (firstn i bytes))%Z) /\ (1 <= l <= count_nl bytes + 1)%Z).
Proof. exact (parse_error_position A T K G). Qed.

(* no leaked nodes: a successful parse ends with exactly the root on the match stack (and the caller's file name in place) *)
Theorem parse_gen_stack : forall bytes file n s',
  parse_full A T K G bytes file = Ok (n, s') -> stk (user s') = [n] /\ fname (user s') = file.
Proof. exact (parse_stack A T K G id_sub_keyword_gen tables_gen_ok). Qed.

(* C01_fname_independent: the file name handed to parse() influences nothing but the stored file-name fields and `__FILE__` constants *)
Theorem parse_gen_fname_independent : forall bytes f1 f2, same_modulo_fname f1 f2 (parse A T K G bytes f1) (parse A T K G bytes f2).
Proof. exact (parse_fname_independent A T K G). Qed.
Theorem parse_gen_shape_fname_independent : forall bytes f1 f2 t1,
  parse A T K G bytes f1 = Ok t1 -> exists t2, parse A T K G bytes f2 = Ok t2 /\ shape t2 = shape t1.
Proof. exact (parse_shape_fname_independent A T K G). Qed.
Theorem parse_gen_error_fname_independent : forall bytes f1 f2 r l c,
  parse A T K G bytes f1 = Err r l c -> parse A T K G bytes f2 = Err r l c.
Proof. exact (parse_error_fname_independent A T K G). Qed.
