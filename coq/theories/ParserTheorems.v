(* Facts about the tables regenerated from the source (Gen/G_OperatorTable.v) that the grammar-layer theorems need. *)
From Coq Require Import ZArith NArith List Bool String Lia.
From ChaiV Require Import NumDefs Ast LexDefs ParserDefs.
From ChaiV.Gen Require Import G_IntLadder G_Keywords G_OperatorTable.
Import ListNotations.
Local Open Scope string_scope.

(* the depth limit the model's with_depth uses is the one the source instantiates *)
Lemma max_depth_gen_ok : g_max_depth gtables_gen = max_parse_depth.
Proof. reflexivity. Qed.

(* the functions that open a Depth_Counter first thing are exactly the ones the model wraps in with_depth *)
Definition counted_model : list string :=
  ["Id_Arg_List"; "Decl_Arg_List"; "Arg_List"; "Container_Arg_List"; "Lambda"; "Def"; "Try"; "If"; "Class"; "While"; "Range_Expression";
   "For_Guards"; "For"; "Case"; "Switch"; "Class_Block"; "Block"; "Return"; "Break"; "Continue"; "Dot_Fun_Array"; "Var_Decl";
   "Paren_Expression"; "Inline_Container"; "Reference"; "Prefix"; "Value"; "Operator"; "Map_Pair"; "Value_Range"; "Equation";
   "Class_Statements"; "Statements"].
Lemma counted_gen_ok : counted_gen = counted_model.
Proof. reflexivity. Qed.
Lemma lex_counted_gen_ok : lex_counted_gen = ["Quoted_String"; "Single_Quoted_String"; "Char"; "Keyword"; "Symbol"; "Eos"; "Eol"].
Proof. reflexivity. Qed.

(* the ladder ends in Prefix and has no Prefix before: Operator(k) recurses exactly to k = length - 1 *)
Definition ladder_ok (G : gtables) : bool :=
  match rev (g_operators G) with
  | Prefix :: r => forallb (fun o => negb (op_prec_eqb o Prefix)) r
  | _ => false
  end.
Lemma ladder_gen_ok : ladder_ok gtables_gen = true.
Proof. reflexivity. Qed.
(* no symbol of a precedence group, of Equation or of Prefix is empty: a successful Symbol() consumes input *)
Definition symbols_nonempty (G : gtables) : bool :=
  forallb (forallb (fun s => negb (Nat.eqb (List.length s) 0))) (g_matches G)
  && forallb (fun s => negb (Nat.eqb (List.length s) 0)) (g_equation G)
  && forallb (fun s => negb (Nat.eqb (List.length s) 0)) (g_prefix G).
Lemma symbols_gen_ok : symbols_nonempty gtables_gen = true.
Proof. reflexivity. Qed.
(* no precedence level is left without an action (OA_Unreachable is the assert(false) of the Prefix case only) *)
Definition actions_ok (G : gtables) : bool :=
  forallb (fun o => op_prec_eqb o Prefix ||
                    match find (fun e => op_prec_eqb (fst e) o) (g_actions G) with
                    | Some (_, OA_Unreachable) | None => false
                    | Some _ => true
                    end) (g_operators G).
Lemma actions_gen_ok : actions_ok gtables_gen = true.
Proof. reflexivity. Qed.
