(* C18 — I/O glue shared by the executable model (JsonRun) and the executable specification (JsonSpecRun):
   the canonical one-line text of a script value tree, as printed/read by harness/h_json.cpp.
   Nothing here is part of a property statement.

   tree ::= N | T | F | I<dec> | S<hex> | D<16 hex digits> | V<n> tree^n | M<n> (K<hex> tree)^n
   (tokens separated by one space; hex of the empty string is "-"; on input J/H/L/U/Y<dec> are integers
    held in int/short/long long/unsigned/signed char boxes) *)
From Coq Require Import ZArith NArith Ascii String List Bool.
From ChaiV Require Import StrUtil JsonDefs.
Import ListNotations.
Local Open Scope string_scope.

(* linear-time tokeniser (StrUtil.words is quadratic in the token length) *)
Fixpoint rev_string (s acc : string) : string :=
  match s with EmptyString => acc | String c r => rev_string r (String c acc) end.
Fixpoint tokens_aux (s : string) (cur : string) : list string :=
  match s with
  | EmptyString => [rev_string cur ""]
  | String c r => if Ascii.eqb c " "%char then rev_string cur "" :: tokens_aux r "" else tokens_aux r (String c cur)
  end.
Definition tokens (s : string) : list string := tokens_aux s "".

Definition unwords (l : list string) : string := join " " l.

Definition hex_of (b : bytes) : string := hex_of_bytes (map N_of_ascii b).
Definition unhex (s : string) : option bytes := option_map (map ascii_of_N) (bytes_of_hex s).
Definition str_of (b : bytes) : string := string_of_list_ascii b.
Definition dec (z : Z) : string := dec_of_z z.

Definition tag_rest (s : string) : option (ascii * string) :=
  match s with EmptyString => None | String c r => Some (c, r) end.

Definition show_fnum (f : fnum) : string :=
  match f with
  | FDouble neg val e => "dD:" ++ (if neg then "1" else "0") ++ ":" ++ hex_of val ++ ":" ++ dec e
  | FIntExp neg m e => "dI:" ++ (if neg then "1" else "0") ++ ":" ++ dec m ++ ":" ++ dec e
  | FBits n => "D" ++ hex_fixed 16 n ""
  end.

Fixpoint show_sval (v : sval) : list string :=
  match v with
  | VNull => ["N"]
  | VBool b => [if b then "T" else "F"]
  | VInt z => ["I" ++ dec z]
  | VStr s => ["S" ++ hex_of s]
  | VFloat f => [show_fnum f]
  | VVec l => ("V" ++ dec (Z.of_nat (length l))) :: flat_map show_sval l
  | VMap l => ("M" ++ dec (Z.of_nat (length l)))
              :: (fix go (l : list (bytes * sval)) : list string :=
                    match l with [] => [] | (k, x) :: r => ("K" ++ hex_of k) :: show_sval x ++ go r end) l
  end.

(* read one tree; maps are built with std::map::insert (map_insert) *)
Fixpoint read_sval (fuel : nat) (toks : list string) : option (sval * list string) :=
  match fuel with
  | O => None
  | S fuel' =>
      match toks with
      | [] => None
      | t :: rest =>
          match tag_rest t with
          | None => None
          | Some (c, body) =>
              if Ascii.eqb c "N" then Some (VNull, rest)
              else if Ascii.eqb c "T" then Some (VBool true, rest)
              else if Ascii.eqb c "F" then Some (VBool false, rest)
              else if Ascii.eqb c "I" || Ascii.eqb c "J" || Ascii.eqb c "H" || Ascii.eqb c "L" || Ascii.eqb c "U" || Ascii.eqb c "Y"
              then option_map (fun z => (VInt z, rest)) (z_of_dec body)
              else if Ascii.eqb c "S" then option_map (fun b => (VStr b, rest)) (unhex body)
              else if Ascii.eqb c "D" then option_map (fun n => (VFloat (FBits n), rest)) (N_of_hex body)
              else if Ascii.eqb c "V" then
                match z_of_dec body with
                | None => None
                | Some n =>
                    (fix items (k : nat) (toks : list string) (acc : list sval) : option (sval * list string) :=
                       match k with
                       | O => Some (VVec (rev acc), toks)
                       | S k' => match read_sval fuel' toks with
                                 | Some (x, toks') => items k' toks' (x :: acc)
                                 | None => None
                                 end
                       end) (Z.to_nat n) rest []
                end
              else if Ascii.eqb c "M" then
                match z_of_dec body with
                | None => None
                | Some n =>
                    (fix items (k : nat) (toks : list string) (m : list (bytes * sval)) : option (sval * list string) :=
                       match k with
                       | O => Some (VMap m, toks)
                       | S k' =>
                           match toks with
                           | kt :: toks1 =>
                               match tag_rest kt with
                               | Some (kc, kb) =>
                                   if Ascii.eqb kc "K" then
                                     match unhex kb, read_sval fuel' toks1 with
                                     | Some key, Some (x, toks') => items k' toks' (map_insert m key x)
                                     | _, _ => None
                                     end
                                   else None
                               | None => None
                               end
                           | [] => None
                           end
                       end) (Z.to_nat n) rest []
                end
              else None
          end
      end
  end.

Definition read_tree (toks : list string) : option sval :=
  match read_sval (S (length toks)) toks with
  | Some (v, []) => Some v
  | _ => None
  end.

Fixpoint sval_float_free (v : sval) : bool :=
  match v with
  | VMap l => (fix go (l : list (bytes * sval)) : bool :=
                 match l with [] => true | (_, x) :: r => sval_float_free x && go r end) l
  | VVec l => forallb sval_float_free l
  | VFloat _ => false
  | _ => true
  end.

Definition show_exc (e : exc) : string :=
  match e with ExUnparsed => "ERR(unparsed)" | ExParse => "ERR(parse)" | ExDepth => "ERR(depth)" end.
Definition show_err (e : err) : string :=
  match e with
  | OutOfRange => "OutOfRange" | ParseError => "ParseError" | DepthExceeded => "DepthExceeded"
  | OutOfFuel => "OutOfFuel" | Crash => "Crash"
  end.
Definition show_fj (r : fj) : string :=
  match r with
  | FValue v => unwords (show_sval v)
  | FExc e => show_exc e
  | FStuck e => "STUCK(" ++ show_err e ++ ")"
  end.
