(* String/byte helpers shared by the executable models (I/O glue for the
   correspondence drivers; nothing here is part of a property statement). *)
From Coq Require Import ZArith NArith List String Ascii DecimalString HexadecimalString Bool.
Import ListNotations.
Local Open Scope string_scope.

Fixpoint split_on (sep : ascii) (s : string) (cur : string) : list string :=
  match s with
  | EmptyString => [cur]
  | String c r => if Ascii.eqb c sep then cur :: split_on sep r EmptyString
                  else split_on sep r (cur ++ String c EmptyString)
  end.
Definition words (s : string) : list string := split_on " "%char s EmptyString.

Fixpoint join (sep : string) (l : list string) : string :=
  match l with
  | [] => ""
  | [x] => x
  | x :: r => x ++ sep ++ join sep r
  end.

Definition z_of_dec (s : string) : option Z :=
  option_map Z.of_int (DecimalString.NilZero.int_of_string s).
Definition dec_of_z (z : Z) : string := DecimalString.NilZero.string_of_int (Z.to_int z).
Definition dec_of_N (n : N) : string := dec_of_z (Z.of_N n).
Definition dec_of_nat (n : nat) : string := dec_of_z (Z.of_nat n).

Definition hexdigit (n : N) : ascii :=
  match n with
  | 0%N => "0" | 1%N => "1" | 2%N => "2" | 3%N => "3" | 4%N => "4" | 5%N => "5" | 6%N => "6" | 7%N => "7"
  | 8%N => "8" | 9%N => "9" | 10%N => "a" | 11%N => "b" | 12%N => "c" | 13%N => "d" | 14%N => "e" | _ => "f"
  end%char.
Definition hexval (c : ascii) : option N :=
  let n := N_of_ascii c in
  if (48 <=? n)%N && (n <=? 57)%N then Some (n - 48)%N
  else if (97 <=? n)%N && (n <=? 102)%N then Some (n - 87)%N
  else if (65 <=? n)%N && (n <=? 70)%N then Some (n - 55)%N
  else None.

(* fixed-width big-endian hex of a natural number *)
Fixpoint hex_fixed (digits : nat) (n : N) (acc : string) : string :=
  match digits with
  | O => acc
  | S d => hex_fixed d (N.div n 16) (String (hexdigit (N.modulo n 16)) acc)
  end.
Fixpoint N_of_hex_aux (s : string) (acc : N) : option N :=
  match s with
  | EmptyString => Some acc
  | String c r => match hexval c with Some v => N_of_hex_aux r (acc * 16 + v)%N | None => None end
  end.
Definition N_of_hex (s : string) : option N := N_of_hex_aux s 0%N.

(* "-" is the empty byte string; otherwise two hex digits per byte *)
Fixpoint bytes_of_hex_aux (s : string) : option (list N) :=
  match s with
  | EmptyString => Some []
  | String a (String b r) =>
      match hexval a, hexval b, bytes_of_hex_aux r with
      | Some x, Some y, Some l => Some ((x * 16 + y)%N :: l)
      | _, _, _ => None
      end
  | _ => None
  end.
Definition bytes_of_hex (s : string) : option (list N) :=
  if String.eqb s "-" then Some [] else bytes_of_hex_aux s.
Definition hex_of_bytes (l : list N) : string :=
  match l with
  | [] => "-"
  | _ => fold_right (fun b acc => String (hexdigit (N.div b 16)) (String (hexdigit (N.modulo b 16)) acc)) "" l
  end.

Definition string_of_bytes (l : list N) : string := fold_right (fun b acc => String (ascii_of_N b) acc) "" l.
Fixpoint bytes_of_string (s : string) : list N :=
  match s with EmptyString => [] | String c r => N_of_ascii c :: bytes_of_string r end.

Definition nth_word (n : nat) (l : list string) : string := nth n l "".
