(* C17 — definitions (no proofs) built on top of the regenerated prelude functions: the loop with which every
   algorithm consumes a retro view, written with the regenerated retro::empty/front/pop_front (resp. back/pop_back). *)
From Coq Require Import ZArith List Bool String Ascii.
From ChaiV Require Import PreludeDefs.
From ChaiV.Gen Require Import G_Prelude.
Import ListNotations.
Local Open Scope pm_scope.

(* draining a retro with its own empty/front/pop_front (the loop every algorithm runs) *)
Fixpoint retro_drain {E V} (fuel : nat) (m : range V) : M E (list V) :=
  match fuel with
  | O => out_of_fuel
  | S n => '(e, m) <- p_retro_empty m ;;
           if e then ret [] else
           '(x, m) <- p_retro_front m ;; '(_, m) <- p_retro_pop_front m ;; r <- retro_drain n m ;; ret (x :: r)
  end.
Fixpoint retro_drain_back {E V} (fuel : nat) (m : range V) : M E (list V) :=
  match fuel with
  | O => out_of_fuel
  | S n => '(e, m) <- p_retro_empty m ;;
           if e then ret [] else
           '(x, m) <- p_retro_back m ;; '(_, m) <- p_retro_pop_back m ;; r <- retro_drain_back n m ;; ret (x :: r)
  end.

