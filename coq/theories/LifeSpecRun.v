(* C11 — executable specification: the reference-counting machine with the *specified* ownership routes
   (LifeDefs.spec_ret); independent of the regenerated tables. *)
From Coq Require Import String.
From ChaiV Require Import LifeDefs LifeIO.
Definition spec_line (line : string) : string := run_with spec_ret line.
