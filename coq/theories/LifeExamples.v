(* C11 — concrete histories: the hypotheses of the theorems are satisfiable by non-trivial runs, and the
   unconditional form of "no use after free" is refuted by the ranged-for route of known_findings.json. *)
From Coq Require Import List Bool Arith PeanoNat Lia.
From ChaiV Require Import LifeDefs LifeProofs.
Import ListNotations.

Definition coveredb (s : state) : bool :=
  forallb (fun r => h_own (snd r) || (0 <? own_count (h_tgt (snd r)) (refs s))) (refs s).

Lemma coveredb_covered : forall s, coveredb s = true <-> covered s.
Proof.
  intros s. unfold coveredb, covered. rewrite forallb_forall. split.
  - intros H l h I O. specialize (H (l, h) I). simpl in H. rewrite O in H. simpl in H. now apply Nat.ltb_lt.
  - intros H [l h] I. simpl. destruct (h_own h) eqn:O; auto. simpl. apply Nat.ltb_lt. eapply H; eauto.
Qed.

Lemma forall_coveredb : forall l, forallb coveredb l = true -> Forall covered l.
Proof.
  intros l H. apply Forall_forall. intros s I. apply coveredb_covered. rewrite forallb_forall in H. auto.
Qed.

(* --- a well-behaved history: a script variable, a container in an inner scope that shares it, a non-owning handle
       nested in the owner's scope, scope exit, engine destruction *)
Definition v0 := PRoot (RVar 0 0).
Definition c1 := PRoot (RVar 1 0).
Definition b1 := PRoot (RVar 1 1).
Definition ex_ops : list prim :=
  [PCreate v0 true; PPush; PCreate c1 false; PShare v0 (PSlot c1 0); PCreate (PSlot c1 1) true; PBorrow v0 b1; PTouch b1; PCheckpoint;
   PPop; PCheckpoint; PEngineEnd; PCxxRelease; PCheckpoint].

Example ex_events : snd (run ex_ops init) = [Touched 0; Live 2; Destroyed 1; Destroyed 2; Live 1; Destroyed 0; Live 0].
Proof. vm_compute. reflexivity. Qed.

Example ex_covered : Forall covered (trace ex_ops init).
Proof. apply forall_coveredb. vm_compute. reflexivity. Qed.

Example ex_refcounts :   (* in the middle of the run object 0 has two owning referrers (the variable and the container slot) *)
  let s := fst (run (firstn 6 ex_ops) init) in
  rc s 0 = 2 /\ own_count 0 (refs s) = 2 /\ alive s 0 = true /\ length (refs s) = 5.
Proof. vm_compute. auto. Qed.

Example ex_acyclic : acyclic (fst (run (firstn 6 ex_ops) init)).
Proof.
  exists (fun o => if o =? 1 then 1 else 0). intros o k h I O.
  vm_compute in I. repeat (destruct I as [I|I]; [inversion I; subst; simpl in *; try discriminate; auto|]). contradiction.
Qed.

(* --- the ranged-for route (known finding chaiscript_eval.hpp:Ranged_For_AST_Node:element-reference):
       var fs = []; { var m = ["a": T()]; for (p : m) { fs.push_back_ref(fun[p]() { p.second }) } } ; fs[0]() *)
Definition fs := PRoot (RVar 0 0).
Definition m := PRoot (RVar 1 0).
Definition p := PRoot (RVar 2 0).
Definition finding_ops : list prim :=
  [ PCreate fs false;                       (* object 0: the collector vector *)
    PPush;
    PCreate m false;                        (* object 1: the map *)
    PCreate (PSlot m 0) false;              (* object 2: its pair<const string, Boxed_Value> node *)
    PCreate (PSlot (PSlot m 0) 0) true;     (* object 3: the instrumented object held by the pair *)
    PPush;
    PBorrow (PSlot m 0) p;                  (* the loop variable: Boxed_Value(std::ref(pair)) *)
    PCreate (PSlot fs 0) false;             (* object 4: the closure, stored in the collector *)
    PShare p (PSlot (PSlot fs 0) 0);        (* the capture copies the non-owning handle *)
    PPop; PPop;                             (* the loop and the block end: map, pair and object are destroyed *)
    PTouch (PSlot (PSlot fs 0) 0) ].        (* the closure uses p *)

Example finding_events : snd (run finding_ops init) = [Destroyed 1; Destroyed 2; Destroyed 3; UseAfterFree 2].
Proof. vm_compute. reflexivity. Qed.

(* without the side condition the statement is false ... *)
Example no_use_after_free_unconditional_refuted :
  exists ops s ev id, run ops init = (s, ev) /\ In (UseAfterFree id) ev.
Proof.
  exists finding_ops, (fst (run finding_ops init)), (snd (run finding_ops init)), 2. split.
  - destruct (run finding_ops init); reflexivity.
  - rewrite finding_events. simpl. tauto.
Qed.

(* ... and the side condition is what this history violates: after the map is gone the captured handle is not covered *)
Example finding_not_covered : ~ Forall covered (trace finding_ops init).
Proof.
  intros H. assert (forallb coveredb (trace finding_ops init) = true) as E.
  { apply forallb_forall. intros s I. apply coveredb_covered. rewrite Forall_forall in H. auto. }
  vm_compute in E. discriminate.
Qed.

Example finding_covered_until_the_map_dies : Forall covered (trace (firstn 10 finding_ops) init).
Proof. apply forall_coveredb. vm_compute. reflexivity. Qed.

(* --- a script-made cycle: v.push_back_ref(v) keeps v and what it holds alive after the engine is gone *)
Definition cyc_ops : list prim :=
  [PCreate v0 false; PCreate (PSlot v0 0) true; PShare v0 (PSlot v0 1); PCheckpoint; PEngineEnd; PCxxRelease; PCheckpoint].
Example cycle_events : snd (run cyc_ops init) = [Live 1; Live 1].
Proof. vm_compute. reflexivity. Qed.
Example cycle_not_acyclic : ~ acyclic (fst (run cyc_ops init)).
Proof.
  intros [rank R]. assert (rank 0 < rank 0); [|lia].
  apply (R 0 1 (mkH true 0)); auto. vm_compute. tauto.
Qed.

(* the scope discipline of LifeDefs.disciplined: the well-behaved history follows it, the ranged-for route does not
   (its loop variable borrows from a container slot, and the capture copies the borrow into a closure) *)
Example ex_disciplined : disciplined_run ex_ops init = true.
Proof. vm_compute. reflexivity. Qed.
Example finding_not_disciplined : disciplined_run finding_ops init = false.
Proof. vm_compute. reflexivity. Qed.

(* --- re-seating: reseat(x, v) for void reseat(std::shared_ptr<T> &p, int v) { p = std::make_shared<T>(v); }.
       An alias made with `auto& r = x` has its own Data block and keeps the old object; without it the old object dies. *)
Definition reseat_ops (alias : bool) : list prim :=
  [PCreate v0 true] ++ (if alias then [PShare v0 (PRoot (RVar 0 1))] else []) ++ [PCheckpoint] ++
  lower spec_ret (HReseat v0) ++ [PCheckpoint; PTouch v0; PEngineEnd; PCxxRelease; PCheckpoint].
Example reseat_events : snd (run (reseat_ops false) init) = [Live 1; Destroyed 0; Live 1; Touched 1; Destroyed 1; Live 0].
Proof. vm_compute. reflexivity. Qed.
Example reseat_alias_events : snd (run (reseat_ops true) init) = [Live 1; Live 2; Touched 1; Destroyed 1; Destroyed 0; Live 0].
Proof. vm_compute. reflexivity. Qed.

(* --- a loop counter that escapes its loop: var keep; for (var i = 0; i < 3; ++i) { keep := i }; read keep.
       The counter is an object owned by the loop variable; `keep := i` shares the ownership, so after the loop
       scope is gone the reader still sees the last value written.  If the loop variable only *referred* to a
       counter on the evaluator's stack (owned by the frame, modelled as a temporary that dies with the loop),
       the read would be a use after destruction. *)
Definition keepv := PRoot (RVar 0 0).
Definition iv := PRoot (RVar 1 0).
Definition counter_ops (owned : bool) : list prim :=
  [PPush] ++
  (if owned then [PCreate iv false] else [PCreate (PRoot (RTemp 1)) false; PBorrow (PRoot (RTemp 1)) iv]) ++
  [PWrite iv 0; PShare iv keepv; PWrite iv 1; PWrite iv 2; PWrite iv 3; PStmtEnd 0; PPop; PRead keepv].
Example counter_owned : snd (run (counter_ops true) init) = [Value 3].
Proof. vm_compute. reflexivity. Qed.
Example counter_on_stack : snd (run (counter_ops false) init) = [Destroyed 0; UseAfterFree 0].
Proof. vm_compute. reflexivity. Qed.
