(* C01_fname_independent: what the file name handed to parse() can influence.
   Two runs of the parser model over the same bytes with file names f1 and f2 proceed in lock step: same cursor, same depth counter, same
   number of grammar-function invocations, match stacks of the same shape -- and end in the same class of outcome: the same eval_error
   (reason, line, column: no error text of the parser contains the file name), or two trees that differ at most in the stored file-name
   field of a node (f1 against f2) and in the value of a `__FILE__` constant (the string f1 against the string f2).
   The proof is a relational traversal of both layers: `REL R m1 m2` says that from related states m1 and m2 end in related outcomes. *)
From Coq Require Import ZArith NArith List Bool String Lia Arith.
From ChaiV Require Import NumDefs Ast LexDefs LexProofs ParserDefs.
Import ListNotations.
Local Open Scope nat_scope.

Section Rel.
  Context {U : Type}.
  Variable RU : U -> U -> Prop.
  Local Notation STu := (state U).

  Definition srel (s1 s2 : STu) : Prop := pos s1 = pos s2 /\ depth s1 = depth s2 /\ RU (user s1) (user s2).
  Definition orel {X} (RX : X -> X -> Prop) (o1 o2 : outcome (X * STu)) : Prop :=
    match o1, o2 with
    | Ok (a1, t1), Ok (a2, t2) => RX a1 a2 /\ srel t1 t2
    | Err r1 l1 c1, Err r2 l2 c2 => r1 = r2 /\ l1 = l2 /\ c1 = c2
    | Crash k1, Crash k2 => k1 = k2
    | OutOfFuel, OutOfFuel => True
    | _, _ => False
    end.
  Definition REL {X} (RX : X -> X -> Prop) (m1 m2 : M U X) : Prop := forall s1 s2, srel s1 s2 -> orel RX (m1 s1) (m2 s2).

  Lemma REL_bind {X Y} (RX : X -> X -> Prop) (RY : Y -> Y -> Prop) (m1 m2 : M U X) (k1 k2 : X -> M U Y) :
    REL RX m1 m2 -> (forall a1 a2, RX a1 a2 -> REL RY (k1 a1) (k2 a2)) -> REL RY (bind m1 k1) (bind m2 k2).
  Proof.
    intros Hm Hk s1 s2 Hs. unfold bind. specialize (Hm s1 s2 Hs).
    destruct (m1 s1) as [[a1 t1]| | |], (m2 s2) as [[a2 t2]| | |]; cbn [orel] in *; try contradiction; auto.
    destruct Hm as [Ha Ht]. apply (Hk a1 a2 Ha t1 t2 Ht).
  Qed.
  Lemma REL_weaken {X} (R R' : X -> X -> Prop) (m1 m2 : M U X) : REL R m1 m2 -> (forall a b, R a b -> R' a b) -> REL R' m1 m2.
  Proof.
    intros H HR s1 s2 Hs. specialize (H s1 s2 Hs). destruct (m1 s1) as [[a1 t1]| | |], (m2 s2) as [[a2 t2]| | |]; cbn [orel] in *; auto.
    destruct H; auto.
  Qed.
  Lemma REL_ret {X} (RX : X -> X -> Prop) a1 a2 : RX a1 a2 -> REL RX (ret a1) (ret a2).
  Proof. intros H s1 s2 Hs. cbn. auto. Qed.
  Lemma REL_get_pos : REL eq (@get_pos U) get_pos.
  Proof. intros s1 s2 Hs. cbn. split; [apply Hs|exact Hs]. Qed.
  Lemma REL_set_pos p : REL eq (@set_pos U p) (set_pos p).
  Proof. intros s1 s2 (Hp & Hd & Hu). cbn. split; [reflexivity|]. repeat split; cbn; auto. Qed.
  Lemma REL_throw_at {X} (RX : X -> X -> Prop) r : REL RX (@throw_at U X r) (throw_at r).
  Proof. intros s1 s2 (Hp & _). cbn. rewrite Hp. auto. Qed.
  Lemma REL_throw_pos {X} (RX : X -> X -> Prop) r l c : REL RX (@throw_pos U X r l c) (throw_pos r l c).
  Proof. intros s1 s2 _. cbn. auto. Qed.
  Lemma REL_crash {X} (RX : X -> X -> Prop) k : REL RX (@crash_with U X k) (crash_with k).
  Proof. intros s1 s2 _. cbn. auto. Qed.
  Lemma REL_fuel {X} (RX : X -> X -> Prop) : REL RX (fun _ : STu => @OutOfFuel (X * STu)) (fun _ => OutOfFuel).
  Proof. intros s1 s2 _. exact I. Qed.
  Lemma REL_inc : REL eq (@inc U) inc.
  Proof. intros s1 s2 (Hp & Hd & Hu). cbn. rewrite Hp. split; [reflexivity|]. repeat split; cbn; auto. Qed.
  Lemma REL_dec : REL eq (@dec U) dec.
  Proof.
    intros s1 s2 (Hp & Hd & Hu). unfold dec. rewrite Hp. destruct (pos_dec (pos s2)); cbn; [|reflexivity].
    split; [reflexivity|]. repeat split; cbn; auto.
  Qed.
  Lemma REL_add_n n : REL eq (@add_n U n) (add_n n).
  Proof. intros s1 s2 (Hp & Hd & Hu). cbn. rewrite Hp. split; [reflexivity|]. repeat split; cbn; auto. Qed.
  Lemma REL_sub_n n : REL eq (@sub_n U n) (sub_n n).
  Proof.
    intros s1 s2 (Hp & Hd & Hu). unfold sub_n. rewrite Hp. destruct (pos_sub (pos s2) n); cbn; [|reflexivity].
    split; [reflexivity|]. repeat split; cbn; auto.
  Qed.
  Lemma REL_set_col c : REL eq (@set_col U c) (set_col c).
  Proof. intros s1 s2 (Hp & Hd & Hu). cbn. rewrite Hp. split; [reflexivity|]. repeat split; cbn; auto. Qed.
  Lemma REL_with_depth {X} (RX : X -> X -> Prop) (m1 m2 : M U X) : REL RX m1 m2 -> REL RX (with_depth m1) (with_depth m2).
  Proof.
    intros H s1 s2 (Hp & Hd & Hu). unfold with_depth. cbn [depth]. rewrite Hd, Hp.
    destruct (Nat.ltb max_parse_depth (S (depth s2))); [cbn; auto|].
    assert (Hs : srel (mkState (pos s1) (S (depth s1)) (user s1)) (mkState (pos s2) (S (depth s2)) (user s2))) by (repeat split; cbn; auto).
    specialize (H _ _ Hs). rewrite Hp, Hd in H.
    destruct (m1 _) as [[a1 t1]| | |], (m2 _) as [[a2 t2]| | |]; cbn [orel] in *; try contradiction; auto.
    destruct H as [Ha (Tp & Td & Tu)]. split; [exact Ha|]. repeat split; cbn; auto.
  Qed.
  Lemma REL_while {X} (RX : X -> X -> Prop) (b1 b2 : X -> M U (X * bool)) :
    (forall x1 x2, RX x1 x2 -> REL (fun r1 r2 => RX (fst r1) (fst r2) /\ snd r1 = snd r2) (b1 x1) (b2 x2)) ->
    forall fuel x1 x2, RX x1 x2 -> REL RX (while_ fuel b1 x1) (while_ fuel b2 x2).
  Proof.
    intros Hb. induction fuel as [|f IH]; intros x1 x2 Hx; [apply REL_fuel|].
    cbn [while_]. eapply REL_bind; [apply Hb, Hx|]. intros [y1 c1] [y2 c2] [Hy Hc]. cbn [fst snd] in *. subst c2.
    destruct c1; [apply IH, Hy|apply REL_ret, Hy].
  Qed.
  Lemma REL_loop {X} (RX : X -> X -> Prop) (b1 b2 : X -> M U (X * bool)) x1 x2 :
    (forall x1 x2, RX x1 x2 -> REL (fun r1 r2 => RX (fst r1) (fst r2) /\ snd r1 = snd r2) (b1 x1) (b2 x2)) ->
    RX x1 x2 -> REL RX (loop b1 x1) (loop b2 x2).
  Proof. intros Hb Hx s1 s2 Hs. unfold loop. rewrite (proj1 Hs). apply (REL_while RX b1 b2 Hb _ _ _ Hx), Hs. Qed.
  (* the common case: the same body, loop variables compared with = *)
  Lemma REL_loop_eq {X} (b : X -> M U (X * bool)) x : (forall x, REL eq (b x) (b x)) -> REL eq (loop b x) (loop b x).
  Proof.
    intros Hb. apply REL_loop; [|reflexivity]. intros x1 x2 <-. eapply REL_weaken; [apply Hb|]. intros r1 r2 <-. auto.
  Qed.
End Rel.

(* one structural step on two copies of the same code; `rleaf` closes a call of a function whose lemma is in the hint database *)
Ltac rleaf := solve [ eassumption | eauto 2 with rel ].
Ltac rstep :=
  match goal with
  | |- forall _, _ => intro
  | |- REL _ _ (let _ := _ in _) _ => cbv zeta
  | |- REL _ _ ((fun _ => _) _) _ => cbv beta
  | |- REL _ _ (ret _) (ret _) => apply REL_ret; solve [reflexivity | assumption | auto]
  | |- REL _ _ (throw_at _) (throw_at _) => apply REL_throw_at
  | |- REL _ _ (throw_pos _ _ _) (throw_pos _ _ _) => apply REL_throw_pos
  | |- REL _ _ (crash_with _) (crash_with _) => apply REL_crash
  | |- REL _ _ (fun _ => OutOfFuel) (fun _ => OutOfFuel) => apply REL_fuel
  | |- REL _ _ (with_depth _) (with_depth _) => apply REL_with_depth
  | |- REL _ eq (loop ?b ?x) (loop ?b ?x) => apply REL_loop_eq; intro
  | |- REL _ _ (if ?c then _ else _) (if ?c then _ else _) => destruct c
  | |- REL _ _ (match ?c with _ => _ end) (match ?c with _ => _ end) => destruct c
  | |- REL _ eq ?m ?m => rleaf
  | |- REL _ _ (bind ?m _) (bind ?m _) => eapply (REL_bind _ eq); [|intros ? ? <-]
  end.
Ltac rel := repeat rstep.

#[global] Hint Resolve REL_get_pos REL_set_pos REL_inc REL_dec REL_add_n REL_sub_n REL_set_col : rel.

(* ------------------------------------------------------------------ the lexical layer: the grammar-layer state is only passed through *)
Section Lex.
  Context {U : Type}.
  Variable RU : U -> U -> Prop.
  Variable A : alphabets.
  Variable T : int_tables.
  Variable K : kw_tables.
  Local Notation R1 m := (REL RU eq m m).

  Lemma REL_Symbol_ sym : R1 (@Symbol_ U sym).
  Proof. unfold Symbol_. rel. Qed.
  Lemma REL_Char_ c : R1 (@Char_ U c).
  Proof. unfold Char_. rel. Qed.
  Lemma REL_Keyword_ t : R1 (@Keyword_ U t).
  Proof. unfold Keyword_. rel. Qed.
  Hint Resolve REL_Symbol_ REL_Char_ REL_Keyword_ : rel.
  Lemma REL_Eol_ t : R1 (@Eol_ U t).
  Proof. unfold Eol_. rel. Qed.
  Hint Resolve REL_Eol_ : rel.
  Lemma REL_SkipComment : R1 (@SkipComment U).
  Proof. unfold SkipComment, ml_comment_body, line_comment_body. rel. Qed.
  Hint Resolve REL_SkipComment : rel.
  Lemma REL_SkipWS sc : R1 (@SkipWS U A sc).
  Proof. unfold SkipWS, skipws_body. rel. Qed.
  Lemma REL_skip_while a : R1 (@skip_while U a).
  Proof. unfold skip_while, skip_while_body. rel. Qed.
  Lemma REL_at_alpha a : R1 (@at_alpha U a).
  Proof. unfold at_alpha. rel. Qed.
  Lemma REL_at_char f : R1 (@at_char U f).
  Proof. unfold at_char. rel. Qed.
  Hint Resolve REL_SkipWS REL_skip_while REL_at_alpha REL_at_char : rel.
  Lemma REL_read_exponent_and_suffix : R1 (@read_exponent_and_suffix U A).
  Proof. unfold read_exponent_and_suffix. rel. Qed.
  Hint Resolve REL_read_exponent_and_suffix : rel.
  Lemma REL_Float_ : R1 (@Float_ U A).
  Proof. unfold Float_. rel. Qed.
  Lemma REL_prefixed_ l d : R1 (@prefixed_ U A l d).
  Proof. unfold prefixed_. rel. Qed.
  Lemma REL_int_token start base pre : R1 (@int_token U T start base pre).
  Proof. unfold int_token. rel. Qed.
  Hint Resolve REL_Float_ REL_prefixed_ REL_int_token : rel.
  Lemma REL_Num : R1 (@Num U A T).
  Proof. unfold Num, Hex_, Binary_, IntSuffix_. rel. Qed.
  Lemma REL_Eol : R1 (@Eol U A).
  Proof. unfold Eol. rel. Qed.
  Lemma REL_Eos : R1 (@Eos U A).
  Proof. unfold Eos. rel. Qed.
  Lemma REL_Char c : R1 (@Char U A c).
  Proof. unfold Char. rel. Qed.
  Lemma REL_Keyword t : R1 (@Keyword U A t).
  Proof. unfold Keyword. rel. Qed.
  Hint Resolve REL_Num REL_Eol REL_Eos REL_Char REL_Keyword : rel.
  Lemma REL_Id_ : R1 (@Id_ U A).
  Proof. unfold Id_, backtick_body. rel. Qed.
  Hint Resolve REL_Id_ : rel.
  Lemma REL_Id v : R1 (@Id U A K v).
  Proof. unfold Id. rel. Qed.
  Lemma REL_Quoted_String_ : R1 (@Quoted_String_ U).
  Proof. unfold Quoted_String_, qs_body. rel. Qed.
  Lemma REL_Single_Quoted_String_ : R1 (@Single_Quoted_String_ U).
  Proof. unfold Single_Quoted_String_, sqs_body. rel. Qed.
  Lemma REL_between start : R1 (@between U start).
  Proof. unfold between. rel. Qed.
  Hint Resolve REL_Id REL_Quoted_String_ REL_Single_Quoted_String_ REL_between : rel.
  Lemma REL_Quoted_String : R1 (@Quoted_String U A).
  Proof. unfold Quoted_String. rel. Qed.
  Lemma REL_Single_Quoted_String : R1 (@Single_Quoted_String U A).
  Proof. unfold Single_Quoted_String. rel. Qed.
End Lex.
#[global] Hint Resolve REL_Symbol_ REL_Char_ REL_Keyword_ REL_Eol_ REL_SkipComment REL_SkipWS REL_skip_while REL_at_alpha REL_at_char
  REL_Num REL_Eol REL_Eos REL_Char REL_Keyword REL_Id REL_Quoted_String REL_Single_Quoted_String : rel.

(* ------------------------------------------------------------------ the grammar layer *)
Lemma Forall2_len {X Y} (R : X -> Y -> Prop) l1 l2 : Forall2 R l1 l2 -> List.length l1 = List.length l2.
Proof. induction 1; cbn; auto. Qed.
Lemma Forall2_firstn {X Y} (R : X -> Y -> Prop) n : forall l1 l2, Forall2 R l1 l2 -> Forall2 R (firstn n l1) (firstn n l2).
Proof. induction n as [|n IH]; intros l1 l2 H; [constructor|]. destruct H; cbn [firstn]; constructor; auto. Qed.
Lemma Forall2_skipn {X Y} (R : X -> Y -> Prop) n : forall l1 l2, Forall2 R l1 l2 -> Forall2 R (skipn n l1) (skipn n l2).
Proof. induction n as [|n IH]; intros l1 l2 H; [exact H|]. destruct H; cbn [skipn]; [constructor|auto]. Qed.
Lemma Forall2_snoc {X Y} (R : X -> Y -> Prop) l1 l2 a b : Forall2 R l1 l2 -> R a b -> Forall2 R (l1 ++ [a]) (l2 ++ [b]).
Proof. intros H Hab. apply Forall2_app; [exact H|constructor; [exact Hab|constructor]]. Qed.
Lemma Forall2_rev {X Y} (R : X -> Y -> Prop) l1 l2 : Forall2 R l1 l2 -> Forall2 R (rev l1) (rev l2).
Proof. induction 1; cbn [rev]; [constructor|]. apply Forall2_snoc; assumption. Qed.
Lemma Forall2_last {X Y} (R : X -> Y -> Prop) l1 l2 d1 d2 : Forall2 R l1 l2 -> R d1 d2 -> R (last l1 d1) (last l2 d2).
Proof. intros H Hd. induction H as [|a b l1 l2 Hab H IH]; [exact Hd|]. destruct H; [exact Hab|exact IH]. Qed.

Section Gram.
  Variables f1 f2 : string.

  (* a stored file name / a constant payload of the two runs: equal, or the two file names (resp. the two `__FILE__` strings) *)
  Definition frel (a b : string) : Prop := a = b \/ (a = f1 /\ b = f2).
  Definition crel (a b : option (bool * cval)) : Prop := a = b \/ (a = Some (true, CStr f1) /\ b = Some (true, CStr f2)).
  Inductive nrel : pnode -> pnode -> Prop :=
  | nrel_intro k t l fa fb ca cb cha chb :
      frel fa fb -> crel ca cb -> Forall2 nrel cha chb -> nrel (PN k t l fa ca cha) (PN k t l fb cb chb).
  Definition urel (u1 u2 : pstate) : Prop := Forall2 nrel (stk u1) (stk u2) /\ frel (fname u1) (fname u2) /\ ticks u1 = ticks u2.
  Local Notation RELg := (REL urel).
  Local Notation R1 m := (REL urel eq m m).

  Lemma nrel_leaf k t l f c : nrel (PN k t l f c []) (PN k t l f c []).
  Proof. constructor; [left; reflexivity|left; reflexivity|constructor]. Qed.
  Lemma nrel_kind a b : nrel a b -> pn_kind a = pn_kind b.
  Proof. destruct 1; reflexivity. Qed.
  Lemma nrel_text a b : nrel a b -> pn_text a = pn_text b.
  Proof. destruct 1; reflexivity. Qed.
  Lemma nrel_loc a b : nrel a b -> pn_loc a = pn_loc b.
  Proof. destruct 1; reflexivity. Qed.
  Lemma nrel_children a b : nrel a b -> Forall2 nrel (pn_children a) (pn_children b).
  Proof. destruct 1; assumption. Qed.

  Lemma REL_get_stack : RELg (Forall2 nrel) get_stack get_stack.
  Proof. intros s1 s2 Hs. cbn. split; [apply Hs|exact Hs]. Qed.
  Lemma REL_set_stack l1 l2 : Forall2 nrel l1 l2 -> RELg eq (set_stack l1) (set_stack l2).
  Proof. intros H s1 s2 (Hp & Hd & Hst & Hf & Ht). cbn. split; [reflexivity|]. repeat split; cbn; auto. Qed.
  Lemma REL_get_fname : RELg frel get_fname get_fname.
  Proof. intros s1 s2 Hs. cbn. split; [apply Hs|exact Hs]. Qed.
  Lemma REL_tick {X} (RX : X -> X -> Prop) (m1 m2 : PM X) : RELg RX m1 m2 -> RELg RX (fun s => m1 (tick s)) (fun s => m2 (tick s)).
  Proof. intros H s1 s2 (Hp & Hd & Hst & Hf & Ht). apply H. repeat split; cbn; auto. rewrite Ht. reflexivity. Qed.
  Lemma REL_stack_size : R1 stack_size.
  Proof.
    unfold stack_size. eapply (REL_bind _ (Forall2 nrel)); [apply REL_get_stack|]. intros st1 st2 H. apply REL_ret. apply (Forall2_len _ _ _ H).
  Qed.
  Lemma REL_push n1 n2 : nrel n1 n2 -> RELg eq (push n1) (push n2).
  Proof.
    intros Hn. unfold push. eapply (REL_bind _ (Forall2 nrel)); [apply REL_get_stack|]. intros st1 st2 H. apply REL_set_stack, Forall2_snoc; assumption.
  Qed.
  Lemma REL_make_node k text l1 c1 ca cb : crel ca cb -> RELg nrel (make_node k text l1 c1 ca) (make_node k text l1 c1 cb).
  Proof.
    intros Hc. unfold make_node. eapply (REL_bind _ eq); [apply REL_get_pos|]. intros p ? <-.
    eapply (REL_bind _ frel); [apply REL_get_fname|]. intros fa fb Hf. apply REL_ret. constructor; [exact Hf|exact Hc|constructor].
  Qed.

  Lemma REL_build_match k start text : R1 (build_match k start text).
  Proof.
    unfold build_match. eapply (REL_bind _ (Forall2 nrel)); [apply REL_get_stack|]. intros st1 st2 Hst.
    eapply (REL_bind _ eq); [apply REL_get_pos|]. intros p ? <-.
    eapply (REL_bind _ frel); [apply REL_get_fname|]. intros fa fb Hf.
    rewrite <- (Forall2_len _ _ _ Hst). destruct (Nat.ltb _ _); [apply REL_crash|]. cbv zeta.
    pose proof (Forall2_skipn _ start _ _ Hst) as Hk. rewrite <- (Forall2_len _ _ _ Hk).
    destruct (ctor_check k _); [apply REL_crash|].
    apply REL_set_stack, Forall2_snoc; [apply Forall2_firstn, Hst|].
    assert (Hl : match skipn start st1 with
                 | c :: _ => mkloc (l_line (pn_loc c)) (l_col (pn_loc c)) (line p) (col p)
                 | [] => mkloc (line p) (col p) (line p) (col p)
                 end =
                 match skipn start st2 with
                 | c :: _ => mkloc (l_line (pn_loc c)) (l_col (pn_loc c)) (line p) (col p)
                 | [] => mkloc (line p) (col p) (line p) (col p)
                 end).
    { destruct Hk as [|a b ? ? Hab _]; [reflexivity|]. rewrite (nrel_loc _ _ Hab). reflexivity. }
    rewrite Hl. constructor; [exact Hf|left; reflexivity|exact Hk].
  Qed.

  Lemma find_func_rel st1 st2 : Forall2 nrel st1 st2 -> find_func st1 = find_func st2.
  Proof.
    induction 1 as [|a b l1 l2 Hab H IH]; [reflexivity|]. cbn [find_func]. destruct H as [|a' b' l1' l2' Hab' H']; [reflexivity|].
    rewrite (nrel_kind _ _ Hab), (nrel_kind _ _ Hab'), (nrel_text _ _ Hab). destruct (_ && _); [reflexivity|exact IH].
  Qed.
  Lemma find_class_rel st1 st2 : Forall2 nrel st1 st2 -> find_class st1 = find_class st2.
  Proof.
    induction 1 as [|a b l1 l2 Hab H IH]; [reflexivity|]. cbn [find_class]. destruct H as [|a' b' l1' l2' Hab' H']; [reflexivity|].
    destruct H' as [|a'' b'' l1'' l2'' Hab'' H'']; [reflexivity|].
    rewrite (nrel_kind _ _ Hab), (nrel_kind _ _ Hab'), (nrel_kind _ _ Hab''), (nrel_text _ _ Hab). destruct (_ && _); [reflexivity|exact IH].
  Qed.
  Definition cvrel (x y : bool * cval) : Prop := crel (Some x) (Some y).
  Lemma REL_const_of v : RELg cvrel (const_of v) (const_of v).
  Proof.
    destruct v; cbn [const_of]; try (apply REL_ret; left; reflexivity).
    - eapply (REL_bind _ frel); [apply REL_get_fname|]. intros fa fb [->|[-> ->]]; apply REL_ret; [left; reflexivity|right; auto].
    - eapply (REL_bind _ (Forall2 nrel)); [apply REL_get_stack|]. intros st1 st2 H. rewrite (find_func_rel _ _ H). apply REL_ret. left. reflexivity.
    - eapply (REL_bind _ (Forall2 nrel)); [apply REL_get_stack|]. intros st1 st2 H. rewrite (find_class_rel _ _ H). apply REL_ret. left. reflexivity.
  Qed.
  Lemma REL_push_token t : R1 (push_token t).
  Proof.
    destruct t as [text l1 c1 v|text l1 c1]; cbn [push_token].
    - eapply (REL_bind _ cvrel); [apply REL_const_of|]. intros x y Hxy.
      eapply (REL_bind _ nrel); [apply REL_make_node, Hxy|]. intros n1 n2 Hn. apply REL_push, Hn.
    - eapply (REL_bind _ nrel); [apply REL_make_node; left; reflexivity|]. intros n1 n2 Hn. apply REL_push, Hn.
  Qed.
  Ltac gstep :=
    match goal with
    | |- REL _ _ (bind get_stack _) (bind get_stack _) => eapply (REL_bind _ (Forall2 nrel)); [apply REL_get_stack|intros ? ? ?]
    | |- REL _ _ (bind (make_node _ _ _ _ _) _) (bind (make_node _ _ _ _ _) _) =>
        eapply (REL_bind _ nrel); [apply REL_make_node; left; reflexivity|intros ? ? ?]
    | |- REL _ _ (push _) (push _) => apply REL_push; solve [assumption | apply nrel_leaf]
    | |- REL _ _ (bind (push _) _) (bind (push _) _) => eapply (REL_bind _ eq); [apply REL_push; solve [assumption | apply nrel_leaf]|intros ? ? <-]
    | |- REL _ _ (bind (set_stack _) _) (bind (set_stack _) _) =>
        eapply (REL_bind _ eq); [apply REL_set_stack; solve [assumption | apply Forall2_firstn; assumption]|intros ? ? <-]
    | |- REL _ _ (set_stack _) (set_stack _) => apply REL_set_stack; solve [assumption | apply Forall2_firstn; assumption]
    | _ => rstep
    end.
  Ltac grel := repeat gstep.

  Hint Resolve REL_stack_size REL_build_match REL_push_token : rel.

  Section Funs.
    Variable A : alphabets.
    Variable T : int_tables.
    Variable K : kw_tables.
    Variable G : gtables.

    Lemma REL_push_opt o : R1 (push_opt o).
    Proof. destruct o; cbn [push_opt]; grel. Qed.
    Lemma REL_unless b r : R1 (unless b r).
    Proof. unfold unless. grel. Qed.
    Hint Resolve REL_push_opt REL_unless : rel.
    Lemma REL_Id_g v : R1 (Id_g A K v).
    Proof. unfold Id_g. grel. Qed.
    Lemma REL_Num_g : R1 (Num_g A T).
    Proof. unfold Num_g. grel. Qed.
    Lemma REL_SQS_g : R1 (Single_Quoted_String_g A).
    Proof. unfold Single_Quoted_String_g. grel. Qed.
    Lemma REL_eat_eols : R1 (eat_eols A).
    Proof. unfold eat_eols. grel. Qed.
    Lemma REL_eat_eoss : R1 (eat_eoss A).
    Proof. unfold eat_eoss. grel. Qed.
    Lemma REL_Symbol sym dp : R1 (Symbol A G sym dp).
    Proof. unfold Symbol. grel. Qed.
    Hint Resolve REL_Id_g REL_Num_g REL_SQS_g REL_eat_eols REL_eat_eoss REL_Symbol : rel.
    Lemma REL_Arg ta : R1 (Arg A K ta).
    Proof. unfold Arg. grel. Qed.
    Hint Resolve REL_Arg : rel.
    Lemma REL_comma_items item reason : R1 item -> R1 (comma_items A item reason).
    Proof. intros Hi. unfold comma_items. grel. Qed.
    Lemma REL_arg_list_of item : R1 item -> R1 (arg_list_of A item).
    Proof. intros Hi. pose proof (REL_comma_items item "Unexpected value in parameter list" Hi). unfold arg_list_of. grel. Qed.
    Lemma REL_Id_Arg_List : R1 (Id_Arg_List A K).
    Proof. apply REL_arg_list_of, REL_Arg. Qed.
    Lemma REL_Decl_Arg_List : R1 (Decl_Arg_List A K).
    Proof. apply REL_arg_list_of, REL_Arg. Qed.
    Lemma REL_Reference : R1 (Reference A K G).
    Proof. unfold Reference. grel. Qed.
    Lemma REL_keyword_node fn k : R1 (keyword_node A G fn k).
    Proof. unfold keyword_node. grel. Qed.
    Lemma REL_class_id_node cn : R1 (class_id_node cn).
    Proof. unfold class_id_node. grel. Qed.
    Hint Resolve REL_Id_Arg_List REL_Decl_Arg_List REL_Reference REL_keyword_node REL_class_id_node : rel.
    Lemma REL_Var_Decl cc cn : R1 (Var_Decl A K G cc cn).
    Proof. unfold Var_Decl. grel. Qed.
    Lemma REL_first_symbol syms : R1 (first_symbol A G syms).
    Proof. induction syms as [|e r IH]; cbn [first_symbol]; grel. Qed.
    Hint Resolve REL_Var_Decl REL_first_symbol : rel.
    Lemma REL_Operator_Helper prec : R1 (Operator_Helper A G prec).
    Proof. unfold Operator_Helper. grel. Qed.
    Hint Resolve REL_Operator_Helper : rel.

    Lemma REL_method_call_fixup : R1 method_call_fixup.
    Proof.
      unfold method_call_fixup. eapply (REL_bind _ (Forall2 nrel)); [apply REL_get_stack|]. intros st1 st2 H.
      pose proof (Forall2_rev _ _ _ H) as Hr. destruct Hr as [|a b below1 below2 Hab Hbelow]; [grel|].
      destruct Hab as [fk ft fl ffa ffb fca fcb fcha fchb Hff Hfc Hfch].
      destruct Hfch as [|x y frest1 frest2 Hxy Hfrest]; [grel|].
      destruct Hxy as [dk dt dl dfa dfb dca dcb dch1 dch2 Hdf Hdc Hdch].
      destruct dk; try solve [grel].
      pose proof (Forall2_rev _ _ _ Hdch) as Hdr. destruct Hdr as [|dlast1 dlast2 dinit1 dinit2 Hdl Hdi]; [grel|].
      cbv zeta. rewrite !app_length, !rev_length, (Forall2_len _ _ _ Hdi).
      destruct (Nat.eqb _ 2); [|grel].
      apply REL_set_stack. apply Forall2_snoc; [apply Forall2_rev, Hbelow|].
      constructor; [exact Hdf|exact Hdc|]. apply Forall2_snoc; [apply Forall2_rev, Hdi|].
      constructor; [exact Hff|exact Hfc|]. constructor; assumption.
    Qed.
    Hint Resolve REL_method_call_fixup : rel.

    Section WithCall.
      Variable call : NT -> PM bool.
      Hypothesis Hcall : forall nt, R1 (call nt).
      Hint Resolve Hcall : rel.

      Lemma REL_catch_instr {X} (RX : X -> X -> Prop) (m1 m2 : PM X) l c : RELg RX m1 m2 -> RELg RX (catch_instr m1 l c) (catch_instr m2 l c).
      Proof.
        intros H s1 s2 Hs. specialize (H s1 s2 Hs). unfold catch_instr.
        destruct (m1 s1) as [[a1 t1]| | |], (m2 s2) as [[a2 t2]| | |]; cbn [orel] in *; try contradiction; auto.
        destruct H as (-> & -> & ->). auto.
      Qed.
      Lemma REL_qs_segments prev l c : forall segs first, R1 (qs_segments call prev l c segs first).
      Proof.
        assert (He : forall ev, R1 (catch_instr (call (NInstr ev)) l c)) by (intros ev; apply REL_catch_instr, Hcall).
        induction segs as [|[lit ev] r IH]; intros first; cbn [qs_segments]; grel.
      Qed.
      Hint Resolve REL_qs_segments : rel.
      Lemma REL_qs_replay q : R1 (qs_replay call q).
      Proof. unfold qs_replay. grel. Qed.
      Hint Resolve REL_qs_replay : rel.
      Lemma REL_Quoted_String_g : R1 (Quoted_String_g A call).
      Proof. unfold Quoted_String_g. grel. Qed.
      Hint Resolve REL_Quoted_String_g : rel.

      Lemma REL_Arg_List_b : R1 (Arg_List_b A call).
      Proof. unfold Arg_List_b. apply REL_arg_list_of. rleaf. Qed.
      Lemma REL_Container_Arg_List_b : R1 (Container_Arg_List_b A call).
      Proof.
        pose proof (REL_comma_items (call NMap_Pair) "Unexpected value in container" (Hcall NMap_Pair)).
        pose proof (REL_comma_items (call (NOperator 0)) "Unexpected value in container" (Hcall (NOperator 0))).
        unfold Container_Arg_List_b. grel.
      Qed.
      Lemma REL_Lambda_b : R1 (Lambda_b A K G call).
      Proof. unfold Lambda_b. grel. Qed.
      Lemma REL_Def_b cc cn : R1 (Def_b A K G call cc cn).
      Proof. unfold Def_b. grel. Qed.
      Lemma REL_Try_b : R1 (Try_b A K G call).
      Proof. unfold Try_b. grel. Qed.
      Lemma REL_If_b : R1 (If_b A G call).
      Proof. unfold If_b. grel. Qed.
      Lemma last_noop_rel st1 st2 : Forall2 nrel st1 st2 -> nrel (last st1 noop_node) (last st2 noop_node).
      Proof. intros H. apply (Forall2_last _ _ _ _ _ H). apply nrel_leaf. Qed.
      Lemma REL_Class_b ca : R1 (Class_b A K G call ca).
      Proof.
        unfold Class_b. grel.
        match goal with H : Forall2 nrel ?st1 ?st2 |- _ => rewrite (nrel_text _ _ (last_noop_rel st1 st2 H)) end.
        grel.
      Qed.
      Lemma REL_cond_block what : R1 (cond_block A call what).
      Proof. unfold cond_block. grel. Qed.
      Hint Resolve REL_cond_block : rel.
      Lemma REL_While_b : R1 (While_b A G call).
      Proof. unfold While_b. grel. Qed.
      Lemma REL_Range_Expression_b : R1 (Range_Expression_b A call).
      Proof. unfold Range_Expression_b. grel. Qed.
      Lemma REL_for_guard dflt : nrel dflt dflt -> R1 (for_guard A call dflt).
      Proof. intros Hd. unfold for_guard. grel. Qed.
      Lemma REL_For_Guards_b : R1 (For_Guards_b A call).
      Proof.
        pose proof (REL_for_guard noop_node (nrel_leaf _ _ _ _ _)). pose proof (REL_for_guard true_node (nrel_leaf _ _ _ _ _)).
        unfold For_Guards_b. grel.
      Qed.
      Lemma REL_For_b : R1 (For_b A G call).
      Proof. unfold For_b. grel. Qed.
      Lemma REL_Case_b : R1 (Case_b A G call).
      Proof. unfold Case_b. grel. Qed.
      Lemma REL_Switch_b : R1 (Switch_b A G call).
      Proof. unfold Switch_b. grel. Qed.
      Lemma REL_block_of inner reason : R1 inner -> R1 (block_of A inner reason).
      Proof. intros Hi. unfold block_of. grel. Qed.
      Lemma REL_Return_b : R1 (Return_b A G call).
      Proof. unfold Return_b. grel. Qed.
      Lemma REL_Dot_Fun_Array_b : R1 (Dot_Fun_Array_b A T K G call).
      Proof. unfold Dot_Fun_Array_b. grel. Qed.
      Lemma REL_Paren_Expression_b : R1 (Paren_Expression_b A call).
      Proof. unfold Paren_Expression_b. grel. Qed.
      Lemma container_kind_rel prev st1 st2 : Forall2 nrel st1 st2 ->
        (if negb (Nat.eqb prev (List.length st1)) then
           match pn_children (last st1 noop_node) with
           | c0 :: _ => if kind_eqb (pn_kind c0) KValue_Range then KInline_Range else if kind_eqb (pn_kind c0) KMap_Pair then KInline_Map else KInline_Array
           | [] => KInline_Array
           end
         else KInline_Array) =
        (if negb (Nat.eqb prev (List.length st2)) then
           match pn_children (last st2 noop_node) with
           | c0 :: _ => if kind_eqb (pn_kind c0) KValue_Range then KInline_Range else if kind_eqb (pn_kind c0) KMap_Pair then KInline_Map else KInline_Array
           | [] => KInline_Array
           end
         else KInline_Array).
      Proof.
        intros H. rewrite (Forall2_len _ _ _ H). destruct (negb _); [|reflexivity].
        pose proof (nrel_children _ _ (last_noop_rel st1 st2 H)) as Hc.
        destruct Hc as [|a b ? ? Hab _]; [reflexivity|]. rewrite (nrel_kind _ _ Hab). reflexivity.
      Qed.
      Lemma REL_Inline_Container_b : R1 (Inline_Container_b A call).
      Proof.
        unfold Inline_Container_b. grel.
        match goal with H : Forall2 nrel ?st1 ?st2 |- _ => rewrite (container_kind_rel _ st1 st2 H) end.
        grel.
      Qed.
      Lemma REL_prefix_try opers prev : R1 (prefix_try A G call opers prev).
      Proof. induction opers as [|o r IH]; cbn [prefix_try]; grel. Qed.
      Hint Resolve REL_prefix_try : rel.
      Lemma REL_Prefix_b : R1 (Prefix_b A G call).
      Proof. unfold Prefix_b. grel. Qed.
      Lemma REL_Value_b : R1 (Value_b A K G call).
      Proof. unfold Value_b. grel. Qed.
      Lemma REL_Operator_b prec : R1 (Operator_b A G call prec).
      Proof. unfold Operator_b. grel. Qed.
      Lemma REL_pair_of sep k reason : R1 (pair_of A G call sep k reason).
      Proof. unfold pair_of. grel. Qed.
      Lemma REL_equation_try syms prev : R1 (equation_try A G call syms prev).
      Proof. induction syms as [|o r IH]; cbn [equation_try]; grel. Qed.
      Hint Resolve REL_equation_try : rel.
      Lemma REL_Equation_b : R1 (Equation_b A G call).
      Proof. unfold Equation_b. grel. Qed.
      Lemma REL_Class_Statements_b cn : R1 (Class_Statements_b A K G call cn).
      Proof. unfold Class_Statements_b. grel. Qed.
      Lemma REL_Statements_b ca : R1 (Statements_b A G call ca).
      Proof. unfold Statements_b, any_of, Break, Continue. cbn [fold_right]. grel. Qed.

      Lemma REL_parse_internal_b : RELg nrel (parse_internal_b A call) (parse_internal_b A call).
      Proof.
        unfold parse_internal_b. grel.
        all: match goal with H : Forall2 nrel _ _ |- _ => destruct H; [apply REL_crash|apply REL_ret; assumption] end.
      Qed.

      Lemma REL_Instr_b text : R1 (Instr_b A call text).
      Proof.
        intros s1 s2 (Hp & Hd & Hst & Hf & Ht). unfold Instr_b.
        assert (Hi : srel urel (mkState (pos_begin text) (depth s1) (mkPS [] instr_eval_name (ticks (user s1))))
                               (mkState (pos_begin text) (depth s2) (mkPS [] instr_eval_name (ticks (user s2))))).
        { repeat split; cbn; auto. left. reflexivity. }
        pose proof (REL_parse_internal_b _ _ Hi) as H.
        destruct (parse_internal_b A call _) as [[n1 t1]| | |], (parse_internal_b A call _) as [[n2 t2]| | |]; cbn [orel] in *; try contradiction; auto.
        destruct H as [Hn (Tp & Td & Tst & Tf & Tt)]. split; [reflexivity|]. repeat split; cbn; auto. apply Forall2_snoc; assumption.
      Qed.

      Lemma REL_body nt : R1 (body A T K G call nt).
      Proof.
        destruct nt; cbn [body].
        - apply REL_Arg_List_b.
        - apply REL_Container_Arg_List_b.
        - apply REL_Lambda_b.
        - apply REL_Def_b.
        - apply REL_Try_b.
        - apply REL_If_b.
        - apply REL_Class_b.
        - apply REL_While_b.
        - apply REL_Range_Expression_b.
        - apply REL_For_Guards_b.
        - apply REL_For_b.
        - apply REL_Case_b.
        - apply REL_Switch_b.
        - apply REL_block_of. rleaf.
        - apply REL_block_of. rleaf.
        - apply REL_Return_b.
        - apply REL_Dot_Fun_Array_b.
        - apply REL_Paren_Expression_b.
        - apply REL_Inline_Container_b.
        - apply REL_Prefix_b.
        - apply REL_Value_b.
        - apply REL_Operator_b.
        - apply REL_pair_of.
        - apply REL_pair_of.
        - apply REL_Equation_b.
        - apply REL_Class_Statements_b.
        - apply REL_Statements_b.
        - apply REL_Instr_b.
      Qed.
    End WithCall.

    Lemma P_REL : forall f nt, R1 (P A T K G f nt).
    Proof.
      induction f as [|f IH]; intros nt; cbn [P]; [apply REL_fuel|].
      apply (REL_tick eq (body A T K G (P A T K G f) nt) (body A T K G (P A T K G f) nt)). apply REL_body, IH.
    Qed.

    (* the two parses, from the two initial states *)
    Theorem parse_full_rel bytes : orel urel nrel (parse_full A T K G bytes f1) (parse_full A T K G bytes f2).
    Proof.
      unfold parse_full. apply (REL_parse_internal_b _ (P_REL parse_fuel)).
      repeat split; cbn; auto. right. auto.
    Qed.
  End Funs.
End Gram.

(* ------------------------------------------------------------------ parse *)
(* the outcomes of two parses agree up to the file name *)
Definition same_modulo_fname (f1 f2 : string) (o1 o2 : outcome pnode) : Prop :=
  match o1, o2 with
  | Ok t1, Ok t2 => nrel f1 f2 t1 t2
  | Err r1 l1 c1, Err r2 l2 c2 => r1 = r2 /\ l1 = l2 /\ c1 = c2
  | Crash k1, Crash k2 => k1 = k2
  | OutOfFuel, OutOfFuel => True
  | _, _ => False
  end.
(* the tree without file names and constant payloads: kind, text, location, children *)
Fixpoint shape (n : pnode) : ast := let 'PN k t l _ _ ch := n in Node k "" t l None (map shape ch).
Lemma nrel_shape f1 f2 : forall a b, nrel f1 f2 a b -> shape a = shape b.
Proof.
  fix IH 3. intros a b H. destruct H as [k t l fa fb ca cb cha chb Hf Hc Hch]. cbn [shape]. f_equal.
  induction Hch as [|x y l1 l2 Hxy Hl IHl]; cbn [map]; [reflexivity|]. f_equal; [apply IH, Hxy|exact IHl].
Qed.

Section ParseRel.
  Variable A : alphabets.
  Variable T : int_tables.
  Variable K : kw_tables.
  Variable G : gtables.

  Theorem parse_fname_independent bytes f1 f2 : same_modulo_fname f1 f2 (parse A T K G bytes f1) (parse A T K G bytes f2).
  Proof.
    pose proof (parse_full_rel f1 f2 A T K G bytes) as H. unfold parse, same_modulo_fname.
    destruct (parse_full A T K G bytes f1) as [[n1 t1]| | |], (parse_full A T K G bytes f2) as [[n2 t2]| | |]; cbn [orel] in H; try contradiction; auto.
    apply H.
  Qed.
  (* the two runs also do the same amount of work and end at the same place *)
  Theorem parse_full_fname_independent bytes f1 f2 n1 s1 :
    parse_full A T K G bytes f1 = Ok (n1, s1) ->
    exists n2 s2, parse_full A T K G bytes f2 = Ok (n2, s2) /\ nrel f1 f2 n1 n2 /\ pos s2 = pos s1 /\ depth s2 = depth s1 /\ ticks (user s2) = ticks (user s1).
  Proof.
    intros E. pose proof (parse_full_rel f1 f2 A T K G bytes) as H. rewrite E in H.
    destruct (parse_full A T K G bytes f2) as [[n2 s2]| | |]; cbn [orel] in H; try contradiction.
    destruct H as [Hn (Hp & Hd & _ & _ & Ht)]. exists n2, s2. auto.
  Qed.
  Corollary parse_shape_fname_independent bytes f1 f2 t1 :
    parse A T K G bytes f1 = Ok t1 -> exists t2, parse A T K G bytes f2 = Ok t2 /\ shape t2 = shape t1.
  Proof.
    intros E. pose proof (parse_fname_independent bytes f1 f2) as H. rewrite E in H.
    destruct (parse A T K G bytes f2) as [t2| | |]; cbn in H; try contradiction. exists t2. split; [reflexivity|]. symmetry. apply (nrel_shape _ _ _ _ H).
  Qed.
  Corollary parse_error_fname_independent bytes f1 f2 r l c :
    parse A T K G bytes f1 = Err r l c -> parse A T K G bytes f2 = Err r l c.
  Proof.
    intros E. pose proof (parse_fname_independent bytes f1 f2) as H. rewrite E in H.
    destruct (parse A T K G bytes f2) as [t2|r2 l2 c2| |]; cbn in H; try contradiction. destruct H as (-> & -> & ->). reflexivity.
  Qed.
End ParseRel.
