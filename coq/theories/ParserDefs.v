(* Grammar layer of ChaiScript_Parser (chaiscript_parser.hpp, `build_match`, `Arg` .. `parse_internal`), ported line by line
   on top of the lexical layer LexDefs.v.

   * Nodes.  `pnode` = (kind, text, location, file name, constant payload, children); `to_ast` forgets the file name and
     gives the `Ast.ast` that harness/astdump.hpp prints (bodies that Def/Method/Lambda detach are kept as trailing
     children, i.e. in the order the parser pushed them).  Arg_AST_Node's identifier is AST_Node_Type::Arg_List in the
     C++ (chaiscript_eval.hpp), so `Arg` builds a KArg_List node.
   * State.  `state pstate` with `pstate = { stk : m_match_stack (push order); fname : *m_filename }`; m_position and
     m_current_parse_depth are the `pos` / `depth` fields of LexDefs.state.
   * Mutual recursion.  Every grammar function that (transitively) calls itself is a constructor of `NT`; its body is an
     ordinary definition over `call : NT -> PM bool`; `P fuel nt` ties the knot: fuel is the CALL DEPTH only (loops use
     LexDefs.loop, fuel = remaining bytes + 1).  Between two nested calls there is a Depth_Counter (`with_depth`) except
     below parse_instr_eval/parse_internal, so a call chain is never longer than 2 * 512 + 2: `parse_fuel` is a constant.
   * Explicit bad outcomes (never totalised away): `--m_position` before begin (OOB_dec), vector reads outside the match
     stack / m_operators[k] outside the array (OOB_read), a node constructor whose `assert` on the number of children
     fails (Terminate: the host aborts), m_match_stack.front() on an empty stack (OOB_read).
   * Tables.  The operator precedence table m_operators, the symbol groups of Operator_Matches, the node each
     precedence builds, the symbol lists of Equation/Prefix and the Keyword("...") literals of each grammar function are
     PARAMETERS (`gtables`), instantiated in ParserRun/ParserTheorems with Gen/G_OperatorTable.v (regenerated from the
     source text on every run). *)
From Coq Require Import ZArith NArith List Bool String Ascii.
From ChaiV Require Import StrUtil NumDefs Ast LexDefs.
Import ListNotations.
Local Open Scope Z_scope.
Local Open Scope string_scope.

(* ------------------------------------------------------------------ nodes *)
Inductive pnode := PN (k : kind) (text : string) (l : srcloc) (file : string) (c : option (bool * cval)) (ch : list pnode).
Definition pn_kind (n : pnode) := let 'PN k _ _ _ _ _ := n in k.
Definition pn_text (n : pnode) := let 'PN _ t _ _ _ _ := n in t.
Definition pn_loc (n : pnode) := let 'PN _ _ l _ _ _ := n in l.
Definition pn_file (n : pnode) := let 'PN _ _ _ f _ _ := n in f.
Definition pn_const (n : pnode) := let 'PN _ _ _ _ c _ := n in c.
Definition pn_children (n : pnode) := let 'PN _ _ _ _ _ ch := n in ch.
Fixpoint to_ast (n : pnode) : ast :=
  let 'PN k t l _ c ch := n in Node k "" t l c (map to_ast ch).

(* Noop_AST_Node() / Constant_AST_Node(Boxed_Value(true)): default Parse_Location, i.e. 0:0-0:0 and an empty file name *)
Definition noop_node : pnode := PN KNoop "" (mkloc 0 0 0 0) "" None [].
Definition true_node : pnode := PN KConstant "" (mkloc 0 0 0 0) "" (Some (false, CBool true)) [].

(* ------------------------------------------------------------------ tables regenerated from the source *)
Inductive op_prec :=
| Ternary_Cond | Logical_Or | Logical_And | Bitwise_Or | Bitwise_Xor | Bitwise_And | Equality | Comparison | Shift | Addition
| Multiplication | Prefix.
Definition op_prec_eqb (a b : op_prec) : bool :=
  match a, b with
  | Ternary_Cond, Ternary_Cond | Logical_Or, Logical_Or | Logical_And, Logical_And | Bitwise_Or, Bitwise_Or
  | Bitwise_Xor, Bitwise_Xor | Bitwise_And, Bitwise_And | Equality, Equality | Comparison, Comparison | Shift, Shift
  | Addition, Addition | Multiplication, Multiplication | Prefix, Prefix => true
  | _, _ => false
  end.
(* what the `switch (m_operators[t_precedence])` of Operator() does once both operands are on the stack *)
Inductive op_action :=
| OA_Ternary                 (* Symbol(":"), third operand, build_match<If_AST_Node> *)
| OA_Build (k : kind)        (* build_match<k>(prev_stack_top, oper) *)
| OA_Unreachable.            (* assert(false) *)
Record gtables := mkG {
  g_operators : list op_prec;                    (* create_operators() *)
  g_matches : list (list (list N));              (* Operator_Matches m_0 .. m_11 (is_match / any_of `case i: return match(m_i)`) *)
  g_actions : list (op_prec * op_action);        (* Operator(): the switch *)
  g_equation : list (list N);                    (* Equation(): the symbols tried in order *)
  g_prefix : list (list N);                      (* Prefix(): prefix_opers *)
  g_kw : list (string * list (list N));          (* per grammar function: its Keyword("...") literals in textual order *)
  g_max_depth : nat }.                           (* Parse_Depth *)

Definition p_ity_name (t : ity) : string :=
  match t with IInt => "int" | IUInt => "uint" | ILong => "long" | IULong => "ulong" | ILLong => "llong" | IULLong => "ullong" end.
Definition p_fk_name (k : fk) : string := match k with F32 => "float" | F64 => "double" | F80 => "ldouble" end.
Definition p_signed_char (c : N) : Z := if (128 <=? c)%N then Z.of_N c - 256 else Z.of_N c.
Definition sob (l : list N) : string := LexDefs.string_of_bytes l.
Definition bos (s : string) : list N := LexDefs.bytes_of_string s.

(* eval_error::what() as built by the constructors of chaiscript_common.hpp (format_why, format_filename, format_location);
   line = col = 0 stands for the one-argument constructor (LexDefs convention) *)
Definition what_of (file : string) (r : string) (l c : Z) : string :=
  if Z.eqb l 0 && Z.eqb c 0 then "Error: """ ++ r ++ """ "
  else "Error: """ ++ r ++ """ " ++ (if String.eqb file "__EVAL__" then "during evaluation " else "in '" ++ file ++ "' ")
       ++ " at (" ++ dec_of_z l ++ ", " ++ dec_of_z c ++ ")".
Definition instr_eval_name : string := "instr eval".

(* ------------------------------------------------------------------ grammar-layer state *)
(* `ticks` is a ghost counter: the number of grammar-function invocations (calls through `P`) so far; nothing reads it *)
Record pstate := mkPS { stk : list pnode; fname : string; ticks : N }.
Definition PM := M pstate.

Definition get_stack : PM (list pnode) := fun s => Ok (stk (user s), s).
Definition set_stack (l : list pnode) : PM unit := fun s => Ok (tt, mkState (pos s) (depth s) (mkPS l (fname (user s)) (ticks (user s)))).
Definition tick (s : state pstate) : state pstate :=
  mkState (pos s) (depth s) (mkPS (stk (user s)) (fname (user s)) (ticks (user s) + 1)%N).
Definition get_fname : PM string := fun s => Ok (fname (user s), s).
Definition stack_size : PM nat := st <- get_stack ;; ret (List.length st).
Definition push (n : pnode) : PM unit := st <- get_stack ;; set_stack (st ++ [n])%list.

(* the preconditions of the node constructors (chaiscript_eval.hpp): `assert(children.size() == n)` aborts the host,
   an unchecked children[i] is a read outside the vector *)
Definition ctor_check (k : kind) (n : nat) : option crash :=
  let need_eq (m : nat) := if Nat.eqb n m then None else Some Terminate in
  match k with
  | KIf | KRanged_For => need_eq 3%nat
  | KFor => need_eq 4%nat
  | KEquation | KCase | KLogical_And | KLogical_Or => need_eq 2%nat
  | KDefault | KReference => need_eq 1%nat
  | KFun_Call => if Nat.eqb n 0 then Some Terminate else None
  | KDot_Access => if Nat.ltb n 2 then Some OOB_read else None
  | KLambda => if Nat.ltb n 3 then Some OOB_read else None
  | KDef | KMethod => if Nat.eqb n 0 then Some OOB_read else None
  | _ => None
  end.

(* build_match<NodeType>(t_match_start, t_text): start of the first collected child (or the current position), end = current position *)
Definition build_match (k : kind) (start : nat) (text : string) : PM unit :=
  st <- get_stack ;; p <- get_pos ;; f <- get_fname ;;
  if Nat.ltb (List.length st) start then crash_with OOB_read
  else
    let kids := skipn start st in
    let l := match kids with
             | c :: _ => mkloc (l_line (pn_loc c)) (l_col (pn_loc c)) (line p) (col p)
             | [] => mkloc (line p) (col p) (line p) (col p)
             end in
    match ctor_check k (List.length kids) with
    | Some cr => crash_with cr
    | None => set_stack (firstn start st ++ [PN k text l f None kids])%list
    end.

(* make_node<T>(text, prev_line, prev_col, ...): end = current position *)
Definition make_node (k : kind) (text : string) (l1 c1 : Z) (c : option (bool * cval)) : PM pnode :=
  p <- get_pos ;; f <- get_fname ;; ret (PN k text (mkloc l1 c1 (line p) (col p)) f c []).

(* Id(): __FUNC__ / __CLASS__ scan the match stack downwards and keep the LAST hit, i.e. the lowest index *)
Fixpoint find_func (st : list pnode) : option string :=
  match st with
  | a :: ((b :: _) as r) =>
      if kind_eqb (pn_kind a) KId && kind_eqb (pn_kind b) KArg_List then Some (pn_text a) else find_func r
  | _ => None
  end.
Fixpoint find_class (st : list pnode) : option string :=
  match st with
  | a :: ((b :: c :: _) as r) =>
      if kind_eqb (pn_kind a) KId && kind_eqb (pn_kind b) KId && kind_eqb (pn_kind c) KArg_List then Some (pn_text a) else find_class r
  | _ => None
  end.
Definition const_of (v : constval) : PM (bool * cval) :=
  match v with
  | KInt t z => ret (true, CNum (p_ity_name t) (ity_nty t) (VI z))
  | KFloat k f => ret (true, CNum (p_fk_name k) (TF k) (VF f))
  | KBool b => ret (true, CBool b)
  | KChar c => ret (true, CNum "char" (TI 8 true) (VI (p_signed_char c)))
  | KString s => ret (true, CStr (sob s))
  | KFile => f <- get_fname ;; ret (true, CStr f)
  | KFunc => st <- get_stack ;; ret (true, CStr (match find_func st with Some n => n | None => "NOT_IN_FUNCTION" end))
  | KClass => st <- get_stack ;; ret (true, CStr (match find_class st with Some n => n | None => "NOT_IN_CLASS" end))
  | KPlaceholder => ret (false, CPlaceholder)
  end.
Definition push_token (t : token) : PM unit :=
  match t with
  | TConstant text l1 c1 v => c <- const_of v ;; n <- make_node KConstant (sob text) l1 c1 (Some c) ;; push n
  | TId text l1 c1 => n <- make_node KId (sob text) l1 c1 None ;; push n
  end.
Definition push_opt (t : option token) : PM bool :=
  match t with Some t => push_token t ;;; ret true | None => ret false end.

Definition unless (b : bool) (reason : string) : PM unit := if b then ret tt else throw_at reason.
Definition lookup_kw (tbl : list (string * list (list N))) (fn : string) (i : nat) : list N :=
  match find (fun e => String.eqb (fst e) fn) tbl with Some e => nth i (snd e) [] | None => [] end.

(* catch (const exception::eval_error &e) { throw exception::eval_error(e.what(), File_Position(start.line, start.col), *m_filename); }
   around parse_instr_eval: m_filename is still the inner one ("instr eval") when what() was formatted *)
Definition catch_instr {X} (m : PM X) (l c : Z) : PM X :=
  fun s => match m s with
           | Err r el ec => Err (what_of instr_eval_name r el ec) l c
           | o => o
           end.

(* ------------------------------------------------------------------ the nonterminals that take part in the recursion *)
Inductive NT :=
| NArg_List | NContainer_Arg_List | NLambda
| NDef (class_context : bool) (class_name : string)
| NTry | NIf | NClass (class_allowed : bool) | NWhile | NRange_Expression | NFor_Guards | NFor | NCase | NSwitch
| NClass_Block (class_name : string) | NBlock | NReturn | NDot_Fun_Array | NParen_Expression | NInline_Container | NPrefix
| NValue | NOperator (prec : nat) | NMap_Pair | NValue_Range | NEquation
| NClass_Statements (class_name : string) | NStatements (class_allowed : bool)
| NInstr (text : list N).      (* m_match_stack.push_back(parse_instr_eval(text)) *)

Section Grammar.
  Variable A : alphabets.
  Variable T : int_tables.
  Variable K : kw_tables.
  Variable G : gtables.

  Definition kw (fn : string) (i : nat) : list N := lookup_kw (g_kw G) fn i.
  Definition Id_g (validate : bool) : PM bool := t <- Id A K validate ;; push_opt t.
  Definition Num_g : PM bool := t <- Num A T ;; push_opt t.
  Definition Single_Quoted_String_g : PM bool := t <- Single_Quoted_String A ;; push_opt t.
  (* while (Eol()) {} *)
  Definition eat_eols : PM unit := loop (fun _ : unit => e <- Eol A ;; ret (tt, e)) tt.
  Definition eat_eoss : PM unit := loop (fun _ : unit => e <- Eos A ;; ret (tt, e)) tt.

  Definition is_operator (s : list N) : bool := existsb (fun g => mem_bytes s g) (g_matches G).
  Definition Symbol (sym : list N) (disallow_prevention : bool) : PM bool :=
    with_depth (
      SkipWS A false ;;;
      start <- get_pos ;;
      r <- Symbol_ sym ;;
      p <- get_pos ;;
      if r && has_more p && negb disallow_prevention && in_alpha (a_symbol A) (deref p) then
        if negb (deref p =? 61)%N && is_operator (pos_str start p) && negb (is_operator (pos_str start (pos_add p 1)))
        then ret true      (* don't throw this away, it's a good match and the next is not *)
        else set_pos start ;;; ret false
      else ret r).

  Definition Arg (type_allowed : bool) : PM bool :=
    prev <- stack_size ;;
    SkipWS A false ;;;
    b <- Id_g true ;;
    if b then
      SkipWS A false ;;;
      (if type_allowed then Id_g true else ret false) ;;;
      build_match KArg_List prev "" ;;;      (* Arg_AST_Node: identifier Arg_List *)
      ret true
    else ret false.

  (* `item` first, then `while (Char(',')) { while (Eol()) {} if (!item) throw ...; }` *)
  Definition comma_items (item : PM bool) (reason : string) : PM unit :=
    eat_eols ;;;
    loop (fun _ : unit =>
            c <- Char A 44%N ;;
            if c then eat_eols ;;; b <- item ;; unless b reason ;;; ret (tt, true)
            else ret (tt, false)) tt.
  Definition arg_list_of (item : PM bool) : PM bool :=
    with_depth (
      SkipWS A true ;;;
      prev <- stack_size ;;
      a <- item ;;
      (if a then comma_items item "Unexpected value in parameter list" else ret tt) ;;;
      build_match KArg_List prev "" ;;;
      SkipWS A true ;;;
      ret a).
  Definition Id_Arg_List : PM bool := arg_list_of (Arg false).
  Definition Decl_Arg_List : PM bool := arg_list_of (Arg true).

  Definition Reference : PM bool :=
    with_depth (
      prev <- stack_size ;;
      s <- Symbol (bos "&") false ;;
      if s then
        i <- Id_g true ;; unless i "Incomplete '&' expression" ;;;
        build_match KReference prev "" ;;; ret true
      else ret false).

  Definition keyword_node (fn : string) (k : kind) : PM bool :=
    with_depth (
      prev <- stack_size ;;
      b <- Keyword A (kw fn 0) ;;
      if b then build_match k prev "" ;;; ret true else ret false).
  Definition Break : PM bool := keyword_node "Break" KBreak.
  Definition Continue : PM bool := keyword_node "Continue" KContinue.

  Definition class_id_node (class_name : string) : PM unit :=
    p <- get_pos ;; n <- make_node KId class_name (line p) (col p) None ;; push n.

  Definition Var_Decl (class_context : bool) (class_name : string) : PM bool :=
    with_depth (
      prev <- stack_size ;;
      c1 <- (if class_context then
               a <- Keyword A (kw "Var_Decl" 0) ;;
               if a then ret true else b <- Keyword A (kw "Var_Decl" 1) ;; if b then ret true else Keyword A (kw "Var_Decl" 2)
             else ret false) ;;
      if c1 then
        class_id_node class_name ;;;
        i <- Id_g true ;; unless i "Incomplete attribute declaration" ;;;
        build_match KAttr_Decl prev "" ;;; ret true
      else
        c2 <- (a <- Keyword A (kw "Var_Decl" 3) ;; if a then ret true else Keyword A (kw "Var_Decl" 4)) ;;
        if c2 then
          r <- Reference ;;
          if r then ret true
          else i <- Id_g true ;;
               if i then build_match KVar_Decl prev "" ;;; ret true
               else throw_at "Incomplete variable declaration"
        else
          c3 <- Keyword A (kw "Var_Decl" 5) ;;
          if c3 then
            r <- Reference ;;
            ok <- (if r then ret true else Id_g true) ;;
            unless ok "Incomplete global declaration" ;;;
            build_match KGlobal_Decl prev "" ;;; ret true
          else
            c4 <- Keyword A (kw "Var_Decl" 6) ;;
            if c4 then
              i <- Id_g true ;; unless i "Incomplete attribute declaration" ;;;
              s <- Symbol (bos "::") false ;; unless s "Incomplete attribute declaration" ;;;
              i2 <- Id_g true ;; unless i2 "Missing attribute name in definition" ;;;
              build_match KAttr_Decl prev "" ;;; ret true
            else ret false).

  (* Operator_Helper: the first symbol of the precedence group that Symbol() accepts *)
  Fixpoint first_symbol (syms : list (list N)) : PM (option (list N)) :=
    match syms with
    | [] => ret None
    | e :: r => b <- Symbol e false ;; if b then ret (Some e) else first_symbol r
    end.
  Definition Operator_Helper (prec : nat) : PM (option (list N)) :=
    match nth_error (g_matches G) prec with
    | Some grp => first_symbol grp
    | None => ret None                     (* `default: return false;` *)
    end.

  Section Bodies.
    Variable call : NT -> PM bool.

    Definition Arg_List_b : PM bool := arg_list_of (call NEquation).

    Definition Container_Arg_List_b : PM bool :=
      with_depth (
        SkipWS A true ;;;
        prev <- stack_size ;;
        vr <- call NValue_Range ;;
        r <- (if vr then build_match KArg_List prev "" ;;; ret true
              else
                mp <- call NMap_Pair ;;
                if mp then comma_items (call NMap_Pair) "Unexpected value in container" ;;; build_match KArg_List prev "" ;;; ret true
                else
                  op <- call (NOperator 0) ;;
                  if op then comma_items (call (NOperator 0)) "Unexpected value in container" ;;; build_match KArg_List prev "" ;;; ret true
                  else ret false) ;;
        SkipWS A true ;;;
        ret r).

    Definition Lambda_b : PM bool :=
      with_depth (
        prev <- stack_size ;;
        k <- Keyword A (kw "Lambda" 0) ;;
        if k then
          c <- Char A 91%N ;;
          (if c then Id_Arg_List ;;; c2 <- Char A 93%N ;; unless c2 "Incomplete anonymous function bind"
           else build_match KArg_List prev "") ;;;
          c <- Char A 40%N ;;
          (if c then Decl_Arg_List ;;; c2 <- Char A 41%N ;; unless c2 "Incomplete anonymous function"
           else throw_at "Incomplete anonymous function") ;;;
          eat_eols ;;;
          b <- call NBlock ;; unless b "Incomplete anonymous function" ;;;
          build_match KLambda prev "" ;;; ret true
        else ret false).

    Definition Def_b (class_context : bool) (class_name : string) : PM bool :=
      with_depth (
        prev <- stack_size ;;
        k <- Keyword A (kw "Def" 0) ;;
        if k then
          (if class_context then class_id_node class_name else ret tt) ;;;
          i <- Id_g true ;; unless i "Missing function name in definition" ;;;
          is_method <- (s <- Symbol (bos "::") false ;;
                        if s then i2 <- Id_g true ;; unless i2 "Missing method name in definition" ;;; ret true else ret false) ;;
          c <- Char A 40%N ;;
          (if c then Decl_Arg_List ;;; c2 <- Char A 41%N ;; unless c2 "Incomplete function definition" else ret tt) ;;;
          eat_eoss ;;;
          g <- Char A 58%N ;;
          (if g then o <- call (NOperator 0) ;; unless o "Missing guard expression for function" else ret tt) ;;;
          eat_eols ;;;
          b <- call NBlock ;; unless b "Incomplete function definition" ;;;
          (if is_method || class_context then build_match KMethod prev "" else build_match KDef prev "") ;;;
          ret true
        else ret false).

    Definition Try_b : PM bool :=
      with_depth (
        prev <- stack_size ;;
        k <- Keyword A (kw "Try" 0) ;;
        if k then
          eat_eols ;;;
          b <- call NBlock ;; unless b "Incomplete 'try' block" ;;;
          loop (fun _ : unit =>
                  eat_eols ;;;
                  c <- Keyword A (kw "Try" 1) ;;
                  if c then
                    catch_top <- stack_size ;;
                    p <- Char A 40%N ;;
                    (if p then a <- Arg true ;; ok <- (if a then Char A 41%N else ret false) ;; unless ok "Incomplete 'catch' expression"
                     else ret tt) ;;;
                    eat_eols ;;;
                    b <- call NBlock ;; unless b "Incomplete 'catch' block" ;;;
                    build_match KCatch catch_top "" ;;;
                    ret (tt, true)
                  else ret (tt, false)) tt ;;;
          eat_eols ;;;
          f <- Keyword A (kw "Try" 2) ;;
          (if f then
             finally_top <- stack_size ;;
             eat_eols ;;;
             b <- call NBlock ;; unless b "Incomplete 'finally' block" ;;;
             build_match KFinally finally_top ""
           else ret tt) ;;;
          build_match KTry prev "" ;;; ret true
        else ret false).

    Definition If_b : PM bool :=
      with_depth (
        prev <- stack_size ;;
        k <- Keyword A (kw "If" 0) ;;
        if k then
          c <- Char A 40%N ;; unless c "Incomplete 'if' expression" ;;;
          e <- call NEquation ;; unless e "Incomplete 'if' expression" ;;;
          is_if_init <- (l <- Eol A ;; if l then call NEquation else ret false) ;;
          c <- Char A 41%N ;; unless c "Incomplete 'if' expression" ;;;
          eat_eols ;;;
          b <- call NBlock ;; unless b "Incomplete 'if' block" ;;;
          loop (fun _ : unit =>
                  eat_eols ;;;
                  el <- Keyword A (kw "If" 1) ;;
                  (* has_matches is set to false and never back to true (fix 349b04d): at most one else branch *)
                  if el then
                    i <- call NIf ;;
                    if i then ret (tt, false)
                    else eat_eols ;;; b <- call NBlock ;; unless b "Incomplete 'else' block" ;;; ret (tt, false)
                  else ret (tt, false)) tt ;;;
          n <- stack_size ;;
          let num_children := (n - prev)%nat in
          (if (is_if_init && Nat.eqb num_children 3) || (negb is_if_init && Nat.eqb num_children 2) then push noop_node else ret tt) ;;;
          (if is_if_init then build_match KIf (S prev) "" ;;; build_match KBlock prev "" else build_match KIf prev "") ;;;
          ret true
        else ret false).

    Definition Class_b (class_allowed : bool) : PM bool :=
      with_depth (
        prev <- stack_size ;;
        k <- Keyword A (kw "Class" 0) ;;
        if k then
          unless class_allowed "Class definitions only allowed at top scope" ;;;
          i <- Id_g true ;; unless i "Missing class name in definition" ;;;
          st <- get_stack ;;
          let class_name := pn_text (last st noop_node) in
          eat_eols ;;;
          b <- call (NClass_Block class_name) ;; unless b "Incomplete 'class' block" ;;;
          build_match Ast.KClass prev "" ;;; ret true
        else ret false).

    (* keyword '(' Operator ')' Eol* Block: While, Case *)
    Definition cond_block (what : string) : PM unit :=
      c <- Char A 40%N ;; unless c ("Incomplete '" ++ what ++ "' expression") ;;;
      o <- call (NOperator 0) ;;
      ok <- (if o then Char A 41%N else ret false) ;; unless ok ("Incomplete '" ++ what ++ "' expression") ;;;
      eat_eols ;;;
      b <- call NBlock ;; unless b ("Incomplete '" ++ what ++ "' block").

    Definition While_b : PM bool :=
      with_depth (
        prev <- stack_size ;;
        k <- Keyword A (kw "While" 0) ;;
        if k then cond_block "while" ;;; build_match KWhile prev "" ;;; ret true else ret false).

    Definition Range_Expression_b : PM bool :=
      with_depth (c <- Char A 58%N ;; if c then call NEquation else ret false).

    (* `if (!(Equation() && Eol())) { if (!Eol()) return false; else push(dflt) }` *)
    Definition for_guard (dflt : pnode) : PM bool :=
      e <- call NEquation ;;
      ok <- (if e then Eol A else ret false) ;;
      if ok then ret true
      else l <- Eol A ;; if l then push dflt ;;; ret true else ret false.
    Definition For_Guards_b : PM bool :=
      with_depth (
        g1 <- for_guard noop_node ;;
        if g1 then
          g2 <- for_guard true_node ;;
          if g2 then
            e <- call NEquation ;; (if e then ret tt else push noop_node) ;;; ret true
          else ret false
        else ret false).

    Definition For_b : PM bool :=
      with_depth (
        prev <- stack_size ;;
        k <- Keyword A (kw "For" 0) ;;
        if k then
          c <- Char A 40%N ;; unless c "Incomplete 'for' expression" ;;;
          classic_for <- (g <- call NFor_Guards ;; if g then Char A 41%N else ret false) ;;
          (if classic_for then ret tt
           else r <- call NRange_Expression ;; ok <- (if r then Char A 41%N else ret false) ;; unless ok "Incomplete 'for' expression") ;;;
          eat_eols ;;;
          b <- call NBlock ;; unless b "Incomplete 'for' block" ;;;
          n <- stack_size ;;
          let num_children := (n - prev)%nat in
          (if classic_for then unless (Nat.eqb num_children 4) "Incomplete 'for' expression" ;;; build_match KFor prev ""
           else unless (Nat.eqb num_children 3) "Incomplete ranged-for expression" ;;; build_match KRanged_For prev "") ;;;
          ret true
        else ret false).

    Definition Case_b : PM bool :=
      with_depth (
        prev <- stack_size ;;
        k <- Keyword A (kw "Case" 0) ;;
        if k then cond_block "case" ;;; build_match KCase prev "" ;;; ret true
        else
          d <- Keyword A (kw "Case" 1) ;;
          if d then
            eat_eols ;;;
            b <- call NBlock ;; unless b "Incomplete 'default' block" ;;;
            build_match KDefault prev "" ;;; ret true
          else ret false).

    Definition Switch_b : PM bool :=
      with_depth (
        prev <- stack_size ;;
        k <- Keyword A (kw "Switch" 0) ;;
        if k then
          c <- Char A 40%N ;; unless c "Incomplete 'switch' expression" ;;;
          o <- call (NOperator 0) ;;
          ok <- (if o then Char A 41%N else ret false) ;; unless ok "Incomplete 'switch' expression" ;;;
          eat_eols ;;;
          br <- Char A 123%N ;;
          (if br then
             eat_eols ;;;
             loop (fun _ : unit => cs <- call NCase ;; if cs then eat_eols ;;; ret (tt, true) else ret (tt, false)) tt ;;;
             eat_eols ;;;
             cl <- Char A 125%N ;; unless cl "Incomplete block"
           else throw_at "Incomplete block") ;;;
          build_match KSwitch prev "" ;;; ret true
        else ret false).

    Definition block_of (inner : PM bool) (reason : string) : PM bool :=
      with_depth (
        prev <- stack_size ;;
        c <- Char A 123%N ;;
        if c then
          inner ;;;
          cl <- Char A 125%N ;; unless cl reason ;;;
          n <- stack_size ;;
          (if Nat.eqb n prev then push noop_node else ret tt) ;;;
          build_match KBlock prev "" ;;; ret true
        else ret false).
    Definition Class_Block_b (class_name : string) : PM bool := block_of (call (NClass_Statements class_name)) "Incomplete class block".
    Definition Block_b : PM bool := block_of (call (NStatements false)) "Incomplete block".

    Definition Return_b : PM bool :=
      with_depth (
        prev <- stack_size ;;
        k <- Keyword A (kw "Return" 0) ;;
        if k then call (NOperator 0) ;;; build_match KReturn prev "" ;;; ret true else ret false).

    (* Quoted_String: the pushes between the scan and the final Constant *)
    Fixpoint qs_segments (prev : nat) (l c : Z) (segs : list (list N * list N)) (first : bool) : PM unit :=
      match segs with
      | [] => ret tt
      | (lit, ev) :: r =>
          n <- make_node KConstant (sob lit) l c (Some (true, CStr (sob lit))) ;; push n ;;;
          (if first then ret tt else build_match KBinary prev "+") ;;;
          tostr_top <- stack_size ;;
          n2 <- make_node KId "to_string" l c None ;; push n2 ;;;
          ev_top <- stack_size ;;
          catch_instr (call (NInstr ev)) l c ;;;
          build_match KArg_List ev_top "" ;;;
          build_match KFun_Call tostr_top "" ;;;
          build_match KBinary prev "+" ;;;
          qs_segments prev l c r false
      end.
    Definition qs_replay (q : qstring) : PM bool :=
      prev <- stack_size ;;
      qs_segments prev (qs_l q) (qs_c q) (qs_segs q) true ;;;
      match qs_final q with
      | QErr r el ec => throw_pos r el ec
      | QFin tail =>
          n <- make_node KConstant (sob tail) (qs_l q) (qs_c q) (Some (true, CStr (sob tail))) ;; push n ;;;
          (match qs_segs q with [] => ret tt | _ => build_match KBinary prev "+" end) ;;;
          ret true
      end.
    (* LexDefs.Quoted_String closes its Depth_Counter after the scan; the pushes (and parse_instr_eval) run under the same
       counter in the C++, hence the second with_depth at the same level *)
    Definition Quoted_String_g : PM bool :=
      q <- Quoted_String A ;;
      match q with Some q => with_depth (qs_replay q) | None => ret false end.

    (* the "work around for method calls": Fun_Call[Dot_Access[a, b], args] becomes Dot_Access[a, Fun_Call[b, args]] *)
    Definition method_call_fixup : PM unit :=
      st <- get_stack ;;
      match rev st with
      | PN fk ft fl ff fc (PN KDot_Access dt dl df dc dch :: frest) :: below =>
          match rev dch with
          | [] => throw_at "Incomplete dot access fun call"
          | dlast :: dinit_rev =>
              let func_call := PN fk ft fl ff fc (dlast :: frest) in
              let dch' := (rev dinit_rev ++ [func_call])%list in
              if Nat.eqb (List.length dch') 2 then set_stack (rev below ++ [PN KDot_Access dt dl df dc dch'])%list
              else throw_at "Incomplete dot access fun call"
          end
      | _ => ret tt
      end.

    Definition Dot_Fun_Array_b : PM bool :=
      with_depth (
        prev <- stack_size ;;
        first <- (a <- call NLambda ;; if a then ret true else
                  a <- Num_g ;; if a then ret true else
                  a <- Quoted_String_g ;; if a then ret true else
                  a <- Single_Quoted_String_g ;; if a then ret true else
                  a <- call NParen_Expression ;; if a then ret true else
                  a <- call NInline_Container ;; if a then ret true else
                  Id_g false) ;;
        if first then
          loop (fun _ : unit =>
                  c <- Char A 40%N ;;
                  if c then
                    call NArg_List ;;;
                    cl <- Char A 41%N ;; unless cl "Incomplete function call" ;;;
                    build_match KFun_Call prev "" ;;;
                    method_call_fixup ;;;
                    ret (tt, true)
                  else
                    b <- Char A 91%N ;;
                    if b then
                      o <- call (NOperator 0) ;;
                      ok <- (if o then Char A 93%N else ret false) ;; unless ok "Incomplete array access" ;;;
                      build_match KArray_Call prev "" ;;;
                      ret (tt, true)
                    else
                      d <- Symbol (bos ".") false ;;
                      if d then
                        i <- Id_g true ;; unless i "Incomplete dot access fun call" ;;;
                        n <- stack_size ;;
                        unless (Nat.eqb (n - prev)%nat 2) "Incomplete dot access fun call" ;;;
                        build_match KDot_Access prev "" ;;;
                        ret (tt, true)
                      else
                        e <- Eol A ;;
                        if e then
                          dec ;;;                       (* auto start = --m_position; *)
                          start <- get_pos ;;
                          eat_eols ;;;
                          d2 <- Symbol (bos ".") false ;;
                          if d2 then dec ;;; ret (tt, true)     (* --m_position; *)
                          else set_pos start ;;; ret (tt, false)
                        else ret (tt, false)) tt ;;;
          ret true
        else ret false).

    Definition Paren_Expression_b : PM bool :=
      with_depth (
        c <- Char A 40%N ;;
        if c then
          o <- call (NOperator 0) ;; unless o "Incomplete expression" ;;;
          cl <- Char A 41%N ;; unless cl "Missing closing parenthesis ')'" ;;;
          ret true
        else ret false).

    Definition Inline_Container_b : PM bool :=
      with_depth (
        prev <- stack_size ;;
        c <- Char A 91%N ;;
        if c then
          call NContainer_Arg_List ;;;
          cl <- Char A 93%N ;; unless cl "Missing closing square bracket ']' in container initializer" ;;;
          st <- get_stack ;;
          let k := if negb (Nat.eqb prev (List.length st)) then
                     match pn_children (last st noop_node) with
                     | c0 :: _ => if kind_eqb (pn_kind c0) KValue_Range then KInline_Range
                                  else if kind_eqb (pn_kind c0) KMap_Pair then KInline_Map else KInline_Array
                     | [] => KInline_Array
                     end
                   else KInline_Array in
          build_match k prev "" ;;; ret true
        else ret false).

    Fixpoint prefix_try (opers : list (list N)) (prev : nat) : PM bool :=
      match opers with
      | [] => ret false
      | o :: r =>
          m <- (match o with [c] => Char A c | _ => Symbol o false end) ;;
          if m then
            v <- call (NOperator (List.length (g_operators G) - 1)%nat) ;;
            unless v ("Incomplete prefix '" ++ sob o ++ "' expression") ;;;
            build_match KPrefix prev (sob o) ;;; ret true
          else prefix_try r prev
      end.
    Definition Prefix_b : PM bool := with_depth (prev <- stack_size ;; prefix_try (g_prefix G) prev).

    Definition Value_b : PM bool :=
      with_depth (
        v <- Var_Decl false "" ;;
        if v then ret true else
        d <- call NDot_Fun_Array ;;
        if d then ret true else call NPrefix).

    Definition op_action_of (op : op_prec) : op_action :=
      match find (fun e => op_prec_eqb (fst e) op) (g_actions G) with Some e => snd e | None => OA_Unreachable end.

    Definition Operator_b (prec : nat) : PM bool :=
      with_depth (
        prev <- stack_size ;;
        match nth_error (g_operators G) prec with
        | None => crash_with OOB_read            (* m_operators[t_precedence] outside the array *)
        | Some op =>
            if op_prec_eqb op Prefix then call NValue
            else
              r <- call (NOperator (S prec)) ;;
              if r then
                loop (fun _ : unit =>
                        oh <- Operator_Helper prec ;;
                        match oh with
                        | None => ret (tt, false)
                        | Some oper =>
                            let msg := "Incomplete '" ++ sob oper ++ "' expression" in
                            eat_eols ;;;
                            r2 <- call (NOperator (S prec)) ;; unless r2 msg ;;;
                            match op_action_of op with
                            | OA_Ternary =>
                                s <- Symbol (bos ":") false ;;
                                if s then r3 <- call (NOperator (S prec)) ;; unless r3 msg ;;; build_match KIf prev ""
                                else throw_at msg
                            | OA_Build k => build_match k prev (sob oper)
                            | OA_Unreachable => crash_with Terminate
                            end ;;;
                            ret (tt, true)
                        end) tt ;;;
                ret true
              else ret false
        end).

    (* Map_Pair / Value_Range: Operator, a separator symbol, Operator -- or everything is rolled back *)
    Definition pair_of (sep : list N) (k : kind) (reason : string) : PM bool :=
      with_depth (
        prev <- stack_size ;;
        prev_pos <- get_pos ;;
        o <- call (NOperator 0) ;;
        if o then
          s <- Symbol sep false ;;
          if s then
            o2 <- call (NOperator 0) ;; unless o2 reason ;;;
            build_match k prev "" ;;; ret true
          else
            set_pos prev_pos ;;;
            st <- get_stack ;; set_stack (firstn prev st) ;;;
            ret false
        else ret false).
    Definition Map_Pair_b : PM bool := pair_of (bos ":") KMap_Pair "Incomplete map pair".
    Definition Value_Range_b : PM bool := pair_of (bos "..") KValue_Range "Incomplete value range".

    Fixpoint equation_try (syms : list (list N)) (prev : nat) : PM bool :=
      match syms with
      | [] => ret true
      | sym :: r =>
          s <- Symbol sym true ;;
          if s then
            SkipWS A true ;;;
            e <- call NEquation ;; unless e "Incomplete equation" ;;;
            build_match KEquation prev (sob sym) ;;; ret true
          else equation_try r prev
      end.
    Definition Equation_b : PM bool :=
      with_depth (
        prev <- stack_size ;;
        o <- call (NOperator 0) ;;
        if o then equation_try (g_equation G) prev else ret false).

    (* loop variables: (retval, saw_eol) *)
    Definition Class_Statements_b (class_name : string) : PM bool :=
      with_depth (
        v <- loop (fun v : bool * bool =>
                     start <- get_pos ;;
                     d <- call (NDef true class_name) ;;
                     dv <- (if d then ret true else Var_Decl true class_name) ;;
                     if dv then
                       (if snd v then ret tt else throw_pos "Two function definitions missing line separator" (line start) (col start)) ;;;
                       ret ((true, true), true)
                     else
                       e <- Eol A ;;
                       if e then ret ((true, true), true) else ret (v, false)) (false, true) ;;
        ret (fst v)).

    Definition any_of (l : list (PM bool)) : PM bool :=
      fold_right (fun (m acc : PM bool) => b <- m ;; if b then ret true else acc) (ret false) l.

    Definition Statements_b (class_allowed : bool) : PM bool :=
      with_depth (
        v <- loop (fun v : bool * bool =>
                     start <- get_pos ;;
                     s1 <- any_of [call (NDef false ""); call NTry; call NIf; call NWhile; call (NClass class_allowed); call NFor; call NSwitch] ;;
                     if s1 then
                       (if snd v then ret tt else throw_pos "Two function definitions missing line separator" (line start) (col start)) ;;;
                       ret ((true, true), true)
                     else
                       s2 <- any_of [call NReturn; Break; Continue; call NEquation] ;;
                       if s2 then
                         (if snd v then ret tt else throw_pos "Two expressions missing line separator" (line start) (col start)) ;;;
                         ret ((true, false), true)
                       else
                         s3 <- any_of [call NBlock; Eol A] ;;
                         if s3 then ret ((true, true), true) else ret (v, false)) (false, true) ;;
        ret (fst v)).

    (* parse_internal after m_position / m_filename have been set *)
    Definition parse_internal_b : PM pnode :=
      p0 <- get_pos ;;
      (match buf p0 with
       | 35%N :: 33%N :: _ =>       (* "#!" *)
           loop (fun _ : unit =>
                   p <- get_pos ;;
                   if has_more p then e <- Eol A ;; if e then ret (tt, false) else inc ;;; ret (tt, true)
                   else ret (tt, false)) tt
       | _ => ret tt
       end) ;;;
      s <- call (NStatements true) ;;
      (if s then
         p <- get_pos ;;
         if has_more p then throw_at "Unparsed input" else build_match Ast.KFile 0 ""
       else
         SkipWS A true ;;;
         p <- get_pos ;;
         if has_more p then throw_at "Unparsed input" else push noop_node) ;;;
      st <- get_stack ;;
      match st with
      | n :: _ => ret n
      | [] => crash_with OOB_read       (* m_match_stack.front() of an empty vector *)
      end.

    (* m_match_stack.push_back(parse_instr_eval(text)): position, file name and match stack are saved and restored,
       the depth counter is shared *)
    Definition Instr_b (text : list N) : PM bool :=
      fun s =>
        match parse_internal_b (mkState (pos_begin text) (depth s) (mkPS [] instr_eval_name (ticks (user s)))) with
        | Ok (n, s') => Ok (true, mkState (pos s) (depth s') (mkPS (stk (user s) ++ [n])%list (fname (user s)) (ticks (user s'))))
        | Err r l c => Err r l c
        | Crash k => Crash k
        | OutOfFuel => OutOfFuel
        end.

    Definition body (nt : NT) : PM bool :=
      match nt with
      | NArg_List => Arg_List_b
      | NContainer_Arg_List => Container_Arg_List_b
      | NLambda => Lambda_b
      | NDef cc cn => Def_b cc cn
      | NTry => Try_b
      | NIf => If_b
      | NClass ca => Class_b ca
      | NWhile => While_b
      | NRange_Expression => Range_Expression_b
      | NFor_Guards => For_Guards_b
      | NFor => For_b
      | NCase => Case_b
      | NSwitch => Switch_b
      | NClass_Block cn => Class_Block_b cn
      | NBlock => Block_b
      | NReturn => Return_b
      | NDot_Fun_Array => Dot_Fun_Array_b
      | NParen_Expression => Paren_Expression_b
      | NInline_Container => Inline_Container_b
      | NPrefix => Prefix_b
      | NValue => Value_b
      | NOperator prec => Operator_b prec
      | NMap_Pair => Map_Pair_b
      | NValue_Range => Value_Range_b
      | NEquation => Equation_b
      | NClass_Statements cn => Class_Statements_b cn
      | NStatements ca => Statements_b ca
      | NInstr text => Instr_b text
      end.
  End Bodies.

  Fixpoint P (fuel : nat) (nt : NT) : PM bool :=
    match fuel with
    | O => fun _ => OutOfFuel
    | S f => fun s => body (P f) nt (tick s)
    end.

  (* call depth: at most one uncounted frame (parse_instr_eval + parse_internal) between two Depth_Counters *)
  Definition parse_fuel : nat := 2 * max_parse_depth + 8.

  (* ChaiScript_Parser::parse(t_input, t_fname): a fresh parser (depth 0, empty match stack) runs parse_internal *)
  Definition parse_full (bytes : list N) (file : string) : outcome (pnode * state pstate) :=
    parse_internal_b (P parse_fuel) (mkState (pos_begin bytes) 0 (mkPS [] file 0%N)).
  Definition parse (bytes : list N) (file : string) : outcome pnode :=
    match parse_full bytes file with
    | Ok (n, _) => Ok n
    | Err r l c => Err r l c
    | Crash k => Crash k
    | OutOfFuel => OutOfFuel
    end.
End Grammar.

(* ------------------------------------------------------------------ specification side: what "trivia only" means (C01_accounts).
   Written independently of the scanners: a six-state automaton over the bytes.  Trivia = spaces, tabs, line ends (LF or CR LF),
   `/* ... */` comments (an unterminated one runs to the end), `// ...` comments and `# ...` annotations up to the line end
   (a `#!` line is an annotation). *)
Inductive tstate := TS_normal | TS_cr | TS_slash | TS_line | TS_block | TS_block_star | TS_fail.
Definition tstep (st : tstate) (c : N) : tstate :=
  match st with
  | TS_normal => if (c =? 32)%N || (c =? 9)%N || (c =? 10)%N then TS_normal
                 else if (c =? 13)%N then TS_cr
                 else if (c =? 47)%N then TS_slash
                 else if (c =? 35)%N then TS_line
                 else TS_fail
  | TS_cr => if (c =? 10)%N then TS_normal else TS_fail
  | TS_slash => if (c =? 42)%N then TS_block else if (c =? 47)%N then TS_line else TS_fail
  | TS_line => if (c =? 10)%N then TS_normal else TS_line
  | TS_block => if (c =? 42)%N then TS_block_star else TS_block
  | TS_block_star => if (c =? 47)%N then TS_normal else if (c =? 42)%N then TS_block_star else TS_block
  | TS_fail => TS_fail
  end.
Definition taccept (st : tstate) : bool :=
  match st with TS_normal | TS_line | TS_block | TS_block_star => true | _ => false end.
Definition trivia_only (bytes : list N) : bool := taccept (fold_left tstep bytes TS_normal).
