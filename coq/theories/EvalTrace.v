(* C20, evaluator side — eval_error::call_stack: every node an eval_error unwinds through appends itself. *)
From Coq Require Import ZArith NArith List Bool String.
From ChaiV Require Import StrUtil NumDefs Ast EvalDefs Eval TrySpec.
Import ListNotations.

Section TRACE.
  Variable c : cfg.
  Variable ops : numops.
  Variable ev : ast -> M dloc.
  Variable k : nat.
  Notation R := (run ev k).

  Definition entry (n : ast) : trace_entry := TE (a_kind n) (a_loc n).

  (* AST_Node_Impl::eval: what the wrapper does with each outcome of the node's own semantics *)
  Lemma with_trace_spec n p s :
    R (with_trace n p) s =
      match R p s with
      | (RFail (FThrow (EEval r st)), s') => (RFail (FThrow (EEval r (app st [entry n]))), s')
      | x => x
      end.
  Proof.
    unfold with_trace, on_fail. cbn [run].
    destruct (R p s) as [[a|f|] s']; cbn [run]; try reflexivity.
    destruct f as [d| | |e|w]; try reflexivity.
    destruct e; reflexivity.
  Qed.

  Lemma with_trace_records n p s r st s' :
    R (with_trace n p) s = (RFail (FThrow (EEval r st)), s') ->
    exists st0, st = app st0 [entry n] /\ R p s = (RFail (FThrow (EEval r st0)), s').
  Proof.
    rewrite with_trace_spec. destruct (R p s) as [[a|f|] s0]; try discriminate.
    destruct f as [d| | |e|w]; try discriminate. destruct e as [d|r0 st0|ty w|w]; try discriminate.
    intros H. inversion H; subst. exists st0. split; reflexivity.
  Qed.

  Lemma with_trace_other n p s x s' :
    R (with_trace n p) s = (x, s') -> (forall r st, x <> RFail (FThrow (EEval r st))) -> R p s = (x, s').
  Proof.
    rewrite with_trace_spec. destruct (R p s) as [[a|f|] s0]; try (intros H _; exact H).
    destruct f as [d| | |e|w]; try (intros H _; exact H). destruct e as [d|r0 st0|ty w|w]; try (intros H _; exact H).
    intros H Hn. inversion H; subst. exfalso. eapply Hn. reflexivity.
  Qed.
End TRACE.

(* every eval_error that leaves the evaluation of node n carries n as its newest (outermost so far) entry:
   by induction the stack lists the nodes from the failing construct outwards, innermost first *)
Theorem eval_error_records_node c ops fuel n s r st s' :
  eval c ops fuel n s = (RFail (FThrow (EEval r st)), s') ->
  exists st0, st = app st0 [TE (a_kind n) (a_loc n)].
Proof.
  destruct fuel as [|f]; [discriminate|]. cbn [eval]. unfold node_prog. intros H.
  apply with_trace_records in H. destruct H as (st0 & -> & _). exists st0. reflexivity.
Qed.

(* an identifier that resolves to nothing: the error is born at the Id node, whose own position is the only entry *)
Theorem unresolved_id_points_at_itself ops fuel n s :
  a_kind n = KId ->
  run_prim (PFindLocal (a_text n)) s = (RVal None, s) ->
  assoc (s_globals s) (a_text n) = None -> assoc (s_funcs s) (a_text n) = None ->
  existsb (String.eqb (a_text n)) builtin_names = false ->
  existsb (String.eqb (a_text n)) unmodelled_names = false ->
  eval (mkcfg false) ops (S fuel) n s =
    (RFail (FThrow (EEval ("Can not find object: " ++ a_text n) [TE KId (a_loc n)])), s).
Proof.
  intros Hk Hl Hg Hf Hb Hu. cbn [eval]. unfold node_prog. rewrite with_trace_spec. rewrite Hk.
  unfold lookup_id. cbn [use_hints]. unfold lookup_by_name. cbn [use_hints].
  repeat (rewrite run_bind; cbn [run]).
  rewrite Hl. repeat (rewrite run_bind; cbn [run]).
  unfold lookup_nonlocal. repeat (rewrite run_bind; cbn [run run_prim]). rewrite Hg.
  repeat (rewrite run_bind; cbn [run run_prim]). rewrite Hf. rewrite Hb. rewrite Hu.
  unfold eval_error, throw, entry. cbn [run]. rewrite Hk. reflexivity.
Qed.
