(* C16 — what C++ says a literal denotes (ISO C++ [lex.icon], [lex.ccon], [lex.string], [lex.fcon]) on LP64,
   written without looking at how the ChaiScript parser goes about it.  Only the *type names*
   (ity: the six standard integer types, fk: float/double/long double) are shared with the model.
   ChaiScript's two documented deviations are part of this specification:
     - `\$` is an escape for '$' (strings interpolate `${...}`),
     - a `\x` escape takes at most two hex digits (the C++ rule "as many as follow" makes longer ones
       ill-formed for char anyway). *)
From Coq Require Import ZArith NArith List Bool String.
From ChaiV Require Import NumDefs LexDefs.
Import ListNotations.
Local Open Scope Z_scope.

(* ------------------------------------------------------------------ integer literals [lex.icon] *)
Inductive lsize := LNone | LLong | LLongLong.

(* integer-suffix: u-suffix and (l-suffix | ll-suffix) in either order; "lL"/"Ll" are not suffixes *)
Definition is_u (c : N) := (c =? 117)%N || (c =? 85)%N.
Definition is_l (c : N) := (c =? 108)%N || (c =? 76)%N.
Definition l_part (s : list N) : option lsize :=
  match s with
  | [] => Some LNone
  | [a] => if is_l a then Some LLong else None
  | [a; b] => if is_l a && (a =? b)%N then Some LLongLong else None     (* ll or LL, not lL *)
  | _ => None
  end.
Definition cxx_suffix (s : list N) : option (bool * lsize) :=
  match s with
  | [] => Some (false, LNone)
  | c :: r =>
      if is_u c then option_map (fun l => (true, l)) (l_part r)
      else match rev s with
           | d :: r' => if is_u d then option_map (fun l => (true, l)) (l_part (rev r'))
                        else option_map (fun l => (false, l)) (l_part s)
           | [] => None
           end
  end.

(* Table 8: the candidate types, in order *)
Definition type_sequence (decimal : bool) (u : bool) (l : lsize) : list ity :=
  match u, l with
  | false, LNone => if decimal then [IInt; ILong; ILLong] else [IInt; IUInt; ILong; IULong; ILLong; IULLong]
  | true, LNone => [IUInt; IULong; IULLong]
  | false, LLong => if decimal then [ILong; ILLong] else [ILong; IULong; ILLong; IULLong]
  | true, LLong => [IULong; IULLong]
  | false, LLongLong => if decimal then [ILLong] else [ILLong; IULLong]
  | true, LLongLong => [IULLong]
  end.
(* LP64: int 32 bits, long and long long 64 bits *)
Definition cxx_max (t : ity) : Z :=
  match t with
  | IInt => 2147483647 | IUInt => 4294967295
  | ILong | ILLong => 9223372036854775807
  | IULong | IULLong => 18446744073709551615
  end.
Definition first_fit (seq : list ity) (v : Z) : option ity := find (fun t => v <=? cxx_max t) seq.

Definition cxx_digit (base : Z) (c : N) : option Z :=
  let d := if (48 <=? c)%N && (c <=? 57)%N then Z.of_N c - 48
           else if (97 <=? c)%N && (c <=? 102)%N then Z.of_N c - 87
           else if (65 <=? c)%N && (c <=? 70)%N then Z.of_N c - 55
           else 99 in
  if d <? base then Some d else None.
Fixpoint digits_value (base : Z) (ds : list N) (acc : Z) : option Z :=
  match ds with
  | [] => Some acc
  | c :: r => match cxx_digit base c with Some d => digits_value base r (acc * base + d) | None => None end
  end.

Inductive int_meaning :=
| IntLit (t : ity) (v : Z)   (* well-formed; v in the first type of the sequence that can hold it *)
| IntTooBig                   (* well-formed spelling, no type of its sequence can represent the value *)
| IntIllFormed.               (* not an integer-literal *)
(* base, digit string, suffix -> meaning *)
Definition int_literal (base : Z) (ds sfx : list N) : int_meaning :=
  match ds, digits_value base ds 0, cxx_suffix sfx with
  | _ :: _, Some v, Some (u, l) =>
      match first_fit (type_sequence (base =? 10) u l) v with Some t => IntLit t v | None => IntTooBig end
  | _, _, _ => IntIllFormed
  end.
(* splitting a spelling: 0x / 0X hex, 0b / 0B binary, leading 0 octal (the 0 is a digit), else decimal *)
Fixpoint span_digits (base : Z) (s : list N) : list N * list N :=
  match s with
  | c :: r => match cxx_digit base c with
              | Some _ => let '(a, b) := span_digits base r in (c :: a, b)
              | None => ([], s)
              end
  | [] => ([], [])
  end.
Definition int_spelling (s : list N) : int_meaning :=
  let go base body := let '(ds, sfx) := span_digits base body in int_literal base ds sfx in
  match s with
  | 48%N :: 120%N :: r | 48%N :: 88%N :: r => go 16 r
  | 48%N :: 98%N :: r | 48%N :: 66%N :: r => go 2 r
  | 48%N :: _ => go 8 s
  | _ => go 10 s
  end.

(* ------------------------------------------------------------------ floating literals [lex.fcon]: the suffix picks the type *)
Definition float_suffix_type (sfx : list N) : option fk :=
  match sfx with
  | [] => Some F64
  | [102%N] | [70%N] => Some F32
  | [108%N] | [76%N] => Some F80
  | _ => None
  end.

(* ------------------------------------------------------------------ escape sequences [lex.ccon] *)
Definition is_oct (c : N) : bool := (48 <=? c)%N && (c <=? 55)%N.
Definition is_hexd (c : N) : bool := match cxx_digit 16 c with Some _ => true | None => false end.
Definition simple_esc (c : N) : option N :=
  match c with
  | 39 => Some 39 | 34 => Some 34 | 63 => Some 63 | 92 => Some 92       (* quote, double quote, question mark, backslash *)
  | 97 => Some 7 | 98 => Some 8 | 102 => Some 12 | 110 => Some 10       (* \a \b \f \n *)
  | 114 => Some 13 | 116 => Some 9 | 118 => Some 11                      (* \r \t \v *)
  | 36 => Some 36                                                       (* ChaiScript: \$ *)
  | _ => None
  end%N.
(* at most n leading bytes satisfying p *)
Fixpoint span_upto (n : nat) (p : N -> bool) (s : list N) : list N * list N :=
  match n, s with
  | S k, c :: r => if p c then let '(a, b) := span_upto k p r in (c :: a, b) else ([], s)
  | _, _ => ([], s)
  end.
Definition num_value (base : Z) (ds : list N) : Z := match digits_value base ds 0 with Some v => v | None => 0 end.

(* UTF-8 encoding of a Unicode scalar value *)
Definition utf8_enc (cp : Z) : list N :=
  let b x := Z.to_N x in
  if cp <? 128 then [b cp]
  else if cp <? 2048 then [b (192 + cp / 64); b (128 + cp mod 64)]
  else if cp <? 65536 then [b (224 + cp / 4096); b (128 + (cp / 64) mod 64); b (128 + cp mod 64)]
  else [b (240 + cp / 262144); b (128 + (cp / 4096) mod 64); b (128 + (cp / 64) mod 64); b (128 + cp mod 64)].
Definition scalar_value (cp : Z) : bool := (cp <=? 1114111) && negb ((55296 <=? cp) && (cp <=? 57343)).

(* None = the literal is ill-formed *)
Fixpoint decode_f (fuel : nat) (s : list N) : option (list N) :=
  match fuel with
  | O => None
  | S f =>
      let cons_all (bs : list N) (rest : list N) := option_map (app bs) (decode_f f rest) in
      match s with
      | [] => Some []
      | 92%N :: [] => None
      | 92%N :: c :: r =>
          if is_oct c then
            let '(ds, rest) := span_upto 3 is_oct (c :: r) in
            let v := num_value 8 ds in
            if v <=? 255 then cons_all [Z.to_N v] rest else None
          else if (c =? 120)%N then
            let '(ds, rest) := span_upto 2 is_hexd r in
            match ds with [] => None | _ => cons_all [Z.to_N (num_value 16 ds)] rest end
          else if (c =? 117)%N || (c =? 85)%N then
            let n := if (c =? 117)%N then 4%nat else 8%nat in
            let '(ds, rest) := span_upto n is_hexd r in
            if Nat.eqb (List.length ds) n && scalar_value (num_value 16 ds) then cons_all (utf8_enc (num_value 16 ds)) rest else None
          else match simple_esc c with
               | Some b => cons_all [b] r
               | None => None
               end
      | c :: r => cons_all [c] r
      end
  end.
Definition decode (s : list N) : option (list N) := decode_f (S (List.length s)) s.

(* character literal: exactly one char *)
Definition char_literal (s : list N) : option N :=
  match decode s with Some [c] => Some c | _ => None end.

(* the bytes that can stand between two quote characters q: no unescaped q, no trailing lone backslash *)
Fixpoint closed_content (q : N) (s : list N) : bool :=
  match s with
  | [] => true
  | 92%N :: [] => false
  | 92%N :: _ :: r => closed_content q r
  | c :: r => negb (c =? q)%N && closed_content q r
  end.
(* an unescaped `$` directly followed by `{` starts an interpolation: such strings are not plain literals *)
Fixpoint has_marker_f (fuel : nat) (s : list N) : bool :=
  match fuel with
  | O => false
  | S f =>
      match s with
      | [] => false
      | 92%N :: [] => false
      | 92%N :: c :: r =>
          if is_oct c then has_marker_f f (snd (span_upto 3 is_oct (c :: r)))
          else if (c =? 120)%N then has_marker_f f (snd (span_upto 2 is_hexd r))
          else if (c =? 117)%N then has_marker_f f (snd (span_upto 4 is_hexd r))
          else if (c =? 85)%N then has_marker_f f (snd (span_upto 8 is_hexd r))
          else has_marker_f f r
      | 36%N :: 123%N :: _ => true
      | _ :: r => has_marker_f f r
      end
  end.
Definition has_marker (s : list N) : bool := has_marker_f (S (List.length s)) s.

(* ------------------------------------------------------------------ ChaiScript's word literals and reserved words *)
Definition kw_spelling (k : kwcase) : list N :=
  bytes_of_string (match k with
                   | KW_true => "true" | KW_false => "false" | KW_Infinity => "Infinity" | KW_NaN => "NaN"
                   | KW_LINE => "__LINE__" | KW_FILE => "__FILE__" | KW_FUNC => "__FUNC__" | KW_CLASS => "__CLASS__"
                   | KW_placeholder => "_"
                   end)%string.
(* names that may not be declared: keywords, the word literals, the placeholder *)
Definition reserved_words : list (list N) :=
  map bytes_of_string
      ["def"; "fun"; "while"; "for"; "if"; "else"; "&&"; "||"; ","; "auto"; "return"; "break"; "true"; "false"; "class"; "attr"; "var";
       "global"; "GLOBAL"; "_"; "__LINE__"; "__FILE__"; "__FUNC__"; "__CLASS__"]%string.
(* the textual interpolation marker `${` *)
Fixpoint has_dollar_brace (s : list N) : bool :=
  match s with
  | [] => false
  | c :: r => ((c =? 36)%N && match r with d :: _ => (d =? 123)%N | [] => false end) || has_dollar_brace r
  end.

(* how base, prefix and first digit go together in a well-formed integer-literal *)
Definition int_prefix_ok (base : Z) (pre ds : list N) : Prop :=
  (base = 16 /\ (pre = [48; 120]%N \/ pre = [48; 88]%N))
  \/ (base = 2 /\ (pre = [48; 98]%N \/ pre = [48; 66]%N))
  \/ (base = 8 /\ pre = [] /\ hd 0%N ds = 48%N)
  \/ (base = 10 /\ pre = [] /\ hd 0%N ds <> 48%N).
