(* C05 — executable *specification* (independent of the regenerated tables) and I/O helpers:
   one case per line in, one canonical observation per line out (same format as harness/h_num.cpp). *)
From Coq Require Import ZArith NArith List Bool String Ascii Floats.SpecFloat.
From ChaiV Require Import StrUtil NumDefs.
Import ListNotations.
Local Open Scope string_scope.
Local Open Scope Z_scope.

Definition cls (t : nty) : string :=
  match t with
  | TI w s => (if s then "i" else "u") ++ dec_of_z w
  | TF F32 => "f32" | TF F64 => "f64" | TF F80 => "f80"
  | TBool => "bool"
  end.

Definition fbits_total k : nat := match k with F32 => 8%nat | F64 => 16%nat | F80 => 20%nat end.
Definition fexp_bits k : Z := match k with F32 => 8 | F64 => 11 | F80 => 15 end.

Definition bits_of_float (k : fk) (f : spec_float) : string :=
  let p := fprec k in let emax := femax k in
  let ebits := fexp_bits k in
  let mbits := match k with F80 => 64 | _ => p - 1 end in
  let pack (s : bool) (E m : Z) := hex_fixed (fbits_total k) (Z.to_N ((if s then 2 ^ (ebits + mbits) else 0) + E * 2 ^ mbits + m)) "" in
  match f with
  | S754_nan => "nan"
  | S754_zero s => pack s 0 0
  | S754_infinity s => pack s (2 ^ ebits - 1) (match k with F80 => 2 ^ 63 | _ => 0 end)
  | S754_finite s m e =>
      let mz := Z.pos m in
      if Z.log2 mz + 1 =? p then pack s (e + emax + p - 2) (match k with F80 => mz | _ => mz - 2 ^ (p - 1) end)
      else pack s 0 mz
  end.

Definition float_of_bits (k : fk) (s : string) : option spec_float :=
  if String.eqb s "nan" then Some S754_nan else
  match N_of_hex s with
  | None => None
  | Some n =>
      let z := Z.of_N n in
      let p := fprec k in let emax := femax k in
      let ebits := fexp_bits k in
      let mbits := match k with F80 => 64 | _ => p - 1 end in
      let sign := Z.odd (z / 2 ^ (ebits + mbits)) in
      let E := (z / 2 ^ mbits) mod 2 ^ ebits in
      let m := z mod 2 ^ mbits in
      let emin := 3 - emax - p in
      if E =? 2 ^ ebits - 1 then
        (if (match k with F80 => m mod 2 ^ 63 | _ => m end) =? 0 then Some (S754_infinity sign) else Some S754_nan)
      else if E =? 0 then
        (match m with Zpos mp => Some (S754_finite sign mp emin) | _ => Some (S754_zero sign) end)
      else
        let mant := match k with F80 => m | _ => m + 2 ^ (p - 1) end in
        match mant with Zpos mp => Some (S754_finite sign mp (E - emax - p + 2)) | _ => None end
  end.

Definition show_val (t : nty) (v : nval) : string :=
  match t, v with
  | TF k, VF f => cls t ++ ":" ++ bits_of_float k f
  | _, VI z => cls t ++ ":" ++ dec_of_z z
  | _, _ => "?"
  end.

Definition parse_ty (s : string) : option (nty * bool (* const *)) :=
  if String.eqb s "cint" then Some (TI 32 true, true)
  else if String.eqb s "cdouble" then Some (TF F64, true)
  else match cxx_type_info s with Some t => Some (t, false) | None => None end.

Definition parse_val (t : nty) (s : string) : option nval :=
  match t with
  | TF k => option_map VF (float_of_bits k s)
  | _ => option_map VI (z_of_dec s)
  end.

Definition show_outcome (o : outcome) (inplace : bool) : string :=
  match o with
  | Val t v => show_val t v ++ (if inplace then " same" else "")
  | ArithErr => "ERR(arith)"
  | UB => "UB"
  | Trap => "TRAP"
  | Reject => "ERR(reject)"
  end.

(* the specification side: the operator *text* alone decides which C++ operator is meant *)
Definition all_cbin := [CEq; CLt; CGt; CLe; CGe; CNe; CAdd; CSub; CMul; CDiv; CRem; CShl; CShr; CAnd; COr; CXor].
Definition spec_action_of_text (text : string) : option action :=
  match find (fun c => String.eqb (cbin_text c) text) all_cbin with
  | Some c => Some (ABin c)
  | None => if String.eqb text "=" then Some (AAsg None)
            else match find (fun c => String.eqb (cbin_text c ++ "=") text) [CAdd; CSub; CMul; CDiv; CRem; CShl; CShr; CAnd; COr; CXor] with
                 | Some c => Some (AAsg (Some c))
                 | None => None
                 end
  end.
Definition spec_unary_of_text (text : string) : option cun :=
  find (fun u => String.eqb (cun_text u) text) [UNeg; UPlus; UCompl; UInc; UDec].
Definition spec_unary (u : cun) (m : bool) (t : nty) (v : nval) : outcome * nval :=
  if (match u with UCompl => true | _ => false end) && is_float t then (Reject, v)
  else if (match u with UInc | UDec => true | _ => false end) && negb m then (Reject, v)
  else cun_eval u t v.


Definition spec_line (line : string) : string :=
  let w := words line in
  let text := nth_word 1 w in
  match parse_ty (nth_word 2 w) with
  | None => "BADCASE"
  | Some (t1, c1) =>
      match parse_val t1 (nth_word 3 w) with
      | None => "BADCASE"
      | Some v1 =>
          if String.eqb (nth_word 4 w) "-" then
            match spec_unary_of_text text with
            | None => "NOSPEC"
            | Some u =>
                let '(o, v') := spec_unary u (negb c1) t1 v1 in
                show_outcome o (match u with UInc | UDec => true | _ => false end) ++ " | a=" ++ show_val t1 v'
            end
          else
            match parse_ty (nth_word 4 w) with
            | None => "BADCASE"
            | Some (t2, _) =>
                match parse_val t2 (nth_word 5 w) with
                | None => "BADCASE"
                | Some v2 =>
                    match spec_action_of_text text with
                    | None => "NOSPEC"
                    | Some a =>
                        let '(o, v') := spec_row a (negb c1) t1 v1 t2 v2 in
                        show_outcome o (act_inplace a) ++ " | a=" ++ show_val t1 v'
                    end
                end
            end
      end
  end.
