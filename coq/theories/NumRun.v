(* C05 — executable mechanism model: interprets the tables regenerated from the source. *)
From Coq Require Import ZArith NArith List Bool String Ascii Floats.SpecFloat.
From ChaiV Require Import StrUtil NumDefs NumSpecRun.
From ChaiV.Gen Require Import G_NumTables.
Import ListNotations.
Local Open Scope string_scope.
Local Open Scope Z_scope.

(* which opcode a route reaches for an operator text (see Binary_Operator / Fold_Right / Equation /
   Prefix nodes and Constant_Fold: all use Operators::to_operator; `invalid` falls back to dispatch) *)
Definition pod_lookup (text : string) (arity : nat) : option opcode :=
  match find (fun e => let '(n, _, o, ar) := e in String.eqb n text && Nat.eqb ar arity) pod_table with
  | Some (_, _, o, _) => Some o
  | None => None
  end.
Definition route_opcode (route text : string) (arity : nat) : option opcode :=
  if String.eqb route "fn" || String.eqb route "fnu" then pod_lookup text arity
  else match to_operator to_operator_table text (Nat.eqb arity 1) with
       | invalid => pod_lookup text arity
       | o => Some o
       end.

Definition is_inplace_op (op : opcode) : bool :=
  match expected_action op, expected_unary op with
  | Some (AAsg _), _ => true
  | _, Some UInc | _, Some UDec => true
  | _, _ => false
  end.

Definition run_line (line : string) : string :=
  let w := words line in
  let route := nth_word 0 w in
  let text := nth_word 1 w in
  match parse_ty (nth_word 2 w) with
  | None => "BADCASE"
  | Some (t1, c1) =>
      match parse_val t1 (nth_word 3 w) with
      | None => "BADCASE"
      | Some v1 =>
          let unary := String.eqb (nth_word 4 w) "-" in
          if unary then
            (match route_opcode route text 1 with
             | None => "ERR(reject)"
             | Some op =>
                 let '(o, v') := interp_unary unary_table op (negb c1) t1 v1 in
                 show_outcome o (is_inplace_op op) ++ " | a=" ++ show_val t1 v'
             end)
          else
            match parse_ty (nth_word 4 w) with
            | None => "BADCASE"
            | Some (t2, _) =>
                match parse_val t2 (nth_word 5 w) with
                | None => "BADCASE"
                | Some v2 =>
                    (match route_opcode route text 2 with
                     | None => "ERR(reject)"
                     | Some op =>
                         let '(o, v') := interp_go go_table op (negb c1) t1 v1 t2 v2 in
                         show_outcome o (is_inplace_op op) ++ " | a=" ++ show_val t1 v'
                     end)
                end
            end
      end
  end.
