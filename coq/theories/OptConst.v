(* The optimizer model never puts a mutable value into the tree: every Constant node it creates is
   const, and it keeps const what was const (C08; the fold sites are Constant_Fold's). *)
From Coq Require Import ZArith NArith List Bool String Lia.
From ChaiV Require Import StrUtil NumDefs NumSpecRun Ast EvalDefs Eval Optimizer.
Import ListNotations.

Fixpoint consts_const (a : ast) : bool :=
  let 'Node k cls text l c ch := a in
  (match k, c with KConstant, Some (isc, _) => isc | _, _ => true end)
  && (fix all (l : list ast) : bool := match l with [] => true | x :: r => consts_const x && all r end) ch.

Definition all_const (l : list ast) : bool := forallb consts_const l.

Lemma all_fix_eq ch :
  (fix all (l : list ast) : bool := match l with [] => true | x :: r => consts_const x && all r end) ch = all_const ch.
Proof. induction ch as [|x r IH]; [reflexivity|]. unfold all_const in *. cbn [forallb]. rewrite <- IH. reflexivity. Qed.

Lemma consts_const_unfold k cls text l c ch :
  consts_const (Node k cls text l c ch) =
  (match k, c with KConstant, Some (isc, _) => isc | _, _ => true end) && all_const ch.
Proof. rewrite <- all_fix_eq. reflexivity. Qed.

Lemma all_const_app a b : all_const (a ++ b) = all_const a && all_const b.
Proof. unfold all_const. apply forallb_app. Qed.

Lemma all_const_In l x : all_const l = true -> In x l -> consts_const x = true.
Proof. unfold all_const. rewrite forallb_forall. auto. Qed.

Lemma node_children_const a : consts_const a = true -> all_const (a_children a) = true.
Proof. destruct a as [k cls text l c ch]. rewrite consts_const_unfold. intros H. apply andb_prop in H. tauto. Qed.

Lemma non_constant_node k cls text l c ch :
  k <> KConstant -> consts_const (Node k cls text l c ch) = all_const ch.
Proof. intros H. rewrite consts_const_unfold. destruct k; try reflexivity. contradiction. Qed.

Section PASSES.
  Variable ops : numops.
  Variable fc : bool.

  (* close goals whose residual pattern-matching tree returns the unchanged node in every branch *)
  Ltac fin H := try exact H; repeat (match goal with |- context [match ?x with _ => _ end] => destruct x end; try exact H).

  Lemma partial_fold_const n : consts_const n = true -> consts_const (pass_partial_fold ops n) = true.
  Proof.
    intros H. unfold pass_partial_fold.
    destruct n as [k cls text l c ch]. destruct k; try exact H.
    destruct ch as [|a [|b [|x r]]]; try exact H.
    destruct (negb (is_constant a) && is_constant b); [|exact H].
    destruct (const_num b) as [[[tn t] v]|]; [|exact H].
    destruct (n_bin ops text false t v t v); [|exact H].
    rewrite consts_const_unfold in *; try exact H.
  Qed.

  Lemma to_unused_const a : consts_const (to_unused a) = consts_const a.
  Proof. destruct a as [k cls text l c ch]. destruct k; reflexivity. Qed.

  Lemma map_to_unused_const l : all_const (map to_unused l) = all_const l.
  Proof. induction l as [|x r IH]; [reflexivity|]. cbn. rewrite to_unused_const. unfold all_const in IH. rewrite IH. reflexivity. Qed.

  Lemma map_but_last_const l : all_const (map_but_last to_unused l) = all_const l.
  Proof.
    induction l as [|x [|y r] IH]; try reflexivity.
    change (map_but_last to_unused (x :: y :: r)) with (to_unused x :: map_but_last to_unused (y :: r)).
    cbn [all_const forallb]. rewrite to_unused_const. unfold all_const in IH. rewrite IH. reflexivity.
  Qed.

  Lemma unused_return_const n : consts_const n = true -> consts_const (pass_unused_return n) = true.
  Proof.
    intros H. unfold pass_unused_return. destruct n as [k cls text l c ch]. destruct k; try exact H.
    - (* Block *) destruct ch; [exact H|]. cbn [a_kind]. rewrite non_constant_node in * by discriminate. rewrite map_but_last_const. exact H.
    - (* Scopeless_Block *) destruct ch; [exact H|]. cbn [a_kind]. rewrite non_constant_node in * by discriminate. rewrite map_but_last_const. exact H.
    - (* While *)
      destruct (rev ch) as [|body front] eqn:E; [exact H|].
      assert (Hch : ch = rev front ++ [body]) by (rewrite <- (rev_involutive ch), E; reflexivity).
      rewrite non_constant_node in H by discriminate. rewrite Hch, all_const_app in H. apply andb_prop in H. destruct H as [Hf Hb].
      cbn [all_const forallb] in Hb. rewrite andb_true_r in Hb.
      destruct body as [bk bc bt bl bkc bch]. destruct bk; try (rewrite non_constant_node by discriminate; rewrite Hch, all_const_app, Hf; cbn [all_const forallb]; rewrite Hb; reflexivity);
        cbn [a_kind]; rewrite non_constant_node by discriminate; cbn [rev]; rewrite all_const_app, Hf; cbn [all_const forallb];
        rewrite non_constant_node in * by discriminate; rewrite map_to_unused_const, Hb; reflexivity.
    - (* For *)
      destruct (rev ch) as [|body front] eqn:E; [exact H|].
      assert (Hch : ch = rev front ++ [body]) by (rewrite <- (rev_involutive ch), E; reflexivity).
      rewrite non_constant_node in H by discriminate. rewrite Hch, all_const_app in H. apply andb_prop in H. destruct H as [Hf Hb].
      cbn [all_const forallb] in Hb. rewrite andb_true_r in Hb.
      destruct body as [bk bc bt bl bkc bch]. destruct bk; try (rewrite non_constant_node by discriminate; rewrite Hch, all_const_app, Hf; cbn [all_const forallb]; rewrite Hb; reflexivity);
        cbn [a_kind]; rewrite non_constant_node by discriminate; cbn [rev]; rewrite all_const_app, Hf; cbn [all_const forallb];
        rewrite non_constant_node in * by discriminate; rewrite map_to_unused_const, Hb; reflexivity.
  Qed.

  Lemma folded_const text l t v : consts_const (folded text l t v) = true.
  Proof. unfold folded. destruct t; try reflexivity. destruct v; reflexivity. Qed.

  Lemma constant_fold_const n : consts_const n = true -> consts_const (pass_constant_fold ops fc n) = true.
  Proof.
    intros H. unfold pass_constant_fold. destruct n as [k cls text l c ch]. destruct k; try exact H.
    - (* Fun_Call *)
      destruct ch as [|f [|al [|x r]]]; try exact H.
      2: { destruct al as [ak ? ? ? ? ach0]; destruct ak; try exact H. destruct ach0 as [|? [|? ?]]; exact H. }
      destruct al as [ak ac at' al' akc ach]. destruct ak; try exact H.
      destruct ach as [|arg [|y r]]; try exact H.
      destruct (negb fc); [exact H|].
      destruct (a_kind f); try exact H. destruct (const_num arg) as [[[tn t] v]|]; [|exact H].
      destruct (conversion_target (a_text f)) as [[tn' tgt]|]; [|exact H]. destruct (convert t v tgt); [reflexivity|exact H].
    - (* Prefix *)
      destruct ch as [|a [|x r]]; try exact H. destruct (const_num a) as [[[tn t] v]|]; [|exact H].
      destruct (String.eqb text "&"); [exact H|]. destruct (n_un ops text false t v) as [[[] ?]|]; try exact H. apply folded_const.
    - (* Logical_And *)
      destruct ch as [|a [|b [|x r]]]; try exact H. destruct (const_bool a); [|exact H]. destruct (const_bool b); [reflexivity|exact H].
    - (* Logical_Or *)
      destruct ch as [|a [|b [|x r]]]; try exact H. destruct (const_bool a); [|exact H]. destruct (const_bool b); [reflexivity|exact H].
    - (* Binary *)
      destruct ch as [|a [|b [|x r]]]; try exact H. destruct (const_num a) as [[[tn1 t1] v1]|]; [|exact H].
      destruct (const_num b) as [[[tn2 t2] v2]|]; [|exact H]. destruct (n_bin ops text false t1 v1 t2 v2) as [[[] ?]|]; try exact H. apply folded_const.
  Qed.

  Lemma if_const n : consts_const n = true -> consts_const (pass_if n) = true.
  Proof.
    intros H. unfold pass_if. destruct n as [k cls text l c ch]. destruct k; try exact H.
    destruct ch as [|cnd [|th rest]]; try exact H.
    rewrite non_constant_node in H by discriminate. cbn [all_const forallb] in H.
    apply andb_prop in H. destruct H as [Hc H]. apply andb_prop in H. destruct H as [Ht Hr].
    destruct (const_bool cnd) as [[|]|].
    - exact Ht.
    - destruct rest as [|el [|x r]]; try (rewrite non_constant_node by discriminate; cbn [all_const forallb]; rewrite Hc, Ht; exact Hr).
      cbn [forallb] in Hr. rewrite andb_true_r in Hr. exact Hr.
    - rewrite non_constant_node by discriminate. cbn [all_const forallb]. rewrite Hc, Ht. exact Hr.
  Qed.

  Lemma return_const n : pass_return n = n.
  Proof. unfold pass_return. destruct (a_kind n); try reflexivity; destruct (rev (seen_children n)) as [|[[] ? ? ? ? ?] ?]; reflexivity. Qed.

  Lemma keepers_const l : all_const l = true -> all_const (keepers l) = true.
  Proof.
    induction l as [|x [|y r] IH]; intros H; try exact H.
    change (keepers (x :: y :: r)) with (if kind_eqb (a_kind x) KConstant || kind_eqb (a_kind x) KNoop then keepers (y :: r) else x :: keepers (y :: r)).
    cbn [all_const forallb] in H. apply andb_prop in H. destruct H as [Hx Hr].
    destruct (kind_eqb (a_kind x) KConstant || kind_eqb (a_kind x) KNoop).
    - apply IH. exact Hr.
    - cbn [all_const forallb]. rewrite Hx. apply IH. exact Hr.
  Qed.

  Lemma dead_code_const n : consts_const n = true -> consts_const (pass_dead_code n) = true.
  Proof.
    intros H. unfold pass_dead_code. destruct n as [k cls text l c ch]. destruct k; try exact H.
    destruct (Nat.eqb (List.length (keepers ch)) (List.length ch)); [exact H|].
    rewrite non_constant_node in * by discriminate. apply keepers_const. exact H.
  Qed.

  Lemma block_const n : consts_const n = true -> consts_const (pass_block n) = true.
  Proof.
    intros H. unfold pass_block. destruct n as [k cls text l c ch]. destruct k; try exact H.
    destruct (contains_var_decl_in_scope _ _); [exact H|].
    rewrite non_constant_node in H by discriminate.
    destruct ch as [|x [|y r]].
    - rewrite non_constant_node by discriminate. exact H.
    - cbn [all_const forallb] in H. rewrite andb_true_r in H. exact H.
    - rewrite non_constant_node by discriminate. exact H.
  Qed.

  Lemma for_loop_const n : consts_const n = true -> consts_const (pass_for_loop n) = true.
  Proof.
    intros H. unfold pass_for_loop. destruct n as [k cls text l c ch]. destruct k; try exact H.
    destruct ch as [|eq [|bin [|pre [|body [|x r]]]]]; try exact H.
    destruct (through_compiled eq) as [[] ? ? ? ? [|? [|? [|? ?]]]]; try exact H.
    destruct (through_compiled bin) as [[] ? bt ? ? [|? [|? [|? ?]]]]; try exact H.
    destruct (through_compiled pre) as [[] ? pt ? ? [|? [|? ?]]]; try exact H.
    match goal with |- context [if ?b then _ else _] => destruct b end; [|exact H].
    rewrite non_constant_node in H by discriminate. cbn [all_const forallb] in H.
    apply andb_prop in H. destruct H as [H1 H]. apply andb_prop in H. destruct H as [H2 H]. apply andb_prop in H. destruct H as [H3 H].
    rewrite non_constant_node by discriminate. cbn [all_const forallb]. rewrite non_constant_node by discriminate.
    cbn [all_const forallb]. rewrite H1, H2, H3. exact H.
  Qed.

  Lemma assign_decl_const n : consts_const n = true -> consts_const (pass_assign_decl n) = true.
  Proof.
    intros H. unfold pass_assign_decl. destruct n as [k cls text l c ch]. destruct k; try exact H.
    destruct ch as [|c1 rest]; try exact H. destruct c1 as [k1 ? ? ? ? vch]. destruct k1; try exact H.
    destruct vch as [|id vr]; try exact H. destruct rest as [|rhs [|x r]]; try exact H.
    destruct (String.eqb text "="); [|exact H].
    rewrite non_constant_node in H by discriminate. cbn [all_const forallb] in H.
    apply andb_prop in H. destruct H as [Hv Hr]. rewrite non_constant_node in Hv by discriminate.
    cbn [all_const forallb] in Hv. apply andb_prop in Hv. destruct Hv as [Hid _].
    rewrite non_constant_node by discriminate. cbn [all_const forallb]. rewrite Hid. exact Hr.
  Qed.

  Lemma pass_by_name_const name n : consts_const n = true -> consts_const (pass_by_name ops fc name n) = true.
  Proof.
    intros H. unfold pass_by_name.
    repeat match goal with |- context [if ?b then _ else _] => destruct b end;
      auto using partial_fold_const, unused_return_const, constant_fold_const, if_const, dead_code_const, block_const, for_loop_const, assign_decl_const.
    rewrite return_const. exact H.
  Qed.

  Variable order : list string.

  Lemma optimize_node_const n : consts_const n = true -> consts_const (optimize_node ops fc order n) = true.
  Proof.
    unfold optimize_node. revert n. induction order as [|p r IH]; intros n H; [exact H|].
    cbn [fold_left]. apply IH. apply pass_by_name_const. exact H.
  Qed.
End PASSES.

Lemma ast_ind' (P : ast -> Prop) :
  (forall k cls text l c ch, Forall P ch -> P (Node k cls text l c ch)) -> forall a, P a.
Proof.
  intros H. fix IH 1. intros [k cls text l c ch]. apply H.
  induction ch as [|x r IHr]; constructor; [apply IH|apply IHr].
Qed.

Lemma dot_children_const k ch ch0 : all_const ch0 = true -> all_const (dot_children k ch ch0) = true.
Proof.
  intros H. unfold dot_children. destruct k; try exact H.
  destruct ch as [|rl [|rr [|z zs]]]; try exact H.
  destruct ch0 as [|ol [|[rk rcls rtext rloc rc rch] [|z zs]]]; try exact H.
  destruct ((kind_eqb rk KFun_Call || kind_eqb rk KArray_Call) && _ && _); [|exact H].
  unfold all_const in *. cbn [forallb] in *. rewrite consts_const_unfold in *. exact H.
Qed.

Theorem optimize_tree_const ops fc order : forall n, consts_const n = true -> consts_const (optimize_tree ops fc order n) = true.
Proof.
  induction n as [k cls text l c ch IH] using ast_ind'. intros H.
  assert (Hch : all_const (map (optimize_tree ops fc order) ch) = true).
  { rewrite consts_const_unfold in H. apply andb_prop in H. destruct H as [_ Hc].
    unfold all_const in *. rewrite forallb_forall in Hc. apply forallb_forall. intros y Hy.
    apply in_map_iff in Hy. destruct Hy as (x & <- & Hx). rewrite Forall_forall in IH. apply IH; auto. }
  assert (Hnode : forall l' chs, all_const chs = true -> consts_const (optimize_node ops fc order (Node k cls text l' c chs)) = true).
  { intros l' chs Hc. apply optimize_node_const. rewrite consts_const_unfold in *. apply andb_prop in H. destruct H as [Hf _]. rewrite Hf, Hc. reflexivity. }
  cbn [optimize_tree].
  destruct ch as [|x r].
  - destruct k; try (apply Hnode; apply dot_children_const; exact Hch); exact H.
  - apply Hnode. apply dot_children_const. exact Hch.
Qed.
