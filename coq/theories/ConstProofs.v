(* C07 — proofs about the const model (ConstDefs): stated for arbitrary rule sets satisfying the computable conditions
   rules_ok / crules_ok / r_null_when_const; ConstTheorems.v checks those on the regenerated tables. *)
From Coq Require Import String ZArith List Bool Arith Lia.
From ChaiV Require Import DispatchDefs DispatchProofs ConstDefs.
Import ListNotations.

(* ---------------------------------------------------------------------------------------------- *)
(** * list plumbing *)
Lemma nth_error_set_nth_same : forall A (l : list A) n v x, nth_error l n = Some x -> nth_error (set_nth l n v) n = Some v.
Proof. induction l; destruct n; cbn; intros; try discriminate; auto. eapply IHl; eauto. Qed.
Lemma nth_error_set_nth_other : forall A (l : list A) n m v, n <> m -> nth_error (set_nth l n v) m = nth_error l m.
Proof. induction l; destruct n, m; cbn; intros; auto; try congruence. Qed.
Lemma nth_set_nth_other : forall (l : list Z) n m v, n <> m -> nth m (set_nth l n v) 0%Z = nth m l 0%Z.
Proof. induction l; destruct n, m; cbn; intros; auto; try congruence. Qed.
Lemma set_nth_length : forall A (l : list A) n v, length (set_nth l n v) = length l.
Proof. induction l; destruct n; cbn; auto. Qed.
Lemma nth_error_app_new : forall A (l : list A) x h d, nth_error (l ++ [x]) h = Some d -> nth_error l h = Some d \/ (h = length l /\ d = x).
Proof.
  intros A l x h d H. destruct (Nat.lt_ge_cases h (length l)) as [Hl|Hl].
  - rewrite nth_error_app1 in H by assumption. auto.
  - rewrite nth_error_app2 in H by assumption. destruct (h - length l) eqn:E; cbn in H.
    + injection H as <-. right. split; auto. lia.
    + destruct n; discriminate.
Qed.

(* ---------------------------------------------------------------------------------------------- *)
(** * C07_cast_guard at the level the interpreter uses it *)

Lemma existsb_form_in : forall f, existsb (form_beq f) inner_forms = true -> In f inner_forms.
Proof.
  intros f H. apply existsb_exists in H. destruct H as (g & Hg & He). apply form_beq_eq in He. subst. exact Hg.
Qed.

(* mutable access to the object behind a Data record is granted only if the record is not const *)
Theorem grant_mut_not_const :
  forall R f d, rules_ok R = true -> form_grant R f d = GMut -> d_const d = false.
Proof.
  intros R f d HR H. unfold form_grant in H.
  destruct (existsb (form_beq f) inner_forms) eqn:Ein; try discriminate. apply existsb_form_in in Ein.
  destruct (inner_cast R f 10 (box_of d)) as [r|e] eqn:Ec; try discriminate.
  destruct (r_acc r) eqn:Ea; try discriminate.
  destruct (form_handle f) eqn:Hh.
  - apply inner_cast_handle in Ec; auto using rules_ok_form. subst r. cbn in Ea. discriminate.
  - apply inner_cast_self in Ec; auto using rules_ok_form.
    apply self_ok_facts in Ec. destruct Ec as (_ & _ & _ & _ & _ & _ & Hm & _). exact (Hm Ea).
Qed.

(* a form that permits mutation never yields a read-only view: it is mutable access or a failure *)
Lemma grant_mutable_form :
  forall R f d, rules_ok R = true -> form_mutable f = true -> form_grant R f d <> GRead.
Proof.
  intros R f d HR Hm H. unfold form_grant in H.
  destruct (existsb (form_beq f) inner_forms) eqn:Ein; try discriminate. apply existsb_form_in in Ein.
  destruct (inner_cast R f 10 (box_of d)) as [r|e] eqn:Ec; try discriminate.
  destruct (form_mutable_facts _ Hm) as (Hh & _ & _ & Hacc).
  apply inner_cast_self in Ec; auto using rules_ok_form.
  apply self_ok_facts in Ec. destruct Ec as (_ & _ & _ & _ & _ & Ha & _).
  rewrite access_inner_eq in Ha by assumption. rewrite Hacc in Ha. rewrite Ha in H. discriminate.
Qed.

(* ---------------------------------------------------------------------------------------------- *)
(** * One command *)

Section Step.
  Variables (C : crules) (R : rules).
  Hypothesis HC : crules_ok C = true.
  Hypothesis HR : rules_ok R = true.
  Hypothesis HN : r_null_when_const R = true.

  Lemma guard_const : forall d, d_const d = true -> guard_hit C d = true.
  Proof.
    intros d Hd. unfold crules_ok in HC. bool_hyps.
    match goal with H : existsb _ (cr_eq_guards C) = true |- _ => apply existsb_exists in H; destruct H as (g & Hg & Hgc) end.
    unfold guard_hit. apply existsb_exists. exists g. split; auto. destruct g; try discriminate. exact Hd.
  Qed.

  Lemma ret_const_forms :
    forall rf cst, ret_info C rf = Some (cst, false) -> ret_allowed GRead rf = true -> cst = true.
  Proof.
    intros rf cst Hi Ha. unfold crules_ok in HC. bool_hyps.
    destruct rf; cbn in Ha; try discriminate.
    - (* RfValue copies *)
      match goal with H : forallb _ [RfValue; RfCValue] = true |- _ => cbn in H; rewrite Hi in H; cbn in H; discriminate end.
    - match goal with H : forallb _ [RfValue; RfCValue] = true |- _ => cbn in H; rewrite Hi in H; rewrite andb_false_r in H; discriminate end.
    - match goal with H : forallb _ [RfCRef; RfCPtr] = true |- _ => cbn in H; rewrite Hi in H; destruct cst; auto; cbn in H; discriminate end.
    - match goal with H : forallb _ [RfCRef; RfCPtr] = true |- _ => cbn in H; rewrite Hi in H; destruct cst; auto; rewrite andb_false_r in H; discriminate end.
  Qed.

  Definition inv (l : nat) (s : store) : Prop := l < length (s_cells s) /\ protected l s.

  Lemma protected_append :
    forall l s d, protected l s -> (d_loc d = l -> d_const d = true) ->
      protected l (mkstore (s_cells s) (s_datas s ++ [d]) (s_env s)).
  Proof.
    intros l s d Hp Hd h d0 Hn Hl. cbn in Hn. apply nth_error_app_new in Hn. destruct Hn as [Hn|[_ ->]]; eauto.
  Qed.
  Lemma stable_refl : forall l s, protected l s -> stable l s s.
  Proof. intros l s Hp h d Hn Hl. exists d. repeat split; auto. eapply Hp; eauto. Qed.
  Lemma stable_append : forall l s cells d env, protected l s -> stable l s (mkstore cells (s_datas s ++ [d]) env).
  Proof.
    intros l s cells d env Hp h d0 Hn Hl. exists d0. cbn. split; [| split; auto; eapply Hp; eauto ].
    rewrite nth_error_app1; auto. apply nth_error_Some. congruence.
  Qed.

  (* what one command does to an object all of whose Data records are const *)
  Lemma exec_ret_inv :
    forall l s pf rf t d s' r, inv l s -> (d_loc d = l -> d_const d = true) ->
      exec_ret C R s pf rf t d = (s', r) ->
      inv l s' /\ cell s' l = cell s l /\ stable l s s'.
  Proof.
    intros l s pf rf t d s' r [Hl Hp] Hd H. unfold exec_ret in H.
    assert (Hsame : inv l s /\ cell s l = cell s l /\ stable l s s) by (repeat split; auto using stable_refl).
    destruct (form_grant R pf d) eqn:Eg.
    - (* mutable access: the record is not const, so it is not one of l's *)
      apply grant_mut_not_const in Eg; auto.
      cbn [ret_allowed negb] in H.
      destruct (ret_info C rf) as [[cst copies]|]; [| injection H as <- <-; exact Hsame ].
      destruct copies.
      + injection H as <- <-. unfold inv, cell. cbn. repeat split.
        * rewrite app_length. cbn. lia.
        * apply (protected_append l (mkstore (s_cells s ++ [cell s (d_loc d)]) (s_datas s) (s_env s))); [exact Hp|]. cbn. intros; lia.
        * rewrite app_nth1; auto.
        * apply (stable_append l s); auto.
      + injection H as <- <-. unfold inv, cell. cbn. repeat split; auto.
        * apply protected_append; auto. cbn. intros Hx. specialize (Hd Hx). congruence.
        * apply (stable_append l s); auto.
    - destruct (negb (ret_allowed GRead rf)) eqn:Ea; [injection H as <- <-; exact Hsame|]. apply negb_false_iff in Ea.
      destruct (ret_info C rf) as [[cst copies]|] eqn:Ei; [| injection H as <- <-; exact Hsame ].
      destruct copies.
      + injection H as <- <-. unfold inv, cell. cbn. repeat split.
        * rewrite app_length. cbn. lia.
        * apply (protected_append l (mkstore (s_cells s ++ [cell s (d_loc d)]) (s_datas s) (s_env s))); [exact Hp|]. cbn. intros; lia.
        * rewrite app_nth1; auto.
        * apply (stable_append l s); auto.
      + injection H as <- <-. unfold inv, cell. cbn. repeat split; auto.
        * apply protected_append; auto. cbn. intros _. eapply ret_const_forms; eauto.
        * apply (stable_append l s); auto.
    - injection H as <- <-. exact Hsame.
  Qed.

  Lemma data_of_some : forall s x h d, data_of s x = Some (h, d) -> nth_error (s_datas s) h = Some d.
  Proof.
    intros s x h d H. unfold data_of in H. destruct (lookup (s_env s) x); try discriminate.
    destruct (nth_error (s_datas s) n) eqn:E; try discriminate. injection H as <- <-. exact E.
  Qed.

  (* the functions that take their left operand as a Boxed_Value rebind it only if it is not const *)
  Lemma bv_accepts_not_const :
    forall w d same, asg_ok (AsBoxed w) = true -> bv_accepts w d same = true -> d_const d = false.
  Proof.
    intros w d same Hok Ha. unfold bv_accepts in Ha. apply existsb_exists in Ha. destruct Ha as (c & Hc & Hall).
    cbn in Hok. rewrite forallb_forall in Hok. specialize (Hok c Hc). apply existsb_exists in Hok. destruct Hok as (g & Hg & Hk).
    rewrite forallb_forall in Hall. specialize (Hall g Hg). destruct g; try discriminate.
    apply negb_true_iff in Hall. exact Hall.
  Qed.
  Lemma assign_rows_ok : forall a, In a (cr_assign C) -> asg_ok (snd a) = true.
  Proof.
    intros a Hin. unfold crules_ok in HC. bool_hyps.
    match goal with H : forallb (fun a => asg_ok (snd a)) (cr_assign C) = true |- _ => rewrite forallb_forall in H; exact (H a Hin) end.
  Qed.
  Lemma boxed_accepts_not_const :
    forall op d same, boxed_assign_accepts C op d same = true -> d_const d = false.
  Proof.
    intros op d same H. unfold boxed_assign_accepts in H. apply existsb_exists in H. destruct H as (a & Hin & Ha).
    apply andb_true_iff in Ha. destruct Ha as [_ Ha]. pose proof (assign_rows_ok a Hin) as Hok.
    destruct (snd a) as [| f | w]; try discriminate. eapply bv_accepts_not_const; eauto.
  Qed.

  (* Boxed_Value::assign on a record that is not const: the records of l are not touched *)
  Lemma rebind_inv :
    forall l s h d y s' r (m : mutk), inv l s -> nth_error (s_datas s) h = Some d -> d_const d = false ->
      rebind_to s h y = (s', r) ->
      inv l s' /\ cell s' l = cell s l /\ stable l s s' /\ (d_loc d = l -> is_attempt m = true -> r = RErr \/ r = RTemp).
  Proof.
    intros l s h d y s' r m [Hl Hp] Hh Hnc H.
    assert (Hsame : inv l s /\ cell s l = cell s l /\ stable l s s) by (repeat split; auto using stable_refl).
    assert (Hne : d_loc d <> l) by (intros He; specialize (Hp h d Hh He); congruence).
    unfold rebind_to in H.
    destruct (data_of s y) as [[hy dy]|] eqn:Ey; [| injection H as <- <-; repeat split; try apply Hsame; auto; intros; contradiction ].
    injection H as <- <-. apply data_of_some in Ey.
    unfold inv, cell. cbn. repeat split; auto.
    + intros h0 d0 Hn0 Hl0. cbn in Hn0. destruct (Nat.eq_dec h h0) as [->|Hd].
      * erewrite nth_error_set_nth_same in Hn0 by eauto. injection Hn0 as <-. cbn in Hl0 |- *. eapply Hp; eauto.
      * rewrite nth_error_set_nth_other in Hn0 by assumption. eapply Hp; eauto.
    + intros h0 d0 Hn0 Hl0. exists d0. split; [| split; auto; eapply Hp; eauto ].
      cbn. rewrite nth_error_set_nth_other; auto. intros ->. rewrite Hh in Hn0. injection Hn0 as <-. contradiction.
    + intros He. contradiction.
  Qed.

  Lemma attempt_inv :
    forall l s m h d v s' r, inv l s -> nth_error (s_datas s) h = Some d ->
      attempt C R s m h d v = (s', r) ->
      inv l s' /\ cell s' l = cell s l /\ stable l s s'
      /\ (d_loc d = l -> is_attempt m = true -> r = RErr \/ r = RTemp).
  Proof.
    intros l s m h d v s' r [Hl Hp] Hh H.
    assert (Hsame : inv l s /\ cell s l = cell s l /\ stable l s s) by (repeat split; auto using stable_refl).
    (* mutating the object of a record that is not const cannot be l *)
    assert (Hmut : d_const d = false ->
                   inv l (set_cell s (d_loc d) v) /\ cell (set_cell s (d_loc d) v) l = cell s l /\ stable l s (set_cell s (d_loc d) v)
                   /\ (d_loc d = l -> is_attempt m = true -> RMutated = RErr \/ RMutated = RTemp)).
    { intros Hc. assert (Hne : d_loc d <> l) by (intros He; specialize (Hp h d Hh He); congruence).
      unfold inv, set_cell, cell. cbn. repeat split; auto.
      - rewrite set_nth_length. exact Hl.
      - apply nth_set_nth_other. exact Hne.
      - apply (stable_refl l s Hp).
      - intros He. contradiction. }
    assert (Hconst : d_loc d = l -> d_const d = true) by (intros He; eapply Hp; eauto).
    destruct m; cbn [attempt] in H.
    - (* x op= v, arithmetic *)
      destruct (guard_hit C d) eqn:Eg; [injection H as <- <-; repeat split; try apply Hsame; auto|].
      destruct ((cr_num_refuses_ret C && d_ret d) || mut_ptr_null R d) eqn:En; [injection H as <- <-; repeat split; try apply Hsame; auto|].
      injection H as <- <-. apply Hmut. apply orb_false_iff in En. destruct En as [_ En]. unfold mut_ptr_null in En. rewrite HN in En. exact En.
    - destruct (guard_hit C d) eqn:Eg; [injection H as <- <-; repeat split; try apply Hsame; auto|].
      destruct (form_grant R FRef d) eqn:Ef; try (injection H as <- <-; repeat split; try apply Hsame; auto; fail).
      injection H as <- <-. apply Hmut. eapply grant_mut_not_const; eauto.
    - (* x := y *)
      destruct (guard_hit C d) eqn:Eg; [injection H as <- <-; repeat split; try apply Hsame; auto|].
      assert (Hnc : d_const d = false) by (destruct (d_const d) eqn:E; auto; rewrite guard_const in Eg by assumption; discriminate).
      eapply rebind_inv; eauto. split; auto.
    - destruct (cr_prefix_guard C && d_const d); [injection H as <- <-; repeat split; try apply Hsame; auto|].
      destruct (mut_ptr_null R d) eqn:En; [injection H as <- <-; repeat split; try apply Hsame; auto|].
      injection H as <- <-. apply Hmut. unfold mut_ptr_null in En. rewrite HN in En. exact En.
    - destruct (form_grant R FRef d) eqn:Ef; try (injection H as <- <-; repeat split; try apply Hsame; auto; fail).
      injection H as <- <-. apply Hmut. eapply grant_mut_not_const; eauto.
    - destruct ((cr_num_refuses_ret C && d_ret d) || mut_ptr_null R d) eqn:En; [injection H as <- <-; repeat split; try apply Hsame; auto|].
      injection H as <- <-. apply Hmut. apply orb_false_iff in En. destruct En as [_ En]. unfold mut_ptr_null in En. rewrite HN in En. exact En.
    - destruct (mut_ptr_null R d) eqn:En; [injection H as <- <-; repeat split; try apply Hsame; auto|].
      injection H as <- <-. apply Hmut. unfold mut_ptr_null in En. rewrite HN in En. exact En.
    - destruct (form_grant R f d) eqn:Ef.
      + injection H as <- <-. apply Hmut. eapply grant_mut_not_const; eauto.
      + injection H as <- <-. repeat split; try apply Hsame; auto.
        intros _ Ha. cbn in Ha. exfalso. eapply grant_mutable_form; eauto.
      + destruct (conv && d_arith d); injection H as <- <-; repeat split; try apply Hsame; auto.
    - destruct (d_arith d); injection H as <- <-; repeat split; try apply Hsame; auto.
    - injection H as <- <-. repeat split; try apply Hsame; auto.
    - (* `op`(x, y) on a function object *)
      destruct (boxed_assign_accepts C op d same) eqn:Ea; [| injection H as <- <-; repeat split; try apply Hsame; auto ].
      eapply rebind_inv; eauto using boxed_accepts_not_const. split; auto.
    - destruct (guard_hit C d) eqn:Eg; [injection H as <- <-; repeat split; try apply Hsame; auto|].
      destruct (boxed_assign_accepts C op d same) eqn:Ea; [| injection H as <- <-; repeat split; try apply Hsame; auto ].
      eapply rebind_inv; eauto using boxed_accepts_not_const. split; auto.
  Qed.

  Lemma exec_inv :
    forall l s c s' r, inv l s -> exec C R s c = (s', r) ->
      inv l s' /\ cell s' l = cell s l /\ stable l s s'
      /\ (forall m x v h d, c = CMut m x v -> data_of s x = Some (h, d) -> d_loc d = l -> is_attempt m = true -> r = RErr \/ r = RTemp).
  Proof.
    intros l s c s' r Hinv H. pose proof Hinv as [Hl Hp].
    assert (Hsame : inv l s /\ cell s l = cell s l /\ stable l s s) by (repeat split; auto using stable_refl).
    destruct c as [k r0 x|y x|pf rf t x|t x|m x v]; cbn [exec] in H.
    - destruct (data_of s x) as [[h d]|] eqn:Ed; [| injection H as <- <-; repeat split; try apply Hsame; intros; discriminate ].
      apply data_of_some in Ed. destruct k.
      + injection H as <- <-. unfold inv, cell. cbn. repeat split; auto.
        * apply protected_append; auto. cbn. intros He. eapply Hp; eauto.
        * apply (stable_append l s); auto.
        * intros; discriminate.
      + injection H as <- <-. repeat split; try apply Hsame; auto. intros; discriminate.
    - destruct (data_of s x) as [[h d]|] eqn:Ed; [| injection H as <- <-; repeat split; try apply Hsame; intros; discriminate ].
      apply data_of_some in Ed. destruct (d_ret d).
      + injection H as <- <-. unfold inv, cell. cbn. repeat split; auto.
        * intros h0 d0 Hn0 Hl0. cbn in Hn0. destruct (Nat.eq_dec h h0) as [->|Hd].
          -- erewrite nth_error_set_nth_same in Hn0 by eauto. injection Hn0 as <-. cbn in Hl0 |- *. eapply Hp; eauto.
          -- rewrite nth_error_set_nth_other in Hn0 by assumption. eapply Hp; eauto.
        * intros h0 d0 Hn0 Hl0. destruct (Nat.eq_dec h h0) as [->|Hd].
          -- exists (unret d). rewrite Ed in Hn0. injection Hn0 as <-. split; [cbn; eapply nth_error_set_nth_same; eauto|]. cbn. split; auto. eapply Hp; eauto.
          -- exists d0. cbn. rewrite nth_error_set_nth_other by assumption. split; auto. split; auto. eapply Hp; eauto.
        * intros; discriminate.
      + injection H as <- <-. unfold inv, cell. cbn. repeat split.
        * rewrite app_length. cbn. lia.
        * apply (protected_append l (mkstore (s_cells s ++ [cell s (d_loc d)]) (s_datas s) (s_env s))); [exact Hp|]. cbn. intros; lia.
        * rewrite app_nth1; auto.
        * apply (stable_append l s); auto.
        * intros; discriminate.
    - destruct (data_of s x) as [[h d]|] eqn:Ed; [| injection H as <- <-; repeat split; try apply Hsame; intros; discriminate ].
      apply data_of_some in Ed.
      eapply exec_ret_inv in H; eauto.
      destruct H as (H1 & H2 & H3). repeat split; auto; try apply H1. intros; discriminate.
    - destruct (data_of s x) as [[h d]|] eqn:Ed; [| injection H as <- <-; repeat split; try apply Hsame; intros; discriminate ].
      apply data_of_some in Ed.
      eapply exec_ret_inv in H; eauto.
      destruct H as (H1 & H2 & H3). repeat split; auto; try apply H1. intros; discriminate.
    - destruct (data_of s x) as [[h d]|] eqn:Ed.
      + pose proof (data_of_some _ _ _ _ Ed) as Hn.
        eapply attempt_inv in H; eauto. destruct H as (H1 & H2 & H3 & H4).
        repeat split; auto; try apply H1.
        intros m0 x0 v0 h0 d0 Hc Hd0 Hl0 Ha. injection Hc as <- <- <-. rewrite Ed in Hd0. injection Hd0 as <- <-. auto.
      + injection H as <- <-. repeat split; try apply Hsame; auto.
        intros m0 x0 v0 h0 d0 Hc Hd0. injection Hc as <- <- <-. rewrite Ed in Hd0. discriminate.
  Qed.

  Lemma stable_trans : forall l a b c, stable l a b -> stable l b c -> stable l a c.
  Proof.
    intros l a b c H1 H2 h d Hn Hl. destruct (H1 h d Hn Hl) as (d' & Hn' & Hl' & _). exact (H2 h d' Hn' Hl').
  Qed.

  (* C07_immutable *)
  Theorem run_immutable :
    forall p l s s' outs, inv l s -> run C R s p = (s', outs) ->
      inv l s' /\ cell s' l = cell s l /\ stable l s s'
      /\ Forall (fun o => o_target o = Some l -> o_attempt o = true -> o_result o = RErr \/ o_result o = RTemp) outs.
  Proof.
    induction p as [|c p IH]; intros l s s' outs Hinv H; cbn [run] in H.
    - injection H as <- <-. destruct Hinv. repeat split; auto using stable_refl.
    - destruct (exec C R s c) as [s1 r] eqn:Ee.
      destruct (run C R s1 p) as [s2 rs] eqn:Er. injection H as <- <-.
      destruct (exec_inv l s c s1 r Hinv Ee) as (I1 & C1 & S1 & A1).
      destruct (IH l s1 s2 rs I1 Er) as (I2 & C2 & S2 & A2).
      repeat split; try apply I2; [congruence | eapply stable_trans; eauto |].
      constructor; [| exact A2 ]. cbn. intros Ht Ha.
      destruct c as [| | | |m x v]; try discriminate.
      destruct (data_of s x) as [[h d]|] eqn:Ed; cbn in Ht; try discriminate. injection Ht as Ht.
      eapply A1; eauto.
  Qed.
End Step.

(* ---------------------------------------------------------------------------------------------- *)
(** * C07_const_propagates *)

Lemma data_of_bind_same : forall s x h, data_of (bind s x h) x = match nth_error (s_datas s) h with Some d => Some (h, d) | None => None end.
Proof. intros. unfold data_of, bind. cbn. rewrite Nat.eqb_refl. reflexivity. Qed.

(* aliasing: the new name denotes the same object with the same const flag *)
Theorem alias_propagates :
  forall C R s k r x h d s' res, data_of s x = Some (h, d) -> exec C R s (CAlias k r x) = (s', res) ->
    exists h' d', data_of s' r = Some (h', d') /\ d_loc d' = d_loc d /\ d_const d' = d_const d.
Proof.
  intros C R s k r x h d s' res Hd H. cbn in H. rewrite Hd in H.
  pose proof Hd as Hn. unfold data_of in Hn. destruct (lookup (s_env s) x) as [hx|]; try discriminate.
  destruct (nth_error (s_datas s) hx) eqn:En; try discriminate. injection Hn as -> ->.
  destruct k.
  - injection H as <- <-. exists (length (s_datas s)), (unret d). split; [| split; reflexivity ].
    unfold data_of. cbn. rewrite Nat.eqb_refl. rewrite nth_error_app2 by lia. rewrite Nat.sub_diag. reflexivity.
  - injection H as <- <-. exists h, d. rewrite data_of_bind_same, En. auto.
Qed.

(* copying: a fresh, non-const object holding the same value (unless the source is a return value, which is taken as it is) *)
Theorem clone_fresh :
  forall C R s y x h d s' res, data_of s x = Some (h, d) -> d_ret d = false -> exec C R s (CClone y x) = (s', res) ->
    exists h' d', data_of s' y = Some (h', d') /\ d_const d' = false /\ d_loc d' = length (s_cells s)
                  /\ cell s' (d_loc d') = cell s (d_loc d) /\ (forall l, l < length (s_cells s) -> cell s' l = cell s l).
Proof.
  intros C R s y x h d s' res Hd Hr H. cbn in H. rewrite Hd, Hr in H. injection H as <- <-.
  exists (length (s_datas s)), (mkdata (length (s_cells s)) false false (d_arith d) true).
  split; [| split; [reflexivity | split; [reflexivity | split]] ].
  - unfold data_of. cbn. rewrite Nat.eqb_refl. rewrite nth_error_app2 by lia. rewrite Nat.sub_diag. reflexivity.
  - unfold cell. cbn. rewrite app_nth2 by lia. rewrite Nat.sub_diag. reflexivity.
  - intros l Hl. unfold cell. cbn. rewrite app_nth1 by assumption. reflexivity.
Qed.

(* ---------------------------------------------------------------------------------------------- *)
(** * Host entry points, registration, functions registered under assignment-like names *)

Ltac split_entries H :=
  unfold entries_ok in H;
  let H1 := fresh "E1" in let H2 := fresh "E2" in let H3 := fresh "E3" in let H4 := fresh "E4" in
  apply andb_true_iff in H; destruct H as [H H4]; apply andb_true_iff in H; destruct H as [H H3];
  apply andb_true_iff in H; destruct H as [H1 H2].

(* every entry point named const_* yields a Boxed_Value whose const flag is set, whatever it is given *)
Theorem const_entry_const :
  forall C e tconst, entries_ok C = true -> In e (cr_entries C) -> prefix "const_"%string (en_name e) = true -> entry_const e tconst = true.
Proof.
  intros C e tc H Hin Hp. split_entries H.
  rewrite forallb_forall in E1. specialize (E1 e Hin). rewrite Hp in E1. cbn in E1.
  unfold entry_const. destruct (en_cmode e); auto; discriminate.
Qed.
(* no entry point takes const away *)
Theorem entry_keeps_const :
  forall C e, entries_ok C = true -> In e (cr_entries C) -> entry_const e true = true.
Proof.
  intros C e H Hin. split_entries H.
  rewrite forallb_forall in E2. specialize (E2 e Hin).
  unfold entry_const. destruct (en_cmode e); auto.
Qed.
(* function objects kept for lookup by name are const *)
Theorem fnobj_const :
  forall C, entries_ok C = true -> exists e, find_entry C (fst (cr_fnobj C)) (snd (cr_fnobj C)) = Some e /\ forall tc, entry_const e tc = true.
Proof.
  intros C H. split_entries H.
  destruct (find_entry C (fst (cr_fnobj C)) (snd (cr_fnobj C))) as [e|]; try discriminate.
  exists e. split; auto. intros tc. unfold entry_const. destruct (en_cmode e); auto; discriminate.
Qed.
(* a registration function named ..._const.. accepts only const values *)
Theorem const_registration :
  forall C r d, entries_ok C = true -> In r (cr_regs C) -> contains "_const"%string (rg_name r) = true -> reg_accepts r d = true -> d_const d = true.
Proof.
  intros C r d H Hin Hn Ha. split_entries H.
  rewrite forallb_forall in E3. specialize (E3 r Hin). rewrite Hn in E3. cbn in E3.
  unfold reg_accepts in Ha. rewrite E3 in Ha. exact Ha.
Qed.

(* sharing an object through an entry point: the new name denotes the object (or, for the copying overload, a fresh one with the same
   value) with the const flag the entry point computes *)
Lemma share_data :
  forall s e tc sh ar l x,
    exists h d, data_of (share s e tc sh ar l x) x = Some (h, d) /\ d_const d = entry_const e tc /\ d_ret d = false
                /\ d_loc d = (if en_copies e then length (s_cells s) else l)
                /\ cell (share s e tc sh ar l x) (d_loc d) = cell s l
                /\ (forall l', l' < length (s_cells s) -> cell (share s e tc sh ar l x) l' = cell s l').
Proof.
  intros. unfold share. destruct (en_copies e); cbn.
  - eexists _, _. split.
    + unfold data_of. cbn. rewrite Nat.eqb_refl. rewrite nth_error_app2 by lia. rewrite Nat.sub_diag. reflexivity.
    + cbn. repeat split; auto.
      * unfold cell. cbn. rewrite app_nth2 by lia. rewrite Nat.sub_diag. reflexivity.
      * intros l' Hl'. unfold cell. cbn. rewrite app_nth1 by assumption. reflexivity.
  - eexists _, _. split.
    + unfold data_of. cbn. rewrite Nat.eqb_refl. rewrite nth_error_app2 by lia. rewrite Nat.sub_diag. reflexivity.
    + cbn. repeat split; auto.
Qed.
(* an object all of whose Data records are const stays so when it is shared once more through an entry point that yields const
   (or that copies); in particular an object nothing refers to yet *)
Lemma share_protected :
  forall s e tc sh ar l x l0, l0 < length (s_cells s) -> protected l0 s -> (l = l0 -> entry_const e tc = true \/ en_copies e = true) ->
    l0 < length (s_cells (share s e tc sh ar l x)) /\ protected l0 (share s e tc sh ar l x).
Proof.
  intros s e tc sh ar l x l0 Hl Hp He. unfold share. destruct (en_copies e) eqn:Ec; cbn.
  - split; [rewrite app_length; cbn; lia|].
    intros h d Hn Hd. cbn in Hn. apply nth_error_app_new in Hn. destruct Hn as [Hn|[_ ->]]; [eapply Hp; eauto|]. cbn in Hd. lia.
  - split; auto.
    intros h d Hn Hd. cbn in Hn. apply nth_error_app_new in Hn. destruct Hn as [Hn|[_ ->]]; [eapply Hp; eauto|]. cbn in Hd |- *.
    destruct (He Hd) as [H|H]; [exact H | discriminate].
Qed.

(* no function registered under an assignment-like name gets mutable access to, or rebinds, a const value *)
Theorem assign_rejects_const :
  forall C R a d, crules_ok C = true -> rules_ok R = true -> r_null_when_const R = true ->
    In a (cr_assign C) -> d_const d = true -> asg_access C R (snd a) d = false.
Proof.
  intros C R a d HC HR HN Hin Hd. pose proof (assign_rows_ok C HC a Hin) as Hok.
  destruct (snd a) as [| f | w]; cbn [asg_access].
  - unfold mut_ptr_null. rewrite HN, Hd. reflexivity.
  - destruct (form_grant R f d) eqn:Eg; auto. apply grant_mut_not_const in Eg; auto. congruence.
  - apply orb_false_iff. split.
    + destruct (bv_accepts w d true) eqn:E; auto. eapply bv_accepts_not_const in E; eauto. congruence.
    + destruct (bv_accepts w d false) eqn:E; auto. eapply bv_accepts_not_const in E; eauto. congruence.
Qed.
(* ... and neither does a stdlib wrapper *)
Theorem wrapper_rejects_const :
  forall R f d, rules_ok R = true -> d_const d = true -> form_grant R f d <> GMut.
Proof. intros R f d HR Hd H. apply grant_mut_not_const in H; auto. congruence. Qed.
