(* Laws of the reference evaluator for script-defined classes (support for C03): what a parameter typed with a class accepts,
   what a method / attribute accessor of one class does with an object of another, what a constructor answers, and the identity
   of attributes. Each law about programs is stated for an arbitrary sub-term evaluator `ev`, hence holds at every fuel. *)
From Coq Require Import ZArith NArith List Bool String Lia.
From ChaiV Require Import StrUtil NumDefs NumSpecRun Ast EvalDefs Eval EvalMeta TrySpec.
Import ListNotations.
Local Open Scope string_scope.

(* ------------------------------------------------------------ declared parameter types naming a class *)
(* a name that is not a registered type (a script class): Param_Types::match accepts exactly the Dynamic_Objects of that class *)
Definition is_class_name (cls : string) : Prop :=
  cls <> "" /\ existsb (String.eqb cls) known_type_names = false.

Lemma class_name_not_special cls :
  is_class_name cls ->
  String.eqb cls "" = false /\ String.eqb cls "Dynamic_Object" = false /\ String.eqb cls "Object" = false
  /\ String.eqb cls "Number" = false /\ String.eqb cls "size_t" = false.
Proof.
  intros [Hne Hk].
  assert (Hin : forall t, In t known_type_names -> String.eqb cls t = false).
  { intros t Ht. destruct (String.eqb cls t) eqn:E; [|reflexivity].
    exfalso. assert (X : existsb (String.eqb cls) known_type_names = true) by (apply existsb_exists; exists t; split; assumption).
    rewrite Hk in X. discriminate. }
  repeat split.
  - destruct (String.eqb_spec cls ""); [contradiction | reflexivity].
  - apply Hin. unfold known_type_names. apply in_or_app. right. cbn. tauto.
  - apply Hin. unfold known_type_names. apply in_or_app. right. cbn. tauto.
  - apply Hin. unfold known_type_names. apply in_or_app. right. cbn. tauto.
  - apply Hin. unfold known_type_names. apply in_or_app. left. cbn. tauto.
Qed.

Lemma class_param_accepts_only_its_objects cls o :
  is_class_name cls ->
  (param_match cls o = PMYes <-> exists attrs, o = Some (ODyn cls attrs)) /\
  (param_match cls o = PMYes \/ param_match cls o = PMNo).
Proof.
  intros Hc. destruct (class_name_not_special cls Hc) as (E0 & Ed & Eo & En & Es).
  destruct Hc as [_ Hk]. unfold param_match. rewrite E0.
  destruct o as [[tn t v|b|s|l|l|f| |st dy w|cn attrs]|];
    try (rewrite Eo, En, Es; cbn [orb]; rewrite Hk; split; [split; [discriminate | intros [a Ha]; discriminate] | right; reflexivity]).
  rewrite Ed. cbn [orb].
  destruct (String.eqb_spec cls cn) as [->|Hne].
  - split; [split; [intros _; exists attrs; reflexivity | reflexivity] | left; reflexivity].
  - split; [split; [discriminate | intros [a Ha]; inversion Ha; congruence] | right; reflexivity].
Qed.

(* ------------------------------------------------------------ programs *)
Section CLASS_LAWS.
  Variable ev : ast -> M dloc.
  Variable k : nat.
  Notation R := (run ev k).

  (* objs_of only reads *)
  Lemma objs_of_pure : forall l s r s', R (objs_of l) s = (r, s') -> s' = s.
  Proof.
    induction l as [|d l IH]; intros s r s' H.
    - cbn in H. inversion H. reflexivity.
    - cbn [objs_of] in H. rewrite run_bind in H.
      destruct (R (obj_of d) s) as [[o|e|] s1] eqn:E1.
      + assert (s1 = s).
        { unfold obj_of in E1. cbn [run run_prim] in E1.
          destruct (nth_error (s_data s) (dl d)) as [x|]; [|inversion E1; reflexivity].
          destruct (d_obj x) as [l0|]; [|inversion E1; reflexivity].
          destruct (nth_error (s_objs s) (ol l0)); inversion E1; reflexivity. }
        subst s1. rewrite run_bind in H.
        destruct (R (objs_of l) s) as [[os|e|] s2] eqn:E2.
        * apply IH in E2. subst s2. cbn in H. inversion H. reflexivity.
        * apply IH in E2. inversion H. subst. reflexivity.
        * apply IH in E2. inversion H. subst. reflexivity.
      + unfold obj_of in E1. cbn [run run_prim] in E1.
        destruct (nth_error (s_data s) (dl d)) as [x|]; [|inversion E1; inversion H; subst; reflexivity].
        destruct (d_obj x) as [l0|]; [|inversion E1].
        destruct (nth_error (s_objs s) (ol l0)); inversion E1; inversion H; subst; reflexivity.
      + unfold obj_of in E1. cbn [run run_prim] in E1.
        destruct (nth_error (s_data s) (dl d)) as [x|]; [|inversion E1].
        destruct (d_obj x) as [l0|]; [|inversion E1].
        destruct (nth_error (s_objs s) (ol l0)); inversion E1.
  Qed.

  (* a function whose parameter list is refused by the declared types is not entered: nothing is evaluated, nothing changes *)
  Lemma refused_parameters_do_not_enter cl args s os :
    R (objs_of args) s = (RVal os, s) ->
    List.length args = List.length (cl_params cl) ->
    params_match (cl_ptypes cl) os = PMNo ->
    R (try_plain cl args) s = (RVal None, s).
  Proof.
    intros Ho Hl Hm. unfold try_plain. rewrite Hl, Nat.eqb_refl. cbn [negb].
    rewrite run_bind, Ho, Hm. reflexivity.
  Qed.

  (* a method of class `cls` (a closure made by a Method node: `this` typed with the class) applied to a first argument that is not
     an object of that class — another class's object, a number, a string … — does not apply and leaves the state alone *)
  Lemma method_refuses_other_classes cl cls pts a args s o os :
    is_class_name cls ->
    cl_ptypes cl = cls :: pts ->
    List.length (a :: args) = List.length (cl_params cl) ->
    R (objs_of (a :: args)) s = (RVal (o :: os), s) ->
    (forall attrs, o <> Some (ODyn cls attrs)) ->
    R (try_plain cl (a :: args)) s = (RVal None, s).
  Proof.
    intros Hc Hp Hl Ho Hno. apply refused_parameters_do_not_enter with (os := o :: os); try assumption.
    rewrite Hp. cbn [params_match].
    destruct (class_param_accepts_only_its_objects cls o Hc) as [[Hyes _] [Y|N]].
    - exfalso. destruct (Hyes Y) as [attrs E]. exact (Hno attrs E).
    - rewrite N. reflexivity.
  Qed.

  (* a constructor answers the Boxed_Value it made before the body ran — whatever the body's last value or `return` was *)
  Lemma constructor_answers_its_object cl cls args s d s' :
    cl_kind cl = CKCtor cls ->
    R (try_closure cl args) s = (RVal (Some d), s') ->
    d = DL (List.length (s_data s)) /\ S (List.length args) = List.length (cl_params cl).
  Proof.
    intros Hk H. unfold try_closure in H. rewrite Hk in H.
    destruct (Nat.eqb (S (List.length args)) (List.length (cl_params cl))) eqn:Ea; cbn [negb] in H; [|cbn in H; discriminate].
    rewrite run_bind in H. unfold new_value in H. cbn [run run_prim] in H.
    rewrite run_bind in H.
    match type of H with context [R (try_plain cl ?a) ?st] => destruct (R (try_plain cl a) st) as [[x|e|] s2] eqn:E end;
      [|discriminate|discriminate].
    destruct x as [x|]; cbn in H; [|discriminate].
    inversion H; subst. split; [reflexivity | apply Nat.eqb_eq; assumption].
  Qed.

  (* an attribute that exists: the accessor answers that very Boxed_Value and changes nothing — writes through `o.x` reach the object *)
  Lemma attribute_identity o cn attrs name d s :
    R (obj_of o) s = (RVal (Some (ODyn cn attrs)), s) ->
    assoc attrs name = Some d ->
    R (get_attr o name) s = (RVal d, s).
  Proof.
    intros Ho Ha. unfold get_attr. rewrite run_bind, Ho, Ha. reflexivity.
  Qed.
End CLASS_LAWS.

(* ------------------------------------------------------------ attributes created on the spot *)
Lemma assoc_map_insert_new name (d : dloc) : forall attrs, assoc attrs name = None -> assoc (map_insert name d attrs) name = Some d.
Proof.
  unfold assoc. induction attrs as [|[k v] r IH]; intros H; cbn [map_insert].
  - cbn. rewrite String.eqb_refl. reflexivity.
  - cbn [find fst] in H. destruct (String.eqb k name) eqn:Ek; [discriminate|].
    assert (Ek' : String.eqb name k = false) by (rewrite String.eqb_sym; exact Ek).
    rewrite Ek'. destruct (string_lt name k).
    + cbn [find fst]. rewrite String.eqb_refl. reflexivity.
    + cbn [find fst]. rewrite Ek. apply IH. exact H.
Qed.

Lemma nth_error_replace_nth {A} (x : A) : forall n l, n < List.length l -> nth_error (replace_nth n l x) n = Some x.
Proof.
  induction n as [|n IH]; intros [|h t] Hl; cbn in *; try lia; [reflexivity | apply IH; lia].
Qed.

Section ATTR_CREATE.
  Variable ev : ast -> M dloc.
  Variable k : nat.
  Notation R := (run ev k).

  (* `o.fresh` on a mutable object that has no such attribute: the attribute is entered (undefined) and that very Boxed_Value is what
     every later read of `o.fresh` answers, without further change — so `o.fresh = v` followed by `o.fresh` yields v *)
  Lemma attribute_created_once o cn attrs name s dat l :
    nth_error (s_data s) (dl o) = Some dat -> d_const dat = false -> d_obj dat = Some l ->
    nth_error (s_objs s) (ol l) = Some (ODyn cn attrs) -> assoc attrs name = None ->
    exists s', R (get_attr o name) s = (RVal (DL (List.length (s_data s))), s')
               /\ R (get_attr o name) s' = (RVal (DL (List.length (s_data s))), s').
  Proof.
    intros Hd Hc Ho Hobj Ha.
    assert (Hlt : ol l < List.length (s_objs s)) by (apply nth_error_Some; rewrite Hobj; discriminate).
    assert (Hd1 : nth_error (s_data s ++ [mkdata None false false]) (dl o) = Some dat).
    { rewrite nth_error_app1; [exact Hd | apply nth_error_Some; rewrite Hd; discriminate]. }
    eexists. split.
    - unfold get_attr. rewrite run_bind. unfold obj_of. cbn [run run_prim]. rewrite Hd, Ho, Hobj. rewrite Ha.
      rewrite run_bind. unfold new_undef. cbn [run run_prim].
      unfold write_through. rewrite !run_bind. cbn [run run_prim s_data set_data]. rewrite Hd1, Hc, Ho. cbn [run]. reflexivity.
    - unfold get_attr. rewrite run_bind. unfold obj_of. cbn [run run_prim s_data s_objs set_objs set_data]. rewrite Hd1, Ho.
      rewrite nth_error_replace_nth by exact Hlt.
      rewrite (assoc_map_insert_new name _ attrs Ha). reflexivity.
  Qed.
End ATTR_CREATE.
