(* C12 — executable mechanism model: interprets the wrapper table regenerated from bootstrap_stl.hpp. *)
From Coq Require Import ZArith NArith String List Bool.
From ChaiV Require Import StrUtil ContDefs ContSpecRun.
From ChaiV.Gen Require Import G_StlWrappers.

Definition run_line : string -> string := run_line_with (table_call stl_table) (table_keeps stl_table).
