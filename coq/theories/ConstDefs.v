(* C07 — const values cannot be modified from script: a store of C++ objects (cells) and Boxed_Value::Data records,
   a small command language of aliasing routes and mutation attempts, and its interpreter.
   The decision "does this attempt get mutable access" is made by the regenerated cast rules (DispatchDefs.inner_cast over
   G_CastRules) and by the guards regenerated from chaiscript_eval.hpp / boxed_number.hpp (G_ConstRules).
   Total computable Gallina only; proofs live in ConstProofs.v. *)
From Coq Require Import ZArith List Bool Arith String.
From ChaiV Require Import DispatchDefs.
Import ListNotations.

(* ---- vocabulary of G_ConstRules ---- *)
Inductive eq_guard := GReturnValue | GConst.
Inductive rform := RfValue | RfCValue | RfCRef | RfRef | RfCPtr | RfPtr | RfSh.
Scheme Equality for rform.
Record crules := mkcrules {
  cr_eq_guards : list eq_guard;            (* Equation_AST_Node: tests on the left operand, before anything else *)
  cr_prefix_guard : bool;                  (* Prefix_AST_Node: ++/-- of an arithmetic const is refused *)
  cr_num_refuses_ret : bool;               (* Boxed_Number::oper (binary): no in-place pointer for a return value *)
  cr_ret : list (rform * bool * bool);     (* Handle_Return: return form -> (boxed as const, boxes a copy) *)
  cr_wrappers : list (string * form * bool) }.

(* ---- store ---- *)
(* Boxed_Value::Data (shared by every Boxed_Value copied from one another) *)
Record data := mkdata {
  d_loc : nat;          (* the C++ object it points to *)
  d_const : bool;       (* Type_Info::is_const *)
  d_ret : bool;         (* m_return_value *)
  d_arith : bool;
  d_shared : bool }.    (* the Any holds a shared_ptr (else a reference_wrapper) *)
Record store := mkstore { s_cells : list Z; s_datas : list data; s_env : list (nat * nat) }.

Fixpoint lookup (env : list (nat * nat)) (x : nat) : option nat :=
  match env with
  | [] => None
  | (y, h) :: t => if Nat.eqb x y then Some h else lookup t x
  end.
Definition data_of (s : store) (x : nat) : option (nat * data) :=
  match lookup (s_env s) x with
  | Some h => match nth_error (s_datas s) h with Some d => Some (h, d) | None => None end
  | None => None
  end.
Fixpoint set_nth {A} (l : list A) (n : nat) (v : A) : list A :=
  match l, n with
  | [], _ => []
  | _ :: t, O => v :: t
  | x :: t, S k => x :: set_nth t k v
  end.
Definition cell (s : store) (l : nat) : Z := nth l (s_cells s) 0%Z.

(* ---- commands ---- *)
Inductive alias :=
  | ARefDecl   (* var &r = x, auto r := x, m["k"] := x, capture of such a reference: a new Data that is a copy of x's *)
  | AShare.    (* parameter passing, return, push_back_ref, capture: the very same Data *)
Inductive mutk :=
  | MEqArith                     (* x op= v, arithmetic operands: Equation node, then Boxed_Number in place *)
  | MEqObj                       (* x = v, x += v on other types: Equation node, then the registered operator taking T& *)
  | MRebind (y : nat)            (* x := y *)
  | MPreArith                    (* ++x, --x arithmetic: Prefix node, then Boxed_Number in place *)
  | MPreObj                      (* ++x on other types: the registered operator taking T& *)
  | MOperFn                      (* `+=`(x, v): Boxed_Number::assign_sum & co called as functions: no syntax-node guard *)
  | MOperFn1                     (* `++`(x): the unary form, which does not look at the return-value flag *)
  | MForm (f : form) (conv : bool)   (* a C++ function / stdlib member whose parameter has form f; conv: dispatch's arithmetic
                                        conversion applies when the direct unboxing fails (arithmetic type, full type differs) *)
  | MFormConv                    (* ... whose parameter is another arithmetic type: only ever reached through that conversion *)
  | MMismatch.                   (* ... whose parameter is an unrelated type *)
Inductive cmd :=
  | CAlias (k : alias) (r x : nat)
  | CClone (y x : nat)                          (* var y = x : a copy, unless x is a return value *)
  | CRet (pf : form) (rf : rform) (t x : nat)   (* t := what a C++ function returned (by rf) from inside the object it was given as pf *)
  | CField (t x : nat)                          (* t := x.member / x[i]: Attribute_Access, or the pair of accessors (T& -> reference,
                                                   const T& -> const_reference): picks by the constness of x *)
  | CMut (m : mutk) (x : nat) (v : Z).
Inductive res := RMutated | RErr | RTemp | RRebound | RDone | RStuck.
Scheme Equality for res.

(* ---- how an attempt gets at the object ---- *)
Definition box_of (d : data) : box :=
  mkbox 10 (d_const d) (d_arith d) false (if d_shared d then SShared else SRef) false (IdObj (d_loc d)) (PZ 0) (d_ret d).
Inductive grant := GMut | GRead | GNo.
Definition form_grant (R : rules) (f : form) (d : data) : grant :=
  if existsb (form_beq f) inner_forms then
    match inner_cast R f 10 (box_of d) with
    | DOk r => match r_acc r with AcMut => GMut | _ => GRead end
    | DThrow _ => GNo
    end
  else GNo.
Definition guard_hit (C : crules) (d : data) : bool :=
  existsb (fun g => match g with GReturnValue => d_ret d | GConst => d_const d end) (cr_eq_guards C).
(* Boxed_Value::get_ptr() is null *)
Definition mut_ptr_null (R : rules) (d : data) : bool := r_null_when_const R && d_const d.

Definition set_cell (s : store) (l : nat) (v : Z) : store := mkstore (set_nth (s_cells s) l v) (s_datas s) (s_env s).
Definition bind (s : store) (x h : nat) : store := mkstore (s_cells s) (s_datas s) ((x, h) :: s_env s).
Definition new_data (s : store) (d : data) : store * nat := (mkstore (s_cells s) (s_datas s ++ [d]) (s_env s), List.length (s_datas s)).
Definition new_cell (s : store) (v : Z) : store * nat := (mkstore (s_cells s ++ [v]) (s_datas s) (s_env s), List.length (s_cells s)).
Definition unret (d : data) : data := mkdata (d_loc d) (d_const d) false (d_arith d) (d_shared d).

Definition ret_info (C : crules) (rf : rform) : option (bool * bool) :=
  match find (fun e => rform_beq (fst (fst e)) rf) (cr_ret C) with
  | Some (_, c, cp) => Some (c, cp)
  | None => None
  end.
(* C++ const-correctness of the callee: from a const access it can only return by value or by const reference/pointer *)
Definition ret_allowed (g : grant) (rf : rform) : bool :=
  match g, rf with
  | GMut, _ => true
  | GRead, (RfValue | RfCValue | RfCRef | RfCPtr) => true
  | _, _ => false
  end.

(* one attempt on the Data d (handle h) *)
Definition attempt (C : crules) (R : rules) (s : store) (m : mutk) (h : nat) (d : data) (v : Z) : store * res :=
  let mutate := (set_cell s (d_loc d) v, RMutated) in
  match m with
  | MEqArith =>
      if guard_hit C d then (s, RErr)
      else if (cr_num_refuses_ret C && d_ret d) || mut_ptr_null R d then (s, RErr) else mutate
  | MEqObj =>
      if guard_hit C d then (s, RErr)
      else match form_grant R FRef d with GMut => mutate | _ => (s, RErr) end
  | MRebind y =>
      if guard_hit C d then (s, RErr)
      else match data_of s y with
           | Some (_, dy) => (mkstore (s_cells s) (set_nth (s_datas s) h (unret dy)) (s_env s), RRebound)
           | None => (s, RStuck)
           end
  | MPreArith =>
      if cr_prefix_guard C && d_const d then (s, RErr)
      else if mut_ptr_null R d then (s, RErr) else mutate
  | MPreObj => match form_grant R FRef d with GMut => mutate | _ => (s, RErr) end
  | MOperFn => if (cr_num_refuses_ret C && d_ret d) || mut_ptr_null R d then (s, RErr) else mutate
  | MOperFn1 => if mut_ptr_null R d then (s, RErr) else mutate
  | MForm f conv =>
      match form_grant R f d with
      | GMut => mutate
      | GRead => (s, RDone)
      | GNo => if conv && d_arith d then (s, RTemp) else (s, RErr)
      end
  | MFormConv => if d_arith d then (s, RTemp) else (s, RErr)
  | MMismatch => (s, RErr)
  end.

Definition exec_ret (C : crules) (R : rules) (s : store) (pf : form) (rf : rform) (t : nat) (d : data) : store * res :=
  match form_grant R pf d with
  | GNo => (s, RErr)
  | g =>
      if negb (ret_allowed g rf) then (s, RStuck)
      else match ret_info C rf with
           | None => (s, RStuck)
           | Some (cst, copies) =>
               if copies then
                 let '(s1, l1) := new_cell s (cell s (d_loc d)) in
                 let '(s2, h2) := new_data s1 (mkdata l1 false true (d_arith d) true) in
                 (bind s2 t h2, RDone)
               else
                 let '(s1, h1) := new_data s (mkdata (d_loc d) cst (match rf with RfRef => false | _ => true end) (d_arith d)
                                                     (match rf with RfSh => true | _ => false end)) in
                 (bind s1 t h1, RDone)
           end
  end.

Definition exec (C : crules) (R : rules) (s : store) (c : cmd) : store * res :=
  match c with
  | CAlias k r x =>
      match data_of s x with
      | None => (s, RStuck)
      | Some (h, d) =>
          match k with
          | AShare => (bind s r h, RDone)
          | ARefDecl => let '(s1, h1) := new_data s (unret d) in (bind s1 r h1, RDone)
          end
      end
  | CClone y x =>
      match data_of s x with
      | None => (s, RStuck)
      | Some (h, d) =>
          if d_ret d then
            (* clone_if_necessary: a return value is not cloned, its flag is reset and the variable takes the value itself *)
            (bind (mkstore (s_cells s) (set_nth (s_datas s) h (unret d)) (s_env s)) y h, RDone)
          else
            let '(s1, l1) := new_cell s (cell s (d_loc d)) in
            let '(s2, h2) := new_data s1 (mkdata l1 false false (d_arith d) true) in
            (bind s2 y h2, RDone)
      end
  | CRet pf rf t x =>
      match data_of s x with
      | None => (s, RStuck)
      | Some (_, d) => exec_ret C R s pf rf t d
      end
  | CMut m x v =>
      match data_of s x with
      | None => (s, RStuck)
      | Some (h, d) => attempt C R s m h d v
      end
  | CField t x =>
      match data_of s x with
      | None => (s, RStuck)
      | Some (_, d) => exec_ret C R s (if d_const d then FCPtr else FPtr) (if d_const d then RfCRef else RfRef) t d
      end
  end.

(* a program; for every command: the object it was aimed at and whether it is an attempt (for CMut), and its result *)
(* an attempt that would change the object if it got through (a function taking const T& is not one) *)
Definition is_attempt (m : mutk) : bool :=
  match m with MForm f _ => form_mutable f | MMismatch => false | _ => true end.

Record out := mkoutc { o_target : option nat; o_attempt : bool; o_result : res }.
Fixpoint run (C : crules) (R : rules) (s : store) (p : list cmd) : store * list out :=
  match p with
  | [] => (s, [])
  | c :: p' =>
      let tgt := match c with CMut _ x _ => option_map (fun hd => d_loc (snd hd)) (data_of s x) | _ => None end in
      let att := match c with CMut m _ _ => is_attempt m | _ => false end in
      let '(s1, r) := exec C R s c in
      let '(s2, rs) := run C R s1 p' in
      (s2, mkoutc tgt att r :: rs)
  end.

(* ---- conditions on the regenerated guard table ---- *)
Definition crules_ok (C : crules) : bool :=
  existsb (fun g => match g with GConst => true | _ => false end) (cr_eq_guards C)
  (* reference / pointer return forms to const are boxed const and not copied; mutable ones may only come from mutable access *)
  && forallb (fun rf => match ret_info C rf with Some (c, cp) => c && negb cp | None => false end) [RfCRef; RfCPtr]
  && forallb (fun rf => match ret_info C rf with Some (_, cp) => cp | None => false end) [RfValue; RfCValue]
  (* stdlib wrappers that mutate their first parameter take it by a mutable form *)
  && forallb (fun w => implb (snd w) (form_mutable (snd (fst w)))) (cr_wrappers C).

(* every Data pointing at object l is const *)
Definition protected (l : nat) (s : store) : Prop :=
  forall h d, nth_error (s_datas s) h = Some d -> d_loc d = l -> d_const d = true.

(* Data records pointing at l stay where they are, pointing at l, const *)
Definition stable (l : nat) (s s' : store) : Prop :=
  forall h d, nth_error (s_datas s) h = Some d -> d_loc d = l ->
    exists d', nth_error (s_datas s') h = Some d' /\ d_loc d' = l /\ d_const d' = true.
