(* C07 — const values cannot be modified from script: a store of C++ objects (cells) and Boxed_Value::Data records,
   a small command language of aliasing routes and mutation attempts, and its interpreter.
   The decision "does this attempt get mutable access" is made by the regenerated cast rules (DispatchDefs.inner_cast over
   G_CastRules) and by the guards regenerated from chaiscript_eval.hpp / boxed_number.hpp (G_ConstRules).
   Total computable Gallina only; proofs live in ConstProofs.v. *)
From Coq Require Import ZArith List Bool Arith String.
From ChaiV Require Import DispatchDefs.
Import ListNotations.

(* ---- vocabulary of G_ConstRules ---- *)
Inductive eq_guard := GReturnValue | GConst.
Inductive rform := RfValue | RfCValue | RfCRef | RfRef | RfCPtr | RfPtr | RfSh.
Scheme Equality for rform.
(* host entry points that make a Boxed_Value of a C++ object (boxed_value.hpp): chaiscript::const_var's overloads and chaiscript::var.
   What the overload hands to Boxed_Value's constructor decides the const flag (Object_Data::get records the constness of the
   type it is given: G_CastRules): the argument's type with const added, as it is, or with const removed. *)
Inductive cmode := CmAddConst | CmKeep | CmStrip.
Inductive earg :=
  | EaValue      (* const T &                          : a copy in a fresh shared_ptr *)
  | EaPtr        (* T *                                : the pointer *)
  | EaShared     (* const std::shared_ptr<T> &         : the shared_ptr *)
  | EaRefWrap    (* const std::reference_wrapper<T> &  : the reference *)
  | EaForward.   (* T && (chaiscript::var)             : whatever it is given *)
Scheme Equality for earg.
Record entry := mkentry { en_name : string; en_arg : earg; en_cmode : cmode; en_copies : bool }.
(* host entry points that register a Boxed_Value under a name (dispatchkit.hpp): does it insist on a const value *)
Record regrule := mkreg { rg_name : string; rg_requires_const : bool }.
(* functions registered under an assignment-like name (`=`, `+=`, ..., `++`, `--`) in bootstrap.hpp, by how they get at their left operand:
   as a Boxed_Number (in place through Boxed_Value::get_ptr), through boxed_cast to a parameter form, or as the Boxed_Value itself, which
   they rebind with Boxed_Value::assign when one of the listed conjunctions of tests holds (ptr_assign, unknown_assign) *)
Inductive bvguard := BgUndef | BgNotConst | BgSameType.
Inductive asgkind := AsNumber | AsForm (f : form) | AsBoxed (w : list (list bvguard)).

Record crules := mkcrules {
  cr_eq_guards : list eq_guard;            (* Equation_AST_Node: tests on the left operand, before anything else *)
  cr_prefix_guard : bool;                  (* Prefix_AST_Node: ++/-- of an arithmetic const is refused *)
  cr_num_refuses_ret : bool;               (* Boxed_Number::oper (binary): no in-place pointer for a return value *)
  cr_ret : list (rform * bool * bool);     (* Handle_Return: return form -> (boxed as const, boxes a copy) *)
  cr_wrappers : list (string * form * bool);
  cr_entries : list entry;
  cr_regs : list regrule;
  cr_fnobj : string * earg;                (* the entry point Dispatch_Engine::add_function boxes a function object with *)
  cr_assign : list (string * asgkind) }.

(* ---- store ---- *)
(* Boxed_Value::Data (shared by every Boxed_Value copied from one another) *)
Record data := mkdata {
  d_loc : nat;          (* the C++ object it points to *)
  d_const : bool;       (* Type_Info::is_const *)
  d_ret : bool;         (* m_return_value *)
  d_arith : bool;
  d_shared : bool }.    (* the Any holds a shared_ptr (else a reference_wrapper) *)
Record store := mkstore { s_cells : list Z; s_datas : list data; s_env : list (nat * nat) }.

Fixpoint lookup (env : list (nat * nat)) (x : nat) : option nat :=
  match env with
  | [] => None
  | (y, h) :: t => if Nat.eqb x y then Some h else lookup t x
  end.
Definition data_of (s : store) (x : nat) : option (nat * data) :=
  match lookup (s_env s) x with
  | Some h => match nth_error (s_datas s) h with Some d => Some (h, d) | None => None end
  | None => None
  end.
Fixpoint set_nth {A} (l : list A) (n : nat) (v : A) : list A :=
  match l, n with
  | [], _ => []
  | _ :: t, O => v :: t
  | x :: t, S k => x :: set_nth t k v
  end.
Definition cell (s : store) (l : nat) : Z := nth l (s_cells s) 0%Z.

(* ---- commands ---- *)
Inductive alias :=
  | ARefDecl   (* var &r = x, auto r := x, m["k"] := x, capture of such a reference: a new Data that is a copy of x's *)
  | AShare.    (* parameter passing, return, push_back_ref, capture: the very same Data *)
Inductive mutk :=
  | MEqArith                     (* x op= v, arithmetic operands: Equation node, then Boxed_Number in place *)
  | MEqObj                       (* x = v, x += v on other types: Equation node, then the registered operator taking T& *)
  | MRebind (y : nat)            (* x := y *)
  | MPreArith                    (* ++x, --x arithmetic: Prefix node, then Boxed_Number in place *)
  | MPreObj                      (* ++x on other types: the registered operator taking T& *)
  | MOperFn                      (* `+=`(x, v): Boxed_Number::assign_sum & co called as functions: no syntax-node guard *)
  | MOperFn1                     (* `++`(x): the unary form, which does not look at the return-value flag *)
  | MForm (f : form) (conv : bool)   (* a C++ function / stdlib member whose parameter has form f; conv: dispatch's arithmetic
                                        conversion applies when the direct unboxing fails (arithmetic type, full type differs) *)
  | MFormConv                    (* ... whose parameter is another arithmetic type: only ever reached through that conversion *)
  | MMismatch                    (* ... whose parameter is an unrelated type *)
  | MOperBoxed (op : string) (y : nat) (same : bool)
                                 (* `op`(x, y) called as a function on a value that is neither arithmetic nor a class with its own operator
                                    (a function object): only the registered functions taking the Boxed_Value itself can apply;
                                    same: x and y have the same bare type *)
  | MEqBoxed (op : string) (y : nat) (same : bool).
                                 (* x op y on such a value: Equation node, then the same functions *)
Inductive cmd :=
  | CAlias (k : alias) (r x : nat)
  | CClone (y x : nat)                          (* var y = x : a copy, unless x is a return value *)
  | CRet (pf : form) (rf : rform) (t x : nat)   (* t := what a C++ function returned (by rf) from inside the object it was given as pf *)
  | CField (t x : nat)                          (* t := x.member / x[i]: Attribute_Access, or the pair of accessors (T& -> reference,
                                                   const T& -> const_reference): picks by the constness of x *)
  | CMut (m : mutk) (x : nat) (v : Z).
Inductive res := RMutated | RErr | RTemp | RRebound | RDone | RStuck.
Scheme Equality for res.

(* ---- how an attempt gets at the object ---- *)
Definition box_of (d : data) : box :=
  mkbox 10 (d_const d) (d_arith d) false (if d_shared d then SShared else SRef) false (IdObj (d_loc d)) (PZ 0) (d_ret d).
Inductive grant := GMut | GRead | GNo.
Definition form_grant (R : rules) (f : form) (d : data) : grant :=
  if existsb (form_beq f) inner_forms then
    match inner_cast R f 10 (box_of d) with
    | DOk r => match r_acc r with AcMut => GMut | _ => GRead end
    | DThrow _ => GNo
    end
  else GNo.
Definition guard_hit (C : crules) (d : data) : bool :=
  existsb (fun g => match g with GReturnValue => d_ret d | GConst => d_const d end) (cr_eq_guards C).
(* Boxed_Value::get_ptr() is null *)
Definition mut_ptr_null (R : rules) (d : data) : bool := r_null_when_const R && d_const d.

(* functions that take the left operand as a Boxed_Value: is one of the conjunctions of tests satisfied (a Data record in the store is
   never undefined) *)
Definition bv_accepts (w : list (list bvguard)) (d : data) (same : bool) : bool :=
  existsb (forallb (fun g => match g with BgUndef => false | BgNotConst => negb (d_const d) | BgSameType => same end)) w.
Definition boxed_assign_accepts (C : crules) (op : string) (d : data) (same : bool) : bool :=
  existsb (fun a => String.eqb (fst a) op && match snd a with AsBoxed w => bv_accepts w d same | _ => false end) (cr_assign C).

Definition set_cell (s : store) (l : nat) (v : Z) : store := mkstore (set_nth (s_cells s) l v) (s_datas s) (s_env s).
Definition bind (s : store) (x h : nat) : store := mkstore (s_cells s) (s_datas s) ((x, h) :: s_env s).
Definition new_data (s : store) (d : data) : store * nat := (mkstore (s_cells s) (s_datas s ++ [d]) (s_env s), List.length (s_datas s)).
Definition new_cell (s : store) (v : Z) : store * nat := (mkstore (s_cells s ++ [v]) (s_datas s) (s_env s), List.length (s_cells s)).
Definition unret (d : data) : data := mkdata (d_loc d) (d_const d) false (d_arith d) (d_shared d).

Definition ret_info (C : crules) (rf : rform) : option (bool * bool) :=
  match find (fun e => rform_beq (fst (fst e)) rf) (cr_ret C) with
  | Some (_, c, cp) => Some (c, cp)
  | None => None
  end.
(* C++ const-correctness of the callee: from a const access it can only return by value or by const reference/pointer *)
Definition ret_allowed (g : grant) (rf : rform) : bool :=
  match g, rf with
  | GMut, _ => true
  | GRead, (RfValue | RfCValue | RfCRef | RfCPtr) => true
  | _, _ => false
  end.

(* Boxed_Value::assign: the Data record h becomes a copy of y's *)
Definition rebind_to (s : store) (h y : nat) : store * res :=
  match data_of s y with
  | Some (_, dy) => (mkstore (s_cells s) (set_nth (s_datas s) h (unret dy)) (s_env s), RRebound)
  | None => (s, RStuck)
  end.

(* one attempt on the Data d (handle h) *)
Definition attempt (C : crules) (R : rules) (s : store) (m : mutk) (h : nat) (d : data) (v : Z) : store * res :=
  let mutate := (set_cell s (d_loc d) v, RMutated) in
  match m with
  | MEqArith =>
      if guard_hit C d then (s, RErr)
      else if (cr_num_refuses_ret C && d_ret d) || mut_ptr_null R d then (s, RErr) else mutate
  | MEqObj =>
      if guard_hit C d then (s, RErr)
      else match form_grant R FRef d with GMut => mutate | _ => (s, RErr) end
  | MRebind y =>
      if guard_hit C d then (s, RErr) else rebind_to s h y
  | MPreArith =>
      if cr_prefix_guard C && d_const d then (s, RErr)
      else if mut_ptr_null R d then (s, RErr) else mutate
  | MPreObj => match form_grant R FRef d with GMut => mutate | _ => (s, RErr) end
  | MOperFn => if (cr_num_refuses_ret C && d_ret d) || mut_ptr_null R d then (s, RErr) else mutate
  | MOperFn1 => if mut_ptr_null R d then (s, RErr) else mutate
  | MForm f conv =>
      match form_grant R f d with
      | GMut => mutate
      | GRead => (s, RDone)
      | GNo => if conv && d_arith d then (s, RTemp) else (s, RErr)
      end
  | MFormConv => if d_arith d then (s, RTemp) else (s, RErr)
  | MMismatch => (s, RErr)
  | MOperBoxed op y same =>
      if boxed_assign_accepts C op d same then rebind_to s h y else (s, RErr)
  | MEqBoxed op y same =>
      if guard_hit C d then (s, RErr)
      else if boxed_assign_accepts C op d same then rebind_to s h y else (s, RErr)
  end.

Definition exec_ret (C : crules) (R : rules) (s : store) (pf : form) (rf : rform) (t : nat) (d : data) : store * res :=
  match form_grant R pf d with
  | GNo => (s, RErr)
  | g =>
      if negb (ret_allowed g rf) then (s, RStuck)
      else match ret_info C rf with
           | None => (s, RStuck)
           | Some (cst, copies) =>
               if copies then
                 let '(s1, l1) := new_cell s (cell s (d_loc d)) in
                 let '(s2, h2) := new_data s1 (mkdata l1 false true (d_arith d) true) in
                 (bind s2 t h2, RDone)
               else
                 let '(s1, h1) := new_data s (mkdata (d_loc d) cst (match rf with RfRef => false | _ => true end) (d_arith d)
                                                     (match rf with RfSh => true | _ => false end)) in
                 (bind s1 t h1, RDone)
           end
  end.

Definition exec (C : crules) (R : rules) (s : store) (c : cmd) : store * res :=
  match c with
  | CAlias k r x =>
      match data_of s x with
      | None => (s, RStuck)
      | Some (h, d) =>
          match k with
          | AShare => (bind s r h, RDone)
          | ARefDecl => let '(s1, h1) := new_data s (unret d) in (bind s1 r h1, RDone)
          end
      end
  | CClone y x =>
      match data_of s x with
      | None => (s, RStuck)
      | Some (h, d) =>
          if d_ret d then
            (* clone_if_necessary: a return value is not cloned, its flag is reset and the variable takes the value itself *)
            (bind (mkstore (s_cells s) (set_nth (s_datas s) h (unret d)) (s_env s)) y h, RDone)
          else
            let '(s1, l1) := new_cell s (cell s (d_loc d)) in
            let '(s2, h2) := new_data s1 (mkdata l1 false false (d_arith d) true) in
            (bind s2 y h2, RDone)
      end
  | CRet pf rf t x =>
      match data_of s x with
      | None => (s, RStuck)
      | Some (_, d) => exec_ret C R s pf rf t d
      end
  | CMut m x v =>
      match data_of s x with
      | None => (s, RStuck)
      | Some (h, d) => attempt C R s m h d v
      end
  | CField t x =>
      match data_of s x with
      | None => (s, RStuck)
      | Some (_, d) => exec_ret C R s (if d_const d then FCPtr else FPtr) (if d_const d then RfCRef else RfRef) t d
      end
  end.

(* a program; for every command: the object it was aimed at and whether it is an attempt (for CMut), and its result *)
(* an attempt that would change the object if it got through (a function taking const T& is not one) *)
Definition is_attempt (m : mutk) : bool :=
  match m with MForm f _ => form_mutable f | MMismatch => false | _ => true end.
(* (a call of an operator function that has no applicable overload is still an attempt: it has to end in an error) *)

Record out := mkoutc { o_target : option nat; o_attempt : bool; o_result : res }.
Fixpoint run (C : crules) (R : rules) (s : store) (p : list cmd) : store * list out :=
  match p with
  | [] => (s, [])
  | c :: p' =>
      let tgt := match c with CMut _ x _ => option_map (fun hd => d_loc (snd hd)) (data_of s x) | _ => None end in
      let att := match c with CMut m _ _ => is_attempt m | _ => false end in
      let '(s1, r) := exec C R s c in
      let '(s2, rs) := run C R s1 p' in
      (s2, mkoutc tgt att r :: rs)
  end.

(* ---- conditions on the regenerated guard table ---- *)
Definition asg_ok (k : asgkind) : bool :=
  match k with
  | AsBoxed w => forallb (existsb (fun g => match g with BgUndef | BgNotConst => true | BgSameType => false end)) w
  | _ => true
  end.
Definition crules_ok (C : crules) : bool :=
  existsb (fun g => match g with GConst => true | _ => false end) (cr_eq_guards C)
  (* reference / pointer return forms to const are boxed const and not copied; mutable ones may only come from mutable access *)
  && forallb (fun rf => match ret_info C rf with Some (c, cp) => c && negb cp | None => false end) [RfCRef; RfCPtr]
  && forallb (fun rf => match ret_info C rf with Some (_, cp) => cp | None => false end) [RfValue; RfCValue]
  (* stdlib wrappers that mutate their first parameter take it by a mutable form *)
  && forallb (fun w => implb (snd w) (form_mutable (snd (fst w)))) (cr_wrappers C)
  (* functions that rebind the Boxed_Value they are given do so only when it is undefined or not const *)
  && forallb (fun a => asg_ok (snd a)) (cr_assign C).

(* ---- host entry points ---- *)
Definition entry_const (e : entry) (tconst : bool) : bool :=
  match en_cmode e with CmAddConst => true | CmKeep => tconst | CmStrip => false end.
Definition entry_shared (a : earg) (sh : bool) : bool :=
  match a with EaValue | EaShared => true | EaPtr | EaRefWrap => false | EaForward => sh end.
Definition find_entry (C : crules) (name : string) (a : earg) : option entry :=
  find (fun e => String.eqb (en_name e) name && earg_beq (en_arg e) a) (cr_entries C).
Definition contains (sub s : string) : bool := match index 0 sub s with Some _ => true | None => false end.
Definition entries_ok (C : crules) : bool :=
  (* every entry point whose name starts with const_ adds const to the type it boxes *)
  forallb (fun e => implb (prefix "const_"%string (en_name e)) (match en_cmode e with CmAddConst => true | _ => false end)) (cr_entries C)
  (* no entry point removes const *)
  && forallb (fun e => match en_cmode e with CmStrip => false | _ => true end) (cr_entries C)
  (* every registration named ..._const.. insists on a const value *)
  && forallb (fun r => implb (contains "_const"%string (rg_name r)) (rg_requires_const r)) (cr_regs C)
  (* function objects are boxed through an entry point that adds const *)
  && match find_entry C (fst (cr_fnobj C)) (snd (cr_fnobj C)) with
     | Some e => match en_cmode e with CmAddConst => true | _ => false end
     | None => false
     end.

(* the host shares the C++ object l (declared const iff tconst; held by a shared_ptr iff sh) under the name x through entry point e *)
Definition share (s : store) (e : entry) (tconst sh arith : bool) (l x : nat) : store :=
  let '(s0, l0) := if en_copies e then new_cell s (cell s l) else (s, l) in
  let '(s1, h) := new_data s0 (mkdata l0 (entry_const e tconst) false arith (entry_shared (en_arg e) sh)) in
  bind s1 x h.
Definition reg_accepts (r : regrule) (d : data) : bool := negb (rg_requires_const r) || d_const d.

(* can a function registered under an assignment-like name change, or rebind, what the Data record d denotes *)
Definition asg_access (C : crules) (R : rules) (k : asgkind) (d : data) : bool :=
  match k with
  | AsNumber => negb (mut_ptr_null R d)
  | AsForm f => match form_grant R f d with GMut => true | _ => false end
  | AsBoxed w => bv_accepts w d true || bv_accepts w d false
  end.

(* every Data pointing at object l is const *)
Definition protected (l : nat) (s : store) : Prop :=
  forall h d, nth_error (s_datas s) h = Some d -> d_loc d = l -> d_const d = true.

(* Data records pointing at l stay where they are, pointing at l, const *)
Definition stable (l : nat) (s s' : store) : Prop :=
  forall h d, nth_error (s_datas s) h = Some d -> d_loc d = l ->
    exists d', nth_error (s_datas s') h = Some d' /\ d_loc d' = l /\ d_const d' = true.
