(* C14 — executable MECHANISM model: the key policy extracted from chaiscript_threading.hpp. *)
From Coq Require Import List String.
From ChaiV Require Import StrUtil ThreadStoreDefs ThreadStoreSpecRun.
From ChaiV.Gen Require Import G_ThreadStorage.
Definition run_line (line : string) : string := run_with thread_storage_policy line.
