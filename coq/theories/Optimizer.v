(* The nine optimizer passes of chaiscript_optimizer.hpp as functions on the dumped tree, and the
   bottom-up driver that corresponds to "every node passes through the optimizer in build_match". *)
From Coq Require Import ZArith NArith List Bool String Ascii.
From ChaiV Require Import StrUtil NumDefs NumSpecRun Ast EvalDefs Eval.
Import ListNotations.
Local Open Scope string_scope.

Section PASSES.
  Variable ops : numops.
  Variable fold_conversions : bool.   (* false: Constant_Fold's int(c)/double(c)/… branch is switched off (attribution of the known finding) *)

  Definition mk (k : kind) (cls text : string) (l : srcloc) (c : option (bool * cval)) (ch : list ast) := Node k cls text l c ch.

  Definition const_num (a : ast) : option (string * nty * nval) :=
    match a_kind a, a_const a with
    | KConstant, Some (_, CNum tn t v) => Some (tn, t, v)
    | _, _ => None
    end.
  Definition const_bool (a : ast) : option bool :=
    match a_kind a, a_const a with
    | KConstant, Some (_, CBool b) => Some b
    | _, _ => None
    end.
  Definition is_constant (a : ast) := kind_eqb (a_kind a) KConstant.

  (* children the optimizer sees: Def/Method/Lambda have already detached guard and body *)
  Definition seen_children (a : ast) : list ast :=
    match a_kind a with
    | KDef | KMethod => let ch := a_children a in firstn (List.length ch - (if has_guard ch 1 then 2 else 1)) ch
    | KLambda => removelast (a_children a)
    | _ => a_children a
    end.

  (* ---- Partial_Fold *)
  Definition pass_partial_fold (n : ast) : ast :=
    match n with
    | Node KBinary cls text l c [a; b] =>
        if negb (is_constant a) && is_constant b then
          match const_num b with
          | Some (_, t, v) =>
              (* to_operator(text) != invalid: the binary route knows the operator (probe with the operand itself) *)
              match n_bin ops text false t v t v with
              | Some _ => Node KBinary "FoldRight" text l c [a; b]
              | None => n
              end
          | None => n
          end
        else n
    | _ => n
    end.

  (* ---- Unused_Return *)
  Definition to_unused (a : ast) : ast :=
    match a with
    | Node KFun_Call cls text l c ch => Node KFun_Call "UnusedReturn" text l c ch   (* the identifier stays Fun_Call *)
    | _ => a
    end.
  Fixpoint map_but_last {A} (f : A -> A) (l : list A) : list A :=
    match l with
    | [] => []
    | [x] => [x]
    | x :: r => f x :: map_but_last f r
    end.
  (* child_at / child_count look through a Compiled node to its original *)
  Definition through_compiled (a : ast) : ast :=
    match a with Node KCompiled _ _ _ _ (orig :: _) => orig | _ => a end.

  Definition pass_unused_return (n : ast) : ast :=
    match n with
    | Node KBlock cls text l c ch | Node KScopeless_Block cls text l c ch =>
        match ch with [] => n | _ => Node (a_kind n) cls text l c (map_but_last to_unused ch) end
    | Node KFor cls text l c ch | Node KWhile cls text l c ch =>
        match rev ch with
        | body :: front =>
            match body with
            | Node KBlock bc bt bl bk bch => Node (a_kind n) cls text l c (rev (Node KBlock bc bt bl bk (map to_unused bch) :: front))
            | Node KScopeless_Block bc bt bl bk bch => Node (a_kind n) cls text l c (rev (Node KScopeless_Block bc bt bl bk (map to_unused bch) :: front))
            | _ => n
            end
        | [] => n
        end
    | _ => n
    end.

  (* ---- Constant_Fold *)
  Definition folded (text : string) (l : srcloc) (t : nty) (v : nval) : ast :=
    match t, v with
    | TBool, VI z => Node KConstant "" text l (Some (true, CBool (negb (Z.eqb z 0)))) []
    | _, _ => Node KConstant "" text l (Some (true, CNum (tyname_of_nty t) t v)) []
    end.

  Definition pass_constant_fold (n : ast) : ast :=
    match n with
    | Node KPrefix _ text l _ [a] =>
        match const_num a with
        | Some (_, t, v) =>
            if String.eqb text "&" then n else
            match n_un ops text false t v with
            | Some (Val t' v', _) => folded (text ++ a_text a) l t' v'
            | _ => n
            end
        | None => n
        end
    | Node KLogical_And _ text l _ [a; b] =>
        match const_bool a, const_bool b with
        | Some x, Some y => Node KConstant "" (a_text a ++ " " ++ text ++ " " ++ a_text b) l (Some (true, CBool (x && y))) []
        | _, _ => n
        end
    | Node KLogical_Or _ text l _ [a; b] =>
        match const_bool a, const_bool b with
        | Some x, Some y => Node KConstant "" (a_text a ++ " " ++ text ++ " " ++ a_text b) l (Some (true, CBool (x || y))) []
        | _, _ => n
        end
    | Node KBinary _ text l _ [a; b] =>
        match const_num a, const_num b with
        | Some (_, t1, v1), Some (_, t2, v2) =>
            match n_bin ops text false t1 v1 t2 v2 with
            | Some (Val t' v', _) => folded (a_text a ++ " " ++ text ++ " " ++ a_text b) l t' v'
            | _ => n
            end
        | _, _ => n
        end
    | Node KFun_Call _ _ l _ [f; Node KArg_List _ _ _ _ [arg]] =>
        if negb fold_conversions then n else
        match a_kind f, const_num arg, conversion_target (a_text f) with
        | KId, Some (_, t, v), Some (tn, tgt) =>
            match convert t v tgt with
            | Some v' => Node KConstant "" (a_text f ++ "(" ++ a_text arg ++ ")") l (Some (true, CNum tn tgt v')) []
            | None => n            (* out-of-range float -> integer: undefined in C++; the pass is not modelled there *)
            end
        | _, _, _ => n
        end
    | _ => n
    end.

  (* ---- If *)
  Definition pass_if (n : ast) : ast :=
    match n with
    | Node KIf _ _ _ _ (cnd :: th :: rest) =>
        match const_bool cnd with
        | Some true => th
        | Some false => match rest with [el] => el | _ => n end
        | None => n
        end
    | _ => n
    end.

  (* ---- Return: inspects children.back() of a Def/Lambda *after* the body has been detached,
          so it never sees a Block there: it is the identity on every tree the parser builds *)
  Definition pass_return (n : ast) : ast :=
    match a_kind n with
    | KDef | KLambda =>
        match rev (seen_children n) with
        | Node KBlock _ _ _ _ _ :: _ => n   (* unreachable for parser-built trees; kept to document the shape *)
        | _ => n
        end
    | _ => n
    end.

  (* ---- Dead_Code *)
  Fixpoint keepers (l : list ast) : list ast :=
    match l with
    | [] => []
    | [x] => [x]
    | x :: r => if kind_eqb (a_kind x) KConstant || kind_eqb (a_kind x) KNoop then keepers r else x :: keepers r
    end.
  Definition pass_dead_code (n : ast) : ast :=
    match n with
    | Node KBlock cls text l c ch =>
        let k := keepers ch in
        if Nat.eqb (List.length k) (List.length ch) then n else Node KBlock "" text l None k
    | _ => n
    end.

  (* ---- Block *)
  Fixpoint contains_var_decl_in_scope (fuel : nat) (n : ast) : bool :=
    match fuel with
    | O => true
    | S f =>
        let n := through_compiled n in
        match a_kind n with
        | KVar_Decl | KAssign_Decl | KReference => true
        | _ => existsb (fun ch => let ch' := through_compiled ch in
                                  match a_kind ch' with
                                  | KBlock | KFor | KRanged_For => false
                                  | _ => contains_var_decl_in_scope f ch'
                                  end) (seen_children n)
        end
    end.
  Fixpoint ast_size (n : ast) : nat :=
    let 'Node _ _ _ _ _ ch := n in S (fold_right (fun x acc => ast_size x + acc) 0 ch).

  Definition pass_block (n : ast) : ast :=
    match n with
    | Node KBlock cls text l c ch =>
        if contains_var_decl_in_scope (ast_size n) n then n
        else match ch with
             | [x] => x
             | _ => Node KScopeless_Block "" text l None ch
             end
    | _ => n
    end.

  (* ---- For_Loop *)
  Definition is_int_const (a : ast) : bool :=
    match const_num a with Some (_, TI 32 true, _) => true | _ => false end.
  Definition pass_for_loop (n : ast) : ast :=
    match n with
    | Node KFor cls text l c [eq; bin; pre; body] =>
        let eq' := through_compiled eq in let bin' := through_compiled bin in let pre' := through_compiled pre in
        match eq', bin', pre' with
        | Node KAssign_Decl _ _ _ _ [id0; c0], Node KBinary _ btext _ _ [id1; c1], Node KPrefix _ ptext _ _ [id2] =>
            if String.eqb btext "<" && String.eqb ptext "++"
               && kind_eqb (a_kind id0) KId && is_constant c0 && kind_eqb (a_kind id1) KId && String.eqb (a_text id1) (a_text id0)
               && is_constant c1 && kind_eqb (a_kind id2) KId && String.eqb (a_text id2) (a_text id0)
               && is_int_const c0 && is_int_const c1
            then Node KCompiled "" text l None [Node KFor cls text l c [eq; bin; pre]; body]
            else n
        | _, _, _ => n
        end
    | _ => n
    end.

  (* ---- Assign_Decl *)
  Definition pass_assign_decl (n : ast) : ast :=
    match n with
    | Node KEquation _ text l _ [Node KVar_Decl _ _ _ _ (id :: _); rhs] =>
        if String.eqb text "=" then Node KAssign_Decl "" "=" l None [id; rhs] else n
    | _ => n
    end.

  (* a constant operation whose C++ result is undefined (signed overflow, oversized shift): the implementation folds
     whatever its compiler produced; the model cannot predict the tree and says so *)
  Definition ub_site (n : ast) : bool :=
    match n with
    | Node KBinary _ text _ _ [a; b] =>
        match const_num a, const_num b with
        | Some (_, t1, v1), Some (_, t2, v2) => match n_bin ops text false t1 v1 t2 v2 with Some (UB, _) => true | _ => false end
        | _, _ => false
        end
    | Node KPrefix _ text _ _ [a] =>
        match const_num a with
        | Some (_, t, v) => match n_un ops text false t v with Some (UB, _) => true | _ => false end
        | None => false
        end
    | _ => false
    end.

  Definition pass_by_name (name : string) : ast -> ast :=
    if String.eqb name "Partial_Fold" then pass_partial_fold
    else if String.eqb name "Unused_Return" then pass_unused_return
    else if String.eqb name "Constant_Fold" then pass_constant_fold
    else if String.eqb name "If" then pass_if
    else if String.eqb name "Return" then pass_return
    else if String.eqb name "Dead_Code" then pass_dead_code
    else if String.eqb name "Block" then pass_block
    else if String.eqb name "For_Loop" then pass_for_loop
    else if String.eqb name "Assign_Decl" then pass_assign_decl
    else fun n => n.

  Variable order : list string.

  Definition optimize_node (n : ast) : ast := fold_left (fun a p => pass_by_name p a) order n.

  (* nodes created with make_node (leaves: Id, Constant, …) never pass through the optimizer; every
     node built by build_match does, after its children *)
  (* Dot_Fun_Array builds the call / index node of `lhs.f(..)` / `lhs.a[..]` with the (already optimised) left-hand side as its
     first child and re-parents afterwards: that node starts where the optimised left-hand side starts *)
  Definition dot_children (k : kind) (ch ch0 : list ast) : list ast :=
    match k, ch, ch0 with
    | KDot_Access, [rl; rr], [ol; Node rk rcls rtext rloc rc rch] =>
        if (kind_eqb rk KFun_Call || kind_eqb rk KArray_Call)
           && Z.eqb (l_line (a_loc rr)) (l_line (a_loc rl)) && Z.eqb (l_col (a_loc rr)) (l_col (a_loc rl))
        then [ol; Node rk rcls rtext (mkloc (l_line (a_loc ol)) (l_col (a_loc ol)) (l_eline rloc) (l_ecol rloc)) rc rch]
        else ch0
    | _, _, _ => ch0
    end.

  Fixpoint optimize_tree (n : ast) : ast :=
    let 'Node k cls text l c ch := n in
    match ch, k with
    | [], KId | [], KConstant => n
    | _, _ =>
        (* build_match: a node starts where its first child (already optimised) starts and ends at the parser position *)
        let ch0 := map optimize_tree ch in
        let ch' := dot_children k ch ch0 in
        let l' := match ch, ch' with
                  | raw_first :: _, first :: _ =>
                      (* only where the rule held for the unoptimised node (Dot_Fun_Array re-parents nodes after they were built) *)
                      if Z.eqb (l_line (a_loc raw_first)) (l_line l) && Z.eqb (l_col (a_loc raw_first)) (l_col l)
                      then mkloc (l_line (a_loc first)) (l_col (a_loc first)) (l_eline l) (l_ecol l) else l
                  | _, _ => l
                  end in
        optimize_node (Node k cls text l' c ch')
    end.

  Fixpoint has_ub_site (n : ast) : bool :=
    ub_site n || (let 'Node _ _ _ _ _ ch := n in existsb has_ub_site ch).
End PASSES.
