(* C16 — executable mechanism model: the scanners of LexDefs over the tables regenerated from the source.
   Same input lines as LexSpecRun; output in the format of harness/h_parse.cpp where the whole input is one token:
     OK ( File t=- l=.. ( Constant|Id .. ) )  |  ERR(eval_error) <hex reason> <l>:<c> <hex file>
     | PARTIAL rem=<n> <node>  (bytes left over: what follows is the grammar layer's business)
     | INTERP <lit>:<eval>,.. <final>  |  NOTOK  |  CRASH <kind>  |  OUTOFFUEL *)
From Coq Require Import ZArith NArith List Bool String Ascii Floats.SpecFloat.
From ChaiV Require Import StrUtil NumDefs NumSpecRun LexDefs LexSpecRun.
From ChaiV.Gen Require Import G_IntLadder G_Keywords.
Import ListNotations.
Local Open Scope string_scope.
Local Open Scope Z_scope.

Definition A := alphabets_gen.
Definition T := int_tables_gen.
Definition K := kw_tables_gen.
Definition file_name : list N := [70%N].   (* the harness' default file name "F" *)

Definition show_const (v : constval) : string :=
  match v with
  | KInt t z => "c," ++ ity_name t ++ ":" ++ cls (ity_nty t) ++ ":" ++ dec_of_z z
  | KFloat k f => "c," ++ fk_name k ++ ":" ++ cls (TF k) ++ ":" ++ bits_of_float k f
  | KBool b => "c,bool:bool:" ++ (if b then "1" else "0")
  | KChar c => "c,char:i8:" ++ dec_of_z (signed_char c)
  | KString s => "c,string:" ++ hex_of_bytes s
  | KFile => "c,string:" ++ hex_of_bytes file_name
  | KFunc => "c,string:" ++ hex_of_bytes (LexDefs.bytes_of_string "NOT_IN_FUNCTION")
  | KClass => "c,string:" ++ hex_of_bytes (LexDefs.bytes_of_string "NOT_IN_CLASS")
  | KPlaceholder => "m,placeholder"
  end.
Definition show_loc (l1 c1 l2 c2 : Z) : string := dec_of_z l1 ++ ":" ++ dec_of_z c1 ++ "-" ++ dec_of_z l2 ++ ":" ++ dec_of_z c2.
Definition show_token (t : token) (e : Position) : string :=
  match t with
  | TConstant text l1 c1 v => "( Constant t=" ++ hex_of_bytes text ++ " l=" ++ show_loc l1 c1 (line e) (col e) ++ " k=" ++ show_const v ++ " )"
  | TId text l1 c1 => "( Id t=" ++ hex_of_bytes text ++ " l=" ++ show_loc l1 c1 (line e) (col e) ++ " )"
  end.
Definition tok_start (t : token) : Z * Z := match t with TConstant _ l c _ | TId _ l c => (l, c) end.
Definition show_crash (k : crash) : string :=
  match k with OOB_dec => "OOB_dec" | OOB_read => "OOB_read" | Foreign_out_of_range => "std:out_of_range"
          | Foreign_invalid_argument => "std:invalid_argument" | Terminate => "terminate" end.
Definition show_err (r : string) (l c : Z) : string :=
  "ERR(eval_error) " ++ hex_of_bytes (LexDefs.bytes_of_string r) ++ " " ++ dec_of_z l ++ ":" ++ dec_of_z c ++ " "
  ++ (if (l =? 0) && (c =? 0) then "-" else hex_of_bytes file_name).

Definition MU := M unit.
Definition st0 (b : list N) : state unit := mkState (pos_begin b) 0 tt.

Definition whole (node : string) (l1 c1 : Z) (e : Position) : string :=
  if Nat.eqb (remaining e) 0 then "OK ( File t=- l=" ++ show_loc l1 c1 (line e) (col e) ++ " " ++ node ++ " )"
  else "PARTIAL rem=" ++ dec_of_nat (remaining e) ++ " " ++ node.

Definition show_qs (q : qstring) (e : Position) : string :=
  match qs_segs q, qs_final q with
  | [], QFin tail => whole (show_token (TConstant tail (qs_l q) (qs_c q) (KString tail)) e) (qs_l q) (qs_c q) e
  | [], QErr r l c => show_err r l c
  | segs, fin =>
      "INTERP rem=" ++ dec_of_nat (remaining e) ++ " " ++ join "," (map (fun s => hex_of_bytes (fst s) ++ ":" ++ hex_of_bytes (snd s)) segs) ++ " "
      ++ match fin with QFin tail => "FIN:" ++ hex_of_bytes tail | QErr r l c => show_err r l c end
  end.

Definition finish_tok {X} (r : outcome (option X * state unit)) (show : X -> Position -> string) (next : state unit -> string) : string :=
  match r with
  | Ok (Some t, s) => show t (pos s)
  | Ok (None, s) => next s
  | Err r l c => show_err r l c
  | Crash k => "CRASH " ++ show_crash k
  | OutOfFuel => "OUTOFFUEL"
  end.
Definition show_tok (t : token) (e : Position) : string := let '(l, c) := tok_start t in whole (show_token t e) l c e.

(* Dot_Fun_Array's order: Num || Quoted_String || Single_Quoted_String || ... || Id(false) *)
Definition run_lit (b : list N) : string :=
  finish_tok (Num A T (st0 b)) show_tok (fun s =>
  finish_tok (Quoted_String A s) show_qs (fun s =>
  finish_tok (Single_Quoted_String A s) show_tok (fun s =>
  finish_tok (Id A K false s) show_tok (fun _ => "NOTOK")))).

Definition run_idv (off : nat) (b : list N) : string :=
  let s := mkState (pos_add (pos_begin b) off) 0 tt in
  finish_tok (Id A K true s) (fun t e => "ID rem=" ++ dec_of_nat (remaining e) ++ " " ++ show_token t e) (fun _ => "NOTOK").

Definition run_line (l : string) : string :=
  let w := words l in
  let cmd := nth_word 0 w in
  if String.eqb cmd "lit" then
    match bytes_of_hex (nth_word 1 w) with Some s => run_lit s | None => "BADCASE" end
  else if String.eqb cmd "idv" then
    match z_of_dec (nth_word 1 w), bytes_of_hex (nth_word 2 w) with
    | Some o, Some s => run_idv (Z.to_nat o) s
    | _, _ => "BADCASE"
    end
  else if String.eqb cmd "fnv" then
    match bytes_of_hex (nth_word 1 w) with Some s => dec_of_N (fnv1a (fnv_basis K) (fnv_prime K) s) | None => "BADCASE" end
  else "BADCASE".
