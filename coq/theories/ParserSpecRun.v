(* C01 — executable *specification* (oracle side; independent of the regenerated tables and of the scanners/grammar):
     trivia <hex input>   -> TRIVIA | TEXT      does the input consist of spaces, tabs, line ends, comments and annotations only?
                           followed by <line>:<col> of the END of the input (1 + number of LF bytes, 1 + bytes since the last LF:
                           LexDefs.count_nl / since_nl, the definitions wf_pos is stated with)
   (ParserDefs.trivia_only: a six-state automaton written from the property text, not from the parser) *)
From Coq Require Import ZArith NArith List Bool String Ascii.
From ChaiV Require Import StrUtil LexDefs ParserDefs.
Local Open Scope string_scope.

Fixpoint span_sp (s : string) : string * string :=
  match s with
  | EmptyString => ("", "")
  | String c r => if Ascii.eqb c " " then ("", r) else let '(w, rest) := span_sp r in (String c w, rest)
  end.
Fixpoint unhex (s : string) : option (list N) :=
  match s with
  | EmptyString => Some nil
  | String a (String b r) =>
      match hexval a, hexval b, unhex r with
      | Some x, Some y, Some l => Some (cons (16 * x + y)%N l)
      | _, _, _ => None
      end
  | _ => None
  end.

(* line splitting and hex decoding are done here, linearly (StrUtil.words / bytes_of_hex are quadratic in the line length) *)
Definition run_line (l : string) : string :=
  let '(cmd, r1) := span_sp l in
  let '(f1, _) := span_sp r1 in
  if String.eqb cmd "trivia" then
    match (if String.eqb f1 "-" then Some nil else unhex f1) with
    | Some b => (if trivia_only b then "TRIVIA " else "TEXT ") ++ dec_of_z (1 + count_nl b)%Z ++ ":" ++ dec_of_z (1 + Z.of_nat (since_nl b))%Z
    | None => "BADCASE"
    end
  else "BADCASE".
