(* C01 — executable *specification* (oracle side; independent of the regenerated tables and of the scanners/grammar):
     trivia <hex input>   -> TRIVIA | TEXT      does the input consist of spaces, tabs, line ends, comments and annotations only?
                           followed by <line>:<col> of the END of the input (1 + number of LF bytes, 1 + bytes since the last LF:
                           LexDefs.count_nl / since_nl, the definitions wf_pos is stated with)
   (ParserDefs.trivia_only: a six-state automaton written from the property text, not from the parser) *)
From Coq Require Import ZArith NArith List Bool String.
From ChaiV Require Import StrUtil LexDefs ParserDefs.
Local Open Scope string_scope.

Definition run_line (l : string) : string :=
  let w := words l in
  if String.eqb (nth_word 0 w) "trivia" then
    match bytes_of_hex (nth_word 1 w) with
    | Some b => (if trivia_only b then "TRIVIA " else "TEXT ") ++ dec_of_z (1 + count_nl b)%Z ++ ":" ++ dec_of_z (1 + Z.of_nat (since_nl b))%Z
    | None => "BADCASE"
    end
  else "BADCASE".
