(* C05 — model of Boxed_Number arithmetic.
   The *tables* (which opcode applies which C++ operator, under which guards,
   in which section of Boxed_Number::go) are regenerated from the source into
   Gen/G_NumTables.v; this file gives them meaning: the C++ arithmetic on the
   eleven Common_Types (LP64), with traps and undefined behaviour explicit. *)
From Coq Require Import ZArith List Bool String Floats.SpecFloat.
Import ListNotations.
Local Open Scope Z_scope.

Inductive opcode :=
| equals | less_than | greater_than | less_than_equal | greater_than_equal | not_equal
| assign | pre_increment | pre_decrement | assign_product | assign_sum | assign_quotient | assign_difference
| assign_bitwise_and | assign_bitwise_or | assign_shift_left | assign_shift_right | assign_remainder | assign_bitwise_xor
| shift_left | shift_right | remainder | bitwise_and | bitwise_or | bitwise_xor | bitwise_complement
| sum | quotient | product | difference | unary_plus | unary_minus | invalid.

Definition opcode_eq_dec (a b : opcode) : {a = b} + {a <> b}.
Proof. decide equality. Defined.
Definition opcode_eqb a b := if opcode_eq_dec a b then true else false.

(* the C++ operator a case of go() applies to (c_lhs, c_rhs) *)
Inductive cbin := CEq | CLt | CGt | CLe | CGe | CNe | CAdd | CSub | CMul | CDiv | CRem | CShl | CShr | CAnd | COr | CXor.
Inductive cun := UNeg | UPlus | UCompl | UInc | UDec.
(* ABin c: `return const_var(c_lhs c c_rhs)`;  AAsg (Some c): `*t_lhs c= c_rhs; return t_bv`; AAsg None: `*t_lhs = c_rhs` *)
Inductive action := ABin (c : cbin) | AAsg (c : option cbin).

Definition cbin_eq_dec (a b : cbin) : {a = b} + {a <> b}.
Proof. decide equality. Defined.
Definition action_eqb (a b : action) : bool :=
  match a, b with
  | ABin x, ABin y => if cbin_eq_dec x y then true else false
  | AAsg None, AAsg None => true
  | AAsg (Some x), AAsg (Some y) => if cbin_eq_dec x y then true else false
  | _, _ => false
  end.

Record row := mkrow { r_op : opcode; r_act : action;
                      r_gzero : bool;    (* check_divide_by_zero(c_rhs) precedes the operation *)
                      r_govf : bool;     (* check_divide_overflow(lhs, c_rhs) precedes it *)
                      r_intonly : bool;  (* sits under `if constexpr (!floating<LHS> && !floating<RHS>)` *)
                      r_inplace : bool   (* sits under `if (t_lhs)` *) }.
Record urow := mkurow { u_op : opcode; u_act : cun; u_intonly : bool; u_inplace : bool }.

(* ---------------------------------------------------------------- types *)
Inductive fk := F32 | F64 | F80.
Inductive nty := TI (w : Z) (s : bool) | TF (k : fk) | TBool.
Inductive nval := VI (z : Z) | VF (f : spec_float).

Definition fprec k := match k with F32 => 24 | F64 => 53 | F80 => 64 end.
Definition femax k := match k with F32 => 128 | F64 => 1024 | F80 => 16384 end.
Definition fk_rank k := match k with F32 => 1 | F64 => 2 | F80 => 3 end.

Definition wf_width w := (w =? 8) || (w =? 16) || (w =? 32) || (w =? 64).
Definition min_of w (s : bool) := if s then - 2 ^ (w - 1) else 0.
Definition max_of w (s : bool) := if s then 2 ^ (w - 1) - 1 else 2 ^ w - 1.
Definition in_range w s z := (min_of w s <=? z) && (z <=? max_of w s).
Definition wrap w (s : bool) z :=
  let m := z mod 2 ^ w in if s && (2 ^ (w - 1) <=? m) then m - 2 ^ w else m.

Definition wf_val (t : nty) (v : nval) : bool :=
  match t, v with
  | TI w s, VI z => wf_width w && in_range w s z
  | TBool, VI z => (z =? 0) || (z =? 1)
  | TF _, VF _ => true
  | _, _ => false
  end.

Definition is_float t := match t with TF _ => true | _ => false end.
Definition promote t := match t with TI w s => if w <? 32 then TI 32 true else TI w s | TBool => TI 32 true | _ => t end.

(* [expr.arith.conv] usual arithmetic conversions, LP64 widths *)
Definition common (t1 t2 : nty) : nty :=
  match t1, t2 with
  | TF a, TF b => TF (if fk_rank a <? fk_rank b then b else a)
  | TF a, _ => TF a
  | _, TF b => TF b
  | _, _ =>
      match promote t1, promote t2 with
      | TI w1 s1, TI w2 s2 =>
          if Bool.eqb s1 s2 then TI (Z.max w1 w2) s1
          else let wu := if s1 then w2 else w1 in
               let ws := if s1 then w1 else w2 in
               if ws <=? wu then TI wu false else TI ws true
      | _, _ => TBool
      end
  end.

(* ---------------------------------------------------------------- conversions *)
Definition f_of_Z k z := binary_normalize (fprec k) (femax k) z 0 false.
Definition f_conv (k : fk) (f : spec_float) : spec_float :=
  match f with
  | S754_finite s m e => binary_normalize (fprec k) (femax k) (if s then Z.neg m else Z.pos m) e s
  | _ => f
  end.
Definition f_trunc (f : spec_float) : option Z :=
  match f with
  | S754_zero _ => Some 0
  | S754_finite s m e =>
      let a := if 0 <=? e then Z.pos m * 2 ^ e else Z.pos m / 2 ^ (- e) in
      Some (if s then - a else a)
  | _ => None
  end.

(* None = the conversion is undefined behaviour in C++ (float -> integer out of range / NaN) *)
Definition convert (from : nty) (v : nval) (to : nty) : option nval :=
  match to, v with
  | TI w s, VI z => Some (VI (wrap w s z))
  | TBool, VI z => Some (VI (if z =? 0 then 0 else 1))
  | TF k, VI z => Some (VF (f_of_Z k z))
  | TI w s, VF f => match f_trunc f with
                    | Some z => if in_range w s z then Some (VI z) else None
                    | None => None end
  | TBool, VF f => match SFcompare f (S754_zero false) with Some Eq => Some (VI 0) | _ => Some (VI 1) end
  | TF k, VF f => Some (VF (f_conv k f))
  end.

(* ---------------------------------------------------------------- outcomes *)
Inductive outcome :=
| Val (t : nty) (v : nval)
| ArithErr        (* chaiscript::exception::arithmetic_error *)
| UB              (* C++ leaves the result undefined and the CPU does not trap: excluded by the property *)
| Trap            (* the CPU traps: SIGFPE *)
| Reject.         (* bad_any_cast from go(): operator not applicable to these operands *)

Definition vbool (b : bool) := Val TBool (VI (if b then 1 else 0)).

Definition int_bin (c : cbin) (w : Z) (s : bool) (a b : Z) : outcome :=
  let arith r := if s then (if in_range w s r then Val (TI w s) (VI r) else UB) else Val (TI w s) (VI (wrap w s r)) in
  match c with
  | CEq => vbool (a =? b) | CNe => vbool (negb (a =? b))
  | CLt => vbool (a <? b) | CGt => vbool (b <? a) | CLe => vbool (a <=? b) | CGe => vbool (b <=? a)
  | CAdd => arith (a + b) | CSub => arith (a - b) | CMul => arith (a * b)
  | CDiv => if b =? 0 then Trap else if s && (b =? -1) && (a =? min_of w s) then Trap else Val (TI w s) (VI (Z.quot a b))
  | CRem => if b =? 0 then Trap else if s && (b =? -1) && (a =? min_of w s) then Trap else Val (TI w s) (VI (Z.rem a b))
  | CAnd => Val (TI w s) (VI (Z.land a b))
  | COr => Val (TI w s) (VI (Z.lor a b))
  | CXor => Val (TI w s) (VI (Z.lxor a b))
  | CShl | CShr => Reject (* handled by shift_bin: the result type is the promoted left operand *)
  end.

Definition shift_bin (left : bool) (w : Z) (s : bool) (a b : Z) : outcome :=
  if (b <? 0) || (w <=? b) then UB
  else if left then
         if s then (if (a <? 0) then UB else if in_range w s (a * 2 ^ b) then Val (TI w s) (VI (a * 2 ^ b)) else UB)
         else Val (TI w s) (VI (wrap w s (a * 2 ^ b)))
       else Val (TI w s) (VI (Z.shiftr a b)).

Definition float_bin (c : cbin) (k : fk) (a b : spec_float) : outcome :=
  let p := fprec k in let e := femax k in
  let cmp := SFcompare a b in
  match c with
  | CEq => vbool (match cmp with Some Eq => true | _ => false end)
  | CNe => vbool (match cmp with Some Eq => false | _ => true end)
  | CLt => vbool (match cmp with Some Lt => true | _ => false end)
  | CGt => vbool (match cmp with Some Gt => true | _ => false end)
  | CLe => vbool (match cmp with Some Lt | Some Eq => true | _ => false end)
  | CGe => vbool (match cmp with Some Gt | Some Eq => true | _ => false end)
  | CAdd => Val (TF k) (VF (SFadd p e a b))
  | CSub => Val (TF k) (VF (SFsub p e a b))
  | CMul => Val (TF k) (VF (SFmul p e a b))
  | CDiv => Val (TF k) (VF (SFdiv p e a b))
  | _ => Reject (* %, shifts and bitwise operators are ill-formed on floating operands *)
  end.

Definition is_shift c := match c with CShl | CShr => true | _ => false end.

(* `c_lhs c c_rhs` on typed operands *)
Definition cbin_eval (c : cbin) (t1 : nty) (v1 : nval) (t2 : nty) (v2 : nval) : outcome :=
  if is_shift c then
    match promote t1, promote t2 with
    | TI w s, TI w2 s2 =>
        match convert t1 v1 (TI w s), convert t2 v2 (TI w2 s2) with
        | Some (VI a), Some (VI b) => shift_bin (match c with CShl => true | _ => false end) w s a b
        | _, _ => UB
        end
    | _, _ => Reject
    end
  else
    let ct := common t1 t2 in
    match convert t1 v1 ct, convert t2 v2 ct with
    | Some (VI a), Some (VI b) => match ct with TI w s => int_bin c w s a b | _ => Reject end
    | Some (VF a), Some (VF b) => match ct with TF k => float_bin c k a b | _ => Reject end
    | _, _ => UB
    end.

(* `*t_lhs c= c_rhs` : the binary result converted back to the left type and stored *)
Definition casg_eval (oc : option cbin) (t1 : nty) (v1 : nval) (t2 : nty) (v2 : nval) : outcome * nval :=
  match oc with
  | None => match convert t2 v2 t1 with Some v => (Val t1 v, v) | None => (UB, v1) end
  | Some c =>
      match cbin_eval c t1 v1 t2 v2 with
      | Val tr vr => match convert tr vr t1 with Some v => (Val t1 v, v) | None => (UB, v1) end
      | o => (o, v1)
      end
  end.

Definition cun_eval (u : cun) (t : nty) (v : nval) : outcome * nval :=
  match u with
  | UNeg | UPlus | UCompl =>
      let pt := promote t in
      (match pt, convert t v pt with
       | TI w s, Some (VI a) =>
           match u with
           | UPlus => Val pt (VI a)
           | UNeg => if s then (if in_range w s (- a) then Val pt (VI (- a)) else UB) else Val pt (VI (wrap w s (- a)))
           | _ => Val pt (VI (if s then Z.lnot a else wrap w s (Z.lnot a)))
           end
       | TF k, Some (VF f) =>
           match u with UPlus => Val pt (VF f) | UNeg => Val pt (VF (SFopp f)) | _ => Reject end
       | _, _ => UB
       end, v)
  | UInc | UDec =>
      let d := match u with UInc => 1 | _ => -1 end in
      match t, v with
      | TI w s, VI a =>
          if (w <? 32) || negb s then let r := wrap w s (a + d) in (Val t (VI r), VI r)
          else if in_range w s (a + d) then (Val t (VI (a + d)), VI (a + d)) else (UB, v)
      | TF k, VF f => let r := SFadd (fprec k) (femax k) f (f_of_Z k d) in (Val t (VF r), VF r)
      | _, _ => (Reject, v)
      end
  end.

(* ---------------------------------------------------------------- the guards, as written in the source *)
(* check_divide_by_zero(c_rhs): `if constexpr (!floating<T>) if (t == 0) throw` *)
Definition guard_zero (t2 : nty) (v2 : nval) : bool :=
  match t2, v2 with TF _, _ => false | _, VI z => z =? 0 | _, _ => false end.
(* check_divide_overflow(l, r): both integral, Common = decltype(l / r) signed,
   static_cast<Common>(r) == -1 && static_cast<Common>(l) == min *)
Definition guard_ovf (t1 : nty) (v1 : nval) (t2 : nty) (v2 : nval) : bool :=
  if is_float t1 || is_float t2 then false
  else match common t1 t2 with
       | TI w true => match convert t1 v1 (TI w true), convert t2 v2 (TI w true) with
                      | Some (VI a), Some (VI b) => (b =? -1) && (a =? min_of w true)
                      | _, _ => false end
       | _ => false
       end.

(* ---------------------------------------------------------------- interpretation of a regenerated row *)
Definition interp_row (r : row) (mutable_lhs : bool) t1 v1 t2 v2 : outcome * nval :=
  if r_intonly r && (is_float t1 || is_float t2) then (Reject, v1)
  else if r_inplace r && negb mutable_lhs then (Reject, v1)
  else if r_gzero r && guard_zero t2 v2 then (ArithErr, v1)
  else if r_govf r && guard_ovf t1 v1 t2 v2 then (ArithErr, v1)
  else match r_act r with
       | ABin c => (cbin_eval c t1 v1 t2 v2, v1)
       | AAsg oc => casg_eval oc t1 v1 t2 v2
       end.

Definition interp_go (tbl : list row) (op : opcode) (mutable_lhs : bool) t1 v1 t2 v2 : outcome * nval :=
  match find (fun r => opcode_eqb (r_op r) op) tbl with
  | Some r => interp_row r mutable_lhs t1 v1 t2 v2
  | None => (Reject, v1)
  end.

Definition interp_urow (r : urow) (mutable_lhs : bool) t v : outcome * nval :=
  if u_intonly r && is_float t then (Reject, v)
  else if u_inplace r && negb mutable_lhs then (Reject, v)
  else cun_eval (u_act r) t v.

Definition interp_unary (tbl : list urow) (op : opcode) (mutable_lhs : bool) t v : outcome * nval :=
  match find (fun r => opcode_eqb (u_op r) op) tbl with
  | Some r => interp_urow r mutable_lhs t v
  | None => (Reject, v)
  end.

(* ---------------------------------------------------------------- what the property demands *)
Definition act_divlike a := match a with ABin CDiv | ABin CRem | AAsg (Some CDiv) | AAsg (Some CRem) => true | _ => false end.
Definition cbin_intonly c := match c with CRem | CShl | CShr | CAnd | COr | CXor => true | _ => false end.
Definition act_intonly a := match a with ABin c | AAsg (Some c) => cbin_intonly c | AAsg None => false end.
Definition act_inplace a := match a with AAsg _ => true | _ => false end.

Definition trap_to_err (o : outcome) := match o with Trap => ArithErr | _ => o end.

(* The specification of one (operator, operands) cell: C++'s value; a trapping integer
   operation is an arithmetic_error; ill-formed combinations and const left operands of
   in-place operators are rejected; dividing a floating value by an *integer* zero is
   undefined in C++ ([expr.mul]/4) and therefore outside the statement. *)
Definition spec_row (a : action) (mutable_lhs : bool) t1 v1 t2 v2 : outcome * nval :=
  if act_intonly a && (is_float t1 || is_float t2) then (Reject, v1)
  else if act_inplace a && negb mutable_lhs then (Reject, v1)
  else if act_divlike a && (is_float t1 || is_float t2) && guard_zero t2 v2 then (UB, v1)
  else match a with
       | ABin c => (trap_to_err (cbin_eval c t1 v1 t2 v2), v1)
       | AAsg oc => let '(o, v) := casg_eval oc t1 v1 t2 v2 in (trap_to_err o, v)
       end.

(* what the opcode's *name* says it is *)
Definition expected_action (op : opcode) : option action :=
  match op with
  | equals => Some (ABin CEq) | less_than => Some (ABin CLt) | greater_than => Some (ABin CGt)
  | less_than_equal => Some (ABin CLe) | greater_than_equal => Some (ABin CGe) | not_equal => Some (ABin CNe)
  | sum => Some (ABin CAdd) | difference => Some (ABin CSub) | product => Some (ABin CMul) | quotient => Some (ABin CDiv)
  | remainder => Some (ABin CRem) | shift_left => Some (ABin CShl) | shift_right => Some (ABin CShr)
  | bitwise_and => Some (ABin CAnd) | bitwise_or => Some (ABin COr) | bitwise_xor => Some (ABin CXor)
  | assign => Some (AAsg None) | assign_sum => Some (AAsg (Some CAdd)) | assign_difference => Some (AAsg (Some CSub))
  | assign_product => Some (AAsg (Some CMul)) | assign_quotient => Some (AAsg (Some CDiv))
  | assign_remainder => Some (AAsg (Some CRem)) | assign_shift_left => Some (AAsg (Some CShl))
  | assign_shift_right => Some (AAsg (Some CShr)) | assign_bitwise_and => Some (AAsg (Some CAnd))
  | assign_bitwise_or => Some (AAsg (Some COr)) | assign_bitwise_xor => Some (AAsg (Some CXor))
  | _ => None
  end.
Definition expected_unary (op : opcode) : option cun :=
  match op with
  | unary_minus => Some UNeg | unary_plus => Some UPlus | bitwise_complement => Some UCompl
  | pre_increment => Some UInc | pre_decrement => Some UDec | _ => None
  end.

Definition adequate (r : row) : bool :=
  match expected_action (r_op r) with
  | Some a => action_eqb (r_act r) a && Bool.eqb (r_gzero r) (act_divlike a) && Bool.eqb (r_govf r) (act_divlike a)
              && Bool.eqb (r_intonly r) (act_intonly a) && Bool.eqb (r_inplace r) (act_inplace a)
  | None => false
  end.
Definition cun_eqb (a b : cun) := match a, b with UNeg, UNeg | UPlus, UPlus | UCompl, UCompl | UInc, UInc | UDec, UDec => true | _, _ => false end.
Definition uadequate (r : urow) : bool :=
  match expected_unary (u_op r) with
  | Some a => cun_eqb (u_act r) a && Bool.eqb (u_intonly r) (match a with UCompl => true | _ => false end)
              && Bool.eqb (u_inplace r) (match a with UInc | UDec => true | _ => false end)
  | None => false
  end.

Definition binary_opcodes : list opcode :=
  [equals; less_than; greater_than; less_than_equal; greater_than_equal; not_equal; assign; assign_product; assign_sum;
   assign_quotient; assign_difference; assign_bitwise_and; assign_bitwise_or; assign_shift_left; assign_shift_right;
   assign_remainder; assign_bitwise_xor; shift_left; shift_right; remainder; bitwise_and; bitwise_or; bitwise_xor;
   sum; quotient; product; difference].
Definition unary_opcodes : list opcode := [pre_increment; pre_decrement; bitwise_complement; unary_plus; unary_minus].

(* ---------------------------------------------------------------- operator text <-> opcode (routes) *)
Local Open Scope string_scope.
Definition cbin_text c := match c with
  | CEq => "==" | CLt => "<" | CGt => ">" | CLe => "<=" | CGe => ">=" | CNe => "!=" | CAdd => "+" | CSub => "-" | CMul => "*"
  | CDiv => "/" | CRem => "%" | CShl => "<<" | CShr => ">>" | CAnd => "&" | COr => "|" | CXor => "^" end.
Definition action_text a := match a with ABin c => cbin_text c | AAsg None => "=" | AAsg (Some c) => cbin_text c ++ "=" end.
Definition cun_text u := match u with UNeg => "-" | UPlus => "+" | UCompl => "~" | UInc => "++" | UDec => "--" end.
Definition opcode_text (op : opcode) : option string :=
  match expected_action op, expected_unary op with
  | Some a, _ => Some (action_text a)
  | _, Some u => Some (cun_text u)
  | _, _ => None
  end.
Definition opcode_arity (op : opcode) : nat :=
  match expected_unary op with Some _ => 1%nat | None => 2%nat end.

(* to_operator table entries: text, opcode when binary, opcode when unary *)
Definition to_operator (tbl : list (string * opcode * opcode)) (text : string) (unary : bool) : opcode :=
  match find (fun e => String.eqb (fst (fst e)) text) tbl with
  | Some (_, b, u) => if unary then u else b
  | None => invalid
  end.

(* ---------------------------------------------------------------- the type ladder (LP64, x86-64 Linux; asserted by the harness at run time) *)
Definition cxx_type_info (name : string) : option nty :=
  let T := Some in
  if String.eqb name "int" then T (TI 32 true) else if String.eqb name "uint" then T (TI 32 false)
  else if String.eqb name "long" then T (TI 64 true) else if String.eqb name "ulong" then T (TI 64 false)
  else if String.eqb name "llong" then T (TI 64 true) else if String.eqb name "ullong" then T (TI 64 false)
  else if String.eqb name "char" then T (TI 8 true) else if String.eqb name "uchar" then T (TI 8 false)
  else if String.eqb name "wchar" then T (TI 32 true) else if String.eqb name "char16" then T (TI 16 false)
  else if String.eqb name "char32" then T (TI 32 false)
  else if String.eqb name "int8" then T (TI 8 true) else if String.eqb name "uint8" then T (TI 8 false)
  else if String.eqb name "int16" then T (TI 16 true) else if String.eqb name "uint16" then T (TI 16 false)
  else if String.eqb name "int32" then T (TI 32 true) else if String.eqb name "uint32" then T (TI 32 false)
  else if String.eqb name "int64" then T (TI 64 true) else if String.eqb name "uint64" then T (TI 64 false)
  else if String.eqb name "float" then T (TF F32) else if String.eqb name "double" then T (TF F64)
  else if String.eqb name "ldouble" then T (TF F80) else None.

(* Common_Types enumerator (without the t_ prefix) -> the type it stands for; also used for the
   fixed-width spellings int32_t ... that visit() reads operands as *)
Definition common_types_ty (name : string) : option nty :=
  if String.eqb name "long_double" || String.eqb name "long double" then Some (TF F80)
  else if String.eqb name "double" then Some (TF F64) else if String.eqb name "float" then Some (TF F32)
  else let n := if String.eqb (substring (Nat.sub (String.length name) 2) 2 name) "_t" then substring 0 (Nat.sub (String.length name) 2) name else name in
       match cxx_type_info n with Some (TI w s) => Some (TI w s) | _ => None end.

Definition size_of (t : nty) : Z := match t with TI w _ => w / 8 | _ => 0 end.
Definition signed_of (t : nty) : bool := match t with TI _ s => s | _ => false end.

Definition resolve_size_chain (chain : list (Z * bool * string)) (dflt : string) (sz : Z) (sg : bool) : option nty :=
  match find (fun e => let '(z, need_signed, _) := e in Z.eqb z sz && (negb need_signed || sg)) chain with
  | Some (_, _, t) => common_types_ty t
  | None => common_types_ty dflt
  end.
