(* C13 — executable specification side: sequential histories of engine-table operations against the state-transformer
   model of ConcDefs (independent of gen/).  One history per line in, one canonical observation per line out; same
   format as harness/h_threads.cpp `seq`.
     tokens:  F:name:k  script function with k parameters        C:name:k  C++ function number k (fid 100+k)
              G:name:v  add_global   K:name:v  add_global_const  S:name:v  set_global
              T:name:k  add(user_type<VT<k>>, name)              V:a:b     add(type_conversion<VT<a>,VT<b>>)
              U:f       use(file f)                              N / M     get_state (kept) / set_state (of the kept one)
              L:name  Q:name  Y:name  H:a:b   lookups of a function / global / type / conversion *)
From Coq Require Import ZArith List Bool String Ascii.
From ChaiV Require Import StrUtil ConcDefs.
Import ListNotations.
Local Open Scope list_scope.
Local Open Scope string_scope.

Definition nat_of_dec (s : string) : option nat :=
  match z_of_dec s with Some z => if (z <? 0)%Z then None else Some (Z.to_nat z) | None => None end.

Fixpoint insert_sorted (x : nat) (l : list nat) : list nat :=
  match l with
  | [] => [x]
  | y :: r => if Nat.leb x y then x :: l else y :: insert_sorted x r
  end.
Definition sort_nats (l : list nat) : list nat := fold_right insert_sorted [] l.

Definition show_nats (l : list nat) : string := join "," (map dec_of_nat l).
Definition show_gval (v : gval) : string :=
  match v with GInt n c => dec_of_nat n ++ (if c then "c" else "m") | GType k => "type:" ++ dec_of_nat k end.

Definition show_res (r : res) : string :=
  match r with
  | ROk => "ok" | RConflict => "conflict" | RNoSnap => "nosnap"
  | RFuns l => "n=" ++ dec_of_nat (List.length l) ++ "[" ++ show_nats (sort_nats l) ++ "]"
  | RGlobal None => "none" | RGlobal (Some v) => "v=" ++ show_gval v
  | RType None => "none" | RType (Some k) => "k=" ++ dec_of_nat k
  | RBool true => "yes" | RBool false => "no"
  end.

(* one request = the sections one API call performs; a failed section aborts the rest of the call *)
Definition request (tok : string) : option (list op) :=
  match split_on ":"%char tok EmptyString with
  | ["F"; n; k] => match nat_of_dec k with Some k => Some [AddFun n k] | None => None end
  | ["C"; n; k] => match nat_of_dec k with Some k => Some [AddFun n (100 + k)] | None => None end
  | ["G"; n; v] => match nat_of_dec v with Some v => Some [AddGlobal n v] | None => None end
  | ["K"; n; v] => match nat_of_dec v with Some v => Some [AddGlobalConst n (GInt v true)] | None => None end
  | ["S"; n; v] => match nat_of_dec v with Some v => Some [SetGlobal n v] | None => None end
  | ["T"; n; k] => match nat_of_dec k with Some k => Some [AddGlobalConst (n ++ "_type") (GType k); AddTypeEntry n k] | None => None end
  | ["V"; a; b] => match nat_of_dec a, nat_of_dec b with Some a, Some b => Some [AddConv a b] | _, _ => None end
  | ["U"; f] => match nat_of_dec f with Some f => Some [UseFile f] | None => None end
  | ["N"] => Some [Snap]
  | ["M"] => Some [Restore]
  | ["L"; n] => Some [GetFun n]
  | ["Q"; n] => Some [GetGlobal n]
  | ["Y"; n] => Some [GetType n]
  | ["H"; a; b] => match nat_of_dec a, nat_of_dec b with Some a, Some b => Some [HasConv a b] | _, _ => None end
  | _ => None
  end.

Fixpoint run_request (ops : list op) (e : engine) : engine * res :=
  match ops with
  | [] => (e, ROk)
  | [o] => apply_op o e
  | o :: r => let (e1, r1) := apply_op o e in
              match r1 with RConflict => (e1, r1) | RNoSnap => (e1, r1) | _ => run_request r e1 end
  end.

Definition count_occ_nat (x : nat) (l : list nat) : nat := List.length (filter (Nat.eqb x) l).

Definition inventory (e : engine) : string :=
  let t := e_tab e in
  "F[ " ++ join " " (map (fun nv => fst nv ++ ":" ++ show_nats (sort_nats (snd nv))) (t_funs t)) ++
  " ] G[ " ++ join " " (map (fun nv => fst nv ++ "=" ++ show_gval (snd nv)) (t_globals t)) ++
  " ] T[ " ++ join " " (map (fun nv => fst nv ++ "=" ++ dec_of_nat (snd nv)) (t_types t)) ++
  " ] V[ " ++ join " " (map (fun ab => dec_of_nat (fst ab) ++ ">" ++ dec_of_nat (snd ab)) (e_convs e)) ++
  " ] U[ " ++ join " " (map dec_of_nat (t_used t)) ++
  " ] E[ " ++ join " " (map dec_of_nat (e_evals e)) ++ " ]".

Definition step_tok (st : engine * list string) (tok : string) : engine * list string :=
  let (e, out) := st in
  match request tok with
  | Some ops => let (e1, r) := run_request ops e in (e1, show_res r :: out)
  | None => (e, "?" :: out)
  end.

Definition spec_line (l : string) : string :=
  match words l with
  | "seq" :: toks =>
      let (e, out) := fold_left step_tok (filter (fun t => negb (String.eqb t "")) toks) (empty_engine, []) in
      join " " (rev out) ++ " | " ++ inventory e
  | _ => "?"
  end.
