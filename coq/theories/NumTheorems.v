(* C05 — the theorems about the tables regenerated from the source (Gen/G_NumTables.v). *)
From Coq Require Import ZArith List Bool String Lia.
From ChaiV Require Import NumDefs NumProofs.
From ChaiV.Gen Require Import G_NumTables.
Import ListNotations.
Local Open Scope Z_scope.

Definition find_row (op : opcode) := find (fun r => opcode_eqb (r_op r) op) go_table.
Definition find_urow (op : opcode) := find (fun r => opcode_eqb (u_op r) op) unary_table.

(* finite facts about today's tables, decided by computation *)
Lemma go_table_adequate : forallb adequate go_table = true.
Proof. vm_compute. reflexivity. Qed.

Lemma go_table_complete :
  forallb (fun op => match find_row op with Some r => opcode_eqb (r_op r) op && adequate r | None => false end) binary_opcodes = true.
Proof. vm_compute. reflexivity. Qed.

Lemma unary_table_complete :
  forallb (fun op => match find_urow op with Some r => opcode_eqb (u_op r) op && uadequate r | None => false end) unary_opcodes = true.
Proof. vm_compute. reflexivity. Qed.

Lemma opcode_eqb_eq a b : opcode_eqb a b = true -> a = b.
Proof. unfold opcode_eqb; destruct (opcode_eq_dec a b); [auto|discriminate]. Qed.

Lemma find_row_adequate op r : find_row op = Some r -> adequate r = true /\ r_op r = op.
Proof.
  intros H. unfold find_row in H. apply find_some in H. destruct H as [Hin He].
  split; [|apply opcode_eqb_eq; assumption].
  pose proof go_table_adequate as A. rewrite forallb_forall in A. apply A; assumption.
Qed.

Theorem value_thm :
  forall op a m t1 v1 t2 v2,
    In op binary_opcodes -> expected_action op = Some a ->
    operand_ty t1 = true -> operand_ty t2 = true -> wf_val t1 v1 = true -> wf_val t2 v2 = true ->
    fst (spec_row a m t1 v1 t2 v2) <> UB ->
    interp_go go_table op m t1 v1 t2 v2 = spec_row a m t1 v1 t2 v2.
Proof.
  intros op a m t1 v1 t2 v2 Hin Ha O1 O2 W1 W2 Hub.
  pose proof go_table_complete as C. rewrite forallb_forall in C. specialize (C op Hin).
  unfold interp_go. fold (find_row op). destruct (find_row op) as [r|] eqn:F; [|discriminate].
  apply andb_prop in C. destruct C as [Ce Cad]. apply opcode_eqb_eq in Ce.
  destruct (adequate_flags r Cad) as (a' & Ha' & Fl). rewrite Ce, Ha in Ha'. inversion Ha'; subst a'.
  apply interp_row_spec; assumption.
Qed.

Theorem no_trap_thm :
  forall op m t1 v1 t2 v2,
    operand_ty t1 = true -> operand_ty t2 = true -> wf_val t1 v1 = true -> wf_val t2 v2 = true ->
    fst (interp_go go_table op m t1 v1 t2 v2) <> Trap.
Proof.
  intros op m t1 v1 t2 v2 O1 O2 W1 W2. unfold interp_go. fold (find_row op).
  destruct (find_row op) as [r|] eqn:F; [|cbn; discriminate].
  destruct (find_row_adequate op r F) as [Ad _]. destruct (adequate_flags r Ad) as (a & _ & Fl).
  eapply interp_row_no_trap; eauto.
Qed.

(* a well-defined C++ operation is never answered with a spurious arithmetic_error *)
Theorem no_spurious_error_thm :
  forall op a m t1 v1 t2 v2,
    In op binary_opcodes -> expected_action op = Some a ->
    operand_ty t1 = true -> operand_ty t2 = true -> wf_val t1 v1 = true -> wf_val t2 v2 = true ->
    (exists t v, fst (spec_row a m t1 v1 t2 v2) = Val t v) ->
    exists t v, fst (interp_go go_table op m t1 v1 t2 v2) = Val t v.
Proof.
  intros op a m t1 v1 t2 v2 Hin Ha O1 O2 W1 W2 (t & v & E).
  rewrite (value_thm op a m t1 v1 t2 v2) by (try assumption; rewrite E; discriminate). eauto.
Qed.

Definition spec_unary (u : cun) (m : bool) (t : nty) (v : nval) : outcome * nval :=
  if (match u with UCompl => true | _ => false end) && is_float t then (Reject, v)
  else if (match u with UInc | UDec => true | _ => false end) && negb m then (Reject, v)
  else cun_eval u t v.

Lemma cun_eqb_eq a b : cun_eqb a b = true -> a = b.
Proof. destruct a, b; try discriminate; reflexivity. Qed.

Theorem unary_thm :
  forall op u m t v, In op unary_opcodes -> expected_unary op = Some u ->
    interp_unary unary_table op m t v = spec_unary u m t v.
Proof.
  intros op u m t v Hin Hu.
  pose proof unary_table_complete as C. rewrite forallb_forall in C. specialize (C op Hin).
  unfold interp_unary. fold (find_urow op). destruct (find_urow op) as [r|]; [|discriminate].
  apply andb_prop in C. destruct C as [Ce Cad]. apply opcode_eqb_eq in Ce.
  unfold uadequate in Cad. rewrite Ce, Hu in Cad.
  repeat (apply andb_prop in Cad; destruct Cad as [Cad ?]).
  apply cun_eqb_eq in Cad. apply eqb_prop in H. apply eqb_prop in H0.
  unfold interp_urow, spec_unary. rewrite Cad, H, H0. reflexivity.
Qed.

(* ---------------------------------------------------------------- types *)
Definition nty_eqb (a b : nty) : bool :=
  match a, b with
  | TI w s, TI w' s' => (w =? w') && Bool.eqb s s'
  | TF F32, TF F32 | TF F64, TF F64 | TF F80, TF F80 | TBool, TBool => true
  | _, _ => false
  end.
Definition onty_eqb (a b : option nty) : bool :=
  match a, b with Some x, Some y => nty_eqb x y | _, _ => false end.

Definition resolve_ladder (name : string) (k : ladder_kind) : option nty :=
  match k, cxx_type_info name with
  | Direct t, _ => common_types_ty t
  | BySize sg, Some ti =>
      let signed := if String.eqb sg "true" then true else if String.eqb sg "false" then false else signed_of ti in
      resolve_size_chain size_chain size_chain_default (size_of ti) signed
  | _, _ => None
  end.

Definition cxx_type_names : list string :=
  ["int"; "double"; "ldouble"; "float"; "char"; "uchar"; "uint"; "long"; "llong"; "ulong"; "ullong"; "int8"; "int16"; "int32";
   "int64"; "uint8"; "uint16"; "uint32"; "uint64"; "wchar"; "char16"; "char32"]%string.
Definition common_type_names : list string :=
  ["int32"; "double"; "uint8"; "int8"; "uint16"; "int16"; "uint32"; "uint64"; "int64"; "float"; "long_double"]%string.

Lemma types_ladder_ok :
  forallb (fun e => onty_eqb (resolve_ladder (fst e) (snd e)) (cxx_type_info (fst e))) type_ladder = true.
Proof. vm_compute. reflexivity. Qed.
Lemma types_ladder_complete :
  forallb (fun n => existsb (fun e => String.eqb (fst e) n) type_ladder) cxx_type_names = true.
Proof. vm_compute. reflexivity. Qed.
Lemma visit_ok :
  forallb (fun e => onty_eqb (common_types_ty (fst e)) (common_types_ty (snd e))) visit_table = true
  /\ forallb (fun n => existsb (fun e => String.eqb (fst e) n) visit_table) common_type_names = true.
Proof. split; vm_compute; reflexivity. Qed.

Theorem types_thm :
  forall name k, In (name, k) type_ladder ->
    exists t, resolve_ladder name k = Some t /\ cxx_type_info name = Some t.
Proof.
  intros name k Hin. pose proof types_ladder_ok as A. rewrite forallb_forall in A. specialize (A _ Hin). cbn [fst snd] in A.
  unfold onty_eqb in A. destruct (resolve_ladder name k) as [x|]; [|discriminate]. destruct (cxx_type_info name) as [y|]; [|discriminate].
  exists x; split; [reflexivity|]. f_equal.
  destruct x as [w s|[]|], y as [w' s'|[]|]; cbn in A; try discriminate; try reflexivity.
  apply andb_prop in A. destruct A as [A1 A2]. apply Z.eqb_eq in A1. apply eqb_prop in A2. subst; reflexivity.
Qed.

(* ---------------------------------------------------------------- routes *)
Definition route_node (text : string) (unary : bool) : opcode := to_operator to_operator_table text unary.
Definition route_fn (text : string) (arity : nat) : option (opcode * nat) :=
  match find (fun e => let '(n, _, o, _) := e in String.eqb n text && Nat.eqb (opcode_arity o) arity) pod_table with
  | Some (_, _, o, ar) => Some (o, ar)
  | None => None
  end.

Definition route_ok (op : opcode) : bool :=
  match opcode_text op with
  | Some text =>
      let ar := opcode_arity op in
      (* the function route reaches this opcode through the oper() overload of the right arity *)
      (match route_fn text ar with Some (o, ar') => opcode_eqb o op && Nat.eqb ar' ar | None => false end)
      (* the node routes (Binary / Fold_Right / Constant_Fold / Equation / Prefix all call to_operator on the node text)
         reach the same opcode, or `invalid`, which sends the node to the function route *)
      && (let o := route_node text (Nat.eqb ar 1) in opcode_eqb o op || opcode_eqb o invalid)
  | None => false
  end.

Lemma routes_ok : forallb route_ok (binary_opcodes ++ unary_opcodes) = true.
Proof. vm_compute. reflexivity. Qed.

Theorem routes_thm :
  forall op, In op (binary_opcodes ++ unary_opcodes) ->
    exists text, opcode_text op = Some text /\
      route_fn text (opcode_arity op) = Some (op, opcode_arity op) /\
      (route_node text (Nat.eqb (opcode_arity op) 1) = op \/ route_node text (Nat.eqb (opcode_arity op) 1) = invalid).
Proof.
  intros op Hin. pose proof routes_ok as A. rewrite forallb_forall in A. specialize (A op Hin).
  unfold route_ok in A. destruct (opcode_text op) as [text|]; [|discriminate]. exists text. split; [reflexivity|].
  apply andb_prop in A. destruct A as [A1 A2].
  destruct (route_fn text (opcode_arity op)) as [[o ar']|]; [|discriminate].
  apply andb_prop in A1. destruct A1 as [B1 B2]. apply opcode_eqb_eq in B1. apply Nat.eqb_eq in B2. subst.
  split; [reflexivity|]. apply orb_prop in A2. destruct A2 as [X|X]; apply opcode_eqb_eq in X; auto.
Qed.

(* ---------------------------------------------------------------- non-vacuity *)
Example value_hyps_satisfiable :
  operand_ty (TI 32 true) = true /\ wf_val (TI 32 true) (VI (-2147483648)) = true /\ wf_val (TI 8 false) (VI 255) = true
  /\ fst (spec_row (ABin CDiv) false (TI 32 true) (VI (-2147483648)) (TI 32 true) (VI (-1))) = ArithErr
  /\ fst (spec_row (AAsg (Some CRem)) true (TI 32 true) (VI 5) (TI 32 true) (VI 0)) = ArithErr
  /\ fst (spec_row (AAsg (Some CAnd)) true (TI 32 true) (VI 5) (TI 32 true) (VI 0)) = Val (TI 32 true) (VI 0)
  /\ fst (spec_row (ABin CAdd) false (TI 8 false) (VI 255) (TI 8 true) (VI 1)) = Val (TI 32 true) (VI 256).
Proof. vm_compute. repeat split; reflexivity. Qed.
