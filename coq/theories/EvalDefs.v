(* Evaluator model, part 1: values, store, primitive effects and the program combinators.

   Store: two append-only heaps, as in the implementation —
     objects  (what a shared_ptr<T> inside Boxed_Value::Data points at), and
     data     (Boxed_Value::Data: object pointer + const flag + return-value flag);
   a Boxed_Value is the index of a data record (dloc). `assign` copies a data record (aliasing the
   object), `clone` allocates a new object.

   The semantics of every node (Eval.v) is written as a *program* built from a fixed set of
   primitive effects and a few combinators (Handle, Scoped, Framed, InCall, Loop, Ev). The
   meta-theorems (stack shape, fuel monotonicity, …) are proved once, by induction on programs,
   for the primitives and combinators; every node then inherits them. *)
From Coq Require Import ZArith NArith List Bool String Ascii Floats.SpecFloat.
From ChaiV Require Import StrUtil NumDefs NumSpecRun Ast.
Import ListNotations.
Local Open Scope string_scope.

(* ---------------------------------------------------------------- values *)
Record dloc := DL { dl : nat }.      (* a Boxed_Value: index of its Data record *)
Record oloc := OL { ol : nat }.      (* an object *)

(* what kind of function object a script definition produced:
   a Dynamic_Proxy_Function (def / lambda), or one of the non-dynamic wrappers of dynamic_object_detail.hpp *)
Inductive ckind :=
| CKPlain
| CKMethod (cls : string)            (* Dynamic_Object_Function: the first argument must be an object of class cls *)
| CKCtor (cls : string)              (* Dynamic_Object_Constructor: makes the object, then runs the body with it as `this` *)
| CKAttr (cls attr : string).        (* attribute accessor: Dynamic_Object::get_attr(attr) *)

Record closure := mkclosure {
  cl_name : string;
  cl_params : list string;
  cl_ptypes : list string;          (* declared parameter type names, "" when untyped *)
  cl_body : ast;
  cl_guard : option ast;
  cl_caps : list (string * dloc);   (* captured Boxed_Values, sorted by name (std::map) *)
  cl_this_capture : bool;
  cl_kind : ckind }.

Inductive fnobj :=
| FClosure (c : closure)
| FNamed (name : string).           (* "all overloads of name": what evaluating a function's name yields *)

Inductive obj :=
| ONum (tyname : string) (t : nty) (v : nval)
| OBool (b : bool)
| OStr (s : string)
| OVec (elems : list dloc)
| OMap (elems : list (string * dloc))
| OFun (f : fnobj)
| OVoid
| OExc (static_ty : string) (dyn_ty : string) (what : string)   (* a C++ exception object as seen by catch *)
| ODyn (cls : string) (attrs : list (string * dloc)).

Record data := mkdata { d_obj : option oloc; d_const : bool; d_ret : bool }.

Definition scope := list (string * dloc).         (* insertion ordered: QuickFlatMap *)
Definition frame := list scope.                   (* innermost scope first *)

Record cfg := mkcfg { use_hints : bool }.

Record state := mkstate {
  s_objs : list obj;
  s_data : list data;
  s_stacks : list frame;                          (* innermost call frame first *)
  s_globals : list (string * dloc);
  s_funcs : list (string * list closure);         (* overloads in dispatch order *)
  s_out : string;
  s_call_depth : nat;
  s_call_params : list (list dloc);
  s_hints : list (string * N);                    (* Id-node hint cache, keyed by node position+text *)
  s_cb : nat * option (nat * string);             (* harness callback `cb`: invocations so far; (n, kind) = throw `kind` on the n-th *)
  s_evals : list (string * ast) * nat;            (* texts eval() may be given, pre-parsed by the implementation's parser; eval() calls so far *)
  s_consts : list (string * dloc) }.              (* Constant_AST_Node::m_value: the one Boxed_Value each constant node owns, shared by all its evaluations *)

Definition init_state : state :=
  mkstate [] [] [[[]]] [] [] "" 0 [[]] [] (0, None) ([], 0) [].

(* ---------------------------------------------------------------- outcomes *)
Inductive trace_entry := TE (k : kind) (l : srcloc).
Inductive exn :=
| EBoxed (d : dloc)                                  (* throw(x): the Boxed_Value itself *)
| EEval (reason : string) (stack : list trace_entry) (* chaiscript::exception::eval_error *)
| EStd (ty : string) (what : string)                 (* arithmetic_error, out_of_range, range_error, bad_boxed_cast … *)
| EForeign (what : string).                          (* a C++ exception that is not a std::exception: no script catch clause sees it *)

(* everything other than normal completion and exhaustion of the model's fuel *)
Inductive fail :=
| FRet (d : dloc)        (* detail::Return_Value *)
| FBreak                 (* detail::Break_Loop *)
| FCont                  (* detail::Continue_Loop *)
| FThrow (e : exn)
| FUnsup (what : string).  (* outside the modelled subset *)

Inductive res (A : Type) :=
| RVal (a : A)
| RFail (f : fail)
| RFuel.
Arguments RVal {A}. Arguments RFail {A}. Arguments RFuel {A}.

Definition M (A : Type) := state -> res A * state.

(* ---------------------------------------------------------------- state plumbing *)
Fixpoint replace_nth {A} (n : nat) (l : list A) (x : A) : list A :=
  match l, n with
  | [], _ => []
  | _ :: t, O => x :: t
  | h :: t, S k => h :: replace_nth k t x
  end.

Definition set_objs (s : state) v := mkstate v (s_data s) (s_stacks s) (s_globals s) (s_funcs s) (s_out s) (s_call_depth s) (s_call_params s) (s_hints s) (s_cb s) (s_evals s) (s_consts s).
Definition set_data (s : state) v := mkstate (s_objs s) v (s_stacks s) (s_globals s) (s_funcs s) (s_out s) (s_call_depth s) (s_call_params s) (s_hints s) (s_cb s) (s_evals s) (s_consts s).
Definition set_stacks (s : state) v := mkstate (s_objs s) (s_data s) v (s_globals s) (s_funcs s) (s_out s) (s_call_depth s) (s_call_params s) (s_hints s) (s_cb s) (s_evals s) (s_consts s).
Definition set_globals (s : state) v := mkstate (s_objs s) (s_data s) (s_stacks s) v (s_funcs s) (s_out s) (s_call_depth s) (s_call_params s) (s_hints s) (s_cb s) (s_evals s) (s_consts s).
Definition set_funcs (s : state) v := mkstate (s_objs s) (s_data s) (s_stacks s) (s_globals s) v (s_out s) (s_call_depth s) (s_call_params s) (s_hints s) (s_cb s) (s_evals s) (s_consts s).
Definition set_out (s : state) v := mkstate (s_objs s) (s_data s) (s_stacks s) (s_globals s) (s_funcs s) v (s_call_depth s) (s_call_params s) (s_hints s) (s_cb s) (s_evals s) (s_consts s).
Definition set_call_depth (s : state) v := mkstate (s_objs s) (s_data s) (s_stacks s) (s_globals s) (s_funcs s) (s_out s) v (s_call_params s) (s_hints s) (s_cb s) (s_evals s) (s_consts s).
Definition set_call_params (s : state) v := mkstate (s_objs s) (s_data s) (s_stacks s) (s_globals s) (s_funcs s) (s_out s) (s_call_depth s) v (s_hints s) (s_cb s) (s_evals s) (s_consts s).
Definition set_hints (s : state) v := mkstate (s_objs s) (s_data s) (s_stacks s) (s_globals s) (s_funcs s) (s_out s) (s_call_depth s) (s_call_params s) v (s_cb s) (s_evals s) (s_consts s).
Definition set_cb (s : state) v := mkstate (s_objs s) (s_data s) (s_stacks s) (s_globals s) (s_funcs s) (s_out s) (s_call_depth s) (s_call_params s) (s_hints s) v (s_evals s) (s_consts s).
Definition set_evals (s : state) v := mkstate (s_objs s) (s_data s) (s_stacks s) (s_globals s) (s_funcs s) (s_out s) (s_call_depth s) (s_call_params s) (s_hints s) (s_cb s) v (s_consts s).
Definition set_consts (s : state) v := mkstate (s_objs s) (s_data s) (s_stacks s) (s_globals s) (s_funcs s) (s_out s) (s_call_depth s) (s_call_params s) (s_hints s) (s_cb s) (s_evals s) v.

(* every eval() call parses its text anew: the nodes (and their lookup hints) are fresh each time.
   The pre-parsed tree is therefore relabelled with line numbers unique to this call. *)
Fixpoint shift_lines (fuel : nat) (off : Z) (a : ast) : ast :=
  match fuel with
  | O => a
  | S f => let 'Node k cls text l c ch := a in
           Node k cls text (mkloc (l_line l + off) (l_col l) (l_eline l + off) (l_ecol l)) c (map (shift_lines f off) ch)
  end.

Definition assoc {A} (l : list (string * A)) (k : string) : option A :=
  match find (fun e => String.eqb (fst e) k) l with Some (_, v) => Some v | None => None end.

Fixpoint scope_find (sc : scope) (name : string) (i : nat) : option (nat * dloc) :=   (* (slot, value) *)
  match sc with
  | [] => None
  | (n, d) :: r => if String.eqb n name then Some (i, d) else scope_find r name (S i)
  end.

(* by-name lookup through the scopes of the current frame, innermost first: (distance, slot, value) *)
Fixpoint frame_find (f : frame) (name : string) (dist : nat) : option (nat * nat * dloc) :=
  match f with
  | [] => None
  | sc :: r => match scope_find sc name 0 with
               | Some (i, d) => Some (dist, i, d)
               | None => frame_find r name (S dist)
               end
  end.

(* RAII brackets *)
Definition push_scope (s : state) : state :=
  match s_stacks s with f :: r => set_stacks s ((([] : scope) :: f) :: r) | [] => s end.
Definition pop_scope (s : state) : state :=
  match s_stacks s with (_ :: f) :: r => set_stacks s (f :: r) | _ => s end.
Definition push_frame (s : state) : state := set_stacks s ([[]] :: s_stacks s).
Definition pop_frame (s : state) : state := match s_stacks s with _ :: r => set_stacks s r | [] => s end.
(* Function_Push_Pop: new_function_call / pop_function_call *)
Definition enter_call (s : state) : state := set_call_depth s (S (s_call_depth s)).
Definition leave_call (s : state) : state :=
  let d := pred (s_call_depth s) in
  let s1 := set_call_depth s d in
  if Nat.eqb d 0 then
    match s_call_params s1 with _ :: r => set_call_params s1 ([] :: r) | [] => s1 end
  else s1.

(* ---------------------------------------------------------------- primitive effects *)
(* Heap access goes through operations that cannot break the constness discipline:
   a write reaches an object only through a non-const Boxed_Value (PWrite), and every new
   Boxed_Value that aliases an existing object inherits that object's constness (PAlias, PAssign). *)
Inductive prim : Type -> Type :=
| PNewValue (o : obj) (is_const is_ret : bool) : prim dloc   (* fresh Boxed_Value owning a fresh object *)
| PNewUndef : prim dloc                                       (* Boxed_Value() *)
| PGetData (d : dloc) : prim data                             (* flags (and object pointer) of a Boxed_Value *)
| PObjOf (d : dloc) : prim (option obj)                       (* the object it holds; None when undefined *)
| PAlias (d : dloc) (is_ret : bool) : prim dloc               (* a new Boxed_Value referring to d's object (Handle_Return<T&>): constness is inherited *)
| PAssign (lhs rhs : dloc) : prim unit                        (* Boxed_Value::assign: *lhs.m_data = *rhs.m_data *)
| PResetRet (d : dloc) : prim unit                            (* reset_return_value *)
| PWrite (d : dloc) (x : obj) : prim bool                     (* overwrite d's object in place; false (and no effect) when d is const or undefined *)
| PRebindFun (lhs rhs : dloc) : prim unit                     (* ptr_assign<Proxy_Function_Base>: lhs becomes a non-const handle on rhs's (immutable) function *)
| PAddObject (name : string) (d : dloc) : prim bool                 (* false: the name exists in the innermost scope *)
| PFindLocal (name : string) : prim (option (nat * nat * dloc))     (* by name: (scope distance, slot, value) *)
| PSlot (dist slot : nat) : prim (option dloc)                      (* stack[size-1-dist].at_index(slot) *)
| PThisCandidate : prim (option dloc)                               (* value of the newest entry of the innermost scope if it is named __this *)
| PGetHint (key : string) : prim (option N)
| PSetHint (key : string) (h : N) : prim unit
| PGetGlobal (name : string) : prim (option dloc)
| PAddGlobal (name : string) (d : dloc) : prim dloc                 (* add_global_no_throw: the existing global of that name, else d is entered and returned *)
| PGetFuncs (name : string) : prim (option (list closure))
| PSetFuncs (name : string) (l : list closure) : prim unit
| POut (text : string) : prim unit
| PTick : prim (option string)                                      (* one more invocation of the harness callback; Some kind = it throws *)
| PEvalTree (text : string) : prim (option ast)                     (* the tree the parser builds for this text, with fresh nodes *)
| PGetConst (key : string) : prim (option dloc)                     (* the Boxed_Value a Constant node owns, once created *)
| PSetConst (key : string) (d : dloc) : prim unit
| PSaveParams (ps : list dloc) : prim unit.

Definition run_prim {A} (p : prim A) : M A :=
  match p in prim T return M T with
  | PNewValue o is_const is_ret =>
      fun s => (RVal (DL (List.length (s_data s))),
                set_data (set_objs s (app (s_objs s) [o])) (app (s_data s) [mkdata (Some (OL (List.length (s_objs s)))) is_const is_ret]))
  | PNewUndef => fun s => (RVal (DL (List.length (s_data s))), set_data s (app (s_data s) [mkdata None false false]))
  | PGetData d => fun s => match nth_error (s_data s) (dl d) with Some x => (RVal x, s) | None => (RFail (FUnsup "dangling data"), s) end
  | PObjOf d =>
      fun s => match nth_error (s_data s) (dl d) with
               | None => (RFail (FUnsup "dangling data"), s)
               | Some x => match d_obj x with
                           | None => (RVal None, s)
                           | Some l => match nth_error (s_objs s) (ol l) with
                                       | Some o => (RVal (Some o), s)
                                       | None => (RFail (FUnsup "dangling object"), s)
                                       end
                           end
               end
  | PAlias d is_ret =>
      fun s => match nth_error (s_data s) (dl d) with
               | None => (RFail (FUnsup "dangling data"), s)
               | Some x => (RVal (DL (List.length (s_data s))), set_data s (app (s_data s) [mkdata (d_obj x) (d_const x) is_ret]))
               end
  | PAssign lhs rhs =>
      fun s => match nth_error (s_data s) (dl rhs) with
               | None => (RFail (FUnsup "dangling data"), s)
               | Some x => (RVal tt, set_data s (replace_nth (dl lhs) (s_data s) x))
               end
  | PResetRet d =>
      fun s => match nth_error (s_data s) (dl d) with
               | None => (RFail (FUnsup "dangling data"), s)
               | Some x => (RVal tt, set_data s (replace_nth (dl d) (s_data s) (mkdata (d_obj x) (d_const x) false)))
               end
  | PWrite d x =>
      fun s => match nth_error (s_data s) (dl d) with
               | None => (RFail (FUnsup "dangling data"), s)
               | Some r => if d_const r then (RVal false, s)
                           else match d_obj r with
                                | Some l => (RVal true, set_objs s (replace_nth (ol l) (s_objs s) x))
                                | None => (RVal false, s)
                                end
               end
  | PRebindFun lhs rhs =>
      fun s => match nth_error (s_data s) (dl rhs) with
               | None => (RFail (FUnsup "dangling data"), s)
               | Some r => match d_obj r with
                           | Some l => match nth_error (s_objs s) (ol l) with
                                       | Some (OFun f) =>
                                           (* the function object is immutable and has no identity in the model: lhs gets its own copy *)
                                           (RVal tt, set_data (set_objs s (app (s_objs s) [OFun f]))
                                                       (replace_nth (dl lhs) (s_data s) (mkdata (Some (OL (List.length (s_objs s)))) false false)))
                                       | _ => (RFail (FUnsup "rebind of a non-function"), s)
                                       end
                           | None => (RFail (FUnsup "rebind of a non-function"), s)
                           end
               end
  | PAddObject name d =>
      fun s => match s_stacks s with
               | (sc :: f) :: r =>
                   match scope_find sc name 0 with
                   | Some _ => (RVal false, s)
                   | None => (RVal true, set_stacks s (((app sc [(name, d)]) :: f) :: r))
                   end
               | _ => (RFail (FUnsup "no scope"), s)
               end
  | PFindLocal name => fun s => (RVal (frame_find (match s_stacks s with f :: _ => f | [] => [] end) name 0), s)
  | PSlot dist slot =>
      fun s => (RVal (match nth_error (match s_stacks s with f :: _ => f | [] => [] end) dist with
                      | Some sc => match nth_error sc slot with Some (_, d) => Some d | None => None end
                      | None => None
                      end), s)
  | PThisCandidate =>
      fun s => (RVal (match s_stacks s with
                      | (sc :: _) :: _ => match last sc ("", DL 0) with (nm, d) => if String.eqb nm "__this" then Some d else None end
                      | _ => None
                      end), s)
  | PGetHint key => fun s => (RVal (assoc (s_hints s) key), s)
  | PSetHint key h => fun s => (RVal tt, set_hints s ((key, h) :: s_hints s))
  | PGetGlobal name => fun s => (RVal (assoc (s_globals s) name), s)
  | PAddGlobal name d => fun s => match assoc (s_globals s) name with
                                  | Some g => (RVal g, s)
                                  | None => (RVal d, set_globals s (app (s_globals s) [(name, d)]))
                                  end
  | PGetFuncs name => fun s => (RVal (assoc (s_funcs s) name), s)
  | PSetFuncs name l =>
      fun s => (RVal tt, set_funcs s (match assoc (s_funcs s) name with
                                      | None => app (s_funcs s) [(name, l)]
                                      | Some _ => map (fun e => if String.eqb (fst e) name then (name, l) else e) (s_funcs s)
                                      end))
  | POut text => fun s => (RVal tt, set_out s (s_out s ++ text))
  | PTick => fun s => let '(cnt, fault) := s_cb s in
                      let cnt' := S cnt in
                      (RVal (match fault with Some (n, kd) => if Nat.eqb n cnt' then Some kd else None | None => None end), set_cb s (cnt', fault))
  | PEvalTree text =>
      fun s => let '(tbl, cnt) := s_evals s in
               (RVal (match assoc tbl text with
                      | Some t => Some (shift_lines 4096 (Z.of_nat (S cnt) * 100000)%Z t)
                      | None => None
                      end), set_evals s (tbl, S cnt))
  | PGetConst key => fun s => (RVal (assoc (s_consts s) key), s)
  | PSetConst key d => fun s => (RVal tt, set_consts s ((key, d) :: s_consts s))
  | PSaveParams ps => fun s => (RVal tt, match s_call_params s with p :: r => set_call_params s ((app ps p) :: r) | [] => s end)
  end.

(* ---------------------------------------------------------------- programs *)
Inductive prog : Type -> Type :=
| Ret : forall {A}, A -> prog A
| Fail : forall {A}, fail -> prog A
| Prim : forall {A}, prim A -> prog A
| Handle : forall {A B}, prog A -> (A + fail -> prog B) -> prog B   (* run, then continue on either outcome *)
| Scoped : forall {A}, prog A -> prog A      (* Scope_Push_Pop *)
| Framed : forall {A}, prog A -> prog A      (* Stack_Push_Pop *)
| InCall : forall {A}, prog A -> prog A      (* Function_Push_Pop *)
| Ev : ast -> prog dloc                      (* evaluate a sub-term *)
| Loop : prog bool -> prog unit.             (* repeat while the body answers true *)

Definition Bind {A B} (p : prog A) (f : A -> prog B) : prog B :=
  Handle p (fun r => match r with inl a => f a | inr e => Fail e end).
Notation "x <- m ;; f" := (Bind m (fun x => f)) (at level 61, m at next level, right associativity).
Notation "m ;;; f" := (Bind m (fun _ => f)) (at level 61, right associativity).

Definition bracket {A} (enter leave : state -> state) (m : M A) : M A :=
  fun s => let '(r, s') := m (enter s) in (r, leave s').

Fixpoint loop_run (k : nat) (body : M bool) : M unit :=
  match k with
  | O => fun s => (RFuel, s)
  | S k' => fun s => match body s with
                     | (RVal true, s') => loop_run k' body s'
                     | (RVal false, s') => (RVal tt, s')
                     | (RFail f, s') => (RFail f, s')
                     | (RFuel, s') => (RFuel, s')
                     end
  end.

(* `ev`: the evaluator for sub-terms; `k`: the bound on loop iterations (both come from the fuel) *)
Fixpoint run (ev : ast -> M dloc) (k : nat) {A} (p : prog A) : M A :=
  match p in prog T return M T with
  | Ret a => fun s => (RVal a, s)
  | Fail f => fun s => (RFail f, s)
  | Prim op => run_prim op
  | Handle p h =>
      fun s => match run ev k p s with
               | (RVal a, s') => run ev k (h (inl a)) s'
               | (RFail f, s') => run ev k (h (inr f)) s'
               | (RFuel, s') => (RFuel, s')
               end
  | Scoped p => bracket push_scope pop_scope (run ev k p)
  | Framed p => bracket push_frame pop_frame (run ev k p)
  | InCall p => bracket enter_call leave_call (run ev k p)
  | Ev n => ev n
  | Loop body => loop_run k (run ev k body)
  end.

(* ---------------------------------------------------------------- derived operations *)
Definition throw {A} (e : exn) : prog A := Fail (FThrow e).
Definition eval_error {A} (reason : string) : prog A := throw (EEval reason []).
Definition unsup {A} (w : string) : prog A := Fail (FUnsup w).

(* DERIVED-OPS *)
Definition new_value (o : obj) (is_const is_ret : bool) : prog dloc := Prim (PNewValue o is_const is_ret).
Definition new_undef : prog dloc := Prim PNewUndef.
Definition void_var : prog dloc := new_value OVoid false false.   (* void_var() is a shared static; only its identity differs *)

(* the object a Boxed_Value holds; None for an undefined value *)
Definition obj_of (d : dloc) : prog (option obj) := Prim (PObjOf d).
Definition reset_ret (d : dloc) : prog unit := Prim (PResetRet d).
Definition assign_data (lhs rhs : dloc) : prog unit := Prim (PAssign lhs rhs).

(* add_object: a name conflict in the innermost scope is an error *)
Definition add_object (name : string) (d : dloc) : prog unit :=
  ok <- Prim (PAddObject name d) ;;
  if ok : bool then Ret tt else throw (EStd "name_conflict_error" name).

(* ---------------------------------------------------------------- builtin names the model knows *)
Definition builtin_names : list string :=
  ["print"; "puts"; "to_string"; "throw"; "size"; "empty"; "push_back"; "front"; "back"; "pop_back"; "clone"; "what"; "cb"; "eval"; "int"; "long"; "double"; "float"; "size_t";
   (* registered arithmetic constructors the model does not evaluate (a call is reported as unsupported, not as an unknown name) *)
   "long_double"; "unsigned_int"; "unsigned_long"; "long_long"; "unsigned_long_long"; "char"; "wchar_t"; "char16_t"; "char32_t";
   "int8_t"; "int16_t"; "int32_t"; "int64_t"; "uint8_t"; "uint16_t"; "uint32_t"; "uint64_t"].

(* names the real engine registers (bootstrap, prelude, standard library) that the model does not implement: a program using one is
   outside the modelled subset, not a program with an unknown identifier *)
Definition unmodelled_names : list string :=
  ["Dynamic_Object"; "bind"; "for_each"; "map"; "filter"; "foldl"; "reduce"; "sum"; "product"; "zip"; "zip_with"; "take"; "drop"; "take_while"; "drop_while";
   "concat"; "join"; "reverse"; "retro"; "range"; "generate_range"; "collate"; "min"; "max"; "even"; "odd"; "any_of"; "all_of"; "contains"; "find";
   "Vector"; "Map"; "Pair"; "string"; "bool"; "Function"; "type_name"; "type_match"; "is_type"; "call_exists"; "function_exists"; "get_functions";
   "get_objects"; "from_json"; "to_json"; "parse"; "use"; "eval_file"; "dump_system"; "dump_object"; "is_var_undef"; "is_var_null"; "is_var_const";
   "is_var_reference"; "is_var_pointer"; "is_var_return_value"; "reset_var_return_value"; "class_name"; "get_type_info"; "get_attr"; "get_attrs";
   "has_attr"; "set_explicit"; "is_explicit"; "get_type_name"; "method_missing"; "insert_at"; "erase_at"; "push_front"; "pop_front"; "clear"; "at";
   "first"; "second"; "count"; "substr"; "c_str"; "data"; "rfind"; "find_first_of"; "find_last_of"; "find_first_not_of"; "find_last_not_of";
   "ltrim"; "rtrim"; "trim"; "to_int"; "to_double"; "to_float"; "to_char"; "to_long"; "to_unsigned_int"; "to_size_t"; "internal_to_string";
   "async"; "future"; "runtime_error"; "out_of_range"; "logic_error"; "exception"; "eval_error"; "arithmetic_error"; "assert_true"; "assert_false";
   "assert_equal"; "assert_not_equal"; "exit"; "set_print_handler"; "call"; "get_arity"; "get_annotation"; "get_contained_functions"; "has_guard";
   "get_guard"; "has_parse_tree"; "get_parse_tree"; "clone"; "swap"; "resize"; "reserve"; "capacity"; "max_size"; "assign"].

(* ---------------------------------------------------------------- Id lookup (Dispatch_Engine::get_object) *)
Definition hint_key (n : ast) : string :=
  dec_of_z (l_line (a_loc n)) ++ ":" ++ dec_of_z (l_col (a_loc n)) ++ ":" ++ a_text n.

(* hint encoding: located = 2^31, is_local = 2^30, distance in bits 16..27, slot in bits 0..15 *)
Definition hint_local (dist slot : nat) : N :=
  (2147483648 + 1073741824 + N.of_nat dist * 65536 + N.of_nat slot)%N.
Definition hint_nonlocal : N := 2147483648%N.
Definition hint_is_local (h : N) : bool := N.testbit h 30.
Definition hint_dist (h : N) : nat := N.to_nat (N.modulo (N.div h 65536) 4096).
Definition hint_slot (h : N) : nat := N.to_nat (N.modulo h 65536).

Definition lookup_nonlocal (name : string) : prog dloc :=
  g <- Prim (PGetGlobal name) ;;
  match g with
  | Some d => Ret d
  | None =>
      fs <- Prim (PGetFuncs name) ;;
      match fs with
      | Some _ => new_value (OFun (FNamed name)) true false
      | None => if existsb (String.eqb name) builtin_names then new_value (OFun (FNamed name)) true false
                else if existsb (String.eqb name) unmodelled_names then unsup ("engine function " ++ name)
                else eval_error ("Can not find object: " ++ name)
      end
  end.

Definition lookup_by_name (c : cfg) (n : ast) : prog dloc :=
  let name := a_text n in
  r <- Prim (PFindLocal name) ;;
  match r with
  | Some (dist, slot, d) =>
      (* the position is remembered only when it fits the hint's fields (12 bits of distance, 16 bits of slot) *)
      (if use_hints c && Nat.leb dist 4095 && Nat.leb slot 65535 then Prim (PSetHint (hint_key n) (hint_local dist slot)) else Ret tt) ;;; Ret d
  | None =>
      (if use_hints c then Prim (PSetHint (hint_key n) hint_nonlocal) else Ret tt) ;;; lookup_nonlocal name
  end.

Definition lookup_id (c : cfg) (n : ast) : prog dloc :=
  if use_hints c then
    h <- Prim (PGetHint (hint_key n)) ;;
    match h with
    | None => lookup_by_name c n
    | Some h =>
        if hint_is_local h then
          (* stack[size-1-d].at_index(i): unchecked in the implementation; out of range is undefined behaviour *)
          r <- Prim (PSlot (hint_dist h) (hint_slot h)) ;;
          match r with
          | Some d => Ret d
          | None => unsup "UB:hint slot out of range"
          end
        else lookup_nonlocal (a_text n)
    end
  else lookup_by_name c n.

(* ---------------------------------------------------------------- small helpers over values *)
Definition is_arith (o : option obj) : bool := match o with Some (ONum _ _ _) => true | _ => false end.

Definition get_bool (d : dloc) : prog bool :=
  o <- obj_of d ;;
  match o with
  | Some (OBool b) => Ret b
  | _ => eval_error "Condition not boolean"
  end.

Definition type_name_of (o : option obj) : string :=
  match o with
  | None => "undef"
  | Some (ONum tn _ _) => tn
  | Some (OBool _) => "bool"
  | Some (OStr _) => "string"
  | Some (OVec _) => "Vector"
  | Some (OMap _) => "Map"
  | Some (OFun _) => "Function"
  | Some OVoid => "void"
  | Some (OExc st _ _) => st
  | Some (ODyn c _) => c
  end.

(* clone_if_necessary *)
Definition clone_obj (o : obj) : prog dloc :=
  match o with
  | ONum _ _ _ | OBool _ | OStr _ => new_value o false false
  | OVec _ | OMap _ => new_value o false true     (* copy constructor through dispatch: a returned value; elements stay shared Boxed_Values *)
  | OFun _ => new_value o false true              (* clone of a function shares the (immutable) function object *)
  | _ => unsup "clone of this kind of value"
  end.
Definition clone_if_necessary (d : dloc) : prog dloc :=
  x <- Prim (PGetData d) ;;
  if d_ret x then reset_ret d ;;; Ret d
  else
    o <- obj_of d ;;
    match o with
    | Some ob => c <- clone_obj ob ;; reset_ret c ;;; Ret c
    | None => unsup "clone of undefined value"
    end.

(* result type names after arithmetic: width/sign class -> a canonical C++ name *)
Definition tyname_of_nty (t : nty) : string :=
  match t with
  | TI 8 true => "int8" | TI 8 false => "uint8" | TI 16 true => "int16" | TI 16 false => "uint16"
  | TI 32 true => "int" | TI 32 false => "uint" | TI 64 true => "long" | TI 64 false => "ulong"
  | TF F32 => "float" | TF F64 => "double" | TF F80 => "ldouble" | _ => "?"
  end.

Definition z_of_index (o : option obj) : option Z :=
  match o with Some (ONum _ (TI _ _) (VI z)) => Some z | _ => None end.

Fixpoint string_lt (a b : string) : bool :=
  match a, b with
  | _, EmptyString => false
  | EmptyString, _ => true
  | String x a', String y b' =>
      if (N_of_ascii x <? N_of_ascii y)%N then true
      else if (N_of_ascii y <? N_of_ascii x)%N then false
      else string_lt a' b'
  end.
