(* Evaluator model: a fuel-indexed big-step interpreter for the core language over the dumped syntax tree.
   It mirrors chaiscript_eval.hpp node by node for the constructs it supports and answers
   RUnsup for the others (the generators stay inside the supported subset).

   Store: two append-only heaps, as in the implementation —
     objects  (what a shared_ptr<T> inside Boxed_Value::Data points at), and
     data     (Boxed_Value::Data: object pointer + const flag + return-value flag);
   a Boxed_Value is the index of a data record. `assign` copies a data record (aliasing the object),
   `clone` allocates a new object.

   Mechanism switches (record cfg): whether arithmetic uses the regenerated tables, whether Id lookups
   use the per-node hint cache. *)
From Coq Require Import ZArith NArith List Bool String Ascii Floats.SpecFloat.
From ChaiV Require Import StrUtil NumDefs NumSpecRun Ast.
Import ListNotations.
Local Open Scope string_scope.

(* ---------------------------------------------------------------- values *)
Record closure := mkclosure {
  cl_name : string;
  cl_params : list string;
  cl_ptypes : list string;          (* declared parameter type names, "" when untyped *)
  cl_body : ast;
  cl_guard : option ast;
  cl_caps : list (string * nat);    (* captured Boxed_Values, sorted by name (std::map) *)
  cl_this_capture : bool }.

Inductive fnobj :=
| FClosure (c : closure)
| FNamed (name : string).           (* "all overloads of name": what evaluating a function's name yields *)

Inductive obj :=
| ONum (tyname : string) (t : nty) (v : nval)
| OBool (b : bool)
| OStr (s : string)
| OVec (elems : list nat)
| OMap (elems : list (string * nat))
| OFun (f : fnobj)
| OVoid
| OExc (static_ty : string) (dyn_ty : string) (what : string)   (* a C++ exception object as seen by catch *)
| ODyn (cls : string) (attrs : list (string * nat)).

Record data := mkdata { d_obj : option nat; d_const : bool; d_ret : bool }.

Definition scope := list (string * nat).          (* insertion ordered: QuickFlatMap *)
Definition frame := list scope.                   (* innermost scope first *)

Record cfg := mkcfg { use_hints : bool }.

Record state := mkstate {
  s_objs : list obj;
  s_data : list data;
  s_stacks : list frame;                          (* innermost call frame first *)
  s_globals : list (string * nat);
  s_funcs : list (string * list closure);         (* overloads in dispatch order *)
  s_out : string;
  s_call_depth : nat;
  s_call_params : list (list nat);
  s_hints : list (string * N) }.                  (* Id-node hint cache, keyed by node position+text *)

Definition init_state : state :=
  mkstate [] [] [[[]]] [] [] "" 0 [[]] [].

(* ---------------------------------------------------------------- outcomes *)
Inductive trace_entry := TE (k : kind) (l : srcloc).
Inductive exn :=
| EBoxed (d : nat)                                   (* throw(x): the Boxed_Value itself *)
| EEval (reason : string) (stack : list trace_entry) (* chaiscript::exception::eval_error *)
| EStd (ty : string) (what : string).                (* arithmetic_error, out_of_range, range_error, bad_boxed_cast … *)

Inductive res (A : Type) :=
| RVal (a : A)
| RRet (d : nat)
| RBreak
| RCont
| RThrow (e : exn)
| RFuel
| RUnsup (what : string).
Arguments RVal {A}. Arguments RRet {A}. Arguments RBreak {A}. Arguments RCont {A}.
Arguments RThrow {A}. Arguments RFuel {A}. Arguments RUnsup {A}.

Definition M (A : Type) := state -> res A * state.
Definition ret {A} (a : A) : M A := fun s => (RVal a, s).
Definition bind {A B} (m : M A) (f : A -> M B) : M B :=
  fun s => match m s with
           | (RVal a, s') => f a s'
           | (RRet d, s') => (RRet d, s')
           | (RBreak, s') => (RBreak, s')
           | (RCont, s') => (RCont, s')
           | (RThrow e, s') => (RThrow e, s')
           | (RFuel, s') => (RFuel, s')
           | (RUnsup w, s') => (RUnsup w, s')
           end.
Notation "x <- m ;; f" := (bind m (fun x => f)) (at level 61, m at next level, right associativity).
Notation "m ;;; f" := (bind m (fun _ => f)) (at level 61, right associativity).

Definition throw {A} (e : exn) : M A := fun s => (RThrow e, s).
Definition eval_error {A} (reason : string) : M A := throw (EEval reason []).
Definition unsup {A} (w : string) : M A := fun s => (RUnsup w, s).
Definition get_state : M state := fun s => (RVal s, s).
Definition put_state (s' : state) : M unit := fun _ => (RVal tt, s').
Definition modify (f : state -> state) : M unit := fun s => (RVal tt, f s).

(* run m, then always run the clean-up (RAII destructor), whatever the outcome *)
Definition bracket {A} (enter : state -> state) (leave : state -> state) (m : M A) : M A :=
  fun s => let '(r, s') := m (enter s) in (r, leave s').

(* ---------------------------------------------------------------- heap primitives *)
Fixpoint replace_nth {A} (n : nat) (l : list A) (x : A) : list A :=
  match l, n with
  | [], _ => []
  | _ :: t, O => x :: t
  | h :: t, S k => h :: replace_nth k t x
  end.

Definition set_objs (s : state) v := mkstate v (s_data s) (s_stacks s) (s_globals s) (s_funcs s) (s_out s) (s_call_depth s) (s_call_params s) (s_hints s).
Definition set_data (s : state) v := mkstate (s_objs s) v (s_stacks s) (s_globals s) (s_funcs s) (s_out s) (s_call_depth s) (s_call_params s) (s_hints s).
Definition set_stacks (s : state) v := mkstate (s_objs s) (s_data s) v (s_globals s) (s_funcs s) (s_out s) (s_call_depth s) (s_call_params s) (s_hints s).
Definition set_globals (s : state) v := mkstate (s_objs s) (s_data s) (s_stacks s) v (s_funcs s) (s_out s) (s_call_depth s) (s_call_params s) (s_hints s).
Definition set_funcs (s : state) v := mkstate (s_objs s) (s_data s) (s_stacks s) (s_globals s) v (s_out s) (s_call_depth s) (s_call_params s) (s_hints s).
Definition set_out (s : state) v := mkstate (s_objs s) (s_data s) (s_stacks s) (s_globals s) (s_funcs s) v (s_call_depth s) (s_call_params s) (s_hints s).
Definition set_call_depth (s : state) v := mkstate (s_objs s) (s_data s) (s_stacks s) (s_globals s) (s_funcs s) (s_out s) v (s_call_params s) (s_hints s).
Definition set_call_params (s : state) v := mkstate (s_objs s) (s_data s) (s_stacks s) (s_globals s) (s_funcs s) (s_out s) (s_call_depth s) v (s_hints s).
Definition set_hints (s : state) v := mkstate (s_objs s) (s_data s) (s_stacks s) (s_globals s) (s_funcs s) (s_out s) (s_call_depth s) (s_call_params s) v.

Definition alloc_obj (o : obj) : M nat :=
  fun s => (RVal (List.length (s_objs s)), set_objs s (app (s_objs s) [o])).
Definition alloc_data (d : data) : M nat :=
  fun s => (RVal (List.length (s_data s)), set_data s (app (s_data s) [d])).
(* a fresh Boxed_Value owning a fresh object *)
Definition new_value (o : obj) (is_const is_ret : bool) : M nat :=
  ol <- alloc_obj o ;; alloc_data (mkdata (Some ol) is_const is_ret).
Definition new_undef : M nat := alloc_data (mkdata None false false).

Definition get_data (d : nat) : M data :=
  fun s => match nth_error (s_data s) d with Some x => (RVal x, s) | None => (RUnsup "dangling data", s) end.
Definition set_data_at (d : nat) (x : data) : M unit :=
  modify (fun s => set_data s (replace_nth d (s_data s) x)).
Definition get_obj_at (o : nat) : M obj :=
  fun s => match nth_error (s_objs s) o with Some x => (RVal x, s) | None => (RUnsup "dangling object", s) end.
Definition set_obj_at (o : nat) (x : obj) : M unit :=
  modify (fun s => set_objs s (replace_nth o (s_objs s) x)).

(* the object a Boxed_Value holds; None for an undefined value *)
Definition obj_of (d : nat) : M (option obj) :=
  x <- get_data d ;;
  match d_obj x with
  | None => ret None
  | Some ol => o <- get_obj_at ol ;; ret (Some o)
  end.

Definition reset_ret (d : nat) : M unit :=
  x <- get_data d ;; set_data_at d (mkdata (d_obj x) (d_const x) false).
(* Boxed_Value::assign: *m_data = *rhs.m_data *)
Definition assign_data (lhs rhs : nat) : M unit :=
  x <- get_data rhs ;; set_data_at lhs x.

Definition void_var : M nat := new_value OVoid false false.   (* void_var() is a shared static; only its identity differs *)

(* ---------------------------------------------------------------- scopes and frames (RAII brackets) *)
Definition push_scope (s : state) : state :=
  match s_stacks s with f :: r => set_stacks s ((([] : scope) :: f) :: r) | [] => s end.
Definition pop_scope (s : state) : state :=
  match s_stacks s with (_ :: f) :: r => set_stacks s (f :: r) | _ => s end.
Definition push_frame (s : state) : state := set_stacks s ([[]] :: s_stacks s).
Definition pop_frame (s : state) : state := match s_stacks s with _ :: r => set_stacks s r | [] => s end.

Definition with_scope {A} (m : M A) : M A := bracket push_scope pop_scope m.
Definition with_frame {A} (m : M A) : M A := bracket push_frame pop_frame m.

(* Function_Push_Pop: new_function_call / pop_function_call *)
Definition enter_call (s : state) : state := set_call_depth s (S (s_call_depth s)).
Definition leave_call (s : state) : state :=
  let d := pred (s_call_depth s) in
  let s1 := set_call_depth s d in
  if Nat.eqb d 0 then
    match s_call_params s1 with _ :: r => set_call_params s1 ([] :: r) | [] => s1 end
  else s1.
Definition with_call {A} (m : M A) : M A := bracket enter_call leave_call m.
Definition save_params (ps : list nat) : M unit :=
  modify (fun s => match s_call_params s with p :: r => set_call_params s ((app ps p) :: r) | [] => s end).

Fixpoint scope_find (sc : scope) (name : string) (i : nat) : option (nat * nat) :=   (* (slot, value) *)
  match sc with
  | [] => None
  | (n, d) :: r => if String.eqb n name then Some (i, d) else scope_find r name (S i)
  end.

(* add_object: insert into the innermost scope of the current frame; a name conflict is an error *)
Definition add_object (name : string) (d : nat) : M unit :=
  s <- get_state ;;
  match s_stacks s with
  | (sc :: f) :: r =>
      match scope_find sc name 0 with
      | Some _ => throw (EStd "name_conflict_error" name)
      | None => put_state (set_stacks s (((app sc [(name, d)]) :: f) :: r))
      end
  | _ => unsup "no scope"
  end.

(* by-name lookup through the scopes of the current frame, innermost first: (distance, slot, value) *)
Fixpoint frame_find (f : frame) (name : string) (dist : nat) : option (nat * nat * nat) :=
  match f with
  | [] => None
  | sc :: r => match scope_find sc name 0 with
               | Some (i, d) => Some (dist, i, d)
               | None => frame_find r name (S dist)
               end
  end.

Definition assoc {A} (l : list (string * A)) (k : string) : option A :=
  match find (fun e => String.eqb (fst e) k) l with Some (_, v) => Some v | None => None end.

(* ---------------------------------------------------------------- builtin names the model knows *)
Definition builtin_names : list string :=
  ["print"; "puts"; "to_string"; "throw"; "size"; "empty"; "push_back"; "front"; "back"; "pop_back"; "clone"; "what"].

(* ---------------------------------------------------------------- Id lookup (Dispatch_Engine::get_object) *)
Definition hint_key (n : ast) : string :=
  dec_of_z (l_line (a_loc n)) ++ ":" ++ dec_of_z (l_col (a_loc n)) ++ ":" ++ a_text n.

(* hint encoding: located = 2^31, is_local = 2^30, distance in bits 16..27, slot in bits 0..15 *)
Definition hint_local (dist slot : nat) : N :=
  (2147483648 + 1073741824 + N.of_nat dist * 65536 + N.of_nat slot)%N.
Definition hint_nonlocal : N := 2147483648%N.
Definition hint_is_local (h : N) : bool := N.testbit h 30.
Definition hint_dist (h : N) : nat := N.to_nat (N.modulo (N.div h 65536) 4096).
Definition hint_slot (h : N) : nat := N.to_nat (N.modulo h 65536).

Definition lookup_nonlocal (name : string) : M nat :=
  s <- get_state ;;
  match assoc (s_globals s) name with
  | Some d => ret d
  | None =>
      match assoc (s_funcs s) name with
      | Some _ => new_value (OFun (FNamed name)) true false
      | None => if existsb (String.eqb name) builtin_names then new_value (OFun (FNamed name)) true false
                else eval_error ("Can not find object: " ++ name)
      end
  end.

Definition lookup_id (c : cfg) (n : ast) : M nat :=
  let name := a_text n in
  s <- get_state ;;
  let cur := match s_stacks s with f :: _ => f | [] => [] end in
  let by_name :=
    match frame_find cur name 0 with
    | Some (dist, slot, d) =>
        (if use_hints c then modify (fun s => set_hints s ((hint_key n, hint_local dist slot) :: s_hints s)) else ret tt) ;;; ret d
    | None =>
        (if use_hints c then modify (fun s => set_hints s ((hint_key n, hint_nonlocal) :: s_hints s)) else ret tt) ;;; lookup_nonlocal name
    end in
  if use_hints c then
    match assoc (s_hints s) (hint_key n) with
    | None => by_name
    | Some h =>
        if hint_is_local h then
          (* stack[size-1-d].at_index(i): unchecked in the implementation; out of range is undefined behaviour *)
          match nth_error cur (hint_dist h) with
          | Some sc => match nth_error sc (hint_slot h) with
                       | Some (_, d) => ret d
                       | None => unsup "UB:hint slot out of range"
                       end
          | None => unsup "UB:hint scope out of range"
          end
        else lookup_nonlocal name
    end
  else by_name.

(* ---------------------------------------------------------------- small helpers over values *)
Definition is_arith (o : option obj) : bool := match o with Some (ONum _ _ _) => true | _ => false end.

Definition get_bool (d : nat) : M bool :=
  o <- obj_of d ;;
  match o with
  | Some (OBool b) => ret b
  | _ => eval_error "Condition not boolean"
  end.

Definition type_name_of (o : option obj) : string :=
  match o with
  | None => "undef"
  | Some (ONum tn _ _) => tn
  | Some (OBool _) => "bool"
  | Some (OStr _) => "string"
  | Some (OVec _) => "Vector"
  | Some (OMap _) => "Map"
  | Some (OFun _) => "Function"
  | Some OVoid => "void"
  | Some (OExc st _ _) => st
  | Some (ODyn c _) => c
  end.

(* clone_if_necessary *)
Definition clone_obj (o : obj) : M nat :=
  match o with
  | ONum _ _ _ | OBool _ | OStr _ => new_value o false false
  | OVec _ | OMap _ => new_value o false true     (* copy constructor through dispatch: a returned value; elements stay shared Boxed_Values *)
  | OFun _ => new_value o false true              (* clone of a function shares the (immutable) function object *)
  | _ => unsup "clone of this kind of value"
  end.
Definition clone_if_necessary (d : nat) : M nat :=
  x <- get_data d ;;
  if d_ret x then reset_ret d ;;; ret d
  else
    o <- obj_of d ;;
    match o with
    | Some ob => c <- clone_obj ob ;; reset_ret c ;;; ret c
    | None => unsup "clone of undefined value"
    end.

(* result type names after arithmetic: width/sign class -> a canonical C++ name *)
Definition tyname_of_nty (t : nty) : string :=
  match t with
  | TI 8 true => "int8" | TI 8 false => "uint8" | TI 16 true => "int16" | TI 16 false => "uint16"
  | TI 32 true => "int" | TI 32 false => "uint" | TI 64 true => "long" | TI 64 false => "ulong"
  | TF F32 => "float" | TF F64 => "double" | TF F80 => "ldouble" | _ => "?"
  end.

Definition z_of_index (o : option obj) : option Z :=
  match o with Some (ONum _ (TI _ _) (VI z)) => Some z | _ => None end.

Fixpoint string_lt (a b : string) : bool :=
  match a, b with
  | _, EmptyString => false
  | EmptyString, _ => true
  | String x a', String y b' =>
      if (N_of_ascii x <? N_of_ascii y)%N then true
      else if (N_of_ascii y <? N_of_ascii x)%N then false
      else string_lt a' b'
  end.
